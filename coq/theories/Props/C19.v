(** C19 — values compare, hash, cast and round-trip consistently. *)
From Axv Require Import Base.Bytes Model.Values Proofs.BlobProofs Proofs.VarintProofs Proofs.ValuesProofs.
Open Scope N_scope.

Definition wf (v : value) : Prop := value_wf v = true /\ blob_len_ok v.

(** Full-strength statement (what the property text demands of every value). *)
Definition C19_statement : Prop :=
  (forall v, wf v -> v <> VNull -> value_eqb v v = true)
  /\ (forall a b, wf a -> wf b -> value_eqb a b = true -> hash_key a = hash_key b)
  /\ (forall a b za zb, wf a -> wf b -> int_of a = Some za -> int_of b = Some zb ->
        value_cmp a b = Some (za ?= zb)%Z).

(** It is false of the faithful model: NaN, the two zeros, integers above 2^53. *)
Theorem C19_refuted : ~ C19_statement.
Proof.
  intros (Hrefl & _ & _).
  specialize (Hrefl (VDouble nan64)). rewrite refuted_reflexive in Hrefl.
  assert (false = true) as H; [|discriminate H].
  apply Hrefl; [split; [vm_compute; reflexivity|exact I]|discriminate].
Qed.
Check C19_refuted : ~ C19_statement.
Print Assumptions C19_refuted.

Lemma C19_refuted_hash : exists a b, wf a /\ wf b /\ value_eqb a b = true /\ hash_key a <> hash_key b.
Proof.
  exists (VDouble 0), (VDouble (2 ^ 63)). destruct refuted_hash as [A B].
  repeat split; try exact I; try (vm_compute; reflexivity); assumption.
Qed.
Lemma C19_refuted_numeric : exists a b za zb, int_of a = Some za /\ int_of b = Some zb /\ za <> zb
  /\ value_cmp a b = Some Eq.
Proof.
  exists (VBigInt (2 ^ 53)), (VBigInt (2 ^ 53 + 1)), (2 ^ 53)%Z, (2 ^ 53 + 1)%Z.
  destruct refuted_numeric as [A _].
  split; [reflexivity|]. split; [reflexivity|]. split; [lia|exact A].
Qed.

(** Outside the three recorded classes the laws hold, for every value. *)
Definition C19_outside_known_statement : Prop :=
  (* equality is an equivalence (NaN excepted for reflexivity) *)
  (forall v, wf v -> ~ is_nan_value v -> value_eqb v v = true)
  /\ (forall a b, wf a -> wf b -> value_eqb a b = value_eqb b a)
  /\ (forall a b c, wf a -> wf b -> wf c -> value_eqb a b = true -> value_eqb b c = true -> value_eqb a c = true)
  (* equal values feed the hasher the same bytes (the two zeros excepted) *)
  /\ (forall a b, wf a -> wf b -> value_eqb a b = true -> ~ both_zero a b -> hash_key a = hash_key b)
  (* equality is the Eq case of the ordering *)
  /\ (forall a b, a <> VNull -> (value_eqb a b = true <-> value_cmp a b = Some Eq))
  (* integers of any integer types compare by mathematical value up to 2^53 in magnitude *)
  /\ (forall a b za zb, int_of a = Some za -> int_of b = Some zb ->
        (Z.abs za <= 2 ^ 53)%Z -> (Z.abs zb <= 2 ^ 53)%Z -> value_cmp a b = Some (za ?= zb)%Z)
  (* storing then loading returns the value, directly or through a cast to its own type *)
  /\ (forall v bs rest, wf v -> serialize v = Some bs -> deserialize (kind_of v) (bs ++ rest) = Some (v, length bs))
  /\ (forall v, cast v (kind_of v) = Some v).

Theorem C19_outside_known : C19_outside_known_statement.
Proof.
  repeat split.
  - intros v [Hv _]. now apply value_eqb_refl.
  - intros a b [Ha _] [Hb _]. now apply value_eqb_sym.
  - intros a b c [Ha _] [Hb _] [Hc _]. now apply value_eqb_trans.
  - intros a b [Ha _] [Hb _]. now apply eq_implies_hash.
  - now apply eq_iff_cmp.
  - now apply eq_iff_cmp.
  - exact int_cmp_exact.
  - intros v bs rest [Hv Hl]. now apply store_load.
  - exact cast_same_kind.
Qed.
Check C19_outside_known : C19_outside_known_statement.
Print Assumptions C19_outside_known.

(** Text ordering: the chunked comparison is the lexicographic order, a total order consistent
    with equality in which a proper prefix sorts first. *)
Definition C19_blob_order_statement : Prop :=
  (forall l r, bytes_ok l -> bytes_ok r -> blob_cmp l r = lex_cmp l r)
  /\ (forall a b, lex_cmp a b = Eq <-> a = b)
  /\ (forall a b, lex_cmp b a = CompOpp (lex_cmp a b))
  /\ (forall a b c, lex_cmp a b = Lt -> lex_cmp b c = Lt -> lex_cmp a c = Lt)
  /\ (forall a b, b <> [] -> lex_cmp a (a ++ b) = Lt).
Theorem C19_blob_order : C19_blob_order_statement.
Proof.
  repeat split.
  - exact blob_cmp_lex.
  - now apply lex_cmp_eq.
  - now apply lex_cmp_eq.
  - exact lex_cmp_antisym.
  - exact lex_cmp_trans_lt.
  - exact lex_cmp_prefix.
Qed.
Check C19_blob_order : C19_blob_order_statement.
Print Assumptions C19_blob_order.

Definition C19_varint_roundtrip_statement : Prop :=
  forall v rest, (- 2 ^ 63 <= v < 2 ^ 63)%Z ->
    varint_decode (varint_encode v ++ rest) = Some (v, length (varint_encode v))
    /\ (1 <= length (varint_encode v) <= 10)%nat /\ bytes_ok (varint_encode v).
Theorem C19_varint_roundtrip : C19_varint_roundtrip_statement.
Proof. exact varint_roundtrip. Qed.
Check C19_varint_roundtrip : C19_varint_roundtrip_statement.
Print Assumptions C19_varint_roundtrip.

(** Non-vacuity: non-trivial well-formed values outside the classes. *)
Example C19_example_outside :
  wf (VBigInt (- 2 ^ 53)) /\ wf (VBlob [97; 98; 99; 100; 101; 102; 103; 104; 105]) /\ ~ is_nan_value (VDouble (1023 * 2 ^ 52))
  /\ ~ both_zero (VBigInt 5) (VDouble 4617315517961601024).
Proof.
  repeat split; try (vm_compute; reflexivity); try exact I.
  - vm_compute. discriminate.
  - vm_compute. intros [A _]. discriminate.
Qed.
