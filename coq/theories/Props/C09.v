(** C09 — clean close and reopen preserves everything. *)
From Axv Require Import Base.Bytes Model.Values Model.Tuple Gen.GenHeader Model.Header Spec.RefDB
  Proofs.TupleProofs Proofs.AbortProofs Proofs.RefDBProofs Proofs.HeaderProofs.
Open Scope N_scope.

(** Mechanism level: rolled-back data stays invisible after a reopen only if the set of aborted
    transactions survives it.  Full strength: after any history of aborts and clean-ups
    (VACUUM's clear_aborted_up_to), the header read back at open answers "aborted" exactly for the
    ids aborted and not cleaned up since. *)
Definition C09_aborted_set_statement : Prop :=
  forall ops y, is_aborted (reload (fold_left bstep ops empty_bitmap)) y = should_be_aborted ops (fun _ => false) y.

(** False of the faithful model: the bitmap has [max_tracked_aborted_txs] bits and an abort of a
    later transaction is silently not recorded (recorded finding C09-aborted-bitmap-overflow: the
    rolled-back transaction's inserts appear and its deletes take effect after the reopen). *)
Theorem C09_aborted_set_refuted : ~ C09_aborted_set_statement.
Proof.
  intros H. specialize (H [BMark max_tracked_aborted_txs] max_tracked_aborted_txs).
  cbn [fold_left bstep should_be_aborted reload] in H.
  assert (wf_bitmap empty_bitmap) as Hwf by exact empty_wf.
  rewrite (is_aborted_mark _ _ _ Hwf), is_aborted_empty in H. vm_compute in H. discriminate H.
Qed.
Check C09_aborted_set_refuted : ~ C09_aborted_set_statement.
Print Assumptions C09_aborted_set_refuted.

(** Outside that class (every aborted id below the bound, any number of aborts and clean-ups in
    any order) the statement holds, the list handed to the coordinator at open is that same set,
    and a snapshot that lists a transaction as aborted reads none of its inserts and ignores its
    deletes - so what was rolled back before the close is invisible after the open. *)
Definition C09_outside_known_statement : Prop :=
  (forall ops, all_tracked ops ->
     forall y, is_aborted (reload (fold_left bstep ops empty_bitmap)) y = should_be_aborted ops (fun _ => false) y)
  /\ (forall bm t, In t (aborted_list bm) <-> is_aborted bm t = true)
  /\ (forall s tu t, memN t (s_aborted s) = true -> s_xid s <> t ->
        (wf_tuple tu -> t_xmin tu = t -> decode_for tu s = None)
        /\ (t_xmax tu = None -> decode_for (delete tu t) s = decode_for tu s)).
Theorem C09_outside_known : C09_outside_known_statement.
Proof.
  split; [|split].
  - intros ops Hall y. apply (persisted_set_exact ops Hall empty_bitmap (fun _ => false) empty_wf).
    intros z. apply is_aborted_empty.
  - exact aborted_list_spec.
  - intros s tu t Hab Hx.
    assert (committed_before s t = false) as Hc.
    { unfold committed_before. destruct (match s_xmax s with Some m => m <? t | None => false end); [reflexivity|].
      rewrite Hab, orb_true_r. reflexivity. }
    split; [intros Hwf Hm; now apply (aborted_insert_invisible s tu t)|intros Hm; now apply aborted_delete_ignored].
Qed.
Check C09_outside_known : C09_outside_known_statement.
Print Assumptions C09_outside_known.

(** Reference level: flush and close/reopen, wherever placed in a history and however often,
    change neither the state nor any later answer. *)
Definition C09_reference_statement : Prop :=
  forall l1 l2 st, run (l1 ++ AReopen :: l2) st = run (l1 ++ l2) st /\ run (l1 ++ AFlush :: l2) st = run (l1 ++ l2) st.
Theorem C09_reference : C09_reference_statement.
Proof.
  intros l1 l2 st. unfold run. rewrite !fold_left_app. cbn [fold_left step snd]. split; reflexivity.
Qed.
Check C09_reference : C09_reference_statement.
Print Assumptions C09_reference.

(** Non-vacuity: aborts of 3 and 700, clean-up to 100, abort of 8191: the reopened header lists 700 and 8191. *)
Example C09_example :
  let ops := [BMark 3; BMark 700; BClear 100; BMark 8191] in
  all_tracked ops /\ aborted_list (reload (fold_left bstep ops empty_bitmap)) = [700; 8191].
Proof. split; [repeat constructor|vm_compute; reflexivity]. Qed.
