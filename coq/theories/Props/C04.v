(** C04 — transactions read a consistent snapshot; first committer wins. Mechanism level
    (coordinator + snapshot test); the SQL level is compared against the reference database. *)
From Axv Require Import Base.Bytes Model.Values Model.Tuple Model.Coord Proofs.CoordProofs.
Open Scope N_scope.

(** For every history of begin / commit / abort / record_write (no coordinator vacuum), the snapshot
    handed to a beginning transaction answers "committed before me" with exactly the transactions
    that are committed at that instant, and never with its own id or a later one.  A snapshot is
    a value, so the answer cannot change afterwards (repeatable reads). *)
Definition C04_snapshot_sound_statement : Prop :=
  forall ops, no_vacuum ops ->
    let c := fold_left cstep ops init_coord in
    let '(_, id, s) := begin c in
    (forall t, t <> id ->
       (committed_before s t = true <-> exists x, find_tx t (c_txs c) = Some x /\ x_state x = Committed))
    /\ (forall t, id < t -> committed_before s t = false).
Theorem C04_snapshot_sound : C04_snapshot_sound_statement.
Proof.
  intros ops Hnv. pose proof (reach_inv ops Hnv) as HI. cbn zeta.
  pose proof (snapshot_sound _ HI) as A. pose proof (snapshot_no_future _ HI) as B.
  destruct (begin (fold_left cstep ops init_coord)) as [[c' id] s]. split; assumption.
Qed.
Check C04_snapshot_sound : C04_snapshot_sound_statement.
Print Assumptions C04_snapshot_sound.

(** Two transactions that both commit and wrote a common tuple were not concurrent: the earlier
    committer's commit timestamp lies strictly before the later one's start.  (Holds for the
    coordinator given that writes are recorded; the SQL layer never calls [record_write] -
    recorded finding C04-write-sets-not-recorded.) *)
Definition C04_first_committer_wins_statement : Prop :=
  forall ops id1 ts1 id2 x2 c' k, no_vacuum ops ->
    let cg := fold_left gstep ops (init_coord, []) in
    In (id1, ts1) (snd cg) -> id1 <> id2 ->
    find_tx id2 (c_txs (fst cg)) = Some x2 ->
    commit (fst cg) id2 = (c', COk) ->
    (exists x1, find_tx id1 (c_txs (fst cg)) = Some x1 /\ existsb (key_eqb k) (x_wset x1) = true) ->
    existsb (key_eqb k) (x_wset x2) = true ->
    ts1 < x_start x2.
Theorem C04_first_committer_wins : C04_first_committer_wins_statement.
Proof. exact first_committer_wins. Qed.
Check C04_first_committer_wins : C04_first_committer_wins_statement.
Print Assumptions C04_first_committer_wins.

(** Non-vacuity: T0 and T1 begin, T1 writes and commits, T2 begins and sees exactly T1. *)
Example C04_example :
  let ops := [CBegin; CBegin; CWrite 1 1 1; CCommit 1] in
  no_vacuum ops /\
  let '(_, id, s) := begin (fold_left cstep ops init_coord) in
  id = 2 /\ committed_before s 1 = true /\ committed_before s 0 = false /\ committed_before s 3 = false.
Proof. split; [repeat constructor; discriminate|vm_compute; repeat split; reflexivity]. Qed.
