(** C03 — ROLLBACK, a failed statement or a failed batch leaves no effects. *)
From Axv Require Import Base.Bytes Model.Values Model.Tuple Model.Coord Spec.RefDB
  Proofs.CoordProofs Proofs.TupleProofs Proofs.RefDBProofs Proofs.AbortProofs.
Open Scope N_scope.

(** Reference level (the semantics the engine is compared against on every run).  For every
    history, with any row-id counter supplied to each action, and every session [k] that never
    commits in it (it ends in ROLLBACK, is dropped, or is simply left open): the committed state,
    every other session and every answer given to anybody else are exactly those of the history
    with all of [k]'s actions removed - "the state that would exist had it never run". *)
Definition C03_erasure_statement : Prop :=
  forall k l, never_commits k l ->
    let a := rung l init_state in
    let b := rung (erase k l) init_state in
    committed a = committed b
    /\ (forall j, j <> k -> get_sess (sessions a) j = get_sess (sessions b) j)
    /\ answers k l init_state = answers k (erase k l) init_state.
Theorem C03_erasure : C03_erasure_statement.
Proof.
  intros k l Hnc. destruct (erase_session k l init_state init_state) as [[A B] C].
  - split; [reflexivity|intros; reflexivity].
  - exact Hnc.
  - cbn zeta. split; [exact A|]. split; [exact B|exact C].
Qed.
Check C03_erasure : C03_erasure_statement.
Print Assumptions C03_erasure.

(** The run with the counter chained through the state is one such history. *)
Definition C03_erasure_chained_statement : Prop :=
  forall k hist, Forall (fun a => a <> ACommit k) hist ->
    exists ns, length ns = length hist /\
      committed (run hist init_state) = committed (rung (erase k (combine ns hist)) init_state).
Theorem C03_erasure_chained : C03_erasure_chained_statement.
Proof.
  intros k hist Hnc. destruct (run_is_rung hist init_state) as (ns & Hl & Hr).
  exists ns. split; [exact Hl|]. rewrite Hr.
  assert (never_commits k (combine ns hist)) as H.
  { unfold never_commits. apply Forall_forall. intros [n a] Hin. apply in_combine_r in Hin.
    rewrite Forall_forall in Hnc. cbn [snd]. now apply Hnc. }
  exact (proj1 (C03_erasure k _ H)).
Qed.
Check C03_erasure_chained : C03_erasure_chained_statement.
Print Assumptions C03_erasure_chained.

(** A statement (autocommit or inside a session), a batch or a commit that reports an error
    leaves the committed state - and, for statements and batches, every session - unchanged:
    no partial effects. *)
Definition C03_failure_statement : Prop :=
  (forall st s st', step st (AExec s) = (AR RErr, st') -> committed st' = committed st /\ sessions st' = sessions st)
  /\ (forall st k s st', step st (AStmt k s) = (AR RErr, st') -> committed st' = committed st /\ sessions st' = sessions st)
  /\ (forall st ss st', step st (ABatch ss) = (AR RErr, st') -> committed st' = committed st /\ sessions st' = sessions st)
  /\ (forall st k st', step st (ACommit k) = (AR RErr, st') -> committed st' = committed st).
Theorem C03_failure : C03_failure_statement.
Proof.
  split; [exact failed_exec_no_effect|]. split; [exact failed_stmt_no_effect|].
  split; [exact failed_batch_no_effect|exact failed_commit_no_effect].
Qed.
Check C03_failure : C03_failure_statement.
Print Assumptions C03_failure.

(** Mechanism level (coordinator + row versions, the models tied to the code by the C04 and C18
    streams): in every reachable coordinator state, a snapshot taken after a transaction aborted
    reads none of the rows that transaction inserted - whatever it did to them afterwards - and
    reads the rows it deleted as if the delete had not happened; and such a row can be deleted
    again by somebody else. *)
Definition C03_mechanism_statement : Prop :=
  forall ops t x, no_vacuum ops ->
    let c := fold_left cstep ops init_coord in
    find_tx t (c_txs c) = Some x -> x_state x = Aborted ->
    let '(_, _, s) := begin c in
    (forall tu, wf_tuple tu -> t_xmin tu = t -> decode_for tu s = None)
    /\ (forall tu, t_xmax tu = None -> decode_for (delete tu t) s = decode_for tu s)
    /\ (forall tu u, delete (delete tu t) u = delete tu u).
Theorem C03_mechanism : C03_mechanism_statement.
Proof.
  intros ops t x Hnv c Hf Hs. pose proof (reach_inv ops Hnv) as HI. fold c in HI.
  pose proof (aborted_not_committed_before c t x HI Hf Hs) as H.
  destruct (begin c) as [[c' id] s]. destruct H as [Hc Hx].
  split; [intros tu Hwf Hm; now apply (aborted_insert_invisible s tu t)|].
  split; [intros tu Hm; now apply aborted_delete_ignored|intros; reflexivity].
Qed.
Check C03_mechanism : C03_mechanism_statement.
Print Assumptions C03_mechanism.

(** The same mechanism does NOT cover UPDATE (recorded finding C18-update-not-stamped, which the
    pinned test test_session_rollback_updates asserts): transaction 1 inserts and commits, transaction 2
    updates and aborts, and a snapshot taken afterwards reads the rolled-back value. *)
Definition C03_update_statement : Prop :=
  forall vk tu mods t tu' s, add_version vk tu mods t = TOk tu' ->
    committed_before s t = false -> s_xid s <> t -> decode_for tu' s = decode_for tu s.
Theorem C03_update_refuted : ~ C03_update_statement.
Proof.
  intros H.
  specialize (H [KInt]
     {| t_xmin := 1; t_xmax := None; t_version := 0; t_keys := [VBigUInt 7%Z]; t_vals := [VInt 5%Z]; t_deltas := [] |}
     [(0%nat, VInt 6%Z)] 2
     {| t_xmin := 1; t_xmax := None; t_version := 1; t_keys := [VBigUInt 7%Z]; t_vals := [VInt 6%Z];
        t_deltas := [{| d_xmin := 1; d_version := 0; d_nulls := [false]; d_changes := [(0%nat, VInt 5%Z)] |}] |}
     {| s_xid := 3; s_xmin := 3; s_xmax := Some 1; s_active := []; s_aborted := [2] |}
     eq_refl eq_refl).
  assert (3 <> 2) as Hne by discriminate. specialize (H Hne). vm_compute in H. discriminate H.
Qed.
Check C03_update_refuted : ~ C03_update_statement.
Print Assumptions C03_update_refuted.

(** Non-vacuity: a history in which session 2 inserts, deletes and rolls back between two
    autocommit statements; erasing it leaves the same committed state. *)
Example C03_example :
  let hist := [ (1, AExec (SCreate 1 [{| c_kind := TInt; c_notnull := false; c_default := None |}] []));
                (1, AExec (SInsert 1 None [[ELit (SInt 5)]]));
                (2, ABegin 2);
                (2, AStmt 2 (SInsert 1 None [[ELit (SInt 6)]]));
                (3, AStmt 2 (SDelete 1 None));
                (3, ARollback 2);
                (3, AExec (SInsert 1 None [[ELit (SInt 7)]])) ] in
  never_commits 2 hist /\ length (erase 2 hist) = 3%nat /\
  match get_table (committed (rung hist init_state)) 1 with Some t => map snd (t_rows t) = [[SInt 5]; [SInt 7]] | None => False end.
Proof. split; [repeat constructor; discriminate|]. split; reflexivity. Qed.
