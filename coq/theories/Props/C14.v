(** C14 — statements issued from several threads all finish and stay correct (the part a theorem carries: locks). *)
From Coq Require Import List NArith Bool.
From Axv Require Import Model.Locks Model.LocksRun Proofs.LocksProofs.
Import ListNotations.
Open Scope N_scope.

(** Full strength for the lock model with the engine's (recursive) read latches: for every number of threads, every
    per-thread sequence of acquisitions and releases of the pager lock and of page latches, and EVERY schedule, if
    each sequence follows the discipline for one certificate - a class for every lock and, for some classes, a gate:
    a lock is requested only when every lock held is of a smaller class, or of the same class while the class's gate
    is held exclusively (a writer that holds a tree's root latch exclusively may take the latches below it in any
    order; nobody else holds two latches of that tree at once); a shared latch already held may be requested again;
    releases are of held locks; nothing is held at the end - then no reachable state is deadlocked.  The hypothesis is
    decided on every run for the sequences the lock tap records (verified checker [disciplined], certificate computed
    outside and only checked), so the conclusion covers all schedules of the observed sequences, not only the one
    that happened. *)
Definition C14_statement : Prop :=
  forall (cls : N -> N) (gate : N -> option N) (progs : list (list act)) (sched : list nat),
    forallb (fun p => disciplined cls gate [] p) progs = true ->
    stuck false (run_schedule false (map start progs) sched) = false.
Theorem C14_no_deadlock : C14_statement.
Proof. intros cls gate progs sched. exact (no_deadlock cls gate progs sched). Qed.
Check C14_no_deadlock : C14_statement.
Print Assumptions C14_no_deadlock.

(** Bounded time: each step of an enabled thread consumes one action, so a schedule that keeps choosing enabled
    threads (one always exists, by the theorem above) finishes after exactly the total number of actions. *)
Definition C14_completion_statement : Prop :=
  forall fair s i t, nth_error s i = Some t -> enabled fair s t = true ->
    (remaining (step_at fair s i) + 1 = remaining s)%nat.
Theorem C14_completion : C14_completion_statement.
Proof. intros fair s i t. exact (enabled_step_consumes fair s i t). Qed.
Check C14_completion : C14_completion_statement.
Print Assumptions C14_completion.

(** With parking_lot's plain (fair, writer-preferring) read the same statement is false: a scan that re-requests
    the read latch it holds deadlocks with a waiting writer.  This was the engine before fix 82c0144 (one SELECT
    and one INSERT on the same table from two threads hung). *)
Definition C14_fair_statement : Prop :=
  forall (cls : N -> N) (gate : N -> option N) (progs : list (list act)) (sched : list nat),
    forallb (fun p => disciplined cls gate [] p) progs = true ->
    stuck true (run_schedule true (map start progs) sched) = false.
Theorem C14_fair_read_refuted : ~ C14_fair_statement.
Proof.
  intro H. specialize (H (fun o => o) (fun _ => None) [reentrant_reader; writer] [0; 1; 1]%nat (reentrant_disciplined _ _)).
  rewrite fair_read_deadlocks in H. discriminate H.
Qed.
Check C14_fair_read_refuted : ~ C14_fair_statement.
Print Assumptions C14_fair_read_refuted.

(** The gate clause cannot be dropped: a reader that couples latches top-down inside a tree and a writer that goes
    bottom-up under the root deadlock, and no certificate accepts that pair. *)
Definition C14_coupling_statement : Prop :=
  stuck false (run_schedule false (map start [coupling_reader; bottom_up_writer]) [0; 1; 1]%nat) = true
  /\ forall cls gate, forallb (fun p => disciplined cls gate [] p) [coupling_reader; bottom_up_writer] = false.
Theorem C14_coupling_rejected : C14_coupling_statement.
Proof. split; [exact coupling_deadlocks|exact coupling_not_disciplined]. Qed.
Check C14_coupling_rejected : C14_coupling_statement.
Print Assumptions C14_coupling_rejected.

(** Non-vacuity: a reader that re-requests its leaf latch, and a writer that holds the root (object 3) exclusively,
    takes the latches below it in both directions and requests the pager lock (object 0) while holding them, are
    disciplined for: class 1 = {3}, class 2 = {5, 6} gated by 3, class 9 = pager lock. *)
Example C14_example :
  let cls := fun o => if o =? 0 then 9 else if o =? 3 then 1 else 2 in
  let gate := fun c => if c =? 2 then Some 3 else None in
  forallb (fun p => disciplined cls gate [] p)
          [[ar 3; rl 3; ar 5; aw 0; rl 0; ar 5; rl 5; rl 5];
           [aw 3; aw 6; aw 5; aw 0; rl 0; rl 5; rl 6; aw 5; aw 6; rl 6; rl 5; rl 3]] = true.
Proof. vm_compute. reflexivity. Qed.
