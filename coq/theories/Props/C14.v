(** C14 — statements issued from several threads all finish and stay correct (the part a theorem carries: locks). *)
From Coq Require Import List NArith Bool.
From Axv Require Import Model.Locks Model.LocksRun Proofs.LocksProofs.
Import ListNotations.
Open Scope N_scope.

(** Full strength for the lock model with the engine's (recursive) read latches: for every number of threads, every
    per-thread sequence of acquisitions and releases of the pager lock and of page latches, and EVERY schedule, if
    each sequence follows the discipline for one rank of the objects (locks are requested in increasing rank, except
    that a shared latch already held may be requested again; releases are of held locks; nothing is held at the end)
    then no reachable state is deadlocked.  The hypothesis is decided on every run for the sequences the lock tap
    records (verified checker [disciplined], rank certificate computed outside), so the conclusion covers all
    schedules of the observed sequences, not only the one that happened. *)
Definition C14_statement : Prop :=
  forall (rank : N -> N) (progs : list (list act)) (sched : list nat),
    forallb (fun p => disciplined rank [] p) progs = true ->
    stuck false (run_schedule false (map start progs) sched) = false.
Theorem C14_no_deadlock : C14_statement.
Proof. intros rank progs sched. exact (no_deadlock rank progs sched). Qed.
Check C14_no_deadlock : C14_statement.
Print Assumptions C14_no_deadlock.

(** Bounded time: each step of an enabled thread consumes one action, so a schedule that keeps choosing enabled
    threads (one always exists, by the theorem above) finishes after exactly the total number of actions. *)
Definition C14_completion_statement : Prop :=
  forall fair s i t, nth_error s i = Some t -> enabled fair s t = true ->
    (remaining (step_at fair s i) + 1 = remaining s)%nat.
Theorem C14_completion : C14_completion_statement.
Proof. intros fair s i t. exact (enabled_step_consumes fair s i t). Qed.
Check C14_completion : C14_completion_statement.
Print Assumptions C14_completion.

(** With parking_lot's plain (fair, writer-preferring) read the same statement is false: a scan that re-requests
    the read latch it holds deadlocks with a waiting writer.  This was the engine before fix 82c0144 (one SELECT
    and one INSERT on the same table from two threads hung). *)
Definition C14_fair_statement : Prop :=
  forall (rank : N -> N) (progs : list (list act)) (sched : list nat),
    forallb (fun p => disciplined rank [] p) progs = true ->
    stuck true (run_schedule true (map start progs) sched) = false.
Theorem C14_fair_read_refuted : ~ C14_fair_statement.
Proof.
  intro H. specialize (H (fun o => o) [reentrant_reader; writer] [0; 1; 1]%nat (reentrant_disciplined _)).
  rewrite fair_read_deadlocks in H. discriminate H.
Qed.
Check C14_fair_read_refuted : ~ C14_fair_statement.
Print Assumptions C14_fair_read_refuted.

(** Non-vacuity: the sequences of a reader that re-requests its leaf latch and of a writer (pager lock = object 0
    requested while a latch is held) are disciplined for the rank "pages by id, pager lock last". *)
Example C14_example :
  let rank := fun o => if o =? 0 then 1000 else o in
  forallb (fun p => disciplined rank [] p)
          [[ar 3; rl 3; ar 5; aw 0; rl 0; ar 5; rl 5; rl 5]; [aw 0; rl 0; aw 5; aw 0; rl 0; rl 5]] = true.
Proof. vm_compute. reflexivity. Qed.
