(** C08 — the database always reopens after a crash, and recovery can be repeated. *)
From Coq Require Import List NArith ZArith Bool.
From Axv Require Import Base.Bytes Model.Crash Model.CrashRun Proofs.CrashRecover Proofs.CrashRestart Proofs.CrashEngine
     Proofs.CrashTheorems Proofs.CrashWitness.
Import ListNotations.
Open Scope N_scope.

(** Recovery of the model is a total function (it cannot fail to open).  Full strength for the protocol model: a
    recovery that is interrupted after any number [n] of its own log records reached the disk, followed by a recovery
    that is interrupted again after [m] records, followed by a complete one, yields the same contents as a single
    uninterrupted recovery - the contents of the durable transactions. *)
Definition C08_statement : Prop :=
  forall (db op : Type) (apply : op -> db -> db) (init : db) (evs : list (ev (op := op))) (n m : nat),
    quiescent evs -> winners_commute apply (e_disk (run evs)) ->
    recovered_view apply init (interrupted (interrupted (e_disk (run evs)) n) m) = spec_view apply init (run evs).
Theorem C08_restartable : C08_statement.
Proof. intros db op apply init evs n m Hq Hc. exact (crash_recovery_restartable apply init evs n m Hq Hc). Qed.
Check C08_restartable : C08_statement.
Print Assumptions C08_restartable.

(** Opening an already recovered database changes nothing: recovery leaves an empty log and a second recovery
    (any number of further ones, by induction) finds the same contents. *)
Definition C08_reopen_statement : Prop :=
  forall (db op : Type) (apply : op -> db -> db) (init : db) (evs : list (ev (op := op))),
    quiescent evs -> winners_commute apply (e_disk (run evs)) ->
    d_log (recover (e_disk (run evs))) = [] /\
    recovered_view apply init (recover (e_disk (run evs))) = spec_view apply init (run evs).
Theorem C08_reopen : C08_reopen_statement.
Proof. intros db op apply init evs Hq Hc. exact (reopen_after_recovery_noop apply init evs Hq Hc). Qed.
Check C08_reopen : C08_reopen_statement.
Print Assumptions C08_reopen.

(** Opening a cleanly closed database (empty log) shows what the header says is visible: nothing changes. *)
Definition C08_clean_statement : Prop :=
  forall (db op : Type) (apply : op -> db -> db) (init : db) (d : disk (op := op)),
    WF d -> d_log d = [] -> recovered_view apply init d = view apply init (d_hdr d) (d_hist d).
Theorem C08_clean : C08_clean_statement.
Proof. intros db op apply init d. exact (clean_open_noop apply init d). Qed.
Check C08_clean : C08_clean_statement.
Print Assumptions C08_clean.

(** The hypothesis "the data file is the image of the last completed checkpoint" cannot be dropped (recorded finding
    C08-crash-inside-checkpoint): for the image in the middle of a checkpoint - pages and header written, log not yet
    truncated - recovery replays a CREATE onto a catalog that already holds the table and fails, where the engine's
    CREATE is modelled as it behaves (not idempotent).  The witness is the first commit of any database; it is
    replayed on the engine on every run (the database does not open). *)
Definition C08_window_statement : Prop :=
  forall evs, recovered_view kv_apply_strict SAbsent (torn_checkpoint (run evs)) = spec_view kv_apply_strict SAbsent (run evs).
Theorem C08_window_refuted : ~ C08_window_statement.
Proof.
  intro H. specialize (H first_commit). destruct torn_checkpoint_breaks as (A & _ & B). rewrite A, B in H. discriminate H.
Qed.
Check C08_window_refuted : ~ C08_window_statement.
Print Assumptions C08_window_refuted.

(** Non-vacuity: the image of [good_history] with the recovery interrupted after 2 and then after 1 of its records. *)
Example C08_example :
  recovered_view kv_apply None (interrupted (interrupted (e_disk (run good_history)) 2) 1) = Some [(2, 9%Z); (4, 1%Z)]
  /\ length (d_log (interrupted (interrupted (e_disk (run good_history)) 2) 1)) = 9%nat.
Proof. vm_compute. split; reflexivity. Qed.
