(** C02 — a crash leaves no trace of unfinished or rolled-back transactions. *)
From Coq Require Import List NArith ZArith Bool.
From Axv Require Import Base.Bytes Model.Crash Model.CrashRun Proofs.CrashAnalysis Proofs.CrashRecover Proofs.CrashEngine
     Proofs.CrashTheorems Proofs.CrashWitness.
Import ListNotations.
Open Scope N_scope.

(** Full strength for the protocol model: after crash + recovery the contents are *exactly* the versions of the
    durable transactions (so no transaction shows in part: a version is applied iff its writer is durable), and a
    transaction that is still open or was rolled back - explicitly, by a failed statement or batch, or by dropping
    its session - is not durable. *)
Definition C02_statement : Prop :=
  forall (db op : Type) (apply : op -> db -> db) (init : db) (evs : list (ev (op := op))),
    quiescent evs -> winners_commute apply (e_disk (run evs)) ->
    recovered_view apply init (e_disk (run evs)) = spec_view apply init (run evs)
    /\ (forall t, memN t (e_active (run evs)) = true \/ memN t (h_aborted (e_hdr (run evs))) = true ->
                  memN t (g_durable (run evs)) = false).
Theorem C02_exact : C02_statement.
Proof.
  intros db op apply init evs Hq Hc. split.
  - exact (crash_recovery_exact apply init evs Hq Hc).
  - intros t. exact (unfinished_not_durable evs t Hq).
Qed.
Check C02_exact : C02_statement.
Print Assumptions C02_exact.

(** The analysis pass: the redo set is exactly the set of transactions whose COMMIT record is in the log (given
    that no transaction has both a COMMIT and an ABORT record, which holds on every reachable image). *)
Definition C02_analysis_statement : Prop :=
  forall (op : Type) (log : list (rec (op := op))) t,
    has is_abort t log = false -> memN t (a_redo (analyse log)) = has is_commit t log.
Theorem C02_analysis : C02_analysis_statement.
Proof. intros op log t. exact (redo_spec t log). Qed.
Check C02_analysis : C02_analysis_statement.
Print Assumptions C02_analysis.

(** Without the quiescence hypothesis the statement is false of the faithful model (recorded finding
    C02-checkpoint-with-open-transaction): a transaction open at a checkpoint that logs nothing afterwards is
    unknown to the log, and its row becomes visible once the recovery transaction has committed. *)
Definition C02_unrestricted_statement : Prop :=
  forall (evs : list (ev (op := kvop))),
    recovered_view kv_apply None (e_disk (run evs)) = spec_view kv_apply None (run evs).
Theorem C02_checkpoint_open_refuted : ~ C02_unrestricted_statement.
Proof.
  intro H. specialize (H open_at_checkpoint).
  destruct open_at_checkpoint_leaks as (_ & A & B). rewrite A, B in H. discriminate H.
Qed.
Check C02_checkpoint_open_refuted : ~ C02_unrestricted_statement.
Print Assumptions C02_checkpoint_open_refuted.

(** Non-vacuity: in [good_history] transaction 1 is rolled back while 2 commits; nothing of 1 is found. *)
Example C02_example :
  quiescent good_history /\ memN 1 (h_aborted (e_hdr (run good_history))) = true
  /\ recovered_view kv_apply None (e_disk (run good_history)) = Some [(2, 9%Z); (4, 1%Z)].
Proof.
  split; [exact good_history_quiescent|split; [vm_compute; reflexivity|]].
  destruct good_history_contents as (A & _). exact A.
Qed.
