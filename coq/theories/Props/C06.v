(** C06 — the chosen plan never changes the answer. *)
From Axv Require Import Base.Bytes Model.IndexScan Proofs.IndexScanProofs Spec.RefDB Proofs.RefDBProofs.
From Coq Require Import Sorting.Permutation.
Open Scope N_scope.

(** Mechanism level: index scan versus table scan.  For every table, every index that agrees with
    it (an entry per row with a non-NULL key, nothing else), every range [lo, hi] (either side
    open) and every residual predicate, the index scan - entries in range, rows fetched by row id,
    residual applied - returns exactly the rows the sequential scan with the whole predicate
    returns, each once.  The agreement holds for the empty table and is kept by INSERT (fresh row
    id, NULL keys get no entry), DELETE and UPDATE of other columns: so along every history of
    these operations "every secondary index agrees with its table" and both plans answer alike. *)
Definition C06_index_scan_statement : Prop :=
  (forall i t lo hi resid, Agree i t -> Permutation (index_scan i t lo hi resid) (seq_scan t lo hi resid))
  /\ Agree [] []
  /\ (forall i t x, Agree i t -> ~ In (fst x) (map fst t) -> let '(i', t') := ins i t x in Agree i' t')
  /\ (forall i t r, Agree i t -> let '(i', t') := del i t r in Agree i' t')
  /\ (forall i t r p, Agree i t -> Agree i (upd_payload t r p)).
Theorem C06_index_scan : C06_index_scan_statement.
Proof.
  split; [exact index_scan_is_seq_scan|]. split; [exact agree_empty|]. split; [exact agree_ins|].
  split; [exact agree_del|exact agree_upd_payload].
Qed.
Check C06_index_scan : C06_index_scan_statement.
Print Assumptions C06_index_scan.

(** UPDATE of the indexed column, done as the engine does it (the table row changes, the index is
    left alone), does not keep the agreement, and then the two scans differ (recorded finding
    C06-update-of-indexed-column, pinned by runtime::tests::test_index_maintained_on_update). *)
Definition C06_update_key_statement : Prop :=
  forall i t r k lo hi, Agree i t ->
    Permutation (index_scan i (upd_key_unmaintained t r k) lo hi (fun _ => true))
                (seq_scan (upd_key_unmaintained t r k) lo hi (fun _ => true)).
Theorem C06_update_key_refuted : ~ C06_update_key_statement.
Proof.
  intros H. destruct upd_key_breaks_agreement as (i & t & r & k & lo & hi & HA & Hn). apply Hn. now apply H.
Qed.
Check C06_update_key_refuted : ~ C06_update_key_statement.
Print Assumptions C06_update_key_refuted.

(** Reference level: the reference has no planner, statistics do not exist in it (ANALYZE is the
    identity), so every plan variant of a query must give the reference's answer. *)
Definition C06_reference_statement : Prop :=
  forall l1 l2 st, run (l1 ++ AAnalyze :: l2) st = run (l1 ++ l2) st.
Theorem C06_reference : C06_reference_statement.
Proof. intros l1 l2 st. unfold run. rewrite !fold_left_app. reflexivity. Qed.
Check C06_reference : C06_reference_statement.
Print Assumptions C06_reference.

(** Non-vacuity: three rows (one with a NULL key), the index built by [ins], a range scan. *)
Example C06_example :
  let '(i1, t1) := ins [] [] (1, (Some 5, 10)) in
  let '(i2, t2) := ins i1 t1 (2, (None, 20)) in
  let '(i3, t3) := ins i2 t2 (3, (Some 8, 30)) in
  index_scan i3 t3 (Some 6) None (fun _ => true) = [(3, (Some 8, 30))] /\ seq_scan t3 (Some 6) None (fun _ => true) = [(3, (Some 8, 30))].
Proof. split; reflexivity. Qed.
