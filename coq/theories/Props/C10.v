(** C10 — each B+tree is a correct ordered map with sound structure. *)
From Axv Require Import Base.Bytes Model.Btree Proofs.BtreeProofs.
From Coq Require Import Sorting.Sorted.
Open Scope N_scope.

(** The structural checker that is run on every dumped tree is sound: a tree it accepts holds its
    keys in strictly increasing order across all leaves (no key twice), every key lies inside the
    bounds its separators promise, and the lookup procedure of the tree - descend to the child just
    before the first separator greater than the key - finds exactly the keys stored in the leaves.
    This holds for trees of any height, fan-out and size. *)
Definition C10_checker_sound_statement : Prop :=
  forall t, wfb None None t = true ->
    StronglySorted N.lt (flatten t) /\ forall k, route k t = existsb (N.eqb k) (flatten t).
Theorem C10_checker_sound : C10_checker_sound_statement.
Proof.
  intros t H. destruct (wf_sound t None None H) as (_ & S & R). split; [exact S|].
  intros k. apply R. split; reflexivity.
Qed.
Check C10_checker_sound : C10_checker_sound_statement.
Print Assumptions C10_checker_sound.

(** The abstract map the tree is compared with on every run is a finite map: along any sequence
    of insert / upsert / update / remove / get / scan, a lookup returns the latest payload put
    under the key and not removed (insert refuses an existing key, update and remove a missing
    one), and a scan lists exactly the present keys, once each, in increasing order. *)
Definition C10_map_refinement_statement : Prop :=
  forall ops,
    let m := fold_left (fun m o => fst (tstep m o)) ops [] in
    StronglySorted N.lt (map fst m)
    /\ (forall k, aget m k = fold_left fstep ops (fun _ => None) k)
    /\ (forall k, In k (map fst m) <-> aget m k <> None).
Theorem C10_map_refinement : C10_map_refinement_statement.
Proof.
  intros ops m. assert (asorted []) as H0 by constructor.
  destruct (map_reachable ops [] H0) as [A B]. split; [exact A|]. split; [exact B|].
  intros k. now apply scan_lookup.
Qed.
Check C10_map_refinement : C10_map_refinement_statement.
Print Assumptions C10_map_refinement.

(** Non-vacuity: a three-level tree accepted by the checker, and an operation sequence. *)
Example C10_example :
  let t := DNode (DNode (DLeaf [1; 2]) [(3, DLeaf [3; 5])]) [(7, DNode (DLeaf [7]) [(9, DLeaf [9; 10])])] in
  check_tree t = true /\ flatten t = [1; 2; 3; 5; 7; 9; 10] /\ route 5 t = true /\ route 6 t = false
  /\ fst (tstep (fst (tstep (fst (tstep [] (TIns 4 1 1))) (TIns 2 2 2))) (TRem 4)) = [(2, (2, 2))].
Proof. repeat split; reflexivity. Qed.

(** The slotted page under every tree node (storage/core/buffer.rs; Model/Slotted.v, run against
    the code on every check).  For every capacity and every sequence of insert, remove, replace,
    defragment and drain(..) - with whatever indices and cell sizes, valid or not - the page
    behaves as a plain list of cells: an accepted insert puts the cell at its index, remove and
    replace hand back exactly the cell that was there, drain hands out the list, a refused
    operation and a defragmentation change nothing, the page never reads bytes it did not write
    ([bad] stays false: no cell overlaps another, the slot array or the end of the page, and no
    unsigned counter underflows), and a replace that had to remove the old cell first never fails
    half-way.  Cell sizes are multiples of CELL_ALIGNMENT, as every OwnedCell constructor makes
    them; the cell header size [chdr] and page header size [phdr] are arbitrary (the run uses the
    values the compiler reports). *)
From Axv Require Import Model.Slotted Proofs.SlottedProofs.
Definition C10_page_refines_list_statement : Prop :=
  forall chdr phdr capacity ops,
    0 < chdr -> chdr mod 8 = 0 -> capacity mod 8 = 0 -> Forall op_al ops ->
    agree chdr phdr (Slotted.init capacity) [] ops.
Theorem C10_page_refines_list : C10_page_refines_list_statement.
Proof.
  intros chdr phdr capacity ops H0 H1 H2 H3.
  exact (page_refines_list chdr phdr H0 H1 ops (Slotted.init capacity) (init_inv chdr H0 H1 capacity H2) H3).
Qed.
Check C10_page_refines_list : C10_page_refines_list_statement.
Print Assumptions C10_page_refines_list.

(** ... and an insert is refused for lack of space only when the cell really does not fit what
    the cells already there leave free (fragmentation never causes a refusal: the page is
    defragmented first). *)
Definition C10_page_insert_complete_statement : Prop :=
  forall chdr phdr capacity ops i c,
    0 < chdr -> chdr mod 8 = 0 -> capacity mod 8 = 0 -> Forall op_al ops -> plen c mod 8 = 0 ->
    let p := fst (Slotted.run chdr phdr (Slotted.init capacity) ops) in
    snd (insert chdr phdr p i c) = RErr EStorageFull ->
    capacity < 2 * (N.of_nat (length (cells p)) + 1) + sumtot chdr (cells p) + total chdr c.
Theorem C10_page_insert_complete : C10_page_insert_complete_statement.
Proof.
  intros chdr phdr capacity ops i c H0 H1 H2 H3 Hc p Hfull.
  destruct (run_inv chdr phdr H0 H1 ops (Slotted.init capacity) (init_inv chdr H0 H1 capacity H2) H3) as [HI Hcap].
  fold p in HI, Hcap. destruct (insert chdr phdr p i c) as [p' r] eqn:E. cbn [snd] in Hfull. subst r.
  pose proof (insert_full_exact chdr phdr H0 H1 p i c p' HI Hc E) as Hlt.
  unfold nslots in Hlt. rewrite <- (cells_length p) in Hlt. cbn [Slotted.init cap] in Hcap. rewrite <- Hcap. exact Hlt.
Qed.
Check C10_page_insert_complete : C10_page_insert_complete_statement.
Print Assumptions C10_page_insert_complete.

(** ... and a defragmentation of any reachable page keeps its cells and its free-space counter and
    leaves every free byte in one piece between the slot array and the cells. *)
Definition C10_page_defragment_compacts_statement : Prop :=
  forall chdr phdr capacity ops,
    0 < chdr -> chdr mod 8 = 0 -> capacity mod 8 = 0 -> Forall op_al ops ->
    let p := fst (Slotted.run chdr phdr (Slotted.init capacity) ops) in
    let p' := defragment chdr p in
    cells p' = cells p /\ fs p' = fs p /\ fsp p' = 2 * nslots p' + fs p'.
Theorem C10_page_defragment_compacts : C10_page_defragment_compacts_statement.
Proof.
  intros chdr phdr capacity ops H0 H1 H2 H3 p p'.
  destruct (run_inv chdr phdr H0 H1 ops (Slotted.init capacity) (init_inv chdr H0 H1 capacity H2) H3) as [HI _].
  exact (defragment_compacts chdr H0 H1 p HI).
Qed.
Check C10_page_defragment_compacts : C10_page_defragment_compacts_statement.
Print Assumptions C10_page_defragment_compacts.

(** Non-vacuity: a page of capacity 160 with 32-byte cell headers: three inserts, a shrinking replace,
    a remove that leaves a hole, an insert that only fits after defragmentation, a refused insert. *)
Example C10_page_example :
  let ops := [OInsert 0 (mkCell 1 8); OInsert 0 (mkCell 2 8); OInsert 2 (mkCell 3 16); OReplace 2 (mkCell 4 8);
              ORemove 1; OInsert 1 (mkCell 5 24); OInsert 0 (mkCell 6 8)] in
  Forall op_al ops /\
  snd (Slotted.run 32 80 (Slotted.init 160) ops) = [ROk 0%nat; ROk 0%nat; ROk 2%nat; RCell (mkCell 3 16); RCell (mkCell 1 8); ROk 1%nat; RErr EStorageFull] /\
  cells (fst (Slotted.run 32 80 (Slotted.init 160) ops)) = [mkCell 2 8; mkCell 5 24; mkCell 4 8].
Proof. split; [repeat constructor|split; reflexivity]. Qed.
