(** C10 — each B+tree is a correct ordered map with sound structure. *)
From Axv Require Import Base.Bytes Model.Btree Proofs.BtreeProofs.
From Coq Require Import Sorting.Sorted.
Open Scope N_scope.

(** The structural checker that is run on every dumped tree is sound: a tree it accepts holds its
    keys in strictly increasing order across all leaves (no key twice), every key lies inside the
    bounds its separators promise, and the lookup procedure of the tree - descend to the child just
    before the first separator greater than the key - finds exactly the keys stored in the leaves.
    This holds for trees of any height, fan-out and size. *)
Definition C10_checker_sound_statement : Prop :=
  forall t, wfb None None t = true ->
    StronglySorted N.lt (flatten t) /\ forall k, route k t = existsb (N.eqb k) (flatten t).
Theorem C10_checker_sound : C10_checker_sound_statement.
Proof.
  intros t H. destruct (wf_sound t None None H) as (_ & S & R). split; [exact S|].
  intros k. apply R. split; reflexivity.
Qed.
Check C10_checker_sound : C10_checker_sound_statement.
Print Assumptions C10_checker_sound.

(** The abstract map the tree is compared with on every run is a finite map: along any sequence
    of insert / upsert / update / remove / get / scan, a lookup returns the latest payload put
    under the key and not removed (insert refuses an existing key, update and remove a missing
    one), and a scan lists exactly the present keys, once each, in increasing order. *)
Definition C10_map_refinement_statement : Prop :=
  forall ops,
    let m := fold_left (fun m o => fst (tstep m o)) ops [] in
    StronglySorted N.lt (map fst m)
    /\ (forall k, aget m k = fold_left fstep ops (fun _ => None) k)
    /\ (forall k, In k (map fst m) <-> aget m k <> None).
Theorem C10_map_refinement : C10_map_refinement_statement.
Proof.
  intros ops m. assert (asorted []) as H0 by constructor.
  destruct (map_reachable ops [] H0) as [A B]. split; [exact A|]. split; [exact B|].
  intros k. now apply scan_lookup.
Qed.
Check C10_map_refinement : C10_map_refinement_statement.
Print Assumptions C10_map_refinement.

(** Non-vacuity: a three-level tree accepted by the checker, and an operation sequence. *)
Example C10_example :
  let t := DNode (DNode (DLeaf [1; 2]) [(3, DLeaf [3; 5])]) [(7, DNode (DLeaf [7]) [(9, DLeaf [9; 10])])] in
  check_tree t = true /\ flatten t = [1; 2; 3; 5; 7; 9; 10] /\ route 5 t = true /\ route 6 t = false
  /\ fst (tstep (fst (tstep (fst (tstep [] (TIns 4 1 1))) (TIns 2 2 2))) (TRem 4)) = [(2, (2, 2))].
Proof. repeat split; reflexivity. Qed.
