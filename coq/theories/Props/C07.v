(** C07 — UNIQUE, PRIMARY KEY and NOT NULL always hold in committed data. *)
From Axv Require Import Base.Bytes Model.Values Spec.RefDB Proofs.RefDBProofs Proofs.ConstraintProofs.
Open Scope N_scope.

(** Reference level.  For every history of autocommit statements, sessions (begin / statements /
    commit / rollback, any interleaving of any number of sessions, including two open sessions
    inserting the same key), batches, vacuum, flush and reopen - with constraints declared at CREATE TABLE,
    by ADD COLUMN or by CREATE UNIQUE INDEX - every table of the committed state satisfies its
    declared constraints: each row has the table's arity, no NOT NULL column holds NULL, and no two
    rows collide on a declared key (all key columns non-NULL and equal).  DROP COLUMN is outside
    this statement (it belongs to C15). *)
Definition C07_statement : Prop :=
  forall hist, Forall action_ok hist ->
    forall tid t, get_table (committed (run hist init_state)) tid = Some t ->
      (forall id row, In (id, row) (t_rows t) ->
         length row = length (t_cols t) /\
         forall i c v, nth_error (t_cols t) i = Some c -> nth_error row i = Some v -> c_notnull c = true -> v <> SNull)
      /\ (forall u, In u (t_uniq t) ->
            forall pre r1 mid r2 post, map snd (t_rows t) = pre ++ r1 :: mid ++ r2 :: post -> keys_collide u r1 r2 = false).
Theorem C07_holds : C07_statement.
Proof.
  intros hist Hh tid t Hg. destruct (constraints_hold hist Hh) as [Hc _].
  pose proof (get_table_ok _ _ _ Hc Hg) as Hok. split.
  - intros id row Hin. now apply (table_ok_not_null t id row).
  - intros u Hu. now apply table_ok_unique.
Qed.
Check C07_holds : C07_statement.
Print Assumptions C07_holds.

(** A statement that would break a constraint is rejected as a whole: when a statement, a batch
    or a commit reports an error the committed state is untouched. *)
Definition C07_rejected_as_a_whole_statement : Prop :=
  (forall st s st', step st (AExec s) = (AR RErr, st') -> committed st' = committed st)
  /\ (forall st ss st', step st (ABatch ss) = (AR RErr, st') -> committed st' = committed st)
  /\ (forall st k st', step st (ACommit k) = (AR RErr, st') -> committed st' = committed st).
Theorem C07_rejected_as_a_whole : C07_rejected_as_a_whole_statement.
Proof.
  split; [intros st s st' H; exact (proj1 (failed_exec_no_effect st s st' H))|].
  split; [intros st ss st' H; exact (proj1 (failed_batch_no_effect st ss st' H))|exact failed_commit_no_effect].
Qed.
Check C07_rejected_as_a_whole : C07_rejected_as_a_whole_statement.
Print Assumptions C07_rejected_as_a_whole.

(** A statement is never rejected because of rows that were rolled back: whatever a session that
    does not commit inserted, every answer given to anybody else - acceptance or rejection
    included - is the one given in the history without that session.  (Rows that were deleted or
    changed away are simply absent from the state [exec] validates against.) *)
Definition C07_rolled_back_rows_do_not_block_statement : Prop :=
  forall k l, never_commits k l -> answers k l init_state = answers k (erase k l) init_state.
Theorem C07_rolled_back_rows_do_not_block : C07_rolled_back_rows_do_not_block_statement.
Proof.
  intros k l H. destruct (erase_session k l init_state init_state) as [_ A]; [split; [reflexivity|intros; reflexivity]|exact H|exact A].
Qed.
Check C07_rolled_back_rows_do_not_block : C07_rolled_back_rows_do_not_block_statement.
Print Assumptions C07_rolled_back_rows_do_not_block.

(** Non-vacuity: key 5 is inserted, a duplicate is rejected, a session deletes and re-inserts it
    and commits, a second session inserting the same key concurrently fails to commit. *)
Example C07_example :
  let c := {| c_kind := TInt; c_notnull := true; c_default := None |} in
  let ins v := SInsert 1 None [[ELit (SInt v)]] in
  let hist := [AExec (SCreate 1 [c] [[0%nat]]); AExec (ins 5%Z); AExec (ins 5%Z);
               ABegin 1; ABegin 2; AStmt 1 (SDelete 1 None); AStmt 1 (ins 5%Z); AStmt 2 (ins 6%Z); AStmt 1 (ins 6%Z);
               ACommit 1; ACommit 2] in
  Forall action_ok hist /\
  match get_table (committed (run hist init_state)) 1 with
  | Some t => map snd (t_rows t) = [[SInt 5%Z]; [SInt 6%Z]]
  | None => False end.
Proof. split; [repeat constructor|reflexivity]. Qed.
