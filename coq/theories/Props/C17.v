(** C17 — the write-ahead log returns exactly what was appended. *)
From Axv Require Import Base.Bytes Gen.GenWal Model.Wal Proofs.WalProofs Gen.GenOkWal.
Open Scope N_scope.

(** For every block size and every sequence of appends (any sizes), forces, reopens (drop + open),
    crashes (no drop), truncations and reads: whenever the last state-changing operation was a
    force, a reopen, a crash or a truncate+force, reading the log yields exactly [F], the records
    appended since the last truncation that were covered by a force ([spec_step] is the list
    specification; a record is accepted iff it fits a data block); and [F] is always a prefix of the
    appended records [L], so nothing is ever read that was not appended, and order is preserved. *)
Definition C17_statement : Prop :=
  forall (B : N) (ops : list op),
    let w := fold_left (exec_step B) ops create in
    let '(L, F, st) := fold_left (spec_step B) ops ([], [], false) in
    (st = true -> read_all w = Some F) /\ (exists tl, L = F ++ tl).

Theorem C17_holds : C17_statement.
Proof.
  intros B ops. pose proof (wal_refines_list B layout_ok_holds ops) as H.
  pose proof (spec_forced_prefix B ops) as P. cbn zeta in H.
  destruct (fold_left (spec_step B) ops ([], [], false)) as [[L F] st].
  destruct H as [_ H]. split; assumption.
Qed.
Check C17_holds : C17_statement.
Print Assumptions C17_holds.

(** Non-vacuity: three block-sized records forced one by one, then a crash: all three come back
    (this is the history on which the unrepaired code returned records 0 and 2 only). *)
Example C17_example :
  let r i := {| r_lsn := i; r_tid := 1; r_kind := 8; r_undo := 0; r_redo := 40000 |} in
  let ops := [OPush (r 0); OFlush; OPush (r 1); OFlush; OPush (r 2); OFlush; OCrash] in
  read_all (fold_left (exec_step 40960) ops create) = Some [r 0; r 1; r 2].
Proof. vm_compute. reflexivity. Qed.
