(** C12 — configuration changes performance, never results. *)
From Axv Require Import Base.Bytes Model.Cache Proofs.CacheProofs Spec.RefDB Proofs.RefDBProofs.
Open Scope N_scope.

(** Mechanism level: the page cache.  For every capacity (including 0 and 1), every sequence of
    allocations, writes, reads, pins, unpins and checkpoints, and whatever evictable frame each
    eviction removes first, every answer is the one a plain memory without any cache gives - a
    read returns the last value written to that page, zero for a fresh page - except that an
    operation may answer with the explicit out-of-memory error when every frame is referenced,
    and then it changes nothing (an allocation still consumes its page number).  So data survives
    any amount of eviction, and the cache size can only turn an answer into that error. *)
Definition C12_cache_statement : Prop :=
  forall capacity ops, Forall (fun ab => fst ab = snd ab) (run_both (init_pst capacity) (fun _ => 0, 1) ops).
Theorem C12_cache : C12_cache_statement.
Proof. exact cache_transparent. Qed.
Check C12_cache : C12_cache_statement.
Print Assumptions C12_cache.

(** Two cache sizes: as long as neither run is refused for lack of frames, they give the same
    answers - those of the plain memory, in which the capacity does not occur. *)
Fixpoint spec_answers (s : mem * N) (ops : list pop) : list pres :=
  match ops with
  | [] => []
  | o :: r => let '(s', b) := sstep s o false in b :: spec_answers s' r
  end.

Lemma no_oom_is_spec ops : forall st s,
  Forall (fun ab => fst ab = snd ab) (run_both st s ops) ->
  Forall (fun ab => is_oom (fst ab) = false) (run_both st s ops) ->
  map fst (run_both st s ops) = spec_answers s ops.
Proof.
  induction ops as [|o ops IH]; intros st s H1 H2; cbn [run_both spec_answers]; [reflexivity|].
  cbn [run_both] in H1, H2. destruct (pstep st o) as [st' a]. destruct (sstep s o (is_oom a)) as [s' b] eqn:E.
  apply Forall_cons_iff in H1. apply Forall_cons_iff in H2. destruct H1 as [Hab H1], H2 as [Ha H2]. cbn [fst snd] in Hab, Ha.
  rewrite Ha in E. rewrite E. cbn [map fst]. subst b. f_equal. now apply IH.
Qed.

Definition C12_capacity_independent_statement : Prop :=
  forall c1 c2 ops,
    let a := map fst (run_both (init_pst c1) (fun _ => 0, 1) ops) in
    let b := map fst (run_both (init_pst c2) (fun _ => 0, 1) ops) in
    Forall (fun r => is_oom r = false) a -> Forall (fun r => is_oom r = false) b -> a = b.
Theorem C12_capacity_independent : C12_capacity_independent_statement.
Proof.
  intros c1 c2 ops a b Ha Hb. unfold a, b in *.
  rewrite (no_oom_is_spec ops (init_pst c1) _ (cache_transparent c1 ops)) by (now rewrite Forall_map in Ha).
  rewrite (no_oom_is_spec ops (init_pst c2) _ (cache_transparent c2 ops)) by (now rewrite Forall_map in Hb).
  reflexivity.
Qed.
Check C12_capacity_independent : C12_capacity_independent_statement.
Print Assumptions C12_capacity_independent.

(** Reference level: the reference semantics has no configuration at all - page size, cache size,
    pool size, minimum keys and siblings are not inputs of [step] - so any two configurations
    must give the reference's answers; flush (checkpoint) is the identity. *)
Definition C12_reference_statement : Prop :=
  forall l1 l2 st, run (l1 ++ AFlush :: l2) st = run (l1 ++ l2) st.
Theorem C12_reference : C12_reference_statement.
Proof. intros l1 l2 st. unfold run. rewrite !fold_left_app. reflexivity. Qed.
Check C12_reference : C12_reference_statement.
Print Assumptions C12_reference.

(** Non-vacuity: capacity 1, three pages, every read returns what was written; with a pinned frame the read of another page is refused. *)
Example C12_example :
  map fst (run_both (init_pst 1) (fun _ => 0, 1) [PAlloc; PAlloc; PWrite 1 7; PWrite 2 8; PRead 1; PRead 2; PPin 1; PRead 2; PUnpin 1; PRead 2])
  = [PId 1; PId 2; POk; POk; PVal 7; PVal 8; POk; POom; POk; PVal 8].
Proof. reflexivity. Qed.
