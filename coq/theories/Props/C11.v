(** C11 — every page has exactly one owner; freed pages are reused, never lost. *)
From Axv Require Import Base.Bytes Model.Pages Proofs.PagesProofs.
Open Scope N_scope.

(** The ownership checker that is run on every dump is sound: if it accepts, then every page of
    the file other than page zero is exactly one of a tree node, a link of an overflow chain, or a
    member of the free list; none of the three collections lists a page twice (so the free list is
    acyclic and no overflow page belongs to two chains or twice to one); nobody owns a page outside
    the file; and the head and tail recorded in the header are the real ends of the free list. *)
Definition C11_checker_sound_statement : Prop :=
  forall total tree ovf free head tail, check_pages total tree ovf free head tail = true ->
    (forall i, 1 <= i < total ->
       (In i tree /\ ~ In i ovf /\ ~ In i free) \/ (~ In i tree /\ In i ovf /\ ~ In i free) \/ (~ In i tree /\ ~ In i ovf /\ In i free))
    /\ NoDup tree /\ NoDup ovf /\ NoDup free
    /\ (forall x, In x (tree ++ ovf ++ free) -> 1 <= x < total)
    /\ match free with [] => head = None /\ tail = None | x :: _ => head = Some x /\ tail = Some (last free 0) end.
Theorem C11_checker_sound : C11_checker_sound_statement.
Proof.
  intros total tree ovf free head tail H. unfold check_pages in H. apply andb_true_iff in H. destruct H as [H1 H2].
  destruct (owned_sound _ _ _ _ H1) as (A & B & C & D & E).
  repeat (split; [assumption|]). now apply free_list_sound.
Qed.
Check C11_checker_sound : C11_checker_sound_statement.
Print Assumptions C11_checker_sound.

(** Non-vacuity: a file of seven pages: three tree nodes, a two-page chain, one free page. *)
Example C11_example : check_pages 7 [1; 2; 5] [3; 4] [6] (Some 6) (Some 6) = true /\ check_pages 7 [1; 2; 5] [3; 4] [] None None = false.
Proof. split; reflexivity. Qed.
