(** C11 — every page has exactly one owner; freed pages are reused, never lost. *)
From Axv Require Import Base.Bytes Model.Pages Proofs.PagesProofs.
Open Scope N_scope.

(** The ownership checker that is run on every dump is sound: if it accepts, then every page of
    the file other than page zero is exactly one of a tree node, a link of an overflow chain, or a
    member of the free list; none of the three collections lists a page twice (so the free list is
    acyclic and no overflow page belongs to two chains or twice to one); nobody owns a page outside
    the file; and the head and tail recorded in the header are the real ends of the free list. *)
Definition C11_checker_sound_statement : Prop :=
  forall total tree ovf free head tail, check_pages total tree ovf free head tail = true ->
    (forall i, 1 <= i < total ->
       (In i tree /\ ~ In i ovf /\ ~ In i free) \/ (~ In i tree /\ In i ovf /\ ~ In i free) \/ (~ In i tree /\ ~ In i ovf /\ In i free))
    /\ NoDup tree /\ NoDup ovf /\ NoDup free
    /\ (forall x, In x (tree ++ ovf ++ free) -> 1 <= x < total)
    /\ match free with [] => head = None /\ tail = None | x :: _ => head = Some x /\ tail = Some (last free 0) end.
Theorem C11_checker_sound : C11_checker_sound_statement.
Proof.
  intros total tree ovf free head tail H. unfold check_pages in H. apply andb_true_iff in H. destruct H as [H1 H2].
  destruct (owned_sound _ _ _ _ H1) as (A & B & C & D & E).
  repeat (split; [assumption|]). now apply free_list_sound.
Qed.
Check C11_checker_sound : C11_checker_sound_statement.
Print Assumptions C11_checker_sound.

(** Non-vacuity: a file of seven pages: three tree nodes, a two-page chain, one free page. *)
Example C11_example : check_pages 7 [1; 2; 5] [3; 4] [6] (Some 6) (Some 6) = true /\ check_pages 7 [1; 2; 5] [3; 4] [] None None = false.
Proof. split; reflexivity. Qed.

(** The allocator itself (io/pager.rs allocate_page / dealloc_page; Model/FreeList.v, run against
    the pager on every check).  Along every sequence of allocations, link writes, releases of
    B+tree pages and releases of overflow chains (link by link, in chain order, as the engine does
    it): the free list read from the recorded head is an acyclic list; every page other than page
    zero is either handed out or on the free list, never both and never neither; nothing outside
    the file is owned; the recorded head and tail are the ends of the list; no page is handed out
    twice. *)
From Axv Require Import Model.FreeList Proofs.FreeListProofs.
Definition C11_free_list_statement : Prop :=
  forall ops, forallb engine_op ops = true ->
    let s := fst (frun finit ops) in
    NoDup (free_list s) /\ NoDup (used s) /\
    (forall p, 0 < p < total s -> (In p (free_list s) /\ ~ In p (used s)) \/ (In p (used s) /\ ~ In p (free_list s))) /\
    (forall p, In p (free_list s) \/ In p (used s) -> 0 < p < total s) /\
    first s = hd_error (free_list s) /\ last s = last_opt (free_list s).
Theorem C11_free_list : C11_free_list_statement.
Proof. exact free_list_sound. Qed.
Check C11_free_list : C11_free_list_statement.
Print Assumptions C11_free_list.

(** Freed pages are reused before the file grows: while the free list is not empty an allocation
    returns its head, leaves the file size alone and leaves the rest of the list. *)
Definition C11_free_pages_reused_statement : Prop :=
  forall ops x r, forallb engine_op ops = true ->
    let s := fst (frun finit ops) in
    free_list s = x :: r ->
    snd (alloc s) = FId x /\ total (fst (alloc s)) = total s /\ free_list (fst (alloc s)) = r.
Theorem C11_free_pages_reused : C11_free_pages_reused_statement.
Proof. exact free_pages_reused. Qed.
Check C11_free_pages_reused : C11_free_pages_reused_statement.
Print Assumptions C11_free_pages_reused.

(** The restriction to chain-order releases cannot be dropped: a freed overflow page keeps the
    `next` it had as a chain link, so releasing the first link of a chain on its own makes the
    allocator hand out the second link while it is still in use.  (Not reachable through the
    engine, which always releases whole chains front to back; the same sequence is replayed on
    the pager on every run and gives the same answers.) *)
Definition C11_single_link_release_statement : Prop :=
  let ops := [FAlloc; FAlloc; FLink 1 2; FDeallocO 1; FAlloc; FAlloc] in
  snd (frun finit ops) = [FId 1; FId 2; FOk; FOk; FId 1; FId 2] /\ ~ NoDup (used (fst (frun finit ops))).
Theorem C11_single_link_release_refuted : C11_single_link_release_statement.
Proof.
  split; [reflexivity|]. vm_compute. intros H. inversion H as [|? ? Hn _]; subst. apply Hn. right. now left.
Qed.
Check C11_single_link_release_refuted : C11_single_link_release_statement.
Print Assumptions C11_single_link_release_refuted.

(** Non-vacuity: a chain of two links and a B+tree page are released and handed out again in release order. *)
Example C11_allocator_example :
  let ops := [FAlloc; FAlloc; FLink 1 2; FAlloc; FDeallocChain [1; 2]; FDeallocB 3; FAlloc; FAlloc; FAlloc; FAlloc] in
  forallb engine_op ops = true /\
  snd (frun finit ops) = [FId 1; FId 2; FOk; FId 3; FOk; FOk; FId 1; FId 2; FId 3; FId 4].
Proof. split; reflexivity. Qed.
