(** C15 — schema changes are transactional and the catalog stays coherent. *)
From Axv Require Import Base.Bytes Model.Values Spec.RefDB Proofs.RefDBProofs Proofs.DdlProofs.
Open Scope N_scope.

(** Transactional: DDL is an ordinary statement of the history, so for every history and every
    session that does not commit, whatever it created, dropped or altered, the committed state,
    the other sessions and every answer given to anybody else are those of the history without
    that session; and a failing DDL statement changes nothing. *)
Definition C15_transactional_statement : Prop :=
  (forall k l, never_commits k l ->
     let a := rung l init_state in
     let b := rung (erase k l) init_state in
     committed a = committed b /\ answers k l init_state = answers k (erase k l) init_state)
  /\ (forall st s st', step st (AExec s) = (AR RErr, st') -> committed st' = committed st /\ sessions st' = sessions st).
Theorem C15_transactional : C15_transactional_statement.
Proof.
  split.
  - intros k l H. destruct (erase_session k l init_state init_state) as [[A _] B];
      [split; [reflexivity|intros; reflexivity]|exact H|]. split; [exact A|exact B].
  - exact failed_exec_no_effect.
Qed.
Check C15_transactional : C15_transactional_statement.
Print Assumptions C15_transactional.

(** Coherent catalog: no statement - successful or not, DDL or DML - disturbs any other table;
    CREATE succeeds exactly on a free name and yields an empty table of the declared shape;
    DROP succeeds exactly on an existing name, frees it, and the name can be re-created with any
    shape; ADD COLUMN keeps every row and reads the default (or NULL) in the new column; DROP
    COLUMN removes exactly that position from every row. *)
Definition C15_catalog_statement : Prop :=
  (forall d n s tid', target s <> Some tid' -> let '(_, d', _) := exec d n s in get_table d' tid' = get_table d tid')
  /\ (forall d n tid cols uniq,
        match get_table d tid with
        | None => exists d', exec d n (SCreate tid cols uniq) = (RDdl, d', n) /\
                             get_table d' tid = Some {| t_cols := cols; t_uniq := uniq; t_rows := [] |}
        | Some _ => exec d n (SCreate tid cols uniq) = (RErr, d, n)
        end)
  /\ (forall d n tid,
        match get_table d tid with
        | Some _ => exists d', exec d n (SDrop tid) = (RDdl, d', n) /\ get_table d' tid = None /\
                      forall cols uniq, exists d'', exec d' n (SCreate tid cols uniq) = (RDdl, d'', n) /\
                        get_table d'' tid = Some {| t_cols := cols; t_uniq := uniq; t_rows := [] |}
        | None => exec d n (SDrop tid) = (RErr, d, n)
        end)
  /\ (forall d n tid c t d' n', get_table d tid = Some t -> exec d n (SAddColumn tid c) = (RDdl, d', n') ->
        exists t', get_table d' tid = Some t' /\ t_cols t' = t_cols t ++ [c] /\ t_uniq t' = t_uniq t /\
          t_rows t' = map (fun r => (fst r, snd r ++ [match c_default c with Some v => v | None => SNull end])) (t_rows t))
  /\ (forall d n tid i t d' n', get_table d tid = Some t -> exec d n (SDropColumn tid i) = (RDdl, d', n') ->
        exists t', get_table d' tid = Some t' /\
          t_cols t' = firstn i (t_cols t) ++ skipn (S i) (t_cols t) /\
          t_rows t' = map (fun r => (fst r, firstn i (snd r) ++ skipn (S i) (snd r))) (t_rows t)).
Theorem C15_catalog : C15_catalog_statement.
Proof.
  split; [exact exec_frame|]. split; [exact create_spec|]. split; [exact drop_spec|].
  split; [exact add_column_spec|exact drop_column_spec].
Qed.
Check C15_catalog : C15_catalog_statement.
Print Assumptions C15_catalog.

(** Non-vacuity: create, insert, add a column with a default, drop, re-create under the same id. *)
Example C15_example :
  let c k d := {| c_kind := k; c_notnull := false; c_default := d |} in
  let hist := [AExec (SCreate 1 [c TInt None] []); AExec (SInsert 1 None [[ELit (SInt 5%Z)]]);
               AExec (SAddColumn 1 (c TInt (Some (SInt 9%Z))));
               ABegin 1; AStmt 1 (SDrop 1); ARollback 1] in
  match get_table (committed (run hist init_state)) 1 with
  | Some t => map snd (t_rows t) = [[SInt 5%Z; SInt 9%Z]] | None => False end.
Proof. reflexivity. Qed.
