(** C05 — query answers match SQL semantics.  The theorems here decide the mechanism part:
    the expression parser and the evaluator's predicate logic.  Joins, aggregates, grouping,
    DISTINCT, ORDER BY, LIMIT/OFFSET and DML are specified by Spec.RefDB, against which the engine
    is run on generated populations and queries (correspondence streams of ./check C05). *)
From Coq Require Import NArith List Bool.
From Axv Require Import Base.Bytes Model.Values Model.PrattOps Model.Pratt Gen.GenPratt Proofs.PrattProofs Gen.GenOkPratt
                        Model.Eval3 Proofs.Eval3Proofs Spec.RefDB.
Import ListNotations.
Open Scope N_scope.

(** The parser, with the binding powers found in the source today, is the exact inverse of the
    minimal-parentheses printer of that table, for expression trees of any depth. *)
Definition C05_parse_print_statement : Prop :=
  forall e, exists fuel, parse_bp infix_bp pnot fuel 0 (pr infix_bp pnot 0 0 e) = Some (e, []).
Theorem C05_parse_print : C05_parse_print_statement.
Proof. exact (parse_print infix_bp pnot bp_pos_holds pnot_pos_holds). Qed.
Check C05_parse_print : C05_parse_print_statement.
Print Assumptions C05_parse_print.

(** ... and that table orders the operators as SQL documents. *)
Theorem C05_sql_precedence : sql_order_ok.
Proof. exact sql_order_ok_holds. Qed.
Print Assumptions C05_sql_precedence.

(** Precedence facts of the parser with today's table (each is a computation of the model). *)
Definition x (k : N) := PId k.
Example prec_not_and : parse infix_bp pnot [TNot; TId 0; TBin BAnd; TId 1] = Some (PBin BAnd (PNot (x 0)) (x 1), []).
Proof. vm_compute. reflexivity. Qed.
Example prec_not_cmp : parse infix_bp pnot [TNot; TId 0; TBin BEq; TId 1] = Some (PNot (PBin BEq (x 0) (x 1)), []).
Proof. vm_compute. reflexivity. Qed.
Example prec_or_and : parse infix_bp pnot [TId 0; TBin BOr; TId 1; TBin BAnd; TId 2] = Some (PBin BOr (x 0) (PBin BAnd (x 1) (x 2)), []).
Proof. vm_compute. reflexivity. Qed.
Example prec_add_mul : parse infix_bp pnot [TId 0; TBin BPlus; TId 1; TBin BMul; TId 2] = Some (PBin BPlus (x 0) (PBin BMul (x 1) (x 2)), []).
Proof. vm_compute. reflexivity. Qed.
Example prec_left_assoc : parse infix_bp pnot [TId 0; TBin BMinus; TId 1; TBin BMinus; TId 2] = Some (PBin BMinus (PBin BMinus (x 0) (x 1)) (x 2), []).
Proof. vm_compute. reflexivity. Qed.
Example prec_cmp_add : parse infix_bp pnot [TId 0; TBin BPlus; TNum 1; TBin BLt; TId 2; TBin BAnd; TId 3] =
  Some (PBin BAnd (PBin BLt (PBin BPlus (x 0) (PNum 1)) (x 2)) (x 3), []).
Proof. vm_compute. reflexivity. Qed.

(** The evaluator's predicate forms are SQL three-valued logic, for all inputs. *)
Definition C05_eval_3vl_statement : Prop :=
  (forall l r, mech_and l r = tv_and l r) /\ (forall l r, mech_or l r = tv_or l r) /\ (forall v, mech_not v = tv_not v)
  /\ (forall ge le neg, mech_between ge le neg = (if neg then tv_not (tv_and ge le) else tv_and ge le))
  /\ (forall cs neg, mech_inlist false cs neg = (let t := fold_left tv_or cs (Some false) in if neg then tv_not t else t))
  /\ (forall cs neg, mech_inlist true cs neg = None)
  /\ (forall v, mech_keep v = is_true (tv_val v)).
Theorem C05_eval_3vl : C05_eval_3vl_statement.
Proof.
  split; [exact and_is_3vl|]. split; [exact or_is_3vl|]. split; [exact not_is_3vl|].
  split; [exact between_is_3vl|]. split; [exact inlist_is_3vl|]. split; [reflexivity|exact keep_is_true].
Qed.
Check C05_eval_3vl : C05_eval_3vl_statement.
Print Assumptions C05_eval_3vl.
