(** C01 — acknowledged commits survive a crash at any later instant. *)
From Coq Require Import List NArith ZArith Bool.
From Axv Require Import Base.Bytes Model.Crash Model.CrashRun Proofs.CrashRecover Proofs.CrashEngine Proofs.CrashTheorems
     Proofs.CrashWitness.
Import ListNotations.
Open Scope N_scope.

(** Full strength, for the protocol model (Model/Crash.v) with an arbitrary logical database: for every history of
    begins, logged operations, commits, rollbacks, ENDs, log forces and checkpoints (any interleaving of any number
    of transactions; a crash point is the end of a prefix, and every prefix is such a history), crash + recovery
    yields exactly the versions written by the transactions whose COMMIT is durable, in the order written - and
    every transaction whose commit call returned is among them.
    Hypotheses: checkpoints happen while no transaction is open (the other case is refuted in C02), and operations
    of winners that the id-ordered replay reorders commute (overlapping committed transactions write disjoint rows).
    The data file is the image of the last completed checkpoint: the windows in which it is not (inside a
    checkpoint, after an eviction) are outside the model and are the recorded finding C01-crash-inside-checkpoint. *)
Definition C01_statement : Prop :=
  forall (db op : Type) (apply : op -> db -> db) (init : db) (evs : list (ev (op := op))),
    quiescent evs -> winners_commute apply (e_disk (run evs)) ->
    recovered_view apply init (e_disk (run evs)) = spec_view apply init (run evs)
    /\ (forall t, memN t (g_acked (run evs)) = true -> memN t (g_durable (run evs)) = true).
Theorem C01_durable : C01_statement.
Proof.
  intros db op apply init evs Hq Hc. split.
  - exact (crash_recovery_exact apply init evs Hq Hc).
  - intros t. exact (acked_is_durable evs t Hq).
Qed.
Check C01_durable : C01_statement.
Print Assumptions C01_durable.

(** The mechanism at disk level (no engine): on every well-formed image, recovery computes the durable contents. *)
Definition C01_recover_statement : Prop :=
  forall (db op : Type) (apply : op -> db -> db) (init : db) (d : disk (op := op)),
    WF d -> winners_commute apply d -> recovered_view apply init d = durable_contents apply init d.
Theorem C01_recover : C01_recover_statement.
Proof. intros db op apply init d. exact (recover_view apply init d). Qed.
Check C01_recover : C01_recover_statement.
Print Assumptions C01_recover.

(** Non-vacuity: a history with overlapping transactions, a rollback, a checkpoint and winners replayed out of
    write order meets the hypotheses; three commits were acknowledged and are found after the crash. *)
Example C01_example :
  quiescent good_history /\ winners_commute kv_apply (e_disk (run good_history))
  /\ recovered_view kv_apply None (e_disk (run good_history)) = Some [(2, 9%Z); (4, 1%Z)]
  /\ g_acked (run good_history) = [0; 2; 3].
Proof.
  split; [exact good_history_quiescent|split; [exact good_history_commutes|]].
  destruct good_history_contents as (A & _ & B & _). split; assumption.
Qed.
