(** C18 — row versions decode to the right values for every snapshot. *)
From Axv Require Import Base.Bytes Model.Values Model.Tuple Proofs.TupleProofs.
Open Scope N_scope.

Definition init_hist (c : N) (t0 : tuple) : hist := {| h_versions := [(c, decode_last t0)]; h_deleter := None |}.

(** Full strength: after any chain of updates, deletes and trims by any transactions, every snapshot
    decodes exactly the version it is entitled to (the newest one whose creator it sees, unless it
    sees the deleter). *)
Definition C18_statement : Prop :=
  forall kk vk row c es t0 t s,
    build kk vk row c = TOk t0 -> apply_evs vk t0 es = Some t ->
    decode_for t s = entitled s (spec_evs vk t0 (init_hist c t0) es).

(** False of the faithful model: an update by another transaction is visible to a reader that
    cannot see that transaction (the new version keeps the creator of the original row). *)
Theorem C18_refuted : ~ C18_statement.
Proof.
  intros H.
  specialize (H [KBigUInt] [KInt] [VBigUInt 7%Z; VInt 5%Z] 10
                [EUpd 12 [(0%nat, VInt 6%Z)]]
                {| t_xmin := 10; t_xmax := None; t_version := 0; t_keys := [VBigUInt 7%Z]; t_vals := [VInt 5%Z]; t_deltas := [] |}
                {| t_xmin := 10; t_xmax := None; t_version := 1; t_keys := [VBigUInt 7%Z]; t_vals := [VInt 6%Z];
                   t_deltas := [{| d_xmin := 10; d_version := 0; d_nulls := [false]; d_changes := [(0%nat, VInt 5%Z)] |}] |}
                {| s_xid := 11; s_xmin := 10; s_xmax := Some 10; s_active := []; s_aborted := [] |}
                eq_refl eq_refl).
  vm_compute in H. discriminate H.
Qed.
Check C18_refuted : ~ C18_statement.
Print Assumptions C18_refuted.

(** Outside the recorded class (every update of the row is made by the transaction that created
    it) the statement holds for all schemas, rows, chains and snapshots; and for every update the
    reverse delta reconstructs the previous version exactly, and the latest version is the old one
    with the modifications applied. *)
Definition C18_outside_known_statement : Prop :=
  (forall kk vk row c es t0 t s,
     build kk vk row c = TOk t0 -> same_creator c es -> apply_evs vk t0 es = Some t ->
     decode_for t s = entitled s (spec_evs vk t0 (init_hist c t0) es))
  /\ (forall vk t mods xid t', add_version vk t mods xid = TOk t' -> mods <> [] ->
        exists d rest, t_deltas t' = d :: rest /\ rest = t_deltas t /\ apply_delta (t_vals t') d = t_vals t)
  /\ (forall vk t mods xid t', add_version vk t mods xid = TOk t' ->
        decode_last t' = t_keys t ++ mapi (fun i v => match lookup i mods with Some nv => nv | None => v end) (t_vals t)).
Theorem C18_outside_known : C18_outside_known_statement.
Proof.
  split; [exact decode_is_entitled|]. split; [exact apply_delta_inverts|exact latest_after_update].
Qed.
Check C18_outside_known : C18_outside_known_statement.
Print Assumptions C18_outside_known.

(** Trimming history with any horizon never alters what any snapshot decodes, nor the latest version,
    for every row the engine can build (any chain, any updaters). *)
Definition C18_vacuum_preserves_statement : Prop :=
  forall kk vk row c es t0 t h s,
    build kk vk row c = TOk t0 -> apply_evs vk t0 es = Some t ->
    decode_for (vacuum t h) s = decode_for t s /\ decode_last (vacuum t h) = decode_last t.
Theorem C18_vacuum_preserves : C18_vacuum_preserves_statement.
Proof.
  intros kk vk row c es t0 t h s Hb Hr.
  destruct (build_wf kk vk row c t0 Hb) as [Hwf0 _].
  destruct (apply_evs_wf vk es t0 t Hwf0 Hr) as [Hwf _].
  split; [now apply vacuum_preserves|reflexivity].
Qed.
Check C18_vacuum_preserves : C18_vacuum_preserves_statement.
Print Assumptions C18_vacuum_preserves.

(** Non-vacuity: a same-creator chain with an update, a NULL, a delete and a trim. *)
Example C18_example :
  exists t0 t,
    build [KBigUInt] [KInt; KBlob] [VBigUInt 1%Z; VInt 0%Z; VNull] 7 = TOk t0 /\
    same_creator 7 [EUpd 7 [(0%nat, VInt 5%Z); (1%nat, VBlob [102])]; EVac 7; EDel 9] /\
    apply_evs [KInt; KBlob] t0 [EUpd 7 [(0%nat, VInt 5%Z); (1%nat, VBlob [102])]; EVac 7; EDel 9] = Some t /\
    t_deltas t <> [].
Proof.
  eexists; eexists. split; [reflexivity|]. split; [repeat constructor|]. split; [reflexivity|]. discriminate.
Qed.
