(** C20 — the wire protocol carries every message intact and rejects garbage.
    Only statements, [exact]s, [Check]s and [Print Assumptions]. *)
From Axv Require Import Base.Bytes Model.WireTags Gen.GenWire Model.Wire Proofs.WireProofs Gen.GenOkWire.
Open Scope N_scope.

Definition C20_statement : Prop :=
  (* every request and response is received exactly as sent *)
  (forall r, req_wf r -> decode_request (encode_request r) = WOk r)
  /\ (forall p, resp_wf p -> decode_response (encode_response p) = WOk p)
  (* framing: a body within the cap is delivered intact, followed by the rest of the stream *)
  /\ (forall data rest, lenN data <= max_message_size ->
        exists f, write_message data = WOk f /\ read_message (f ++ rest) = WOk (data, rest))
  (* anything above the cap is rejected by both ends *)
  /\ (forall data, max_message_size < lenN data -> write_message data = WErr ETooLarge)
  /\ (forall input, 4 <= lenN input -> max_message_size < le_dec (firstn 4 input) ->
        read_message input = WErr ETooLarge)
  (* any byte sequence is answered with a value or a protocol error: never a panic ... *)
  /\ (forall data, decode_request data <> WErr EPanic)
  /\ (forall data, decode_response data <> WErr EPanic)
  (* ... and never an allocation larger than the message itself (vector slots requested) *)
  /\ (forall data, snd (decode_response_alloc data) <= lenN data).

Theorem C20_holds : C20_statement.
Proof.
  repeat split.
  - exact (request_roundtrip req_ops_ok_holds).
  - exact (response_roundtrip status_ok_holds).
  - intros data rest H. exact (frame_roundtrip data rest H max_message_fits).
  - exact frame_reject_write.
  - exact frame_reject_read.
  - exact decode_request_no_panic.
  - exact decode_response_no_panic.
  - exact decode_response_alloc_bound.
Qed.
Check C20_holds : C20_statement.
Print Assumptions C20_holds.

(** Non-vacuity: a non-trivial well-formed response (non-ASCII text, empty string, two rows). *)
Example C20_wf_example :
  resp_wf (PRows [[110; 195; 169]; []] [[[49]; []]; [[226; 130; 172]; [120]]]).
Proof.
  cbn [resp_wf]. unfold row_wf, str_wf, bytes_ok, byte_ok, lenN.
  repeat split; repeat constructor; try (vm_compute; reflexivity); discriminate.
Qed.
