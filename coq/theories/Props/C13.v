(** C13 — VACUUM frees space without changing what anyone can see. *)
From Axv Require Import Base.Bytes Model.Values Model.Tuple Model.Coord Spec.RefDB
  Proofs.TupleProofs Proofs.CoordProofs Proofs.RefDBProofs Proofs.VacuumProofs.
Open Scope N_scope.

(** Mechanism level, for every tree (any list of stored rows with any stamps and version chains),
    every aborted set and every horizon.  The pass removes rows created by aborted transactions and
    rows whose deleter is not aborted, erases deletes by aborted transactions, and trims old
    versions.  If the vacuum-time snapshot [s] judges every stamp committed exactly when it is not
    aborted, and a later snapshot [s'] reads every surviving (non-aborted) stamp as committed -
    which is what it does once finished transactions have been forgotten - then [s'] reads from
    the vacuumed tree exactly the rows, values and order that [s] read from the original tree.
    The pass never adds rows, never lengthens a version chain and never touches current values. *)
Definition C13_pass_statement : Prop :=
  forall aborted h store s s',
    Forall wf_tuple store ->
    Forall (before_vacuum aborted s) store -> Forall (after_vacuum aborted s') store ->
    read_store s' (vac_store aborted h store) = read_store s store
    /\ (length (vac_store aborted h store) <= length store)%nat
    /\ Forall (fun t' => exists t, In t store /\ (length (t_deltas t') <= length (t_deltas t))%nat
                                   /\ t_vals t' = t_vals t /\ t_keys t' = t_keys t)
              (vac_store aborted h store).
Theorem C13_pass : C13_pass_statement.
Proof.
  intros aborted h store s s' Hw Hb Ha. split; [now apply vac_store_preserves|apply vac_store_shrinks].
Qed.
Check C13_pass : C13_pass_statement.
Print Assumptions C13_pass.

(** The two snapshot conditions are what the coordinator provides: in a reachable state with no
    active transaction (VACUUM aborts them all first) the snapshot handed out judges every known
    transaction committed exactly when it is not aborted; and once [vacuum_transactions] has run,
    a committed transaction - and an aborted one below the horizon, which is why its stamps must
    have been erased - reads as committed. *)
Definition C13_snapshots_statement : Prop :=
  (forall ops, no_vacuum ops ->
     let c := fold_left cstep ops init_coord in
     no_active c ->
     let '(_, _, s) := begin c in
     forall x tx, find_tx x (c_txs c) = Some tx -> committed_before s x = negb (aborted_in c x) /\ s_xid s <> x)
  /\ (forall ops x, no_vacuum ops ->
        let c := fold_left cstep ops init_coord in
        x <= c_last_committed c ->
        (forall tx, find_tx x (c_txs c) = Some tx ->
           x_state tx = Committed \/ (x_state tx = Aborted /\ x < c_last_committed c)) ->
        let '(_, _, s') := begin (vacuum_txs c) in committed_before s' x = true).
Theorem C13_snapshots : C13_snapshots_statement.
Proof.
  split.
  - intros ops Hnv c Hna. apply vacuum_snapshot_judges; [apply reach_inv; exact Hnv|exact Hna].
  - intros ops x Hnv c Hle Hx. apply forgotten_reads_committed; [apply reach_inv; exact Hnv|exact Hle|exact Hx].
Qed.
Check C13_snapshots : C13_snapshots_statement.
Print Assumptions C13_snapshots.

(** Reference level: VACUUM, wherever it is placed in a history and however often, changes neither
    the state nor any later answer. *)
Definition C13_reference_statement : Prop :=
  forall l1 l2 st, run (l1 ++ AVacuum :: l2) st = run (l1 ++ l2) st.
Theorem C13_reference : C13_reference_statement.
Proof.
  intros l1 l2 st. unfold run. rewrite !fold_left_app. cbn [fold_left step snd]. reflexivity.
Qed.
Check C13_reference : C13_reference_statement.
Print Assumptions C13_reference.

(** Non-vacuity: a tree with a live row carrying one old version, a row inserted by aborted
    transaction 3, a row whose delete by 3 was rolled back and a row deleted by committed 2. *)
Example C13_example :
  let ab := fun x => x =? 3 in
  let mk xmin xmax v ds := {| t_xmin := xmin; t_xmax := xmax; t_version := 0; t_keys := [VBigUInt 1%Z];
                              t_vals := [VInt v]; t_deltas := ds |} in
  let store := [mk 1 None 10%Z [{| d_xmin := 1; d_version := 0; d_nulls := [false]; d_changes := [(0%nat, VInt 9%Z)] |}];
                mk 3 None 11%Z []; mk 1 (Some 3) 12%Z []; mk 1 (Some 2) 13%Z []] in
  let s := {| s_xid := 4; s_xmin := 4; s_xmax := Some 2; s_active := []; s_aborted := [3] |} in
  let s' := {| s_xid := 6; s_xmin := 6; s_xmax := Some 5; s_active := []; s_aborted := [] |} in
  Forall wf_tuple store /\ Forall (before_vacuum ab s) store /\ Forall (after_vacuum ab s') store
  /\ length (vac_store ab 2 store) = 2%nat
  /\ read_store s store = [[VBigUInt 1%Z; VInt 10%Z]; [VBigUInt 1%Z; VInt 12%Z]].
Proof.
  cbn zeta. split; [repeat (constructor; [repeat constructor|]); constructor|].
  split; [|split; [|split; reflexivity]].
  - apply Forall_forall. intros t Ht. cbn [In] in Ht.
    repeat (destruct Ht as [<-|Ht]; [intros x Hx; cbn in Hx;
      repeat (destruct Hx as [<-|Hx]; [split; [reflexivity|discriminate]|]); contradiction|]). contradiction.
  - apply Forall_forall. intros t Ht. cbn [In] in Ht.
    repeat (destruct Ht as [<-|Ht]; [intros x Hx Hab; cbn in Hx;
      repeat (destruct Hx as [<-|Hx]; [first [discriminate Hab|split; [reflexivity|discriminate]]|]); contradiction|]). contradiction.
Qed.
