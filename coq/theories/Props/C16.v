(** C16 — any statement yields a result or an error: never a panic, never a hang. *)
From Coq Require Import NArith List Lia.
From Axv Require Import Model.PrattOps Model.Pratt Gen.GenPratt Spec.RefDB Proofs.RefDBProofs Proofs.PrattTermination.
Import ListNotations.

(** The expression parser terminates on every token sequence, with today's binding-power table
    (regenerated from the parser source on every run): run with fuel 2 * tokens + 2 it never runs
    out of fuel, so every [None] of the model is a rejection of the input, not a loop cut short;
    the bound is linear in the length of the input.  (The code additionally refuses expressions
    nested deeper than 256 levels, which bounds its recursion depth.) *)
Definition C16_parser_terminates_statement : Prop :=
  forall ts : list ptok,
    parse3 infix_bp pnot (2 * length ts + 2) 0%N ts <> OutOfFuel
    /\ erase (parse3 infix_bp pnot (2 * length ts + 2) 0%N ts) = parse infix_bp pnot ts.
Theorem C16_parser_terminates : C16_parser_terminates_statement.
Proof. intros ts. apply parse_terminates. Qed.
Check C16_parser_terminates : C16_parser_terminates_statement.
Print Assumptions C16_parser_terminates.

(** Reference level: the reference is total - every statement in every state has an answer
    (rows, a count, DDL done, or an error) - and a statement answered with an error leaves the
    committed state and every session as they were. *)
Definition C16_reference_total_statement : Prop :=
  (forall st a, exists r st', step st a = (r, st'))
  /\ (forall st s st', step st (AExec s) = (AR RErr, st') -> committed st' = committed st /\ sessions st' = sessions st)
  /\ (forall st k s st', step st (AStmt k s) = (AR RErr, st') -> committed st' = committed st /\ sessions st' = sessions st).
Theorem C16_reference_total : C16_reference_total_statement.
Proof.
  split; [intros st a; destruct (step st a) as [r st']; now exists r, st'|].
  split; [exact failed_exec_no_effect|exact failed_stmt_no_effect].
Qed.
Check C16_reference_total : C16_reference_total_statement.
Print Assumptions C16_reference_total.

(** Non-vacuity: a token soup is rejected without exhausting the fuel; a well-formed input is parsed. *)
Example C16_example :
  parse3 infix_bp pnot 8 0%N [TLP; TBin BPlus; TRP] = Reject
  /\ exists e, parse3 infix_bp pnot 8 0%N [TNum 1%N; TBin BPlus; TNum 2%N] = Done e [].
Proof. split; [reflexivity|eexists; reflexivity]. Qed.
