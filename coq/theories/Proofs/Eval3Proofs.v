(** The evaluator's predicate forms compute SQL three-valued logic (the RefDB semantics). *)
From Coq Require Import List Bool.
From Axv Require Import Base.Bytes Model.Values Model.Eval3 Spec.RefDB.
Import ListNotations.

Lemma and_is_3vl l r : mech_and l r = tv_and l r.
Proof. destruct l as [[]|], r as [[]|]; reflexivity. Qed.
Lemma or_is_3vl l r : mech_or l r = tv_or l r.
Proof. destruct l as [[]|], r as [[]|]; reflexivity. Qed.
Lemma not_is_3vl v : mech_not v = tv_not v.
Proof. reflexivity. Qed.

Lemma between_is_3vl ge le neg :
  mech_between ge le neg = (if neg then tv_not (tv_and ge le) else tv_and ge le).
Proof. destruct ge as [[]|], le as [[]|], neg; reflexivity. Qed.

(** IN over a list: the fold of OR over the element comparisons, then the optional negation. *)
Lemma fold_or_spec cs : forall acc,
  fold_left tv_or cs acc =
  if match acc with Some true => true | _ => false end
     || existsb (fun c => match c with Some true => true | _ => false end) cs then Some true
  else if match acc with None => true | _ => false end
          || existsb (fun c => match c with None => true | _ => false end) cs then None
  else Some false.
Proof.
  induction cs as [|c cs IH]; intros acc; cbn [fold_left existsb].
  - destruct acc as [[]|]; reflexivity.
  - rewrite IH. destruct acc as [[]|], c as [[]|]; cbn;
      repeat match goal with |- context [existsb ?f cs] => destruct (existsb f cs) end; reflexivity.
Qed.

Lemma inlist_is_3vl cs neg :
  mech_inlist false cs neg =
  (let t := fold_left tv_or cs (Some false) in if neg then tv_not t else t).
Proof.
  cbn zeta. rewrite fold_or_spec. unfold mech_inlist. cbn [orb].
  destruct (existsb _ cs); [destruct neg; reflexivity|].
  destruct (existsb _ cs); destruct neg; reflexivity.
Qed.

Lemma keep_is_true v : mech_keep v = is_true (tv_val v).
Proof. destruct v as [[]|]; reflexivity. Qed.
