(** Proofs about the slotted page (Model/Slotted.v): the page invariant is preserved by every
    operation - including the defragmentation an insert triggers and both cases of replace - and
    the page refines a plain list of cells. *)
From Coq Require Import List ZArith NArith Bool Lia ZifyBool ZifyN Permutation Sorting.Sorted PeanoNat Morphisms RelationClasses.
From Axv Require Import Model.Slotted.
Import ListNotations.
Open Scope N_scope.
Ltac Zify.zify_post_hook ::= Z.div_mod_to_equations.

(** ** list helpers *)
Lemma length_set_nth {A} i (x : A) l : length (set_nth i x l) = length l.
Proof. revert i; induction l as [|y l IH]; intros [|i]; cbn; auto. Qed.
Lemma nth_error_set_nth_eq {A} i (x : A) l : (i < length l)%nat -> nth_error (set_nth i x l) i = Some x.
Proof. revert i; induction l as [|y l IH]; intros [|i] H; cbn in *; try lia; auto. apply IH; lia. Qed.
Lemma nth_error_set_nth_neq {A} i j (x : A) l : i <> j -> nth_error (set_nth i x l) j = nth_error l j.
Proof. revert i j; induction l as [|y l IH]; intros [|i] [|j] H; cbn; auto; try congruence. Qed.
Lemma set_nth_map {A B} (f : A -> B) i x l : map f (set_nth i x l) = set_nth i (f x) (map f l).
Proof. revert i; induction l as [|y l IH]; intros [|i]; cbn; auto. now rewrite IH. Qed.

Lemma nth_error_insert_at_eq {A} i (x : A) l : (i <= length l)%nat -> nth_error (insert_at i x l) i = Some x.
Proof. revert l; induction i as [|i IH]; intros [|y l] H; cbn in *; auto; try lia. apply IH; lia. Qed.
Lemma length_insert_at {A} i (x : A) l : length (insert_at i x l) = S (length l).
Proof. revert l; induction i as [|i IH]; intros [|y l]; cbn; auto. Qed.
Lemma in_insert_at {A} i (x y : A) l : In y (insert_at i x l) <-> y = x \/ In y l.
Proof.
  revert l; induction i as [|i IH]; intros [|z l]; cbn; try tauto; try (intuition congruence).
  rewrite IH. intuition congruence.
Qed.
Lemma insert_at_map {A B} (f : A -> B) i x l : map f (insert_at i x l) = insert_at i (f x) (map f l).
Proof. revert l; induction i as [|i IH]; intros [|y l]; cbn; auto. now rewrite IH. Qed.
Lemma NoDup_insert_at {A} i (x : A) l : NoDup l -> ~ In x l -> NoDup (insert_at i x l).
Proof.
  revert l; induction i as [|i IH]; intros [|y l] Hn Hx; cbn; try (constructor; auto).
  - inversion Hn; subst. rewrite in_insert_at. cbn in Hx. intuition.
  - inversion Hn; subst. apply IH; auto. cbn in Hx; tauto.
Qed.

Lemma in_remove_at {A} i (y : A) l : In y (remove_at i l) -> In y l.
Proof. revert i; induction l as [|z l IH]; intros [|i]; cbn; auto. intros [H|H]; eauto. Qed.
Lemma remove_at_map {A B} (f : A -> B) i l : map f (remove_at i l) = remove_at i (map f l).
Proof. revert i; induction l as [|y l IH]; intros [|i]; cbn; auto. now rewrite IH. Qed.
Lemma NoDup_remove_at {A} i (l : list A) : NoDup l -> NoDup (remove_at i l).
Proof.
  revert i; induction l as [|y l IH]; intros [|i] H; cbn; auto; inversion H; subst; auto.
  constructor; auto. intro Hin. apply in_remove_at in Hin. contradiction.
Qed.
Lemma length_remove_at {A} i (l : list A) : (i < length l)%nat -> S (length (remove_at i l)) = length l.
Proof. revert i; induction l as [|y l IH]; intros [|i] H; cbn in *; try lia. rewrite IH; lia. Qed.

(** ** the page bytes *)
Section Proofs.
Variables chdr phdr : N.
Hypothesis chdr_pos : 0 < chdr.
Notation total := (total chdr).
Notation storage := (storage chdr).
Notation write := (write chdr).

Definition disj (o1 t1 o2 t2 : N) : Prop := o1 + t1 <= o2 \/ o2 + t2 <= o1.
Lemma overlaps_false o1 t1 o2 t2 : overlaps o1 t1 o2 t2 = false <-> disj o1 t1 o2 t2.
Proof. unfold overlaps, disj. rewrite andb_false_iff, !N.ltb_ge. lia. Qed.
Lemma total_pos c : 0 < total c.
Proof. unfold Slotted.total. lia. Qed.

Lemma read_write_same m o c : read (write m o c) o = Some c.
Proof. unfold read, Slotted.write. cbn [find fst]. now rewrite N.eqb_refl. Qed.

Lemma find_filter {A} (P Q : A -> bool) m e : find P m = Some e -> Q e = true -> find P (filter Q m) = Some e.
Proof.
  induction m as [|x m IH]; cbn; [discriminate|]. destruct (P x) eqn:Px.
  - intros [= ->] Hq. rewrite Hq. cbn. now rewrite Px.
  - intros Hf Hq. destruct (Q x); cbn; [rewrite Px|]; auto.
Qed.

Lemma read_write_other m o c o' c' :
  read m o' = Some c' -> disj o' (total c') o (total c) -> read (write m o c) o' = Some c'.
Proof.
  intros Hr Hd. unfold read in *. unfold Slotted.write. cbn [find fst].
  assert (o <> o') by (pose proof (total_pos c); pose proof (total_pos c'); unfold disj in Hd; lia).
  destruct (N.eqb_spec o o'); [contradiction|].
  destruct (find (fun e => fst e =? o') m) as [e|] eqn:E; [|discriminate]. injection Hr as <-.
  apply find_some in E as E'. destruct E' as [_ Ho]. apply N.eqb_eq in Ho.
  erewrite find_filter; eauto. cbn. rewrite Ho. apply negb_true_iff, overlaps_false. exact Hd.
Qed.

(** ** sums *)
Definition sumtot (l : list cell) : N := fold_right (fun c a => total c + a) 0 l.
Lemma sumtot_cons c l : sumtot (c :: l) = total c + sumtot l.
Proof. reflexivity. Qed.
Lemma sumtot_nil : sumtot [] = 0.
Proof. reflexivity. Qed.
Lemma sumtot_insert_at i c l : sumtot (insert_at i c l) = total c + sumtot l.
Proof.
  revert l; induction i as [|i IH]; intros [|y l]; cbn [insert_at]; rewrite ?sumtot_cons, ?sumtot_nil; auto.
  rewrite IH. lia.
Qed.
Lemma sumtot_remove_at i c l : nth_error l i = Some c -> sumtot (remove_at i l) + total c = sumtot l.
Proof.
  revert i; induction l as [|y l IH]; intros [|i] H; cbn [nth_error remove_at] in *; try discriminate; rewrite ?sumtot_cons.
  - injection H as ->. lia.
  - specialize (IH _ H). lia.
Qed.
Lemma sumtot_set_nth i c c' l : nth_error l i = Some c -> sumtot (set_nth i c' l) + total c = sumtot l + total c'.
Proof.
  revert i; induction l as [|y l IH]; intros [|i] H; cbn [nth_error set_nth] in *; try discriminate; rewrite ?sumtot_cons.
  - injection H as ->. lia.
  - specialize (IH _ H). lia.
Qed.
Lemma sumtot_storage l : fold_right (fun c a => storage c + a) 0 l = sumtot l + 2 * N.of_nat (length l).
Proof.
  induction l as [|c l IH]; [reflexivity|]. cbn [fold_right length]. rewrite sumtot_cons, IH. unfold Slotted.storage. lia.
Qed.

(** ** the invariant *)
Record Inv (p : page) : Prop := {
  i_bad : bad p = false;
  i_nodup : NoDup (slots p);
  i_live : forall o, In o (slots p) ->
           exists c, read (mem p) o = Some c /\ fsp p <= o /\ o + total c <= cap p /\ total c mod 8 = 0;
  i_disj : forall o1 o2 c1 c2, In o1 (slots p) -> In o2 (slots p) -> o1 <> o2 ->
           read (mem p) o1 = Some c1 -> read (mem p) o2 = Some c2 -> disj o1 (total c1) o2 (total c2);
  i_acct : fs p + 2 * nslots p + sumtot (cells p) = cap p;
  i_room : fsp p + sumtot (cells p) <= cap p;
  i_fsp : 2 * nslots p <= fsp p;
  i_al : fsp p mod 8 = 0 /\ cap p mod 8 = 0
}.

Lemma disj_sym o1 t1 o2 t2 : disj o1 t1 o2 t2 -> disj o2 t2 o1 t1.
Proof. unfold disj. tauto. Qed.

Lemma cell_at_read p o c : read (mem p) o = Some c -> cell_at p o = c.
Proof. unfold cell_at. now intros ->. Qed.
Lemma cells_nth p i o : nth_error (slots p) i = Some o -> nth_error (cells p) i = Some (cell_at p o).
Proof. intros H. unfold cells. now apply map_nth_error. Qed.
Lemma cells_length p : length (cells p) = length (slots p).
Proof. unfold cells. apply map_length. Qed.

(** ** defragmentation *)
Section Defrag.
Variable orig : list cell.
Variable capN tot : N.

Fixpoint chain (hi : N) (l : list (N * nat)) : Prop :=
  match l with
  | [] => True
  | oi :: r => exists c, nth_error orig (snd oi) = Some c /\ fst oi + total c <= hi /\ chain (fst oi) r
  end.
Fixpoint sumT (l : list (N * nat)) : N :=
  match l with
  | [] => 0
  | oi :: r => match nth_error orig (snd oi) with Some c => total c | None => 0 end + sumT r
  end.

Lemma chain_mono hi hi' l : hi <= hi' -> chain hi l -> chain hi' l.
Proof. destruct l as [|[o i] r]; cbn; auto. intros H (c & H1 & H2 & H3). exists c. repeat split; auto. lia. Qed.
Lemma chain_in l : forall hi o i, chain hi l -> In (o, i) l -> exists c, nth_error orig i = Some c /\ o + total c <= hi.
Proof.
  induction l as [|[o' i'] r IH]; cbn; intros hi o i Hc Hin; [contradiction|].
  destruct Hc as (c & H1 & H2 & H3). destruct Hin as [[= -> ->]|Hin]; [eauto|].
  destruct (IH _ _ _ H3 Hin) as (c2 & Hc2 & Hle). exists c2. split; auto. lia.
Qed.

Lemma sorted_chain l :
  StronglySorted (fun x y => is_true (DescOff.leb x y)) l ->
  NoDup (map snd l) ->
  (forall o i, In (o, i) l -> exists c, nth_error orig i = Some c) ->
  (forall o i o' i' c c', In (o, i) l -> In (o', i') l -> i <> i' ->
     nth_error orig i = Some c -> nth_error orig i' = Some c' -> disj o (total c) o' (total c')) ->
  forall hi, (forall o i c, In (o, i) l -> nth_error orig i = Some c -> o + total c <= hi) -> chain hi l.
Proof.
  induction l as [|[o i] r IH]; intros Hs Hnd Hex Hdj hi Hhi; cbn [chain]; [exact I|].
  inversion Hs as [|? ? Hs' Hall]; subst. inversion Hnd as [|? ? Hnotin Hnd']; subst.
  destruct (Hex o i (or_introl eq_refl)) as (c & Hc). exists c. cbn [fst snd]. repeat split; auto.
  - eapply Hhi; eauto. now left.
  - apply IH; auto.
    + intros; eapply Hex; right; eauto.
    + intros; eapply Hdj; eauto; now right.
    + intros o2 i2 c2 Hin Hc2. rewrite Forall_forall in Hall. specialize (Hall _ Hin).
      unfold DescOff.leb, is_true in Hall. cbn [fst] in Hall. apply N.leb_le in Hall.
      assert (i <> i2) by (intros ->; apply Hnotin; change i2 with (snd (o2, i2)); now apply in_map).
      pose proof (Hdj o i o2 i2 c c2 (or_introl eq_refl) (or_intror Hin) H Hc Hc2) as Hd.
      pose proof (total_pos c). unfold disj in Hd. lia.
Qed.

Lemma sumT_perm l l' : Permutation l l' -> sumT l = sumT l'.
Proof. induction 1; cbn [sumT]; lia. Qed.

Hypothesis orig_al : Forall (fun c => total c mod 8 = 0) orig.
Hypothesis cap_al : capN mod 8 = 0.

Definition K (st : N * list extent * list N * bool) (todo : list (N * nat)) : Prop :=
  let '(dest, m, sl, b) := st in
  b = false /\ length sl = length orig /\
  (forall i o, nth_error sl i = Some o ->
     exists c, nth_error orig i = Some c /\ read m o = Some c /\ (In (o, i) todo \/ (dest <= o /\ o + total c <= capN))) /\
  (forall i j oi oj ci cj, i <> j -> nth_error sl i = Some oi -> nth_error sl j = Some oj ->
     nth_error orig i = Some ci -> nth_error orig j = Some cj -> disj oi (total ci) oj (total cj)) /\
  chain dest todo /\
  (forall o i, In (o, i) todo -> nth_error sl i = Some o) /\
  NoDup (map snd todo) /\
  dest + tot = capN + sumT todo /\ dest mod 8 = 0 /\ dest <= capN.

Lemma K_step dest m sl b o i r :
  K (dest, m, sl, b) ((o, i) :: r) -> K (defrag_step chdr (dest, m, sl, b) (o, i)) r.
Proof.
  intros HK. unfold K in HK. destruct HK as (Hb & Hlen & K1 & K2 & Hch & Hcons & Hnd & Hsum & Hal & Hle).
  cbn [chain fst snd] in Hch. destruct Hch as (c & Hoc & Hfit & Hch).
  assert (Hsl : nth_error sl i = Some o) by (apply Hcons; now left).
  destruct (K1 _ _ Hsl) as (c0 & Hoc0 & Hrd & _). rewrite Hoc in Hoc0. injection Hoc0 as <-.
  unfold defrag_step. cbn [fst snd]. rewrite Hrd.
  assert (Hilt : (i < length sl)%nat) by (apply nth_error_Some; congruence).
  set (d := dest - total c).
  assert (Hd : o <= d /\ d + total c = dest) by (unfold d; lia).
  assert (Hcal : total c mod 8 = 0) by (rewrite Forall_forall in orig_al; apply orig_al; eapply nth_error_In; eauto).
  inversion Hnd as [|? ? Hnotin Hnd']; subst.
  assert (Hne : forall o' j, In (o', j) r -> j <> i).
  { intros o' j Hin ->. apply Hnotin. change i with (snd (o', i)). now apply in_map. }
  (* every other cell is disjoint from the destination *)
  assert (Hdisj : forall j oj cj, j <> i -> nth_error sl j = Some oj -> nth_error orig j = Some cj ->
                                  disj oj (total cj) d (total c)).
  { intros j oj cj Hji Hj Hcj. destruct (K1 _ _ Hj) as (c1 & Hc1 & _ & Hwhere). rewrite Hcj in Hc1. injection Hc1 as <-.
    destruct Hwhere as [[Heq|Hin]|[Hge _]].
    - injection Heq as _ ->. congruence.
    - destruct (chain_in _ _ _ _ Hch Hin) as (c2 & Hc2 & Hle2). rewrite Hcj in Hc2. injection Hc2 as <-. left. lia.
    - right. lia. }
  unfold K. repeat split.
  - cbn [orb]. apply N.ltb_ge. lia.
  - now rewrite length_set_nth.
  - intros j oj Hj. destruct (Nat.eq_dec i j) as [<-|Hij].
    + rewrite nth_error_set_nth_eq in Hj by assumption. injection Hj as <-.
      exists c. repeat split; auto. * apply read_write_same. * right. lia.
    + rewrite nth_error_set_nth_neq in Hj by assumption.
      destruct (K1 _ _ Hj) as (cj & Hcj & Hrj & Hwhere). exists cj. repeat split; auto.
      * apply read_write_other; auto. eapply Hdisj; eauto.
      * destruct Hwhere as [[Heq|Hin]|[Hge Hcap]]; [injection Heq as _ ->; congruence|now left|right; lia].
  - intros j k oj ok cj ck Hjk Hj Hk Hcj Hck.
    destruct (Nat.eq_dec i j) as [<-|Hij]; [|destruct (Nat.eq_dec i k) as [<-|Hik]].
    + rewrite nth_error_set_nth_eq in Hj by assumption. injection Hj as <-.
      rewrite nth_error_set_nth_neq in Hk by assumption. rewrite Hoc in Hcj. injection Hcj as <-.
      apply disj_sym. eapply Hdisj; eauto.
    + rewrite nth_error_set_nth_eq in Hk by assumption. injection Hk as <-.
      rewrite nth_error_set_nth_neq in Hj by assumption. rewrite Hoc in Hck. injection Hck as <-.
      eapply Hdisj; eauto.
    + rewrite nth_error_set_nth_neq in Hj, Hk by assumption. exact (K2 j k oj ok cj ck Hjk Hj Hk Hcj Hck).
  - eapply chain_mono; [|exact Hch]. lia.
  - intros o' j Hin. rewrite nth_error_set_nth_neq by (intro; subst; eapply Hne; eauto). apply Hcons. now right.
  - assumption.
  - cbn [sumT snd] in Hsum. rewrite Hoc in Hsum. lia.
  - lia.
  - lia.
Qed.

Lemma K_fold todo : forall st, K st todo -> K (fold_left (defrag_step chdr) todo st) [].
Proof.
  induction todo as [|[o i] r IH]; intros st H; cbn [fold_left]; [exact H|].
  apply IH. destruct st as [[[dest m] sl] b]. now apply K_step.
Qed.

End Defrag.

Global Instance desc_trans : Transitive (fun x y => is_true (DescOff.leb x y)).
Proof. intros x y z. unfold DescOff.leb, is_true. rewrite !N.leb_le. lia. Qed.

Lemma in_combine_seq {A} (l : list A) : forall k i x, nth_error l i = Some x -> In (x, (k + i)%nat) (combine l (seq k (length l))).
Proof.
  induction l as [|y l IH]; intros k [|i] x H; cbn in *; try discriminate.
  - injection H as ->. left. f_equal. lia.
  - right. replace (k + S i)%nat with (S k + i)%nat by lia. now apply IH.
Qed.
Lemma in_combine_seq_inv {A} (l : list A) : forall k i x, In (x, i) (combine l (seq k (length l))) -> (k <= i)%nat /\ nth_error l (i - k) = Some x.
Proof.
  induction l as [|y l IH]; intros k i x H; cbn in *; [contradiction|].
  destruct H as [[= -> ->]|H].
  - split; [lia|]. now rewrite Nat.sub_diag.
  - destruct (IH _ _ _ H) as [Hle Hn]. split; [lia|]. replace (i - k)%nat with (S (i - S k)) by lia. exact Hn.
Qed.
Lemma map_snd_combine_seq {A} (l : list A) k : map snd (combine l (seq k (length l))) = seq k (length l).
Proof. revert k; induction l as [|y l IH]; intros k; cbn; auto. now rewrite IH. Qed.

Lemma sumT_combine (f : N -> cell) l : forall pre,
  sumT (pre ++ map f l) (combine l (seq (length pre) (length l))) = sumtot (map f l).
Proof.
  induction l as [|x l IH]; intros pre; [reflexivity|].
  cbn [combine seq length map sumT snd]. rewrite nth_error_app2, Nat.sub_diag by lia. cbn [nth_error]. rewrite sumtot_cons. f_equal.
  specialize (IH (pre ++ [f x])). rewrite app_length in IH. cbn [length] in IH. rewrite Nat.add_1_r in IH.
  rewrite <- app_assoc in IH. exact IH.
Qed.


Lemma nth_error_eq_ext {A} (l l' : list A) : (forall i, nth_error l i = nth_error l' i) -> l = l'.
Proof.
  revert l'; induction l as [|x l IH]; intros [|y l'] H; auto; try (specialize (H O); discriminate).
  f_equal. - specialize (H O). now injection H. - apply IH. intros i. exact (H (S i)).
Qed.

Lemma orig_read p i o c : Inv p -> nth_error (slots p) i = Some o -> nth_error (cells p) i = Some c -> read (mem p) o = Some c.
Proof.
  intros HI Ho Hc. destruct (i_live p HI o (nth_error_In _ _ Ho)) as (c' & Hr & _).
  rewrite (cells_nth _ _ _ Ho), (cell_at_read _ _ _ Hr) in Hc. congruence.
Qed.

Lemma slots_disj p i j oi oj ci cj : Inv p -> i <> j ->
  nth_error (slots p) i = Some oi -> nth_error (slots p) j = Some oj ->
  nth_error (cells p) i = Some ci -> nth_error (cells p) j = Some cj -> disj oi (total ci) oj (total cj).
Proof.
  intros HI Hij Hi Hj Hci Hcj.
  apply (i_disj p HI); eauto using nth_error_In, orig_read.
  intros ->. apply Hij. pose proof (i_nodup p HI) as Hnd. rewrite NoDup_nth_error in Hnd. apply Hnd; [|congruence].
  apply nth_error_Some. congruence.
Qed.

Definition order (p : page) := DSort.sort (combine (slots p) (seq 0 (length (slots p)))).
Lemma order_in p o i : In (o, i) (order p) <-> nth_error (slots p) i = Some o.
Proof.
  unfold order. split.
  - intros H. apply (Permutation_in _ (Permutation_sym (DSort.Permuted_sort _))) in H.
    apply in_combine_seq_inv in H. destruct H as [_ H]. now rewrite Nat.sub_0_r in H.
  - intros H. apply (Permutation_in _ (DSort.Permuted_sort _)). exact (in_combine_seq _ 0%nat i o H).
Qed.
Lemma order_nodup p : NoDup (map snd (order p)).
Proof.
  unfold order. eapply Permutation_NoDup; [apply Permutation_map, DSort.Permuted_sort|].
  rewrite map_snd_combine_seq. apply seq_NoDup.
Qed.

Lemma cells_al p : Inv p -> Forall (fun c => total c mod 8 = 0) (cells p).
Proof.
  intros HI. apply Forall_forall. intros c Hc. unfold cells in Hc. apply in_map_iff in Hc. destruct Hc as (o & <- & Ho).
  destruct (i_live p HI o Ho) as (c & Hr & _ & _ & Hal). now rewrite (cell_at_read _ _ _ Hr).
Qed.

Lemma defragment_K p : Inv p -> K (cells p) (cap p) (sumtot (cells p)) (cap p, mem p, slots p, bad p) (order p).
Proof.
  intros HI. unfold K. repeat split.
  - apply (i_bad p HI).
  - symmetry. apply cells_length.
  - intros i o Ho. destruct (i_live p HI o (nth_error_In _ _ Ho)) as (c & Hr & _). exists c. repeat split; auto.
    + now rewrite (cells_nth _ _ _ Ho), (cell_at_read _ _ _ Hr).
    + left. now apply order_in.
  - intros i j oi oj ci cj. now apply slots_disj.
  - apply sorted_chain.
    + apply DSort.StronglySorted_sort. exact desc_trans.
    + apply order_nodup.
    + intros o i Hin. apply order_in in Hin. rewrite (cells_nth _ _ _ Hin). eauto.
    + intros o i o' i' c c' H1 H2 Hne Hc Hc'. apply order_in in H1, H2. eapply slots_disj; eauto.
    + intros o i c Hin Hc. apply order_in in Hin. pose proof (orig_read _ _ _ _ HI Hin Hc) as Hr.
      destruct (i_live p HI o (nth_error_In _ _ Hin)) as (c' & Hr' & _ & Hfit & _). rewrite Hr in Hr'. injection Hr' as <-. exact Hfit.
  - intros o i. apply order_in.
  - apply order_nodup.
  - f_equal. unfold order. rewrite <- (sumT_perm _ _ _ (DSort.Permuted_sort _)).
    symmetry. exact (sumT_combine (cell_at p) (slots p) []).
  - apply (i_al p HI).
  - lia.
Qed.

Lemma defragment_ok p : Inv p ->
  Inv (defragment chdr p) /\ cells (defragment chdr p) = cells p /\
  fsp (defragment chdr p) + sumtot (cells p) = cap p /\
  cap (defragment chdr p) = cap p /\ fs (defragment chdr p) = fs p /\
  length (slots (defragment chdr p)) = length (slots p).
Proof.
  intros HI.
  pose proof (K_fold (cells p) (cap p) (sumtot (cells p)) (cells_al p HI) (proj2 (i_al p HI)) (order p) _ (defragment_K p HI)) as KF.
  unfold defragment. fold (order p). destruct (fold_left (defrag_step chdr) (order p) (cap p, mem p, slots p, bad p)) as [[[dest m] sl] b].
  unfold K in KF. destruct KF as (Hb & Hlen & K1 & K2 & _ & _ & _ & Hsum & Hal & Hle).
  cbn [sumT] in Hsum. rewrite cells_length in Hlen.
  set (p' := mkPage (cap p) sl dest (fs p) m b).
  assert (Hcells : cells p' = cells p).
  { apply nth_error_eq_ext. intros i. unfold cells at 1. cbn [slots p'].
    destruct (nth_error sl i) as [o|] eqn:E.
    - rewrite (map_nth_error _ _ _ E). destruct (K1 _ _ E) as (c & Hc & Hr & _). rewrite Hc. f_equal. now apply cell_at_read.
    - assert (nth_error (cells p) i = None) as ->. { apply nth_error_None. rewrite cells_length, <- Hlen. now apply nth_error_None. }
      apply nth_error_None. rewrite map_length. now apply nth_error_None. }
  assert (Hns : nslots p' = nslots p) by (unfold nslots; cbn [slots p']; now rewrite Hlen).
  pose proof (i_acct p HI) as Hacct.
  repeat split; cbn [cap fs fsp slots mem bad p']; auto; try lia.
  - apply NoDup_nth_error. intros i j Hi Heq. destruct (Nat.eq_dec i j) as [|Hij]; [assumption|exfalso].
    destruct (nth_error sl i) as [o|] eqn:Ei; [|apply nth_error_Some in Hi; contradiction]. symmetry in Heq.
    destruct (K1 _ _ Ei) as (ci & Hci & _). destruct (K1 _ _ Heq) as (cj & Hcj & _).
    pose proof (K2 _ _ _ _ _ _ Hij Ei Heq Hci Hcj) as Hd. pose proof (total_pos ci). pose proof (total_pos cj). unfold disj in Hd. lia.
  - intros o Ho. apply In_nth_error in Ho. destruct Ho as (i & Ei). destruct (K1 _ _ Ei) as (c & Hc & Hr & [[]|[Hge Hfit]]).
    exists c. repeat split; auto. pose proof (cells_al p HI) as Hf. rewrite Forall_forall in Hf. apply Hf. eapply nth_error_In; eauto.
  - intros o1 o2 c1 c2 H1 H2 Hne Hr1 Hr2. apply In_nth_error in H1, H2. destruct H1 as (i & Ei), H2 as (j & Ej).
    destruct (K1 _ _ Ei) as (ci & Hci & Hri & _). destruct (K1 _ _ Ej) as (cj & Hcj & Hrj & _).
    rewrite Hri in Hr1. rewrite Hrj in Hr2. injection Hr1 as <-. injection Hr2 as <-.
    apply (K2 i j o1 o2 ci cj); auto. intros ->. congruence.
  - rewrite Hcells, Hns. exact Hacct.
  - rewrite Hcells. lia.
  - apply (i_al p HI).
Qed.


(** ** insert, remove, replace, drain *)
Hypothesis chdr_al : chdr mod 8 = 0.

Lemma total_al c : plen c mod 8 = 0 -> total c mod 8 = 0.
Proof. unfold Slotted.total. lia. Qed.

Lemma sumtot_al l : Forall (fun c => total c mod 8 = 0) l -> sumtot l mod 8 = 0.
Proof. induction 1 as [|c l Hc _ IH]; [reflexivity|]. rewrite sumtot_cons. lia. Qed.

Lemma map_cell_at_ext p p' l : (forall o, In o l -> read (mem p') o = read (mem p) o) -> map (cell_at p') l = map (cell_at p) l.
Proof. intros H. apply map_ext_in. intros o Ho. unfold cell_at. now rewrite H. Qed.

Lemma insert_remove_set {A} i (x : A) l : (i < length l)%nat -> insert_at i x (remove_at i l) = set_nth i x l.
Proof. revert i; induction l as [|y l IH]; intros [|i] H; cbn in *; try lia; auto. rewrite IH; auto; lia. Qed.

Definition insert_post (p : page) (i : nat) (c : cell) (p' : page) (r : res) : Prop :=
  match r with
  | ROk j => j = i /\ (i <= length (slots p))%nat /\ cells p' = insert_at i c (cells p) /\ fs p' + storage c = fs p
  | RErr EInvalidInput => cells p' = cells p /\ (max_payload chdr (cap p) < plen c \/ (length (slots p) < i)%nat)
  | RErr EStorageFull => cells p' = cells p /\ fs p < storage c
  | _ => False
  end.

Lemma insert_ok p i c p' r : Inv p -> plen c mod 8 = 0 -> insert chdr phdr p i c = (p', r) ->
  Inv p' /\ cap p' = cap p /\ insert_post p i c p' r.
Proof.
  intros HI Hcal. unfold insert.
  destruct (max_payload chdr (cap p) <? plen c) eqn:Emax.
  { intros [= <- <-]. split; [assumption|split; [reflexivity|]]. cbn [insert_post]. split; [reflexivity|]. left. now apply N.ltb_lt. }
  destruct (Nat.ltb (length (slots p)) i) eqn:Eidx.
  { intros [= <- <-]. split; [assumption|split; [reflexivity|]]. cbn [insert_post]. split; [reflexivity|]. right. now apply Nat.ltb_lt. }
  apply Nat.ltb_ge in Eidx.
  set (p1 := if effective_free phdr p <? storage c then defragment chdr p else p).
  assert (H1 : Inv p1 /\ cells p1 = cells p /\ cap p1 = cap p /\ fs p1 = fs p /\ length (slots p1) = length (slots p) /\
               (2 * nslots p + phdr + storage c <= fsp p1 \/ fsp p1 + sumtot (cells p) = cap p)).
  { unfold p1. destruct (effective_free phdr p <? storage c) eqn:Eeff.
    - destruct (defragment_ok p HI) as (A & B & C & D & E & F). split; [exact A|]. repeat split; auto.
    - split; [exact HI|]. repeat split; auto. left. apply N.ltb_ge in Eeff. unfold effective_free, content_start in Eeff.
      unfold Slotted.storage in *. pose proof (total_pos c). lia. }
  clearbody p1. destruct H1 as (HI1 & Hcells1 & Hcap1 & Hfs1 & Hlen1 & Hwhere).
  pose proof (i_acct p HI) as Hacct. pose proof (i_room p1 HI1) as Hroom1. rewrite Hcells1, Hcap1 in Hroom1.
  assert (Hns1 : nslots p1 = nslots p) by (unfold nslots; now rewrite Hlen1).
  destruct ((fsp p1 <? total c) || (fs p1 <? storage c)) eqn:Efull.
  { intros [= <- <-]. split; [exact HI1|split; [exact Hcap1|]]. cbn [insert_post]. split; [exact Hcells1|]. apply orb_true_iff in Efull. rewrite N.ltb_lt, N.ltb_lt, Hfs1 in Efull.
    unfold Slotted.storage in *. destruct Efull as [Hf|Hf]; [|exact Hf]. destruct Hwhere; lia. }
  apply orb_false_iff in Efull. rewrite !N.ltb_ge, Hfs1 in Efull. destruct Efull as [Hfit1 Hfit2].
  pose proof (total_al c Hcal) as Htal. pose proof (i_al p1 HI1) as [Hfal Hcapal].
  set (off := fsp p1 - total c).
  assert (Hoff : off + total c = fsp p1) by (unfold off; lia).
  assert (Hoffal : off mod 8 = 0) by lia.
  rewrite Htal, Hoffal. cbn [N.eqb negb orb].
  intros [= <- <-].
  assert (Hnew : ~ In off (slots p1)).
  { intros Hin. destruct (i_live p1 HI1 off Hin) as (c0 & _ & Hge & _). pose proof (total_pos c). lia. }
  assert (Hrd : forall o, In o (slots p1) -> read (write (mem p1) off c) o = read (mem p1) o).
  { intros o Ho. destruct (i_live p1 HI1 o Ho) as (c0 & Hr & Hge & _). rewrite Hr. apply read_write_other; auto. right. lia. }
  set (p2 := mkPage (cap p1) (insert_at i off (slots p1)) off (fs p1 - storage c) (write (mem p1) off c) (bad p1)).
  assert (Hcells2 : cells p2 = insert_at i c (cells p)).
  { unfold cells at 1. cbn [slots p2]. rewrite insert_at_map. f_equal.
    - unfold cell_at. cbn [mem p2]. now rewrite read_write_same.
    - rewrite <- Hcells1. unfold cells. apply map_cell_at_ext. exact Hrd. }
  assert (Hns2 : nslots p2 = nslots p + 1).
  { unfold nslots. cbn [slots p2]. rewrite length_insert_at, Hlen1. lia. }
  repeat split; cbn [cap fs fsp slots mem bad p2]; auto; try lia.
  - apply (i_bad p1 HI1).
  - apply NoDup_insert_at; auto. apply (i_nodup p1 HI1).
  - intros o Ho. apply in_insert_at in Ho. destruct Ho as [->|Ho].
    + exists c. rewrite read_write_same. repeat split; auto; lia.
    + rewrite (Hrd o Ho). destruct (i_live p1 HI1 o Ho) as (c0 & Hr & Hge & Hfit & Hal0). exists c0. repeat split; auto. lia.
  - intros o1 o2 c1 c2 Ho1 Ho2 Hne Hr1 Hr2. apply in_insert_at in Ho1, Ho2.
    destruct Ho1 as [->|Ho1], Ho2 as [->|Ho2]; [congruence| | |].
    + rewrite read_write_same in Hr1. injection Hr1 as <-. rewrite (Hrd _ Ho2) in Hr2.
      destruct (i_live p1 HI1 o2 Ho2) as (c0 & Hr & Hge & _). left. lia.
    + rewrite read_write_same in Hr2. injection Hr2 as <-. rewrite (Hrd _ Ho1) in Hr1.
      destruct (i_live p1 HI1 o1 Ho1) as (c0 & Hr & Hge & _). right. lia.
    + rewrite (Hrd _ Ho1) in Hr1. rewrite (Hrd _ Ho2) in Hr2. eapply (i_disj p1 HI1); eauto.
  - rewrite Hcells2, Hns2, sumtot_insert_at, Hfs1. unfold Slotted.storage in *. lia.
  - rewrite Hcells2, sumtot_insert_at. lia.
  - rewrite Hns2. unfold Slotted.storage in *. destruct Hwhere; lia.
Qed.

Definition remove_post (p : page) (i : nat) (p' : page) (r : res) : Prop :=
  match r with
  | RCell c => nth_error (cells p) i = Some c /\ cells p' = remove_at i (cells p) /\ fs p' = fs p + storage c /\
               (i < length (slots p))%nat /\ length (slots p') = pred (length (slots p)) /\ fsp p' = fsp p
  | RErr EInvalidInput => p' = p /\ (length (slots p) < i)%nat
  | RPanic => p' = p /\ i = length (slots p)
  | _ => False
  end.

Lemma remove_ok p i p' r : Inv p -> remove chdr p i = (p', r) -> Inv p' /\ cap p' = cap p /\ remove_post p i p' r.
Proof.
  intros HI. unfold remove.
  destruct (Nat.ltb (length (slots p)) i) eqn:Eidx.
  { intros [= <- <-]. split; [assumption|split; [reflexivity|]]. cbn [remove_post]. split; [reflexivity|]. now apply Nat.ltb_lt. }
  apply Nat.ltb_ge in Eidx.
  destruct (nth_error (slots p) i) as [o|] eqn:Eo.
  2:{ intros [= <- <-]. split; [assumption|split; [reflexivity|]]. cbn [remove_post]. split; [reflexivity|]. apply nth_error_None in Eo. lia. }
  destruct (i_live p HI o (nth_error_In _ _ Eo)) as (c & Hr & Hge & Hfit & Hal). rewrite Hr.
  intros [= <- <-].
  set (p1 := mkPage (cap p) (remove_at i (slots p)) (fsp p) (fs p + storage c) (mem p) (bad p)).
  assert (Hilt : (i < length (slots p))%nat) by (apply nth_error_Some; congruence).
  assert (Hci : nth_error (cells p) i = Some c) by (rewrite (cells_nth _ _ _ Eo); f_equal; now apply cell_at_read).
  assert (Hcells : cells p1 = remove_at i (cells p)) by (unfold cells; cbn [slots p1]; now rewrite remove_at_map).
  pose proof (length_remove_at i (slots p) Hilt) as Hlen.
  pose proof (sumtot_remove_at _ _ _ Hci) as Hsum.
  pose proof (i_acct p HI). pose proof (i_room p HI). pose proof (i_fsp p HI).
  assert (Hns : nslots p1 + 1 = nslots p) by (unfold nslots; cbn [slots p1]; lia).
  repeat split; cbn [cap fs fsp slots mem bad p1]; auto; try lia.
  - apply (i_bad p HI).
  - apply NoDup_remove_at, (i_nodup p HI).
  - intros o' Ho'. apply in_remove_at in Ho'. apply (i_live p HI o' Ho').
  - intros o1 o2 c1 c2 Hi1 Hi2. apply in_remove_at in Hi1, Hi2. now apply (i_disj p HI).
  - rewrite Hcells. unfold Slotted.storage. lia.
  - rewrite Hcells. lia.
  - apply (i_al p HI).
  - apply (i_al p HI).
Qed.

Definition replace_post (p : page) (i : nat) (c : cell) (p' : page) (r : res) : Prop :=
  match r with
  | RCell old => nth_error (cells p) i = Some old /\ cells p' = set_nth i c (cells p)
  | RErr EStorageFull => cells p' = cells p /\ (i < length (slots p))%nat
  | RPanic => p' = p /\ (length (slots p) <= i)%nat
  | _ => False
  end.

Lemma replace_ok p i c p' r : Inv p -> plen c mod 8 = 0 -> replace chdr phdr p i c = (p', r) ->
  Inv p' /\ cap p' = cap p /\ replace_post p i c p' r.
Proof.
  intros HI Hcal. unfold replace.
  destruct (nth_error (slots p) i) as [o|] eqn:Eo.
  2:{ intros [= <- <-]. split; [assumption|split; [reflexivity|]]. cbn [replace_post]. split; [reflexivity|]. now apply nth_error_None. }
  destruct (i_live p HI o (nth_error_In _ _ Eo)) as (old & Hr & Hge & Hfit & Hal). rewrite Hr.
  assert (Hilt : (i < length (slots p))%nat) by (apply nth_error_Some; congruence).
  assert (Hci : nth_error (cells p) i = Some old) by (rewrite (cells_nth _ _ _ Eo); f_equal; now apply cell_at_read).
  destruct (fs p + total old <? total c) eqn:Efull.
  { intros [= <- <-]. split; [assumption|split; [reflexivity|]]. cbn [replace_post]. split; [reflexivity|assumption]. }
  apply N.ltb_ge in Efull.
  pose proof (i_acct p HI) as Hacct. pose proof (i_room p HI) as Hroom. pose proof (i_fsp p HI) as Hfsp.
  destruct (total c <=? total old) eqn:Ecase.
  - (* overwrite in place *)
    apply N.leb_le in Ecase. intros [= <- <-].
    set (p1 := mkPage (cap p) (slots p) (fsp p) (fs p + (total old - total c)) (write (mem p) o c) (bad p)).
    assert (Hrd : forall o', In o' (slots p) -> o' <> o -> read (write (mem p) o c) o' = read (mem p) o').
    { intros o' Ho' Hne. destruct (i_live p HI o' Ho') as (c' & Hr' & _). rewrite Hr'. apply read_write_other; auto.
      pose proof (i_disj p HI o' o c' old Ho' (nth_error_In _ _ Eo) Hne Hr' Hr) as Hd. unfold disj in *. lia. }
    assert (Hcells : cells p1 = set_nth i c (cells p)).
    { apply nth_error_eq_ext. intros j. unfold cells at 1. cbn [slots p1]. destruct (Nat.eq_dec i j) as [<-|Hij].
      - rewrite (map_nth_error _ _ _ Eo), nth_error_set_nth_eq by (now rewrite cells_length). f_equal.
        unfold cell_at. cbn [mem p1]. now rewrite read_write_same.
      - rewrite nth_error_set_nth_neq by assumption. destruct (nth_error (slots p) j) as [oj|] eqn:Ej.
        + rewrite (map_nth_error _ _ _ Ej), (cells_nth _ _ _ Ej). f_equal. unfold cell_at. cbn [mem p1]. rewrite Hrd; eauto using nth_error_In.
          intros ->. apply Hij. pose proof (i_nodup p HI) as Hnd. rewrite NoDup_nth_error in Hnd. apply Hnd; [assumption|congruence].
        + transitivity (@None cell); [|symmetry]; apply nth_error_None; rewrite ?map_length, ?cells_length; now apply nth_error_None. }
    pose proof (sumtot_set_nth i old c (cells p) Hci) as Hsum.
    pose proof (total_al c Hcal) as Htal.
    repeat split; cbn [cap fs fsp slots mem bad p1]; auto; try lia.
    + apply (i_bad p HI).
    + apply (i_nodup p HI).
    + intros o' Ho'. destruct (N.eq_dec o' o) as [->|Hne].
      * exists c. rewrite read_write_same. repeat split; auto. lia.
      * rewrite (Hrd _ Ho' Hne). apply (i_live p HI o' Ho').
    + intros o1 o2 c1 c2 H1 H2 Hne Hr1 Hr2.
      destruct (N.eq_dec o1 o) as [->|Hn1]; [|destruct (N.eq_dec o2 o) as [->|Hn2]].
      * rewrite read_write_same in Hr1. injection Hr1 as <-. rewrite (Hrd _ H2) in Hr2 by congruence.
        pose proof (i_disj p HI o o2 old c2 H1 H2 Hne Hr Hr2) as Hd. unfold disj in *. lia.
      * rewrite read_write_same in Hr2. injection Hr2 as <-. rewrite (Hrd _ H1 Hn1) in Hr1.
        pose proof (i_disj p HI o1 o c1 old H1 H2 Hne Hr1 Hr) as Hd. unfold disj in *. lia.
      * rewrite (Hrd _ H1 Hn1) in Hr1. rewrite (Hrd _ H2 Hn2) in Hr2. now apply (i_disj p HI o1 o2).
    + rewrite Hcells. unfold nslots in *. cbn [slots p1]. lia.
    + rewrite Hcells. lia.
    + apply (i_al p HI).
    + apply (i_al p HI).
  - (* remove, then insert *)
    apply N.leb_gt in Ecase.
    destruct (remove chdr p i) as [p1 r1] eqn:Erem. destruct (remove_ok _ _ _ _ HI Erem) as (HI1 & Hcap1 & Hpost1).
    assert (Hr1 : r1 = RCell old).
    { revert Erem. unfold remove. replace (Nat.ltb (length (slots p)) i) with false by (symmetry; apply Nat.ltb_ge; lia).
      rewrite Eo, Hr. now intros [= _ <-]. }
    subst r1. cbn [remove_post] in Hpost1. destruct Hpost1 as (_ & Hcells1 & Hfs1 & _ & Hlen1 & Hfsp1).
    destruct (insert chdr phdr p1 i c) as [p2 r2] eqn:Eins. destruct (insert_ok _ _ _ _ _ HI1 Hcal Eins) as (HI2 & Hcap2 & Hpost2).
    assert (Hgoal : r2 = ROk i /\ cells p2 = set_nth i c (cells p)).
    { destruct r2 as [j| | | |[| |]|]; cbn [insert_post] in Hpost2; try contradiction.
      - destruct Hpost2 as (-> & _ & Hc2 & _). split; auto. rewrite Hc2, Hcells1. apply insert_remove_set. now rewrite cells_length.
      - exfalso. destruct Hpost2 as (_ & [Hbig|Hidx]); [|lia]. rewrite Hcap1 in Hbig.
        pose proof (sumtot_remove_at _ _ _ Hci). unfold max_payload in Hbig. unfold Slotted.total in *.
        assert (1 <= nslots p) by (unfold nslots; lia). lia.
      - exfalso. destruct Hpost2 as (_ & Hf). rewrite Hfs1 in Hf. unfold Slotted.storage in *. lia. }
    destruct Hgoal as (-> & Hc2). intros [= <- <-]. split; [exact HI2|split; [congruence|]]. cbn [replace_post]. split; assumption.
Qed.

Lemma drain_ok p : Inv p -> exists p', drain chdr p = (p', RCells (cells p)) /\ Inv p' /\ cap p' = cap p /\ cells p' = [].
Proof.
  intros HI. unfold drain. eexists. split; [reflexivity|].
  assert (Hb : existsb (fun o => match read (mem p) o with None => true | Some _ => false end) (slots p) = false).
  { destruct (existsb _ (slots p)) eqn:E; auto. apply existsb_exists in E. destruct E as (o & Ho & Hn).
    destruct (i_live p HI o Ho) as (c & Hr & _). now rewrite Hr in Hn. }
  rewrite Hb, (i_bad p HI). rewrite sumtot_storage. fold (sumtot (cells p)). rewrite cells_length. fold (nslots p).
  pose proof (i_acct p HI). pose proof (i_room p HI). pose proof (i_al p HI) as [? ?].
  pose proof (sumtot_al _ (cells_al p HI)).
  repeat split; cbn [cap fs fsp slots mem bad cells map nslots length]; auto; try lia.
  - constructor.
  - intros o [].
  - intros o1 o2 c1 c2 [].
  - unfold nslots in *. cbn [slots length]. rewrite sumtot_nil. lia.
  - rewrite sumtot_nil. lia.
  - unfold nslots. cbn [slots length]. lia.
Qed.

(** ** the page refines a list of cells *)
Definition op_al (o : op) : Prop :=
  match o with OInsert _ c | OReplace _ c => plen c mod 8 = 0 | _ => True end.

Lemma step_ok p o p' r : Inv p -> op_al o -> step chdr phdr p o = (p', r) ->
  Inv p' /\ cap p' = cap p /\ res_ok (cells p) o r /\ cells p' = spec_step (cells p) o r.
Proof.
  intros HI Hal. destruct o as [i c|i|i c| |]; cbn [step op_al] in *.
  - intros E. destruct (insert_ok _ _ _ _ _ HI Hal E) as (HI' & Hcap & Hpost). split; [exact HI'|split; [exact Hcap|split]].
    + destruct r as [j| | | |[| |]|]; cbn [insert_post res_ok] in *; try tauto. rewrite cells_length. tauto.
    + destruct r as [j| | | |[| |]|]; cbn [insert_post spec_step] in *; tauto.
  - intros E. destruct (remove_ok _ _ _ _ HI E) as (HI' & Hcap & Hpost). split; [exact HI'|split; [exact Hcap|split]].
    + destruct r as [j| | | |[| |]|]; cbn [remove_post res_ok] in *; try tauto; rewrite cells_length; tauto.
    + destruct r as [j| | | |[| |]|]; cbn [remove_post spec_step] in *; try tauto; destruct Hpost as [-> _]; reflexivity.
  - intros E. destruct (replace_ok _ _ _ _ _ HI Hal E) as (HI' & Hcap & Hpost). split; [exact HI'|split; [exact Hcap|split]].
    + destruct r as [j| | | |[| |]|]; cbn [replace_post res_ok] in *; try tauto; rewrite cells_length; tauto.
    + destruct r as [j| | | |[| |]|]; cbn [replace_post spec_step] in *; try tauto. destruct Hpost as [-> _]; reflexivity.
  - intros [= <- <-]. destruct (defragment_ok p HI) as (A & B & C & D & _). split; [exact A|split; [exact D|split; [exact I|exact B]]].
  - intros E. destruct (drain_ok p HI) as (p1 & E1 & HI1 & Hcap & Hc). rewrite E1 in E. injection E as <- <-. split; [exact HI1|split; [exact Hcap|split; [reflexivity|exact Hc]]].
Qed.

Theorem page_refines_list ops : forall p, Inv p -> Forall op_al ops -> agree chdr phdr p (cells p) ops.
Proof.
  induction ops as [|o ops IH]; intros p HI Hal; cbn [agree]; [exact I|].
  inversion Hal as [|? ? Ho Hrest]; subst.
  destruct (step chdr phdr p o) as [p1 r] eqn:E. destruct (step_ok _ _ _ _ HI Ho E) as (HI1 & _ & Hres & Hcells).
  split; [exact Hres|split; [exact Hcells|split; [apply (i_bad p1 HI1)|]]]. rewrite <- Hcells. now apply IH.
Qed.

Lemma init_inv capacity : capacity mod 8 = 0 -> Inv (init capacity).
Proof.
  intros Hc. unfold init. repeat split; cbn [cap fs fsp slots mem bad]; auto; try (unfold nslots, cells; cbn [slots map length]; rewrite ?sumtot_nil; lia).
  - constructor.
  - intros o [].
  - intros o1 o2 c1 c2 [].
Qed.

(** an insert is refused for lack of space only when the cell does not fit what the list leaves free *)
Lemma insert_full_exact p i c p' : Inv p -> plen c mod 8 = 0 -> insert chdr phdr p i c = (p', RErr EStorageFull) ->
  cap p < 2 * (nslots p + 1) + sumtot (cells p) + total c.
Proof.
  intros HI Hal E. destruct (insert_ok _ _ _ _ _ HI Hal E) as (_ & _ & Hpost). cbn [insert_post] in Hpost.
  destruct Hpost as [_ Hf]. pose proof (i_acct p HI). unfold Slotted.storage in Hf. lia.
Qed.


Lemma run_inv ops : forall p, Inv p -> Forall op_al ops ->
  Inv (fst (run chdr phdr p ops)) /\ cap (fst (run chdr phdr p ops)) = cap p.
Proof.
  induction ops as [|o ops IH]; intros p HI Hal; cbn [run]; [now split|].
  inversion Hal as [|? ? Ho Hrest]; subst.
  destruct (step chdr phdr p o) as [p1 r] eqn:E. destruct (step_ok _ _ _ _ HI Ho E) as (HI1 & Hcap & _).
  destruct (run chdr phdr p1 ops) as [p2 l] eqn:E2. cbn [fst].
  destruct (IH p1 HI1 Hrest) as [A B]. rewrite E2 in A, B. cbn [fst] in A, B. split; [exact A|congruence].
Qed.

(** after a defragmentation every free byte lies between the slot array and the cells *)
Lemma defragment_compacts p : Inv p ->
  cells (defragment chdr p) = cells p /\ fs (defragment chdr p) = fs p /\
  fsp (defragment chdr p) = 2 * nslots (defragment chdr p) + fs (defragment chdr p).
Proof.
  intros HI. destruct (defragment_ok p HI) as (_ & B & C & _ & E & F). pose proof (i_acct p HI) as Hacct.
  split; [exact B|split; [exact E|]]. unfold nslots in *. rewrite F, E. lia.
Qed.

End Proofs.
