(** What recovery computes from a crash image (disk level, no engine): under the well-formedness conditions that
    every reachable image satisfies, the contents after recovery are exactly the versions of the durable
    transactions, in the order in which they were written. *)
From Coq Require Import List NArith Bool Lia Sorted.
From Axv Require Import Model.Crash Proofs.CrashFold Proofs.CrashAnalysis.
Import ListNotations.
Open Scope N_scope.

Section Recover.
  Context {db op : Type}.
  Variable apply : op -> db -> db.
  Variable init : db.
  Notation disk := (disk (op := op)).
  Notation rec := (rec (op := op)).

  (** durable as the disk knows it: an old transaction (id below the header's counter: it ended before the last
      checkpoint) unless the header says aborted; a newer one iff its COMMIT record is in the forced log *)
  Definition durable_d (d : disk) (t : N) : bool :=
    if t <? h_created (d_hdr d) then negb (memN t (h_aborted (d_hdr d))) else has is_commit t (d_log d).

  Record WF (d : disk) : Prop := {
    w_hist : forall p, In p (d_hist d) -> fst p < h_created (d_hdr d);
    w_ab : forall t, memN t (h_aborted (d_hdr d)) = true -> t < h_created (d_hdr d);
    w_log : forall r, In r (d_log d) -> is_end (snd r) = false -> h_created (d_hdr d) <= fst r;
    w_dec : forall t, has is_commit t (d_log d) = true -> has is_abort t (d_log d) = false;
    w_vis : forall p, In p (d_hist d) ->
                      fst p <= h_committed (d_hdr d) \/ memN (fst p) (h_aborted (d_hdr d)) = true
  }.

  Definition winners_commute (d : disk) : Prop :=
    inversions_commute apply (filter (fun p => has is_commit (fst p) (d_log d)) (tagged_ops (d_log d))).

  Definition durable_contents (d : disk) : db :=
    fold_left (apply_if apply (durable_d d)) (d_hist d ++ tagged_ops (d_log d)) init.

  (** ** the recovery transaction's id is fresh *)
  Lemma fold_max_ge (l : list N) a : a <= fold_left N.max l a /\ forall x, In x l -> x <= fold_left N.max l a.
  Proof.
    revert a. induction l as [|y l IH]; intro a; cbn [fold_left]; [split; [lia|intros x []]|].
    destruct (IH (N.max a y)) as [H1 H2]. split; [lia|].
    intros x [E|Hx]; [subst; lia|apply H2; exact Hx].
  Qed.

  Lemma recovery_tid_fresh (d : disk) :
    h_created (d_hdr d) <= recovery_tid d /\ forall r, In r (d_log d) -> fst r < recovery_tid d.
  Proof.
    unfold recovery_tid, max_tid. destruct (d_log d) as [|r0 l] eqn:E; [split; [lia|intros r []]|].
    destruct (fold_max_ge (map fst l) (fst r0)) as [H1 H2].
    set (m := fold_left N.max (map fst l) (fst r0)) in *.
    assert (Hall : forall r, In r (r0 :: l) -> fst r <= m).
    { intros r [Er|Hr]; [subst; exact H1|apply H2, in_map; exact Hr]. }
    destruct (h_created (d_hdr d) <=? m) eqn:El.
    - apply N.leb_le in El. split; [lia|]. intros r Hr. specialize (Hall r Hr). lia.
    - apply N.leb_gt in El. split; [lia|]. intros r Hr. specialize (Hall r Hr). lia.
  Qed.

  (** ** tagged operations and the per-transaction chains *)
  Lemma tagged_in t o (log : list rec) : In (t, o) (tagged_ops log) -> In (t, KOp o) log.
  Proof.
    induction log as [|[t' k] log IH]; [intros []|].
    destruct k; cbn [tagged_ops]; intro H; try (right; apply IH; exact H).
    destruct H as [E|H]; [injection E as -> ->; left; reflexivity|right; apply IH; exact H].
  Qed.

  Lemma tagged_app (l1 l2 : list rec) : tagged_ops (l1 ++ l2) = tagged_ops l1 ++ tagged_ops l2.
  Proof.
    induction l1 as [|[t k] l1 IH]; [reflexivity|].
    destruct k; cbn [app tagged_ops]; rewrite ?IH; reflexivity.
  Qed.

  Lemma ops_of_sel t (log : list rec) : ops_of t log = sel t (tagged_ops log).
  Proof.
    induction log as [|[t' k] log IH]; [reflexivity|].
    destruct k; cbn [ops_of tagged_ops]; try exact IH.
    rewrite sel_cons. cbn [fst snd]. destruct (t' =? t); [f_equal|]; exact IH.
  Qed.

  Lemma replay_group (d : disk) : replay d = group (a_redo (analyse (d_log d))) (tagged_ops (d_log d)).
  Proof.
    unfold replay, group. induction (a_redo (analyse (d_log d))) as [|t ts IH]; [reflexivity|].
    cbn [flat_map]. rewrite ops_of_sel, IH. reflexivity.
  Qed.

  (** ** folds *)
  Lemma fold_apply_if_ext (p q : N -> bool) (l : list (N * op)) :
    (forall x, In x l -> p (fst x) = q (fst x)) ->
    forall d, fold_left (apply_if apply p) l d = fold_left (apply_if apply q) l d.
  Proof.
    induction l as [|x l IH]; intros H d; [reflexivity|].
    cbn [fold_left]. unfold apply_if at 2 4. rewrite (H x (or_introl eq_refl)).
    apply IH. intros y Hy. apply H. right. exact Hy.
  Qed.

  Lemma fold_apply_if_filter (p : N -> bool) (l : list (N * op)) d :
    fold_left (apply_if apply p) l d = fold_ops apply (map snd (filter (fun x => p (fst x)) l)) d.
  Proof.
    revert d. induction l as [|x l IH]; intro d; [reflexivity|].
    cbn [fold_left filter]. unfold apply_if at 2. destruct (p (fst x)); cbn [map fold_ops fold_left]; apply IH.
  Qed.

  Lemma view_from_tagged (h : header) r (l : list op) d :
    visible h r = true -> view_from apply h (map (pair r) l) d = fold_ops apply l d.
  Proof.
    intro Hv. revert d. induction l as [|o l IH]; intro d; [reflexivity|].
    unfold view_from in *. cbn [map fold_left]. unfold apply_if at 2. cbn [fst snd]. rewrite Hv. apply IH.
  Qed.

  Lemma sel_filter_keep t (f : N * op -> bool) (l : list (N * op)) :
    (forall p, In p l -> fst p = t -> f p = true) -> sel t (filter f l) = sel t l.
  Proof.
    intro H. unfold sel. f_equal. induction l as [|p l IH]; [reflexivity|].
    assert (IH' := IH (fun q Hq => H q (or_intror Hq))).
    cbn [filter]. destruct (f p) eqn:Ef; cbn [filter].
    - destruct (fst p =? t); [f_equal|]; exact IH'.
    - destruct (fst p =? t) eqn:Et; [|exact IH'].
      apply N.eqb_eq in Et. rewrite (H p (or_introl eq_refl) Et) in Ef. discriminate.
  Qed.

  Lemma flat_map_ext_in' {A B} (f g : A -> list B) (l : list A) :
    (forall x, In x l -> f x = g x) -> flat_map f l = flat_map g l.
  Proof.
    induction l as [|x l IH]; intro H; [reflexivity|].
    cbn [flat_map]. rewrite (H x (or_introl eq_refl)), IH; [reflexivity|].
    intros y Hy. apply H. right. exact Hy.
  Qed.

  (** ** the theorem *)
  Section Thm.
    Variable d : disk.
    Hypothesis Hwf : WF d.
    Hypothesis Hcomm : winners_commute d.

    Let a := analyse (d_log d).
    Let r := recovery_tid d.
    Let hdr' := d_hdr (recover d).

    Lemma redo_iff t : memN t (a_redo a) = has is_commit t (d_log d).
    Proof.
      destruct (has is_commit t (d_log d)) eqn:E.
      - rewrite <- E. apply redo_spec. apply (w_dec d Hwf). exact E.
      - destruct (memN t (a_redo a)) eqn:Em; [|reflexivity].
        apply redo_commit in Em. congruence.
    Qed.

    Lemma has_in k t (log : list rec) : has k t log = true -> exists x, In x log /\ fst x = t /\ k (snd x) = true.
    Proof.
      unfold has. rewrite existsb_exists. intros [x [Hx H]]. apply andb_true_iff in H. destruct H as [H1 H2].
      apply N.eqb_eq in H1. exists x. auto.
    Qed.

    Lemma old_not_loser t : t < h_created (d_hdr d) -> memN t (filter (loser a) (a_seen a)) = false.
    Proof.
      intro Hlt. destruct (memN t (filter (loser a) (a_seen a))) eqn:E; [|reflexivity].
      apply memN_true in E. apply filter_In in E. destruct E as [Hseen Hl].
      apply memN_true in Hseen. unfold a in Hseen. rewrite seen_spec in Hseen.
      assert (Honly : forall x, In x (d_log d) -> fst x = t -> is_end (snd x) = true).
      { intros x Hx Ex. destruct (is_end (snd x)) eqn:Ee; [reflexivity|].
        pose proof (w_log d Hwf x Hx Ee). lia. }
      unfold loser in Hl. apply orb_true_iff in Hl. destruct Hl as [Hl|Hl].
      - apply undo_spec in Hl. destruct Hl as [Hl|Hl]; apply has_in in Hl; destruct Hl as [x [Hx [Ex Hk]]];
          pose proof (Honly x Hx Ex) as He; destruct (snd x); discriminate.
      - apply andb_true_iff in Hl. destruct Hl as [_ Hl]. apply negb_true_iff in Hl.
        unfold a in Hl. rewrite ended_spec in Hl.
        unfold seen in Hseen. apply existsb_exists in Hseen. destruct Hseen as [x [Hx Ex]]. apply N.eqb_eq in Ex.
        assert (has is_end t (d_log d) = true).
        { unfold has. apply existsb_exists. exists x. split; [exact Hx|].
          rewrite (Honly x Hx Ex). apply N.eqb_eq in Ex. rewrite Ex. reflexivity. }
        congruence.
    Qed.

    Lemma hdr'_committed : r <= h_committed hdr'.
    Proof.
      unfold hdr', recover. cbn [d_hdr h_committed]. fold r.
      destruct (h_committed (d_hdr d) <? r) eqn:E; [lia|apply N.ltb_ge in E; exact E].
    Qed.

    Lemma visible_old t :
      In t (map fst (d_hist d)) -> visible hdr' t = durable_d d t.
    Proof.
      intro Hin. apply in_map_iff in Hin. destruct Hin as [p [Ep Hp]]. subst t.
      pose proof (w_hist d Hwf p Hp) as Hlt.
      destruct (recovery_tid_fresh d) as [Hr _]. fold r in Hr.
      pose proof hdr'_committed as Hc.
      unfold visible, durable_d. apply N.ltb_lt in Hlt. rewrite Hlt. apply N.ltb_lt in Hlt.
      replace (fst p <=? h_committed hdr') with true by (symmetry; apply N.leb_le; lia).
      cbn [andb]. f_equal.
      unfold hdr', recover. cbn [d_hdr h_aborted]. fold a.
      rewrite memN_app, (old_not_loser (fst p) Hlt). apply orb_false_r.
    Qed.

    Lemma visible_r : visible hdr' r = true.
    Proof.
      destruct (recovery_tid_fresh d) as [Hr Hlog]. fold r in Hr, Hlog.
      unfold visible. replace (r <=? h_committed hdr') with true by (symmetry; apply N.leb_le; apply hdr'_committed).
      cbn [andb]. apply negb_true_iff.
      unfold hdr', recover. cbn [d_hdr h_aborted]. fold a. rewrite memN_app. apply orb_false_iff. split.
      - destruct (memN r (h_aborted (d_hdr d))) eqn:E; [|reflexivity]. pose proof (w_ab d Hwf r E). lia.
      - destruct (memN r (filter (loser a) (a_seen a))) eqn:E; [|reflexivity].
        apply memN_true in E. apply filter_In in E. destruct E as [E _]. apply memN_true in E.
        unfold a in E. rewrite seen_spec in E. unfold seen in E. apply existsb_exists in E.
        destruct E as [x [Hx Ex]]. apply N.eqb_eq in Ex. specialize (Hlog x Hx). lia.
    Qed.

    Theorem recover_view : recovered_view apply init d = durable_contents d.
    Proof.
      unfold recovered_view, durable_contents, view. fold hdr'.
      assert (Eh : d_hist (recover d) = d_hist d ++ map (pair r) (replay d)) by reflexivity.
      rewrite Eh. unfold view_from. rewrite !fold_left_app.
      change (fold_left (apply_if apply (visible hdr')) ?l ?z) with (view_from apply hdr' l z).
      (* the old versions *)
      assert (E1 : view_from apply hdr' (d_hist d) init = fold_left (apply_if apply (durable_d d)) (d_hist d) init).
      { unfold view_from. apply fold_apply_if_ext. intros x Hx. apply visible_old. apply in_map. exact Hx. }
      unfold view_from in E1 at 1. rewrite E1. set (d0 := fold_left (apply_if apply (durable_d d)) (d_hist d) init).
      (* the replayed ones *)
      rewrite (view_from_tagged hdr' r (replay d) d0 visible_r).
      rewrite replay_group. fold a.
      set (win := fun p : N * op => has is_commit (fst p) (d_log d)).
      assert (Eg : group (a_redo a) (tagged_ops (d_log d)) = group (a_redo a) (filter win (tagged_ops (d_log d)))).
      { unfold group. apply flat_map_ext_in'. intros t Ht. symmetry. apply sel_filter_keep.
        intros p _ Ep. unfold win. rewrite Ep, <- redo_iff. apply memN_true. exact Ht. }
      rewrite Eg.
      rewrite (group_fold apply (a_redo a) (redo_sorted (d_log d)) (filter win (tagged_ops (d_log d)))).
      - rewrite fold_apply_if_filter. f_equal. f_equal. apply filter_ext_in. intros [t o] Hp.
        unfold win, durable_d. cbn [fst].
        apply tagged_in in Hp. pose proof (w_log d Hwf (t, KOp o) Hp eq_refl) as Hge. cbn [fst] in Hge.
        replace (t <? h_created (d_hdr d)) with false by (symmetry; apply N.ltb_ge; exact Hge). reflexivity.
      - intros p Hp. apply filter_In in Hp. destruct Hp as [_ Hw]. unfold win in Hw.
        rewrite <- redo_iff in Hw. apply memN_true. exact Hw.
      - exact Hcomm.
    Qed.
  End Thm.
End Recover.
