(** VarInt: decode (encode v) = v for every i64, at most ten bytes. *)
From Axv Require Import Base.Bytes Base.BytesFacts Model.Values.
From Coq Require Import ZifyBool ZifyN ZifyNat.
Ltac Zify.zify_post_hook ::= Z.div_mod_to_equations.
Open Scope Z_scope.

(** ** Masks and shifts as arithmetic *)
Lemma land_127 u : 0 <= u -> Z.land u 127 = u mod 128.
Proof. intros H. change 127 with (Z.ones 7). rewrite Z.land_ones by lia. reflexivity. Qed.
Lemma land_1 u : 0 <= u -> Z.land u 1 = u mod 2.
Proof. intros H. change 1 with (Z.ones 1) at 1. rewrite Z.land_ones by lia. reflexivity. Qed.
Lemma shiftr_7 u : Z.shiftr u 7 = u / 128.
Proof. rewrite Z.shiftr_div_pow2 by lia. reflexivity. Qed.

(** Finite sweeps over one byte, lifted. *)
Lemma byte_sweep (P : Z -> bool) :
  forallb P (map Z.of_nat (seq 0 256)) = true -> forall b, 0 <= b < 256 -> P b = true.
Proof.
  intros H b Hb. rewrite forallb_forall in H. apply H.
  replace b with (Z.of_nat (Z.to_nat b)) by lia. apply in_map. apply in_seq. lia.
Qed.

Lemma lor_128 b : 0 <= b < 128 -> Z.lor b 128 = b + 128.
Proof.
  intros H.
  assert (forallb (fun b => negb (b <? 128) || (Z.lor b 128 =? b + 128)) (map Z.of_nat (seq 0 256)) = true) as Hf
    by (vm_compute; reflexivity).
  pose proof (byte_sweep _ Hf b ltac:(lia)) as Hs. cbv beta in Hs.
  destruct (b <? 128) eqn:E; [|lia]. cbn [negb orb] in Hs. lia.
Qed.

Lemma land_byte_127 b : 0 <= b < 256 -> Z.land b 127 = b mod 128.
Proof. intros H. apply land_127. lia. Qed.

Lemma land_byte_128 b : 0 <= b < 256 -> (Z.land b 128 =? 0) = (b <? 128).
Proof.
  intros H.
  assert (forallb (fun b => Bool.eqb (Z.land b 128 =? 0) (b <? 128)) (map Z.of_nat (seq 0 256)) = true) as Hf
    by (vm_compute; reflexivity).
  pose proof (byte_sweep _ Hf b H) as Hs. cbv beta in Hs. now apply Bool.eqb_prop in Hs.
Qed.

(** Disjoint OR is addition. *)
Lemma lor_shiftl_add a d s : 0 <= s -> 0 <= a < 2 ^ s -> 0 <= d ->
  Z.lor a (Z.shiftl d s) = a + d * 2 ^ s.
Proof.
  intros Hs Ha Hd.
  assert (Z.land a (Z.shiftl d s) = 0) as Hdisj.
  { apply Z.bits_inj'. intros n Hn. rewrite Z.land_spec, Z.bits_0.
    destruct (Z.lt_ge_cases n s) as [Hlt|Hge].
    - rewrite (Z.shiftl_spec_low d s n Hlt). apply andb_false_r.
    - destruct (Z.eq_dec a 0) as [->|Hnz]; [now rewrite Z.bits_0|].
      assert (Z.log2 a < n) as Hlog.
      { assert (Z.log2 a < s) by (apply Z.log2_lt_pow2; lia). lia. }
      rewrite (Z.bits_above_log2 a n) by lia. reflexivity. }
  rewrite <- Z.lxor_lor by exact Hdisj. rewrite <- Z.add_nocarry_lxor by exact Hdisj.
  rewrite Z.shiftl_mul_pow2 by lia. reflexivity.
Qed.

(** ** Zig-zag *)
Lemma zigzag_arith v : - 2 ^ 63 <= v < 2 ^ 63 ->
  zigzag v = if v <? 0 then - 2 * v - 1 else 2 * v.
Proof.
  intros Hv. unfold zigzag, wrap64.
  rewrite Z.shiftl_mul_pow2, Z.shiftr_div_pow2 by lia. change (2 ^ 1) with 2.
  destruct (v <? 0) eqn:E.
  - replace (v / 2 ^ 63) with (-1) by lia. rewrite Z.lxor_m1_r.
    unfold Z.lnot. rewrite Z.mod_small; lia.
  - replace (v / 2 ^ 63) with 0 by lia. rewrite Z.lxor_0_r. rewrite Z.mod_small; lia.
Qed.

Lemma zigzag_range v : - 2 ^ 63 <= v < 2 ^ 63 -> 0 <= zigzag v < 2 ^ 64.
Proof. intros H. rewrite zigzag_arith by exact H. destruct (v <? 0) eqn:E; lia. Qed.

Lemma unzigzag_arith u : 0 <= u ->
  unzigzag u = if Z.even u then u / 2 else - (u / 2) - 1.
Proof.
  intros Hu. unfold unzigzag. rewrite land_1 by exact Hu.
  rewrite Z.shiftr_div_pow2 by lia. change (2 ^ 1) with 2.
  rewrite Zmod_even. destruct (Z.even u) eqn:E.
  - cbn [Z.opp]. apply Z.lxor_0_r.
  - change (- (1)) with (-1). rewrite Z.lxor_m1_r. unfold Z.lnot. lia.
Qed.

Lemma unzigzag_zigzag v : - 2 ^ 63 <= v < 2 ^ 63 -> unzigzag (zigzag v) = v.
Proof.
  intros Hv. pose proof (zigzag_range v Hv) as Hr.
  rewrite unzigzag_arith by lia. rewrite zigzag_arith by exact Hv.
  destruct (v <? 0) eqn:E.
  - replace (Z.even (-2 * v - 1)) with false.
    2:{ symmetry. pose proof (Zmod_even (-2 * v - 1)) as H. destruct (Z.even (-2 * v - 1)); [lia|reflexivity]. }
    lia.
  - replace (Z.even (2 * v)) with true.
    2:{ symmetry. pose proof (Zmod_even (2 * v)) as H. destruct (Z.even (2 * v)); [reflexivity|lia]. }
    lia.
Qed.

(** ** The byte loop *)
Lemma enc_bytes_ok fuel : forall u, 0 <= u -> bytes_ok (varint_enc_fuel fuel u).
Proof.
  induction fuel as [|f IH]; intros u Hu; cbn [varint_enc_fuel]; [constructor|].
  rewrite land_127, shiftr_7 by lia.
  destruct (u / 128 =? 0) eqn:E.
  - constructor; [|constructor]. unfold byte_ok. lia.
  - constructor.
    + unfold byte_ok. rewrite lor_128 by lia. lia.
    + apply IH. lia.
Qed.

Lemma enc_length fuel : forall u, (length (varint_enc_fuel fuel u) <= fuel)%nat.
Proof.
  induction fuel as [|f IH]; intros u; cbn [varint_enc_fuel length]; [lia|].
  destruct (Z.shiftr u 7 =? 0); cbn [length]; [lia|]. specialize (IH (Z.shiftr u 7)). lia.
Qed.

Lemma enc_nonempty f u : varint_enc_fuel (S f) u <> [].
Proof. cbn [varint_enc_fuel]. destruct (Z.shiftr u 7 =? 0); discriminate. Qed.

(** Scanning an encoding followed by anything finds exactly the encoding. *)
Lemma scan_enc f : forall u rest sfuel, 0 <= u < 128 ^ Z.of_nat (S f) -> (S f <= sfuel)%nat ->
  varint_scan sfuel (varint_enc_fuel (S f) u ++ rest) = Some (length (varint_enc_fuel (S f) u)).
Proof.
  induction f as [|f IH]; intros u rest sfuel Hu Hs.
  - destruct sfuel as [|sf]; [lia|].
    cbn [varint_enc_fuel]. rewrite land_127, shiftr_7 by lia.
    change (128 ^ Z.of_nat 1) with 128 in Hu.
    replace (u / 128 =? 0) with true by lia.
    cbn [app varint_scan length]. rewrite Z2N.id by lia.
    rewrite land_byte_128 by lia. replace (u mod 128 <? 128) with true by lia. reflexivity.
  - destruct sfuel as [|sf]; [lia|].
    remember (S f) as f1 eqn:Hf1.
    cbn [varint_enc_fuel]. rewrite land_127, shiftr_7 by lia.
    destruct (u / 128 =? 0) eqn:E.
    + cbn [app varint_scan length]. rewrite Z2N.id by lia.
      rewrite land_byte_128 by lia. replace (u mod 128 <? 128) with true by lia. reflexivity.
    + cbn [app varint_scan length]. rewrite lor_128 by lia. rewrite Z2N.id by lia.
      rewrite land_byte_128 by lia. replace (u mod 128 + 128 <? 128) with false by lia.
      subst f1. rewrite IH; [reflexivity| |lia].
      rewrite Nat2Z.inj_succ, Z.pow_succ_r in Hu by lia. lia.
Qed.

(** Folding the bytes back reconstructs the number (u64 arithmetic never overflows here). *)
Lemma val_enc f : forall u shift acc rest, 0 <= u < 128 ^ Z.of_nat (S f) ->
  0 <= shift -> 0 <= acc < 2 ^ shift -> acc + u * 2 ^ shift < 2 ^ 64 ->
  varint_val (varint_enc_fuel (S f) u ++ rest) shift acc = acc + u * 2 ^ shift.
Proof.
  induction f as [|f IH]; intros u shift acc rest Hu Hsh Hacc Htot.
  - cbn [varint_enc_fuel]. rewrite land_127, shiftr_7 by lia.
    change (128 ^ Z.of_nat 1) with 128 in Hu.
    replace (u / 128 =? 0) with true by lia.
    cbn [app varint_val]. rewrite Z2N.id by lia.
    rewrite land_byte_127, land_byte_128 by lia.
    replace (u mod 128 <? 128) with true by lia.
    rewrite Z.mod_mod by lia. replace (u mod 128) with u by lia.
    assert (0 < 2 ^ shift) as Hp0 by (apply Z.pow_pos_nonneg; lia).
    replace (wrap64 (Z.shiftl u shift)) with (Z.shiftl u shift)
      by (unfold wrap64; rewrite Z.shiftl_mul_pow2 by lia; symmetry; apply Z.mod_small; nia).
    apply lor_shiftl_add; lia.
  - remember (S f) as f1 eqn:Hf1.
    cbn [varint_enc_fuel]. rewrite land_127, shiftr_7 by lia.
    assert (0 < 2 ^ shift) as Hp by (apply Z.pow_pos_nonneg; lia).
    destruct (u / 128 =? 0) eqn:E.
    + cbn [app varint_val]. rewrite Z2N.id by lia.
      rewrite land_byte_127, land_byte_128 by lia.
      replace (u mod 128 <? 128) with true by lia.
      rewrite Z.mod_mod by lia. replace (u mod 128) with u by lia.
      replace (wrap64 (Z.shiftl u shift)) with (Z.shiftl u shift)
        by (unfold wrap64; rewrite Z.shiftl_mul_pow2 by lia; symmetry; apply Z.mod_small; nia).
      apply lor_shiftl_add; lia.
    + cbn [app varint_val]. rewrite lor_128 by lia. rewrite Z2N.id by lia.
      rewrite land_byte_127, land_byte_128 by lia.
      replace (u mod 128 + 128 <? 128) with false by lia.
      replace ((u mod 128 + 128) mod 128) with (u mod 128) by lia.
      assert (u mod 128 * 2 ^ shift <= u * 2 ^ shift) as Hle by nia.
      replace (wrap64 (Z.shiftl (u mod 128) shift)) with (Z.shiftl (u mod 128) shift)
        by (unfold wrap64; rewrite Z.shiftl_mul_pow2 by lia; symmetry; apply Z.mod_small; nia).
      rewrite lor_shiftl_add by lia.
      subst f1. rewrite IH.
      * rewrite Z.pow_add_r by lia. change (2 ^ 7) with 128. nia.
      * rewrite Nat2Z.inj_succ, Z.pow_succ_r in Hu by lia. lia.
      * lia.
      * rewrite Z.pow_add_r by lia. change (2 ^ 7) with 128. nia.
      * rewrite Z.pow_add_r by lia. change (2 ^ 7) with 128. nia.
Qed.

Theorem varint_roundtrip v rest : - 2 ^ 63 <= v < 2 ^ 63 ->
  varint_decode (varint_encode v ++ rest) = Some (v, length (varint_encode v))
  /\ (1 <= length (varint_encode v) <= 10)%nat /\ bytes_ok (varint_encode v).
Proof.
  intros Hv. pose proof (zigzag_range v Hv) as Hr. unfold varint_encode.
  assert (0 <= zigzag v < 128 ^ Z.of_nat 10) as Hu.
  { change (128 ^ Z.of_nat 10) with (2 ^ 70). lia. }
  repeat split.
  - unfold varint_decode.
    rewrite (scan_enc 9 (zigzag v) rest 10 Hu) by lia.
    rewrite firstn_app_exact.
    rewrite <- (app_nil_r (varint_enc_fuel 10 (zigzag v))).
    rewrite (val_enc 9 (zigzag v) 0 0 []) by (cbn; lia).
    cbn [Z.pow]. rewrite Z.mul_1_r, Z.add_0_l, unzigzag_zigzag by exact Hv.
    now rewrite app_nil_r.
  - pose proof (enc_nonempty 9 (zigzag v)). destruct (varint_enc_fuel 10 (zigzag v)); [contradiction|cbn; lia].
  - apply enc_length.
  - apply enc_bytes_ok. lia.
Qed.
