(** The aborted-transaction bitmap behaves as a set of ids below [max_tracked_aborted_txs]; ids at
    or above that bound are silently not recorded. *)
From Axv Require Import Base.Bytes Gen.GenHeader Model.Header.
From Coq Require Import Lia ZifyBool ZifyN ZifyNat.
Ltac Zify.zify_post_hook ::= Z.div_mod_to_equations.
Open Scope N_scope.

Definition wf_bitmap (bm : bitmap) : Prop := length bm = N.to_nat aborted_bitmap_size.

Lemma land_bit a b : (N.land a (N.shiftl 1 b) =? 0) = negb (N.testbit a b).
Proof.
  rewrite N.shiftl_1_l. destruct (N.testbit a b) eqn:E; cbn [negb].
  - apply N.eqb_neq. intros H.
    assert (N.testbit (N.land a (2 ^ b)) b = true) as H0 by (rewrite N.land_spec, E, N.pow2_bits_true; reflexivity).
    rewrite H, N.bits_0 in H0. discriminate.
  - apply N.eqb_eq. apply N.bits_inj. intros n. rewrite N.land_spec, N.bits_0.
    destruct (N.eq_dec b n) as [<-|Hn]; [rewrite E; reflexivity|].
    rewrite N.pow2_bits_false by exact Hn. apply andb_false_r.
Qed.

Lemma is_aborted_testbit bm x :
  is_aborted bm x = (x <? max_tracked_aborted_txs) && N.testbit (get_byte bm (x / 8)) (x mod 8).
Proof.
  unfold is_aborted. rewrite land_bit, negb_involutive.
  destruct (max_tracked_aborted_txs <=? x) eqn:E.
  - replace (x <? max_tracked_aborted_txs) with false by lia. reflexivity.
  - replace (x <? max_tracked_aborted_txs) with true by lia. reflexivity.
Qed.

Lemma nth_set {A} (l : list A) : forall i v d j, (i < length l)%nat ->
  nth j (firstn i l ++ v :: skipn (S i) l) d = if Nat.eqb j i then v else nth j l d.
Proof.
  induction l as [|a l IH]; intros i v d j Hi; cbn [length] in Hi; [lia|].
  destruct i as [|i]; cbn [firstn skipn app].
  - destruct j; reflexivity.
  - destruct j as [|j]; cbn [nth Nat.eqb]; [reflexivity|]. apply IH. lia.
Qed.

Lemma get_set bm i v j : (N.to_nat i < length bm)%nat ->
  get_byte (set_byte bm i v) j = if j =? i then v else get_byte bm j.
Proof.
  intros Hi. unfold get_byte, set_byte. rewrite nth_set by exact Hi.
  destruct (Nat.eqb (N.to_nat j) (N.to_nat i)) eqn:E.
  - apply Nat.eqb_eq in E. replace (j =? i) with true by lia. reflexivity.
  - apply Nat.eqb_neq in E. replace (j =? i) with false by lia. reflexivity.
Qed.

Lemma set_length bm i v : (N.to_nat i < length bm)%nat -> length (set_byte bm i v) = length bm.
Proof.
  intros Hi. unfold set_byte. rewrite app_length, firstn_length. cbn [length]. rewrite skipn_length. lia.
Qed.

Lemma sizes : max_tracked_aborted_txs = 8 * aborted_bitmap_size.
Proof. reflexivity. Qed.

Lemma mark_wf bm x : wf_bitmap bm -> wf_bitmap (mark bm x).
Proof.
  unfold wf_bitmap, mark. intros H. destruct (x <? max_tracked_aborted_txs) eqn:E; [|exact H].
  rewrite set_length; [exact H|]. rewrite H. pose proof sizes. lia.
Qed.

Theorem is_aborted_mark bm x y : wf_bitmap bm ->
  is_aborted (mark bm x) y = is_aborted bm y || ((y =? x) && (x <? max_tracked_aborted_txs)).
Proof.
  intros Hwf. rewrite !is_aborted_testbit. unfold mark.
  destruct (x <? max_tracked_aborted_txs) eqn:Ex; [|rewrite andb_false_r, orb_false_r; reflexivity].
  rewrite andb_true_r.
  assert (N.to_nat (x / 8) < length bm)%nat as Hi by (rewrite Hwf; pose proof sizes; lia).
  rewrite get_set by exact Hi.
  destruct (y / 8 =? x / 8) eqn:Ed.
  - rewrite N.lor_spec, N.shiftl_1_l, N.pow2_bits_eqb.
    replace (get_byte bm (x / 8)) with (get_byte bm (y / 8)) by (f_equal; lia).
    destruct (x mod 8 =? y mod 8) eqn:Em.
    + replace (y =? x) with true by lia. replace (y <? max_tracked_aborted_txs) with true by lia.
      cbn [andb]. rewrite !orb_true_r. reflexivity.
    + replace (y =? x) with false by lia. rewrite !orb_false_r. reflexivity.
  - replace (y =? x) with false by lia. rewrite orb_false_r. reflexivity.
Qed.

(** clearing *)
Lemma fold_clear_bits (cond : N -> bool) bs : forall byte n,
  N.testbit (fold_left (fun acc b => if cond b then N.ldiff acc (N.shiftl 1 b) else acc) bs byte) n =
  N.testbit byte n && negb (existsb (fun b => (b =? n) && cond b) bs).
Proof.
  induction bs as [|b bs IH]; intros byte n; cbn [fold_left existsb]; [now rewrite andb_true_r|].
  rewrite IH. destruct (cond b) eqn:Ec.
  - rewrite N.ldiff_spec, N.shiftl_1_l, N.pow2_bits_eqb, andb_true_r.
    destruct (b =? n); cbn [negb orb andb]; [now rewrite andb_false_r|now rewrite andb_true_r].
  - rewrite andb_false_r. reflexivity.
Qed.

Lemma clear_byte_bit m i byte n : n < 8 ->
  N.testbit (clear_byte m i byte) n =
  N.testbit byte n && negb (8 * i + n <=? N.min m (max_tracked_aborted_txs - 1)).
Proof.
  intros Hn. unfold clear_byte. rewrite fold_clear_bits. f_equal. f_equal.
  assert (n = 0 \/ n = 1 \/ n = 2 \/ n = 3 \/ n = 4 \/ n = 5 \/ n = 6 \/ n = 7) as H by lia.
  destruct H as [->|[->|[->|[->|[->|[->|[->| ->]]]]]]]; cbn [existsb N.eqb Pos.eqb andb orb];
    rewrite ?orb_false_r; reflexivity.
Qed.

Lemma get_clear_from m bm : forall i j, (N.to_nat j < length bm)%nat ->
  get_byte (clear_from m i bm) j = clear_byte m (i + j) (get_byte bm j).
Proof.
  unfold get_byte. induction bm as [|b bm IH]; intros i j Hj; cbn [length] in Hj; [lia|].
  cbn [clear_from]. destruct (N.to_nat j) as [|k] eqn:Ej; cbn [nth].
  - replace (i + j) with i by lia. reflexivity.
  - specialize (IH (i + 1) (N.of_nat k)). rewrite Nat2N.id in IH.
    replace (i + 1 + N.of_nat k) with (i + j) in IH by lia. apply IH. lia.
Qed.

Lemma clear_from_length m bm : forall i, length (clear_from m i bm) = length bm.
Proof. induction bm as [|b bm IH]; intros i; cbn [clear_from length]; [reflexivity|now rewrite IH]. Qed.

Lemma clear_wf bm m : wf_bitmap bm -> wf_bitmap (clear_up_to bm m).
Proof. unfold wf_bitmap, clear_up_to. now rewrite clear_from_length. Qed.

Theorem is_aborted_clear bm m y : wf_bitmap bm ->
  is_aborted (clear_up_to bm m) y = is_aborted bm y && (m <? y).
Proof.
  intros Hwf. rewrite !is_aborted_testbit. unfold clear_up_to.
  destruct (y <? max_tracked_aborted_txs) eqn:Ey; [|reflexivity]. cbn [andb].
  assert (N.to_nat (y / 8) < length bm)%nat as Hi by (rewrite Hwf; pose proof sizes; lia).
  rewrite get_clear_from by exact Hi. rewrite clear_byte_bit by lia. f_equal.
  replace (8 * (0 + y / 8) + y mod 8) with y by lia.
  destruct (m <? y) eqn:E; lia.
Qed.

Lemma get_empty i : get_byte empty_bitmap i = 0.
Proof.
  unfold get_byte, empty_bitmap. generalize (N.to_nat aborted_bitmap_size) (N.to_nat i).
  intros n k. revert k. induction n as [|n IH]; intros k; destruct k; cbn; auto.
Qed.

Theorem is_aborted_empty y : is_aborted empty_bitmap y = false.
Proof. rewrite is_aborted_testbit, get_empty, N.bits_0. apply andb_false_r. Qed.

Lemma empty_wf : wf_bitmap empty_bitmap.
Proof. unfold wf_bitmap, empty_bitmap. apply repeat_length. Qed.

(** * The persisted set along any history of aborts and clean-ups *)
Inductive bop := BMark (x : N) | BClear (m : N).
Definition bstep (bm : bitmap) (o : bop) : bitmap := match o with BMark x => mark bm x | BClear m => clear_up_to bm m end.

(** What should be remembered: the ids marked and not cleared since. *)
Fixpoint should_be_aborted (ops : list bop) (acc : N -> bool) : N -> bool :=
  match ops with
  | [] => acc
  | BMark x :: r => should_be_aborted r (fun y => acc y || (y =? x))
  | BClear m :: r => should_be_aborted r (fun y => acc y && (m <? y))
  end.

Lemma bsteps_wf ops : forall bm, wf_bitmap bm -> wf_bitmap (fold_left bstep ops bm).
Proof.
  induction ops as [|o ops IH]; intros bm H; cbn [fold_left]; [exact H|].
  apply IH. destruct o; [now apply mark_wf|now apply clear_wf].
Qed.

Definition all_tracked (ops : list bop) : Prop :=
  Forall (fun o => match o with BMark x => x < max_tracked_aborted_txs | BClear _ => True end) ops.

Theorem persisted_set_exact ops : all_tracked ops -> forall bm acc, wf_bitmap bm ->
  (forall y, is_aborted bm y = acc y) ->
  forall y, is_aborted (reload (fold_left bstep ops bm)) y = should_be_aborted ops acc y.
Proof.
  unfold reload. induction 1 as [|o ops Ho _ IH]; intros bm acc Hwf Hacc y; cbn [fold_left should_be_aborted]; [apply Hacc|].
  destruct o as [x|m]; cbn [bstep].
  - apply IH; [now apply mark_wf|]. intros z. rewrite is_aborted_mark by exact Hwf. rewrite Hacc.
    replace (x <? max_tracked_aborted_txs) with true by lia. now rewrite andb_true_r.
  - apply IH; [now apply clear_wf|]. intros z. rewrite is_aborted_clear by exact Hwf. now rewrite Hacc.
Qed.

Lemma in_nseq n t : In t (nseq n) <-> t < n.
Proof.
  unfold nseq. rewrite in_map_iff. split.
  - intros (k & <- & Hk). apply in_seq in Hk. lia.
  - intros H. exists (N.to_nat t). split; [apply N2Nat.id|]. apply in_seq. lia.
Qed.

(** The list handed to the coordinator at open is exactly the set the bitmap answers for. *)
Lemma aborted_list_spec bm t : In t (aborted_list bm) <-> is_aborted bm t = true.
Proof.
  unfold aborted_list. rewrite filter_In, in_nseq. split; [tauto|]. intros H. split; [|exact H].
  rewrite is_aborted_testbit in H. apply andb_true_iff in H. lia.
Qed.
