(** Laws of DataType equality, ordering and hashing (model in Model/Values.v). *)
From Axv Require Import Base.Bytes Base.BytesFacts Model.Values Proofs.BlobProofs Proofs.VarintProofs.
From Coq Require Import ZifyBool ZifyN ZifyNat.
Ltac Zify.zify_post_hook ::= Z.div_mod_to_equations.
Open Scope N_scope.

(** * Doubles *)
Lemma f64_eqb_refl x : f64_is_nan x = false -> f64_eqb x x = true.
Proof. intros H. unfold f64_eqb, f64_cmp. rewrite H. cbn [orb]. now rewrite Z.compare_refl. Qed.

Lemma f64_eqb_sym x y : f64_eqb x y = f64_eqb y x.
Proof.
  unfold f64_eqb, f64_cmp. rewrite (orb_comm (f64_is_nan y)).
  destruct (f64_is_nan x || f64_is_nan y); [reflexivity|].
  rewrite (Z.compare_antisym (f64_key x) (f64_key y)). destruct (f64_key x ?= f64_key y)%Z; reflexivity.
Qed.

Lemma f64_eqb_true x y : f64_eqb x y = true <->
  f64_is_nan x = false /\ f64_is_nan y = false /\ f64_key x = f64_key y.
Proof.
  unfold f64_eqb, f64_cmp. destruct (f64_is_nan x), (f64_is_nan y); cbn [orb];
    try (split; [discriminate|intros (A & B & C); discriminate]).
  destruct (f64_key x ?= f64_key y)%Z eqn:E.
  - apply Z.compare_eq in E. tauto.
  - split; [discriminate|]. intros (_ & _ & C). rewrite C, Z.compare_refl in E. discriminate.
  - split; [discriminate|]. intros (_ & _ & C). rewrite C, Z.compare_refl in E. discriminate.
Qed.

Lemma f64_eqb_trans x y z : f64_eqb x y = true -> f64_eqb y z = true -> f64_eqb x z = true.
Proof. rewrite !f64_eqb_true. intros (A & B & C) (_ & D & E). repeat split; congruence. Qed.

(** The order key is injective except that the two zeros share key 0. *)
Lemma f64_key_inj x y : x < 2 ^ 64 -> y < 2 ^ 64 -> f64_key x = f64_key y ->
  ~ (f64_is_zero x = true /\ f64_is_zero y = true) -> x = y.
Proof.
  unfold f64_key, f64_neg, f64_is_zero. intros Hx Hy Hk Hz.
  change (2 ^ 64) with 18446744073709551616 in *. change (2 ^ 63) with 9223372036854775808 in *.
  destruct (9223372036854775808 <=? x) eqn:Ex, (9223372036854775808 <=? y) eqn:Ey; lia.
Qed.

(** * Equality on values through classes *)
Inductive cls := CNull | CB (b : bool) | CT (d : list N) | CNum (bits : N).
Definition cls_of (v : value) : cls :=
  match v with
  | VNull => CNull | VBool b => CB b | VBlob d => CT d
  | _ => match to_f64 v with Some b => CNum b | None => CNull end
  end.
Definition cls_eqb (a b : cls) : bool :=
  match a, b with
  | CNull, CNull => true
  | CB x, CB y => Bool.eqb x y
  | CT x, CT y => match blob_cmp x y with Eq => true | _ => false end
  | CNum x, CNum y => f64_eqb x y
  | _, _ => false
  end.
Lemma value_eqb_cls a b : value_eqb a b = cls_eqb (cls_of a) (cls_of b).
Proof. destruct a, b; reflexivity. Qed.

Definition cls_wf (c : cls) : Prop :=
  match c with CT d => bytes_ok d | CNum b => b < 2 ^ 64 | _ => True end.

Definition is_nan_value (v : value) : Prop :=
  match to_f64 v with Some b => f64_is_nan b = true | None => False end.

Lemma value_eqb_refl v : value_wf v = true -> ~ is_nan_value v -> value_eqb v v = true.
Proof.
  intros Hwf Hn. rewrite value_eqb_cls. unfold is_nan_value in Hn.
  destruct v; cbn [cls_of to_f64 cls_eqb] in *; try reflexivity;
    try (apply f64_eqb_refl; destruct (f64_is_nan _); [exfalso; now apply Hn|reflexivity]).
  - apply Bool.eqb_reflx.
  - cbn [value_wf] in Hwf. apply bytes_okb_spec in Hwf. rewrite blob_cmp_lex by exact Hwf.
    now rewrite (proj2 (lex_cmp_eq data data) eq_refl).
Qed.

Lemma blob_eq_sym x y : bytes_ok x -> bytes_ok y ->
  match blob_cmp x y with Eq => true | _ => false end = match blob_cmp y x with Eq => true | _ => false end.
Proof.
  intros Hx Hy. rewrite !blob_cmp_lex by assumption. rewrite (lex_cmp_antisym x y).
  destruct (lex_cmp x y); reflexivity.
Qed.

Lemma cls_of_wf v : value_wf v = true -> match cls_of v with CT d => bytes_ok d | _ => True end.
Proof. destruct v; cbn; try tauto. intros H. now apply bytes_okb_spec. Qed.

Lemma value_eqb_sym a b : value_wf a = true -> value_wf b = true -> value_eqb a b = value_eqb b a.
Proof.
  intros Ha Hb. rewrite !value_eqb_cls.
  pose proof (cls_of_wf a Ha) as Wa. pose proof (cls_of_wf b Hb) as Wb.
  destruct (cls_of a), (cls_of b); cbn [cls_eqb]; try reflexivity.
  - destruct b0, b1; reflexivity.
  - now apply blob_eq_sym.
  - apply f64_eqb_sym.
Qed.

Lemma blob_eq_true x y : bytes_ok x -> bytes_ok y ->
  match blob_cmp x y with Eq => true | _ => false end = true <-> x = y.
Proof.
  intros Hx Hy. rewrite blob_cmp_lex by assumption. rewrite <- lex_cmp_eq.
  destruct (lex_cmp x y); split; congruence.
Qed.

Lemma value_eqb_trans a b c : value_wf a = true -> value_wf b = true -> value_wf c = true ->
  value_eqb a b = true -> value_eqb b c = true -> value_eqb a c = true.
Proof.
  intros Ha Hb Hc. rewrite !value_eqb_cls.
  pose proof (cls_of_wf a Ha) as Wa. pose proof (cls_of_wf b Hb) as Wb. pose proof (cls_of_wf c Hc) as Wc.
  destruct (cls_of a), (cls_of b), (cls_of c); cbn [cls_eqb]; try discriminate; try reflexivity.
  - intros H1 H2. apply Bool.eqb_prop in H1, H2. subst. apply Bool.eqb_reflx.
  - intros H1 H2. apply blob_eq_true in H1, H2; try assumption. subst. now apply blob_eq_true.
  - apply f64_eqb_trans.
Qed.

(** * Equality implies equal hash input, except for the two zeros *)
Definition both_zero (a b : value) : Prop :=
  match to_f64 a, to_f64 b with
  | Some x, Some y => f64_is_zero x = true /\ f64_is_zero y = true
  | _, _ => False
  end.

Lemma f64_of_mag_bound m : m < 2 ^ 64 -> f64_of_mag m < 2 ^ 63.
Proof.
  intros Hm. unfold f64_of_mag. destruct (m =? 0) eqn:E0; [reflexivity|].
  assert (N.log2 m < 64) as Hl by (apply N.log2_lt_pow2; lia).
  set (n := N.log2 m) in *.
  destruct (n <? 53) eqn:E1.
  - assert (2 ^ n <= m < 2 ^ N.succ n) as Hs by (apply N.log2_spec; lia).
    assert (m * 2 ^ (52 - n) < 2 ^ 53) as Hb.
    { replace (2 ^ 53) with (2 ^ N.succ n * 2 ^ (52 - n)).
      - apply N.mul_lt_mono_pos_r; [apply N.neq_0_lt_0, N.pow_nonzero; lia|lia].
      - rewrite <- N.pow_add_r. f_equal. lia. }
    change (2 ^ 63) with (2048 * 2 ^ 52). change (2 ^ 53) with (2 * 2 ^ 52) in Hb. nia.
  - destruct (round_shift m (n - 52) =? 2 ^ 53) eqn:E2.
    + change (2 ^ 63) with (2048 * 2 ^ 52). nia.
    + unfold round_shift in *. destruct (n - 52 =? 0) eqn:E3.
      * assert (n = 52) by lia. lia.
      * assert (2 ^ n <= m < 2 ^ N.succ n) as Hs by (apply N.log2_spec; lia).
        assert (m / 2 ^ (n - 52) < 2 ^ 53) as Hq.
        { apply N.div_lt_upper_bound; [apply N.pow_nonzero; lia|].
          replace (2 ^ (n - 52) * 2 ^ 53) with (2 ^ N.succ n); [lia|].
          rewrite <- N.pow_add_r. f_equal. lia. }
        change (2 ^ 63) with (2048 * 2 ^ 52). change (2 ^ 53) with (2 * 2 ^ 52) in *.
        destruct (_ || _); nia.
Qed.

Lemma f64_of_Z_bound z : (- 2 ^ 64 < z < 2 ^ 64)%Z -> f64_of_Z z < 2 ^ 64.
Proof.
  intros Hz. unfold f64_of_Z. destruct (z <? 0)%Z eqn:E.
  - pose proof (f64_of_mag_bound (Z.abs_N z) ltac:(lia)). change (2 ^ 64) with (2 ^ 63 + 2 ^ 63). lia.
  - pose proof (f64_of_mag_bound (Z.to_N z) ltac:(lia)). change (2 ^ 64) with (2 ^ 63 + 2 ^ 63). lia.
Qed.

Lemma f64_of_f32_bound b : b < 2 ^ 32 -> f64_of_f32 b < 2 ^ 64.
Proof.
  intros Hb. unfold f64_of_f32.
  change (2 ^ 32) with 4294967296 in Hb.
  assert (b / 2 ^ 31 <= 1) as Hs by (change (2 ^ 31) with 2147483648; lia).
  set (m := b mod 2 ^ 23). assert (m < 2 ^ 23) as Hm by (apply N.mod_lt; discriminate).
  set (e := (b / 2 ^ 23) mod 256). assert (e < 256) as He by (apply N.mod_lt; discriminate).
  change (2 ^ 64) with (2 ^ 63 + 2048 * 2 ^ 52). change (2 ^ 23) with 8388608 in Hm.
  assert (b / 2 ^ 31 * 2 ^ 63 <= 2 ^ 63) as Hs' by nia.
  enough ((if e =? 255 then 2047 * 2 ^ 52 + m * 2 ^ 29
           else if e =? 0 then if m =? 0 then 0 else (N.log2 m + 874) * 2 ^ 52 + (m * 2 ^ (52 - N.log2 m) - 2 ^ 52)
           else (e + 896) * 2 ^ 52 + m * 2 ^ 29) < 2048 * 2 ^ 52) by lia.
  change (2 ^ 29) with 536870912. change (2 ^ 52) with 4503599627370496.
  destruct (e =? 255) eqn:E1; [lia|]. destruct (e =? 0) eqn:E2; [|lia].
  destruct (m =? 0) eqn:E3; [lia|].
  assert (N.log2 m < 23) as Hl by (apply N.log2_lt_pow2; [lia|exact Hm]).
  assert (2 ^ N.log2 m <= m < 2 ^ N.succ (N.log2 m)) as Hsp by (apply N.log2_spec; lia).
  set (n := N.log2 m) in *.
  assert (m * 2 ^ (52 - n) < 2 * 4503599627370496) as Hb2.
  { change (2 * 4503599627370496) with (2 ^ 53).
    replace (2 ^ 53) with (2 ^ N.succ n * 2 ^ (52 - n)) by (rewrite <- N.pow_add_r; f_equal; lia).
    apply N.mul_lt_mono_pos_r; [apply N.neq_0_lt_0, N.pow_nonzero; lia|lia]. }
  nia.
Qed.

Lemma to_f64_bound v b : value_wf v = true -> to_f64 v = Some b -> b < 2 ^ 64.
Proof.
  destruct v; cbn [to_f64 value_wf in_range]; intros Hwf H; inversion H; subst; clear H;
    try (apply f64_of_Z_bound; lia).
  - apply f64_of_f32_bound. lia.
  - lia.
Qed.

Theorem eq_implies_hash a b : value_wf a = true -> value_wf b = true ->
  value_eqb a b = true -> ~ both_zero a b -> hash_key a = hash_key b.
Proof.
  intros Ha Hb He Hz.
  assert (Hnum : forall x y, to_f64 a = Some x -> to_f64 b = Some y -> f64_eqb x y = true -> x = y).
  { intros x y Hx Hy Hxy. apply f64_eqb_true in Hxy. destruct Hxy as (_ & _ & Hk).
    apply f64_key_inj; [exact (to_f64_bound a x Ha Hx)|exact (to_f64_bound b y Hb Hy)|exact Hk|].
    unfold both_zero in Hz. now rewrite Hx, Hy in Hz. }
  destruct a, b; cbn [value_eqb to_f64] in He; try discriminate; try reflexivity;
    try (cbn [hash_key to_f64]; f_equal; f_equal; apply Hnum; [reflexivity|reflexivity|exact He]).
  - apply Bool.eqb_prop in He. now subst.
  - cbn [value_wf] in Ha, Hb. apply bytes_okb_spec in Ha, Hb.
    apply blob_eq_true in He; try assumption. now subst.
Qed.

(** * Equality and ordering agree *)
Lemma eq_iff_cmp a b : a <> VNull -> value_eqb a b = true <-> value_cmp a b = Some Eq.
Proof.
  intros Hn.
  destruct a, b; cbn [value_eqb value_cmp to_f64]; try contradiction;
    try (split; discriminate);
    try (unfold f64_eqb; destruct (f64_cmp _ _) as [[]|]; split; congruence).
  - destruct b0, b; cbn; split; congruence.
  - destruct (blob_cmp data data0); split; congruence.
Qed.

(** * Integers up to 2^53 in magnitude compare by mathematical value *)
Lemma f64_of_mag_small m : 0 < m -> m < 2 ^ 53 ->
  f64_of_mag m = (N.log2 m + 1022) * 2 ^ 52 + m * 2 ^ (52 - N.log2 m)
  /\ 2 ^ 52 <= m * 2 ^ (52 - N.log2 m) < 2 ^ 53 /\ N.log2 m < 53.
Proof.
  intros H0 Hm. unfold f64_of_mag. replace (m =? 0) with false by lia.
  assert (N.log2 m < 53) as Hl by (apply N.log2_lt_pow2; lia).
  set (n := N.log2 m) in *. replace (n <? 53) with true by lia.
  assert (2 ^ n <= m < 2 ^ N.succ n) as Hs by (apply N.log2_spec; lia).
  assert (2 ^ 52 <= m * 2 ^ (52 - n)) as H1.
  { replace (2 ^ 52) with (2 ^ n * 2 ^ (52 - n)) by (rewrite <- N.pow_add_r; f_equal; lia).
    apply N.mul_le_mono_r. lia. }
  assert (m * 2 ^ (52 - n) < 2 ^ 53) as H2.
  { replace (2 ^ 53) with (2 ^ N.succ n * 2 ^ (52 - n)) by (rewrite <- N.pow_add_r; f_equal; lia).
    apply N.mul_lt_mono_pos_r; [apply N.neq_0_lt_0, N.pow_nonzero; lia|lia]. }
  repeat split; try assumption. lia.
Qed.

Lemma f64_of_mag_2p53 : f64_of_mag (2 ^ 53) = 1076 * 2 ^ 52.
Proof. vm_compute. reflexivity. Qed.

Lemma f64_of_mag_mono m m' : m < m' -> m' <= 2 ^ 53 -> f64_of_mag m < f64_of_mag m'.
Proof.
  intros Hlt Hle.
  destruct (N.eq_dec m 0) as [->|Hm0].
  { change (f64_of_mag 0) with 0.
    destruct (N.eq_dec m' (2 ^ 53)) as [->|Hne]; [rewrite f64_of_mag_2p53; lia|].
    destruct (f64_of_mag_small m' ltac:(lia) ltac:(lia)) as (-> & Hb & _). lia. }
  destruct (f64_of_mag_small m ltac:(lia) ltac:(lia)) as (-> & (Hb1 & Hb2) & Hl).
  destruct (N.eq_dec m' (2 ^ 53)) as [->|Hne].
  { rewrite f64_of_mag_2p53. change (2 ^ 53) with (2 * 2 ^ 52) in Hb2. nia. }
  destruct (f64_of_mag_small m' ltac:(lia) ltac:(lia)) as (-> & (Hb1' & Hb2') & Hl').
  assert (N.log2 m <= N.log2 m') as Hmono by (apply N.log2_le_mono; lia).
  destruct (N.eq_dec (N.log2 m) (N.log2 m')) as [Heq|Hneq].
  - rewrite Heq. apply N.add_lt_mono_l. apply N.mul_lt_mono_pos_r; [apply N.neq_0_lt_0, N.pow_nonzero; lia|lia].
  - change (2 ^ 53) with (2 * 2 ^ 52) in *. nia.
Qed.

Lemma f64_key_of_Z_mono z z' : (- 2 ^ 53 <= z)%Z -> (z < z')%Z -> (z' <= 2 ^ 53)%Z ->
  (f64_key (f64_of_Z z) < f64_key (f64_of_Z z'))%Z.
Proof.
  intros H1 H2 H3.
  assert (Hkey_pos : forall m, m <= 2 ^ 53 -> f64_key (f64_of_mag m) = Z.of_N (f64_of_mag m)).
  { intros m Hm. pose proof (f64_of_mag_bound m ltac:(change (2 ^ 53) with 9007199254740992 in Hm; change (2 ^ 64) with 18446744073709551616; lia)) as Hb.
    unfold f64_key, f64_neg. replace (2 ^ 63 <=? f64_of_mag m) with false by lia.
    rewrite N.mod_small by exact Hb. reflexivity. }
  assert (Hkey_neg : forall m, m <= 2 ^ 53 -> f64_key (2 ^ 63 + f64_of_mag m) = (- Z.of_N (f64_of_mag m))%Z).
  { intros m Hm. pose proof (f64_of_mag_bound m ltac:(change (2 ^ 53) with 9007199254740992 in Hm; change (2 ^ 64) with 18446744073709551616; lia)) as Hb.
    unfold f64_key, f64_neg. replace (2 ^ 63 <=? 2 ^ 63 + f64_of_mag m) with true by lia.
    replace ((2 ^ 63 + f64_of_mag m) mod 2 ^ 63) with (f64_of_mag m); [reflexivity|].
    change (2 ^ 63) with 9223372036854775808 in *. lia. }
  assert (Hpos : forall m, 0 < m -> m <= 2 ^ 53 -> 0 < f64_of_mag m).
  { intros m Hm Hle. change 0 with (f64_of_mag 0). apply f64_of_mag_mono; assumption. }
  change (2 ^ 53)%Z with 9007199254740992%Z in *.
  unfold f64_of_Z. destruct (z <? 0)%Z eqn:E, (z' <? 0)%Z eqn:E'.
  - rewrite !Hkey_neg by (change (2 ^ 53) with 9007199254740992; lia).
    pose proof (f64_of_mag_mono (Z.abs_N z') (Z.abs_N z) ltac:(lia) ltac:(change (2 ^ 53) with 9007199254740992; lia)). lia.
  - rewrite Hkey_neg, Hkey_pos by (change (2 ^ 53) with 9007199254740992; lia).
    pose proof (Hpos (Z.abs_N z) ltac:(lia) ltac:(change (2 ^ 53) with 9007199254740992; lia)). lia.
  - lia.
  - rewrite !Hkey_pos by (change (2 ^ 53) with 9007199254740992; lia).
    pose proof (f64_of_mag_mono (Z.to_N z) (Z.to_N z') ltac:(lia) ltac:(change (2 ^ 53) with 9007199254740992; lia)). lia.
Qed.

Lemma f64_of_mag_not_nan m : m <= 2 ^ 53 -> forall s, s = 0 \/ s = 2 ^ 63 -> f64_is_nan (s + f64_of_mag m) = false.
Proof.
  intros Hm s Hs.
  assert (f64_of_mag m <= 1076 * 2 ^ 52) as Hb.
  { destruct (N.eq_dec m (2 ^ 53)) as [->|Hne]; [rewrite f64_of_mag_2p53; lia|].
    rewrite <- f64_of_mag_2p53. apply N.lt_le_incl. apply f64_of_mag_mono; lia. }
  unfold f64_is_nan, f64_exp. apply andb_false_iff. left. apply N.eqb_neq.
  change (2 ^ 52) with 4503599627370496 in *. change (2 ^ 63) with 9223372036854775808 in *.
  destruct Hs as [->| ->]; lia.
Qed.

Definition int_of (v : value) : option Z :=
  match v with VInt z | VBigInt z | VUInt z | VBigUInt z => Some z | _ => None end.

Theorem int_cmp_exact a b za zb : int_of a = Some za -> int_of b = Some zb ->
  (Z.abs za <= 2 ^ 53)%Z -> (Z.abs zb <= 2 ^ 53)%Z -> value_cmp a b = Some (za ?= zb)%Z.
Proof.
  intros Ha Hb Hza Hzb.
  assert (value_cmp a b = f64_cmp (f64_of_Z za) (f64_of_Z zb)) as ->.
  { destruct a, b; cbn [int_of] in Ha, Hb; try discriminate; inversion Ha; inversion Hb; subst; reflexivity. }
  unfold f64_cmp.
  assert (Hnn : forall z, (Z.abs z <= 2 ^ 53)%Z -> f64_is_nan (f64_of_Z z) = false).
  { intros z Hz. change (2 ^ 53)%Z with 9007199254740992%Z in Hz. unfold f64_of_Z. destruct (z <? 0)%Z.
    - apply f64_of_mag_not_nan; [change (2 ^ 53) with 9007199254740992; lia|now right].
    - rewrite <- (N.add_0_l (f64_of_mag _)). apply f64_of_mag_not_nan; [change (2 ^ 53) with 9007199254740992; lia|now left]. }
  rewrite !Hnn by assumption. cbn [orb]. f_equal.
  destruct (za ?= zb)%Z eqn:E.
  - apply Z.compare_eq in E. subst. apply Z.compare_refl.
  - change (za < zb)%Z in E. change (f64_key (f64_of_Z za) < f64_key (f64_of_Z zb))%Z.
    apply f64_key_of_Z_mono; lia.
  - rewrite Z.compare_gt_iff in E. rewrite Z.compare_gt_iff. apply f64_key_of_Z_mono; lia.
Qed.

(** * Store then load *)
Lemma twos_untwos bits z : (0 < bits)%Z -> (- 2 ^ (bits - 1) <= z < 2 ^ (bits - 1))%Z ->
  untwos bits (twos bits z) = z.
Proof.
  intros Hb Hz. unfold untwos, twos.
  assert (2 ^ bits = 2 * 2 ^ (bits - 1))%Z as Hp.
  { replace bits with (Z.succ (bits - 1)) at 1 by lia. rewrite Z.pow_succ_r by lia. reflexivity. }
  assert (0 < 2 ^ (bits - 1))%Z as Hpos by (apply Z.pow_pos_nonneg; lia).
  rewrite Z2N.id by (apply Z.mod_pos_bound; lia).
  destruct (z mod 2 ^ bits <? 2 ^ (bits - 1))%Z eqn:E.
  - destruct (Z_lt_le_dec z 0) as [Hneg|Hnn].
    + exfalso. replace (z mod 2 ^ bits)%Z with (z + 2 ^ bits)%Z in E; [lia|].
      apply Z.mod_unique with (q := (-1)%Z); lia.
    + apply Z.mod_small. lia.
  - destruct (Z_lt_le_dec z 0) as [Hneg|Hnn].
    + replace (z mod 2 ^ bits)%Z with (z + 2 ^ bits)%Z; [lia|].
      apply Z.mod_unique with (q := (-1)%Z); lia.
    + exfalso. rewrite Z.mod_small in E by lia. lia.
Qed.

Lemma twos_bound bits z : (0 < bits)%Z -> twos bits z < 2 ^ Z.to_N bits.
Proof.
  intros Hb. unfold twos.
  assert (0 <= z mod 2 ^ bits < 2 ^ bits)%Z as H by (apply Z.mod_pos_bound, Z.pow_pos_nonneg; lia).
  apply N2Z.inj_lt. rewrite Z2N.id by lia. rewrite N2Z.inj_pow, Z2N.id by lia. apply H.
Qed.

Definition blob_len_ok (v : value) : Prop :=
  match v with VBlob d => (Z.of_nat (length d) < 2 ^ 63)%Z | _ => True end.

Lemma fixed_load n w (f : N -> value) rest : w < 256 ^ N.of_nat n ->
  (if (length (le_enc n w ++ rest) <? n)%nat then None
   else Some (f (le_dec (firstn n (le_enc n w ++ rest))), n)) = Some (f w, n).
Proof.
  intros Hw. rewrite app_length, le_enc_length.
  replace (n + length rest <? n)%nat with false by lia.
  assert (firstn n (le_enc n w ++ rest) = le_enc n w) as ->.
  { pose proof (firstn_app_exact (le_enc n w) rest) as H. now rewrite le_enc_length in H. }
  rewrite le_dec_enc by exact Hw. reflexivity.
Qed.

Lemma store_load_aux v rest : value_wf v = true -> blob_len_ok v ->
  match serialize v with
  | Some bs => deserialize (kind_of v) (bs ++ rest) = Some (v, length bs)
  | None => True
  end.
Proof.
  intros Hwf Hlen.
  destruct v; cbn [serialize kind_of deserialize value_wf in_range] in *; [exact I| | | | | | | |].
  - destruct b; reflexivity.
  - rewrite le_enc_length. rewrite (fixed_load 4 (twos 32 z) (fun n => VInt (untwos 32 n))).
    + rewrite twos_untwos by lia. reflexivity.
    + apply (twos_bound 32). lia.
  - rewrite le_enc_length. rewrite (fixed_load 8 (twos 64 z) (fun n => VBigInt (untwos 64 n))).
    + rewrite twos_untwos by lia. reflexivity.
    + apply (twos_bound 64). lia.
  - rewrite le_enc_length. rewrite (fixed_load 4 (Z.to_N z) (fun n => VUInt (Z.of_N n))).
    + rewrite Z2N.id by lia. reflexivity.
    + change (256 ^ N.of_nat 4) with 4294967296. change (2 ^ 32)%Z with 4294967296%Z in Hwf. lia.
  - rewrite le_enc_length. rewrite (fixed_load 8 (Z.to_N z) (fun n => VBigUInt (Z.of_N n))).
    + rewrite Z2N.id by lia. reflexivity.
    + change (256 ^ N.of_nat 8) with 18446744073709551616. change (2 ^ 64)%Z with 18446744073709551616%Z in Hwf. lia.
  - rewrite le_enc_length. rewrite (fixed_load 4 bits32 VFloat); [reflexivity|].
    change (256 ^ N.of_nat 4) with (2 ^ 32). lia.
  - rewrite le_enc_length. rewrite (fixed_load 8 bits VDouble); [reflexivity|].
    change (256 ^ N.of_nat 8) with (2 ^ 64). lia.
  - cbn [blob_len_ok] in Hlen.
    set (n := Z.of_nat (length data)) in *.
    destruct (varint_roundtrip n (data ++ rest) ltac:(lia)) as (Hd & Hl & _).
    rewrite <- app_assoc, Hd.
    assert (wrap64 n = n) as Hw by (unfold wrap64; apply Z.mod_small; lia).
    rewrite Hw. rewrite !app_length.
    replace (Z.of_nat (length (varint_encode n) + (length data + length rest)) <? Z.of_nat (length (varint_encode n)) + n)%Z with false by lia.
    rewrite skipn_app_exact. subst n. rewrite Nat2Z.id, firstn_app_exact. reflexivity.
Qed.

Theorem store_load v bs rest : value_wf v = true -> blob_len_ok v -> serialize v = Some bs ->
  deserialize (kind_of v) (bs ++ rest) = Some (v, length bs).
Proof. intros Hwf Hlen Hs. pose proof (store_load_aux v rest Hwf Hlen) as H. now rewrite Hs in H. Qed.

Theorem cast_same_kind v : cast v (kind_of v) = Some v.
Proof. destruct v; reflexivity. Qed.

(** * The full-strength laws are false of the faithful model: witnesses *)
Definition nan64 : N := 9221120237041090560.            (* 0x7ff8000000000000 *)
Lemma refuted_reflexive : value_eqb (VDouble nan64) (VDouble nan64) = false.
Proof. vm_compute. reflexivity. Qed.
Lemma refuted_hash : value_eqb (VDouble 0) (VDouble (2 ^ 63)) = true /\ hash_key (VDouble 0) <> hash_key (VDouble (2 ^ 63)).
Proof. split; [vm_compute; reflexivity|vm_compute; discriminate]. Qed.
Lemma refuted_numeric :
  value_cmp (VBigInt (2 ^ 53)) (VBigInt (2 ^ 53 + 1)) = Some Eq /\ value_eqb (VBigInt (2 ^ 53)) (VBigInt (2 ^ 53 + 1)) = true.
Proof. split; vm_compute; reflexivity. Qed.
