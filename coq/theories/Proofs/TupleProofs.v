(** Row versions: what a snapshot decodes, history integrity of the reverse deltas, vacuum. *)
From Axv Require Import Base.Bytes Model.Values Model.Tuple.
From Coq Require Import ZifyBool ZifyN ZifyNat.
Open Scope N_scope.

(** * mapi / lookup facts *)
Lemma mapi_from_length {A B} (f : nat -> A -> B) l : forall i, length (mapi_from f i l) = length l.
Proof. induction l as [|x l IH]; intros i; cbn [mapi_from length]; [reflexivity|]. now rewrite IH. Qed.

Lemma mapi_from_ext {A B} (f g : nat -> A -> B) l : forall i,
  (forall j x, (i <= j)%nat -> nth_error l (j - i) = Some x -> f j x = g j x) ->
  mapi_from f i l = mapi_from g i l.
Proof.
  induction l as [|x l IH]; intros i H; cbn [mapi_from]; [reflexivity|]. f_equal.
  - apply H; [lia|]. now rewrite Nat.sub_diag.
  - apply IH. intros j y Hj Hy. apply H; [lia|].
    replace (j - i)%nat with (S (j - S i)) by lia. exact Hy.
Qed.

Lemma mapi_from_id {A} (f : nat -> A -> A) l : forall i,
  (forall j x, (i <= j)%nat -> nth_error l (j - i) = Some x -> f j x = x) -> mapi_from f i l = l.
Proof.
  induction l as [|x l IH]; intros i H; cbn [mapi_from]; [reflexivity|]. f_equal.
  - apply H; [lia|]. now rewrite Nat.sub_diag.
  - apply IH. intros j y Hj Hy. apply H; [lia|].
    replace (j - i)%nat with (S (j - S i)) by lia. exact Hy.
Qed.

(** Composition: mapping over the result of a mapi with aligned indices. *)
Lemma mapi_from_mapi_from {A B C} (f : nat -> A -> B) (g : nat -> B -> C) l : forall i,
  mapi_from g i (mapi_from f i l) = mapi_from (fun j x => g j (f j x)) i l.
Proof. induction l as [|x l IH]; intros i; cbn [mapi_from]; [reflexivity|]. now rewrite IH. Qed.

(** The changed list built by [add_version] holds exactly the old values of the modified fields. *)
Lemma lookup_changed mods : forall (old : list value) i j x, (i <= j)%nat -> nth_error old (j - i) = Some x ->
  lookup j (concat (mapi_from (fun k v => match lookup k mods with Some _ => [(k, v)] | None => [] end) i old))
  = match lookup j mods with Some _ => Some x | None => None end.
Proof.
  induction old as [|v old IH]; intros i j x Hij Hx.
  - destruct (j - i)%nat; discriminate.
  - cbn [mapi_from concat].
    destruct (Nat.eq_dec i j) as [->|Hne].
    + rewrite Nat.sub_diag in Hx. cbn [nth_error] in Hx. injection Hx as ->.
      destruct (lookup j mods) eqn:E.
      * cbn [app lookup]. now rewrite Nat.eqb_refl.
      * cbn [app].
        (* j does not occur later: all later indices are > j *)
        assert (forall (l : list value) k, (j < k)%nat ->
                  lookup j (concat (mapi_from (fun k v => match lookup k mods with Some _ => [(k, v)] | None => [] end) k l)) = None) as Hlater.
        { induction l as [|y l IHl]; intros k Hk; cbn [mapi_from concat]; [reflexivity|].
          destruct (lookup k mods); cbn [app lookup].
          - replace (Nat.eqb j k) with false by (symmetry; apply Nat.eqb_neq; lia). apply IHl. lia.
          - apply IHl. lia. }
        apply Hlater. lia.
    + replace (j - i)%nat with (S (j - S i)) in Hx by lia. cbn [nth_error] in Hx.
      destruct (lookup i mods); cbn [app lookup].
      * replace (Nat.eqb j i) with false by (symmetry; apply Nat.eqb_neq; lia). apply (IH (S i)); [lia|exact Hx].
      * apply (IH (S i)); [lia|exact Hx].
Qed.

(** * History integrity: the delta written by [add_version] takes the new values back to the old *)
Definition add_version_body (vk : list kind) (t : tuple) (mods : list (nat * value)) : tres tuple :=
  if negb (forallb (fun m => match nth_error vk (fst m) with
                             | Some k => is_null (snd m) || kind_eqb k (kind_of (snd m))
                             | None => false end) mods) then TErr
  else if 255 <=? t_version t then TPanic
  else
    let old := t_vals t in
    let new_vals := mapi (fun i v => match lookup i mods with Some nv => nv | None => v end) old in
    let changed := concat (mapi (fun i v => match lookup i mods with Some _ => [(i, v)] | None => [] end) old) in
    let d := {| d_xmin := t_xmin t; d_version := t_version t; d_nulls := map is_null old; d_changes := changed |} in
    TOk {| t_xmin := t_xmin t; t_xmax := None; t_version := t_version t + 1; t_keys := t_keys t;
           t_vals := new_vals; t_deltas := d :: t_deltas t |}.

Lemma add_version_cons vk t mods xid : mods <> [] -> add_version vk t mods xid = add_version_body vk t mods.
Proof. destruct mods; [contradiction|reflexivity]. Qed.

Theorem apply_delta_inverts vk t mods xid t' :
  add_version vk t mods xid = TOk t' -> mods <> [] ->
  exists d rest, t_deltas t' = d :: rest /\ rest = t_deltas t /\ apply_delta (t_vals t') d = t_vals t.
Proof.
  intros H Hne. rewrite add_version_cons in H by exact Hne. unfold add_version_body in H.
  destruct (negb (forallb _ mods)); [discriminate|].
  destruct (255 <=? t_version t); [discriminate|].
  injection H as <-. cbn [t_deltas t_vals].
  eexists; eexists; split; [reflexivity|]. split; [reflexivity|].
  unfold apply_delta, mapi. cbn [d_nulls d_changes].
  rewrite mapi_from_mapi_from.
  apply mapi_from_id. intros j x _ Hx. rewrite Nat.sub_0_r in Hx.
  (* the NULL bitmap entry of field j is [is_null x] *)
  assert (nth j (map is_null (t_vals t)) false = is_null x) as Hn.
  { erewrite nth_indep with (d' := is_null VNull); [|rewrite map_length; apply nth_error_Some; congruence].
    rewrite map_nth. f_equal. now apply nth_error_nth. }
  rewrite Hn. destruct (is_null x) eqn:Enull; [destruct x; try discriminate; reflexivity|].
  unfold mapi. rewrite (lookup_changed mods (t_vals t) 0%nat j x); [|lia|now rewrite Nat.sub_0_r].
  destruct (lookup j mods); reflexivity.
Qed.

(** The latest version after an update is the old one with the modifications applied. *)
Theorem latest_after_update vk t mods xid t' :
  add_version vk t mods xid = TOk t' ->
  decode_last t' = t_keys t ++ mapi (fun i v => match lookup i mods with Some nv => nv | None => v end) (t_vals t).
Proof.
  destruct mods as [|m mods'].
  - cbn [add_version]. intros H. injection H as <-. unfold decode_last. f_equal. unfold mapi.
    symmetry. apply mapi_from_id. reflexivity.
  - rewrite add_version_cons by discriminate. unfold add_version_body.
    destruct (negb _); [discriminate|]. destruct (255 <=? t_version t); [discriminate|].
    intros H. injection H as <-. reflexivity.
Qed.

(** * Well-formed rows: every delta carries the creator recorded in the header *)
Definition wf_tuple (t : tuple) : Prop := Forall (fun d => d_xmin d = t_xmin t) (t_deltas t).

Lemma take_needed_incl h ds : forall d, In d (take_needed h ds) -> In d ds.
Proof.
  induction ds as [|x ds IH]; intros d Hin; cbn [take_needed] in Hin; [contradiction|].
  destruct (h <=? d_xmin x); [|contradiction]. destruct Hin as [->|Hin]; [now left|right; now apply IH].
Qed.

Lemma apply_ev_wf vk t e t' : wf_tuple t -> apply_ev vk t e = TOk t' -> wf_tuple t' /\ t_xmin t' = t_xmin t.
Proof.
  intros Hwf H. destruct e as [xid mods|xid|h]; cbn [apply_ev] in H.
  - destruct mods as [|m mods'].
    + cbn [add_version] in H. injection H as <-. now split.
    + rewrite add_version_cons in H by discriminate. unfold add_version_body in H.
      destruct (negb _); [discriminate|]. destruct (255 <=? t_version t); [discriminate|].
      injection H as <-. split; [|reflexivity]. unfold wf_tuple. cbn [t_deltas t_xmin].
      constructor; [reflexivity|exact Hwf].
  - injection H as <-. unfold delete. split; [exact Hwf|reflexivity].
  - injection H as <-. split; [|reflexivity]. unfold wf_tuple, vacuum. cbn [t_deltas t_xmin].
    apply Forall_forall. intros d Hd. apply take_needed_incl in Hd.
    unfold wf_tuple in Hwf. rewrite Forall_forall in Hwf. now apply Hwf.
Qed.

Lemma build_wf kk vk row xmin t : build kk vk row xmin = TOk t -> wf_tuple t /\ t_xmin t = xmin.
Proof.
  unfold build. destruct (negb _); [discriminate|]. destruct (negb _); [discriminate|].
  destruct (negb _); [discriminate|]. intros H. injection H as <-. split; [constructor|reflexivity].
Qed.

Lemma apply_evs_wf vk es : forall t t', wf_tuple t -> apply_evs vk t es = Some t' -> wf_tuple t' /\ t_xmin t' = t_xmin t.
Proof.
  induction es as [|e es IH]; intros t t' Hwf H; cbn [apply_evs] in H.
  - injection H as <-. now split.
  - destruct (apply_ev vk t e) as [t1| |] eqn:E; [|now apply IH|discriminate].
    destruct (apply_ev_wf vk t e t1 Hwf E) as [Hwf1 Hx].
    destruct (IH t1 t' Hwf1 H) as [A B]. split; [exact A|congruence].
Qed.

(** * What a snapshot decodes from a well-formed row *)
Lemma walk_none s vals ds c : Forall (fun d => d_xmin d = c) ds -> committed_before s c = false ->
  walk s vals ds = None.
Proof.
  revert vals. induction ds as [|d ds IH]; intros vals Hf Hc; cbn [walk]; [reflexivity|].
  pose proof (Forall_inv Hf) as Hd. pose proof (Forall_inv_tail Hf) as Hds. cbn beta in Hd.
  rewrite Hd, Hc. now apply IH.
Qed.

(** The creator is visible to the snapshot: committed before it, or the snapshot's own transaction. *)
Definition sees (s : snap) (c : N) : bool := committed_before s c || (s_xid s =? c).

Theorem decode_wf t s : wf_tuple t ->
  decode_for t s =
  if match t_xmax t with Some x => sees s x | None => false end then None
  else if sees s (t_xmin t) then Some (t_keys t ++ t_vals t) else None.
Proof.
  intros Hwf. unfold decode_for, sees.
  destruct (t_xmax t) as [x|] eqn:Ex.
  - destruct (committed_before s x || (s_xid s =? x)) eqn:Ed; [reflexivity|].
    unfold valid_for. rewrite Ed. cbn [negb]. rewrite andb_true_r.
    destruct (committed_before s (t_xmin t) || (s_xid s =? t_xmin t)) eqn:Ec; [reflexivity|].
    apply orb_false_iff in Ec. destruct Ec as [Ec _].
    now rewrite (walk_none s (t_vals t) (t_deltas t) (t_xmin t) Hwf Ec).
  - unfold valid_for.
    destruct (committed_before s (t_xmin t) || (s_xid s =? t_xmin t)) eqn:Ec; [reflexivity|].
    apply orb_false_iff in Ec. destruct Ec as [Ec _].
    now rewrite (walk_none s (t_vals t) (t_deltas t) (t_xmin t) Hwf Ec).
Qed.

(** Trimming history never changes what any snapshot decodes (for rows the engine can build). *)
Theorem vacuum_preserves t h s : wf_tuple t -> decode_for (vacuum t h) s = decode_for t s.
Proof.
  intros Hwf.
  assert (wf_tuple (vacuum t h)) as Hwf'.
  { destruct (apply_ev_wf [] t (EVac h) (vacuum t h) Hwf eq_refl) as [A _]. exact A. }
  rewrite (decode_wf _ s Hwf'), (decode_wf _ s Hwf). reflexivity.
Qed.

Theorem vacuum_preserves_last t h : decode_last (vacuum t h) = decode_last t.
Proof. reflexivity. Qed.

(** * The list-of-versions specification *)
(** Versions oldest first: creator and values; optional deleter.  An update by the model's
    [add_version] appends a version created by [xid] and clears the deleter, as the code does. *)
Record hist := { h_versions : list (N * list value); h_deleter : option N }.

Definition spec_ev (vk : list kind) (t : tuple) (h : hist) (e : tev) : hist :=
  match e with
  | EUpd xid mods =>
    match add_version vk t mods xid with
    | TOk t' => match mods with
                | [] => h
                | _ => {| h_versions := h_versions h ++ [(xid, decode_last t')]; h_deleter := None |}
                end
    | _ => h
    end
  | EDel xid => {| h_versions := h_versions h; h_deleter := Some xid |}
  | EVac _ => h
  end.

Fixpoint spec_evs (vk : list kind) (t : tuple) (h : hist) (es : list tev) : hist :=
  match es with
  | [] => h
  | e :: r =>
    match apply_ev vk t e with
    | TOk t' => spec_evs vk t' (spec_ev vk t h e) r
    | _ => spec_evs vk t h r
    end
  end.

(** What the snapshot is entitled to: nothing if the deleter is visible, else the newest version
    whose creator is visible. *)
Fixpoint newest_visible (s : snap) (vs : list (N * list value)) : option (list value) :=
  match vs with
  | [] => None
  | (c, vals) :: r =>
    match newest_visible s r with
    | Some x => Some x
    | None => if sees s c then Some vals else None
    end
  end.
Definition entitled (s : snap) (h : hist) : option (list value) :=
  if match h_deleter h with Some x => sees s x | None => false end then None
  else newest_visible s (h_versions h).

(** Outside the recorded class: every update is made by the row's creator. *)
Definition same_creator (c : N) (es : list tev) : Prop :=
  Forall (fun e => match e with EUpd xid _ => xid = c | _ => True end) es.

Lemma newest_visible_same s c vs last :
  Forall (fun v => fst v = c) vs -> vs <> [] -> (exists pre, vs = pre ++ [(c, last)]) ->
  newest_visible s vs = if sees s c then Some last else None.
Proof.
  intros Hall _ [pre ->]. revert Hall.
  induction pre as [|[c' v'] pre IH]; intros Hall; cbn [app newest_visible].
  - reflexivity.
  - pose proof (Forall_inv Hall) as Hc. pose proof (Forall_inv_tail Hall) as Hrest. cbn [fst] in Hc.
    subst c'. rewrite (IH Hrest). destruct (sees s c) eqn:E; reflexivity.
Qed.

(** Invariant tying the stored row to its history. *)
Record Rel (c : N) (t : tuple) (h : hist) : Prop := {
  rel_wf : wf_tuple t;
  rel_xmin : t_xmin t = c;
  rel_del : h_deleter h = t_xmax t;
  rel_all : Forall (fun v => fst v = c) (h_versions h);
  rel_last : exists pre, h_versions h = pre ++ [(c, decode_last t)]
}.

Lemma rel_step vk c t h e t' : Rel c t h -> (match e with EUpd xid _ => xid = c | _ => True end) ->
  apply_ev vk t e = TOk t' -> Rel c t' (spec_ev vk t h e).
Proof.
  intros [Hwf Hx Hd Hall [pre Hlast]] Hsame Hap.
  destruct (apply_ev_wf vk t e t' Hwf Hap) as [Hwf' Hx'].
  destruct e as [xid mods|xid|hz]; cbn [apply_ev spec_ev] in *.
  - subst xid. rewrite Hap. destruct mods as [|m mods'].
    + cbn [add_version] in Hap. injection Hap as <-. constructor; try assumption. now exists pre.
    + constructor; cbn [h_versions h_deleter]; try assumption; try congruence.
      * rewrite add_version_cons in Hap by discriminate. unfold add_version_body in Hap.
        destruct (negb _); [discriminate|]. destruct (255 <=? _); [discriminate|].
        injection Hap as <-. reflexivity.
      * apply Forall_app. split; [exact Hall|]. constructor; [reflexivity|constructor].
      * eexists. reflexivity.
  - injection Hap as <-. unfold delete in *.
    constructor; cbn [h_versions h_deleter t_xmin t_xmax]; try assumption; try reflexivity.
    exists pre. rewrite Hlast. reflexivity.
  - injection Hap as <-. constructor; try assumption. exists pre. rewrite Hlast. reflexivity.
Qed.

Theorem decode_is_entitled kk vk row c es t0 t s :
  build kk vk row c = TOk t0 -> same_creator c es -> apply_evs vk t0 es = Some t ->
  decode_for t s = entitled s (spec_evs vk t0 {| h_versions := [(c, decode_last t0)]; h_deleter := None |} es).
Proof.
  intros Hb Hsame Hrun.
  destruct (build_wf kk vk row c t0 Hb) as [Hwf0 Hx0].
  assert (Rel c t0 {| h_versions := [(c, decode_last t0)]; h_deleter := None |}) as HR0.
  { constructor; cbn [h_versions h_deleter]; try assumption.
    - unfold build in Hb. destruct (negb _); [discriminate|]. destruct (negb _); [discriminate|].
      destruct (negb _); [discriminate|]. injection Hb as <-. reflexivity.
    - constructor; [reflexivity|constructor].
    - exists []. reflexivity. }
  assert (G : forall es t1 h1 t2, Rel c t1 h1 -> same_creator c es -> apply_evs vk t1 es = Some t2 ->
              Rel c t2 (spec_evs vk t1 h1 es)).
  { clear. induction es as [|e es IH]; intros t1 h1 t2 HR Hs Hr; cbn [apply_evs spec_evs] in *.
    - injection Hr as <-. exact HR.
    - inversion Hs as [|? ? He Hes]; subst.
      destruct (apply_ev vk t1 e) as [t1'| |] eqn:E; [|now apply IH|discriminate].
      apply (IH t1' _ t2); [|exact Hes|exact Hr]. now apply (rel_step vk c t1 h1 e t1'). }
  pose proof (G es t0 _ t HR0 Hsame Hrun) as [Hwf Hx Hd Hall [pre Hlast]].
  rewrite (decode_wf t s Hwf). unfold entitled. rewrite Hd.
  destruct (match t_xmax t with Some x => sees s x | None => false end); [reflexivity|].
  rewrite (newest_visible_same s c _ (decode_last t) Hall).
  - rewrite Hx. unfold decode_last. reflexivity.
  - rewrite Hlast. destruct pre; discriminate.
  - now exists pre.
Qed.
