(** Chunked blob comparison = lexicographic order on byte strings. *)
From Axv Require Import Base.Bytes Base.BytesFacts Model.Values.
From Coq Require Import ZifyBool ZifyN ZifyNat.
Ltac Zify.zify_post_hook ::= Z.div_mod_to_equations.
Open Scope N_scope.

Lemma fold_be acc bs :
  fold_left (fun a b => a * 256 + b) bs acc = acc * 256 ^ lenN bs + be_val bs.
Proof.
  unfold be_val, lenN. revert acc. induction bs as [|b bs IH]; intros acc; cbn [fold_left length].
  - change (N.of_nat 0) with 0. rewrite N.pow_0_r. lia.
  - rewrite IH, (IH (0 * 256 + b)). rewrite Nat2N.inj_succ, N.pow_succ_r'. lia.
Qed.

Lemma be_val_cons b bs : be_val (b :: bs) = b * 256 ^ lenN bs + be_val bs.
Proof. unfold be_val at 1. cbn [fold_left]. rewrite fold_be. lia. Qed.

Lemma be_val_bound bs : bytes_ok bs -> be_val bs < 256 ^ lenN bs.
Proof.
  induction bs as [|b bs IH]; intros Hok.
  - cbn. lia.
  - inversion Hok as [|? ? Hb Hbs]; subst. specialize (IH Hbs). unfold byte_ok in Hb.
    rewrite be_val_cons. unfold lenN in *. cbn [length]. rewrite Nat2N.inj_succ, N.pow_succ_r'.
    nia.
Qed.

(** Big-endian values of equal-length byte strings compare like the strings. *)
Lemma be_val_cmp a : forall b, length a = length b -> bytes_ok a -> bytes_ok b ->
  (be_val a ?= be_val b) = cmp_bytes a b.
Proof.
  induction a as [|x a IH]; intros [|y b] Hlen Ha Hb; try discriminate; [reflexivity|].
  inversion Ha as [|? ? Hx Ha']; inversion Hb as [|? ? Hy Hb']; subst.
  injection Hlen as Hlen. rewrite !be_val_cons. cbn [cmp_bytes].
  pose proof (be_val_bound a Ha') as Ba. pose proof (be_val_bound b Hb') as Bb.
  assert (lenN a = lenN b) as El by (unfold lenN; now rewrite Hlen). rewrite El in *.
  set (P := 256 ^ lenN b) in *. clearbody P.
  destruct (x ?= y) eqn:E.
  - apply N.compare_eq in E. subst y. rewrite <- (IH b Hlen Ha' Hb').
    destruct (be_val a ?= be_val b) eqn:E2.
    + apply N.compare_eq in E2. apply N.compare_eq_iff. lia.
    + change (be_val a < be_val b) in E2. change (x * P + be_val a < x * P + be_val b). lia.
    + rewrite N.compare_gt_iff in E2. rewrite N.compare_gt_iff. lia.
  - change (x < y) in E. change (x * P + be_val a < y * P + be_val b). nia.
  - rewrite N.compare_gt_iff in E. rewrite N.compare_gt_iff. nia.
Qed.

Lemma cmp_bytes_app a : forall b a' b', length a = length b ->
  cmp_bytes (a ++ a') (b ++ b') = match cmp_bytes a b with Eq => cmp_bytes a' b' | o => o end.
Proof.
  induction a as [|x a IH]; intros [|y b] a' b' Hlen; try discriminate; [reflexivity|].
  cbn [app cmp_bytes]. destruct (x ?= y); try reflexivity. apply IH. now injection Hlen.
Qed.

Lemma bytes_ok_firstn n : forall l, bytes_ok l -> bytes_ok (firstn n l).
Proof.
  unfold bytes_ok. induction n as [|n IH]; intros [|x l] H; cbn [firstn]; try constructor.
  - now inversion H.
  - apply IH. now inversion H.
Qed.

Lemma bytes_ok_skipn n : forall l, bytes_ok l -> bytes_ok (skipn n l).
Proof.
  unfold bytes_ok. induction n as [|n IH]; intros [|x l] H; cbn [skipn]; try assumption.
  apply IH. now inversion H.
Qed.

(** The chunk loop followed by the byte loop is [cmp_bytes] on equal-length inputs. *)
Lemma cmp_chunks_spec cc : forall a b, length a = length b -> (8 * cc <= length a)%nat ->
  bytes_ok a -> bytes_ok b ->
  match cmp_chunks cc a b with
  | (Eq, (a', b')) => cmp_bytes a' b'
  | (o, _) => o
  end = cmp_bytes a b.
Proof.
  induction cc as [|c IH]; intros a b Hlen Hcc Ha Hb; [reflexivity|].
  cbn [cmp_chunks].
  rewrite be_val_cmp.
  2:{ rewrite !firstn_length. lia. }
  2,3: now apply bytes_ok_firstn.
  assert (cmp_bytes a b = match cmp_bytes (firstn 8 a) (firstn 8 b) with
                           | Eq => cmp_bytes (skipn 8 a) (skipn 8 b) | o => o end) as Hsplit.
  { rewrite <- (firstn_skipn 8 a) at 1. rewrite <- (firstn_skipn 8 b) at 1.
    apply cmp_bytes_app. rewrite !firstn_length. lia. }
  rewrite Hsplit.
  destruct (cmp_bytes (firstn 8 a) (firstn 8 b)); try reflexivity.
  apply IH.
  - rewrite !skipn_length. lia.
  - rewrite skipn_length. lia.
  - now apply bytes_ok_skipn.
  - now apply bytes_ok_skipn.
Qed.

Lemma lex_cmp_firstn a : forall b,
  lex_cmp a b =
  match cmp_bytes (firstn (Nat.min (length a) (length b)) a) (firstn (Nat.min (length a) (length b)) b) with
  | Eq => Nat.compare (length a) (length b)
  | o => o
  end.
Proof.
  induction a as [|x a IH]; intros [|y b]; cbn [lex_cmp length Nat.min firstn cmp_bytes Nat.compare]; try reflexivity.
  destruct (x ?= y); try reflexivity. apply IH.
Qed.

Theorem blob_cmp_lex l r : bytes_ok l -> bytes_ok r -> blob_cmp l r = lex_cmp l r.
Proof.
  intros Hl Hr. rewrite lex_cmp_firstn. unfold blob_cmp.
  set (n := Nat.min (length l) (length r)).
  destruct (8 <? n)%nat eqn:E; [|destruct (cmp_bytes (firstn n l) (firstn n r)); reflexivity].
  rewrite cmp_chunks_spec; [destruct (cmp_bytes (firstn n l) (firstn n r)); reflexivity| | | |].
  - rewrite !firstn_length. lia.
  - rewrite firstn_length. pose proof (Nat.div_mod n 8). lia.
  - now apply bytes_ok_firstn.
  - now apply bytes_ok_firstn.
Qed.

(** [lex_cmp] is a total order consistent with equality. *)
Lemma lex_cmp_eq a : forall b, lex_cmp a b = Eq <-> a = b.
Proof.
  induction a as [|x a IH]; intros [|y b]; cbn [lex_cmp]; split; intros H; try discriminate; try reflexivity.
  - destruct (x ?= y) eqn:E; try discriminate. apply N.compare_eq in E. apply IH in H. now subst.
  - injection H as -> ->. rewrite N.compare_refl. now apply IH.
Qed.

Lemma lex_cmp_antisym a : forall b, lex_cmp b a = CompOpp (lex_cmp a b).
Proof.
  induction a as [|x a IH]; intros [|y b]; cbn [lex_cmp CompOpp]; try reflexivity.
  rewrite (N.compare_antisym x y). destruct (x ?= y); cbn [CompOpp]; try reflexivity. apply IH.
Qed.

Lemma lex_cmp_trans_lt a : forall b c, lex_cmp a b = Lt -> lex_cmp b c = Lt -> lex_cmp a c = Lt.
Proof.
  induction a as [|x a IH]; intros [|y b] [|z c]; cbn [lex_cmp]; intros H1 H2; try discriminate; try reflexivity.
  destruct (x ?= y) eqn:E1; try discriminate; destruct (y ?= z) eqn:E2; try discriminate.
  - apply N.compare_eq in E1, E2. subst. rewrite N.compare_refl. eapply IH; eassumption.
  - apply N.compare_eq in E1. subst. now rewrite E2.
  - apply N.compare_eq in E2. subst. now rewrite E1.
  - change (x < y) in E1. change (y < z) in E2. assert (x < z) as H by lia. change ((x ?= z) = Lt) in H. now rewrite H.
Qed.

Lemma lex_cmp_prefix a b : b <> [] -> lex_cmp a (a ++ b) = Lt.
Proof.
  intros Hb. induction a as [|x a IH]; cbn [app lex_cmp].
  - destruct b; [contradiction|reflexivity].
  - now rewrite N.compare_refl.
Qed.
