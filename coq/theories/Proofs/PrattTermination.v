(** The Pratt parser terminates on every token sequence: with fuel 2 * length + 2 the parser never
    runs out of fuel, for any binding-power table.  A mirror of [parse_bp] / [loop] that tells
    "out of fuel" apart from "parse error" is proved to erase to the model, and never to answer
    "out of fuel" when the fuel is at least twice the number of tokens plus two. *)
From Coq Require Import NArith List Bool Lia.
From Axv Require Import Model.PrattOps Model.Pratt.
Import ListNotations.
Open Scope N_scope.

Inductive pres3 := Done (e : pexpr) (rest : list ptok) | Reject | OutOfFuel.

Section Term.
  Variable bp : pbinop -> N * N.
  Variable pnot : N.

  Fixpoint parse3 (fuel : nat) (m : N) (ts : list ptok) {struct fuel} : pres3 :=
    match fuel with
    | O => OutOfFuel
    | S f =>
      match ts with
      | TNum n :: r => loop3 f m (PNum n) r
      | TId k :: r => loop3 f m (PId k) r
      | TLP :: r => match parse3 f 0 r with
                    | Done e (TRP :: r') => loop3 f m e r'
                    | OutOfFuel => OutOfFuel
                    | _ => Reject
                    end
      | TNot :: r => match parse3 f pnot r with
                     | Done e r' => loop3 f m (PNot e) r'
                     | x => x
                     end
      | _ => Reject
      end
    end
  with loop3 (fuel : nat) (m : N) (lhs : pexpr) (ts : list ptok) {struct fuel} : pres3 :=
    match fuel with
    | O => OutOfFuel
    | S f =>
      match ts with
      | TBin o :: r =>
          let '(l, rb) := bp o in
          if l <? m then Done lhs ts
          else match parse3 f rb r with
               | Done rhs r' => loop3 f m (PBin o lhs rhs) r'
               | x => x
               end
      | _ => Done lhs ts
      end
    end.

  Definition erase (r : pres3) : option (pexpr * list ptok) :=
    match r with Done e rest => Some (e, rest) | _ => None end.

  (** The mirror computes what the model computes. *)
  Lemma erase_both fuel :
    (forall m ts, erase (parse3 fuel m ts) = parse_bp bp pnot fuel m ts) /\
    (forall m lhs ts, erase (loop3 fuel m lhs ts) = loop bp pnot fuel m lhs ts).
  Proof.
    induction fuel as [|f [IHp IHl]]; [split; reflexivity|]. split.
    - intros m ts. cbn [parse3 parse_bp]. destruct ts as [|[n|k| | |o|] r]; try reflexivity.
      + apply IHl.
      + apply IHl.
      + rewrite <- IHp. destruct (parse3 f 0 r) as [e [|[n|k| | |o|] r']| |]; cbn [erase]; try reflexivity. apply IHl.
      + rewrite <- IHp. destruct (parse3 f pnot r) as [e r'| |]; cbn [erase]; try reflexivity. apply IHl.
    - intros m lhs ts. cbn [loop3 loop]. destruct ts as [|[n|k| | |o|] r]; try reflexivity.
      destruct (bp o) as [l rb]. destruct (l <? m); [reflexivity|].
      rewrite <- IHp. destruct (parse3 f rb r) as [e r'| |]; cbn [erase]; try reflexivity. apply IHl.
  Qed.

  (** Enough fuel: [parse3] needs 2 * tokens + 2, [loop3] 2 * tokens + 1; both consume what they return. *)
  Lemma enough fuel :
    (forall m ts, (2 * length ts + 2 <= fuel)%nat ->
       parse3 fuel m ts <> OutOfFuel /\ forall e r, parse3 fuel m ts = Done e r -> (length r < length ts)%nat) /\
    (forall m lhs ts, (2 * length ts + 1 <= fuel)%nat ->
       loop3 fuel m lhs ts <> OutOfFuel /\ forall e r, loop3 fuel m lhs ts = Done e r -> (length r <= length ts)%nat).
  Proof.
    induction fuel as [|f [IHp IHl]]; [split; intros; lia|]. split.
    - intros m ts Hf. cbn [parse3]. destruct ts as [|[n|k| | |o|] r]; cbn [length] in *;
        try (split; [discriminate|intros; discriminate]).
      + destruct (IHl m (PNum n) r ltac:(lia)) as [A B]. split; [exact A|]. intros e r0 H. apply B in H. lia.
      + destruct (IHl m (PId k) r ltac:(lia)) as [A B]. split; [exact A|]. intros e r0 H. apply B in H. lia.
      + destruct (IHp 0 r ltac:(lia)) as [A B].
        destruct (parse3 f 0 r) as [e [|[n|k| | |o|] r']| |] eqn:E; try (split; [discriminate|intros; discriminate]); [|congruence].
        specialize (B e (TRP :: r') eq_refl). cbn [length] in B.
        destruct (IHl m e r' ltac:(lia)) as [C D]. split; [exact C|]. intros e2 r2 H. apply D in H. lia.
      + destruct (IHp pnot r ltac:(lia)) as [A B].
        destruct (parse3 f pnot r) as [e r'| |] eqn:E; try (split; [discriminate|intros; discriminate]); [|congruence].
        specialize (B e r' eq_refl).
        destruct (IHl m (PNot e) r' ltac:(lia)) as [C D]. split; [exact C|]. intros e2 r2 H. apply D in H. lia.
    - intros m lhs ts Hf. cbn [loop3]. destruct ts as [|[n|k| | |o|] r]; cbn [length] in *;
        try (split; [discriminate|intros e r0 H; injection H as <- <-; cbn [length]; lia]).
      destruct (bp o) as [l rb]. destruct (l <? m); [split; [discriminate|intros e r0 H; injection H as <- <-; cbn [length]; lia]|].
      destruct (IHp rb r ltac:(lia)) as [A B].
      destruct (parse3 f rb r) as [e r'| |] eqn:E; try (split; [discriminate|intros; discriminate]); [|congruence].
      specialize (B e r' eq_refl).
      destruct (IHl m (PBin o lhs e) r' ltac:(lia)) as [C D]. split; [exact C|]. intros e2 r2 H. apply D in H. lia.
  Qed.

  (** The entry point of the model never runs out of fuel: a [None] is a rejection of the input. *)
  Theorem parse_terminates ts :
    parse3 (2 * length ts + 2) 0 ts <> OutOfFuel /\ erase (parse3 (2 * length ts + 2) 0 ts) = parse bp pnot ts.
  Proof.
    split; [apply (proj1 (enough (2 * length ts + 2))); lia|]. unfold parse. apply (proj1 (erase_both _)).
  Qed.

End Term.
