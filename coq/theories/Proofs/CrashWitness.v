(** Concrete instances of the crash model (one-table key/value database of Model/CrashRun.v): a history that meets
    the hypotheses of the theorems with non-trivial contents, and the histories on which the full-strength
    statements fail (recorded findings). *)
From Coq Require Import List NArith ZArith Bool Lia Sorted.
From Axv Require Import Base.Bytes Model.Crash Model.CrashRun Proofs.CrashFold Proofs.CrashAnalysis Proofs.CrashRecover Proofs.CrashEngine.
Import ListNotations.
Open Scope N_scope.

(** two transactions overlap (1 is rolled back, 2 commits), a checkpoint with nothing open, then an update that
    commits and is forced *)
Definition good_history : list (ev (op := kvop)) :=
  [EBegin; EOp 0 OCreate; ECommit 0; EEnd 0; EBegin; EOp 1 (OIns 1 5); EBegin; EOp 2 (OIns 2 7); ECommit 2; EEnd 2;
   EAbort 1; EEnd 1; ECheckpoint; EBegin; EBegin; EOp 4 (OIns 4 1); EOp 3 (OUpd 2 9); ECommit 4; ECommit 3; EEnd 3].

Lemma good_history_quiescent : quiescent good_history.
Proof. apply quiescentb_sound. vm_compute. reflexivity. Qed.

Lemma kv_has_set i j v l : kv_has i (kv_set j v l) = kv_has i l.
Proof.
  induction l as [|[k w] l IH]; [reflexivity|].
  cbn [kv_set kv_has]. destruct (k =? j) eqn:Ej; cbn [kv_has]; [reflexivity|]. rewrite IH. reflexivity.
Qed.

Lemma kv_set_snoc i j v w l : i <> j -> kv_set j v (l ++ [(i, w)]) = kv_set j v l ++ [(i, w)].
Proof.
  intro Hne. induction l as [|[k u] l IH]; cbn [app kv_set].
  - apply N.eqb_neq in Hne. rewrite Hne. reflexivity.
  - destruct (k =? j); [reflexivity|]. rewrite IH. reflexivity.
Qed.

Lemma kv_commute_ins_upd i w j v : i <> j -> commutes kv_apply (OIns i w) (OUpd j v).
Proof.
  intros Hne [l|]; [|reflexivity]. cbn [kv_apply]. f_equal. rewrite kv_has_set.
  destruct (kv_has i l); [reflexivity|]. symmetry. apply kv_set_snoc. exact Hne.
Qed.

Lemma good_history_commutes : winners_commute kv_apply (e_disk (run good_history)).
Proof.
  unfold winners_commute. vm_compute filter. cbn [inversions_commute].
  split; [|split; [|exact I]].
  - intros t' o' [E|[]] Hlt. injection E as <- <-. apply kv_commute_ins_upd. discriminate.
  - intros t' o' [].
Qed.

(** the winners are replayed in id order (3 before 4) although 4 wrote first *)
Example good_history_contents :
  recovered_view kv_apply None (e_disk (run good_history)) = Some [(2, 9%Z); (4, 1%Z)]
  /\ spec_view kv_apply None (run good_history) = Some [(2, 9%Z); (4, 1%Z)]
  /\ g_acked (run good_history) = [0; 2; 3] /\ g_durable (run good_history) = [0; 2; 4; 3].
Proof. vm_compute. repeat split. Qed.

(** Recorded finding C02-checkpoint-with-open-transaction: transaction 1 is open at a checkpoint and logs nothing
    afterwards; the log no longer knows it, the recovery transaction commits with a larger id, and the
    uncommitted row becomes visible. *)
Definition open_at_checkpoint : list (ev (op := kvop)) :=
  [EBegin; EOp 0 OCreate; ECommit 0; EEnd 0; EBegin; EOp 1 (OIns 1 5); ECheckpoint].

Lemma open_at_checkpoint_leaks :
  ~ quiescent open_at_checkpoint
  /\ spec_view kv_apply None (run open_at_checkpoint) = Some []
  /\ recovered_view kv_apply None (e_disk (run open_at_checkpoint)) = Some [(1, 5%Z)].
Proof.
  split; [|vm_compute; split; reflexivity].
  unfold quiescent, open_at_checkpoint. intro H.
  do 6 (destruct H as [_ H]). destruct H as [H _]. specialize (H eq_refl). vm_compute in H. discriminate H.
Qed.

(** Recorded finding *-crash-inside-checkpoint, in the model's terms. *)
(** The engine's CREATE is not idempotent: replaying it on a catalog that already holds the table fails
    ('already exists') and recovery aborts.  [kv_apply_strict] is [kv_apply] with that failure made explicit. *)
Inductive kvdb_s := SAbsent | STable (l : list (N * Z)) | SBroken.
Definition kv_apply_strict (o : kvop) (d : kvdb_s) : kvdb_s :=
  match d with
  | SBroken => SBroken
  | SAbsent => match o with OCreate => STable [] | _ => SAbsent end
  | STable l => match o with
                | OCreate => SBroken
                | _ => match kv_apply o (Some l) with Some l' => STable l' | None => SAbsent end
                end
  end.

(** The image in the middle of a checkpoint: the pages and the header of the running engine have reached the data
    file, the log has not been truncated yet (Pager::flush between sync_header and wal.truncate). *)
Definition torn_checkpoint (e : engine (op := kvop)) : disk (op := kvop) :=
  {| d_hist := e_hist e; d_hdr := e_hdr e; d_log := d_log (e_disk e) ++ e_pending e |}.

Definition first_commit : list (ev (op := kvop)) := [EBegin; EOp 0 OCreate; ECommit 0; EEnd 0].

Lemma torn_checkpoint_breaks :
  spec_view kv_apply_strict SAbsent (run first_commit) = STable []
  /\ recovered_view kv_apply_strict SAbsent (e_disk (run first_commit)) = STable []
  /\ recovered_view kv_apply_strict SAbsent (torn_checkpoint (run first_commit)) = SBroken.
Proof. vm_compute. repeat split. Qed.
