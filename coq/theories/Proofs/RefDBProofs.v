(** Laws of the reference database [Spec.RefDB] at the level of histories: a session that never
    commits can be erased from the history without changing the committed state, the other
    sessions, or any answer given to anyone else. *)
From Axv Require Import Base.Bytes Model.Values Spec.RefDB.
From Coq Require Import Lia.
Open Scope N_scope.

(** Row ids are never observable, only compared for equality.  To state erasure as an equality of
    states the row-id source is made explicit: every action comes with the counter value it starts
    from.  [run] (ids chained through the state) is the instance where each action receives the
    counter left by its predecessor. *)
Definition with_next (st : state) (n : N) : state :=
  {| committed := committed st; nextid := n; sessions := sessions st |}.
Definition stepg (st : state) (p : N * action) : aresult * state := step (with_next st (fst p)) (snd p).
Definition rung (l : list (N * action)) (st : state) : state := fold_left (fun st p => snd (stepg st p)) l st.
Definition run (l : list action) (st : state) : state := fold_left (fun st a => snd (step st a)) l st.

Lemma with_next_id st : with_next st (nextid st) = st.
Proof. destruct st; reflexivity. Qed.

Lemma run_is_rung l : forall st, exists ns, length ns = length l /\ run l st = rung (combine ns l) st.
Proof.
  induction l as [|a l IH]; intros st.
  - exists []. split; reflexivity.
  - destruct (IH (snd (step st a))) as (ns & Hl & Hr).
    exists (nextid st :: ns). split; [cbn; now rewrite Hl|].
    cbn [run rung fold_left combine]. unfold stepg at 2. cbn [fst snd]. rewrite with_next_id. exact Hr.
Qed.

(** Actions that belong to session [k]. *)
Definition of_sess (k : N) (a : action) : bool :=
  match a with
  | ABegin j | AStmt j _ | ACommit j | ARollback j => j =? k
  | _ => false
  end.
Definition never_commits (k : N) (l : list (N * action)) : Prop := Forall (fun p => snd p <> ACommit k) l.

(** Two states agree outside session [k]. *)
Definition sim (k : N) (st st' : state) : Prop :=
  committed st = committed st' /\ forall j, j <> k -> get_sess (sessions st) j = get_sess (sessions st') j.

Lemma get_del_sess l k j : get_sess (del_sess l k) j = if j =? k then None else get_sess l j.
Proof.
  induction l as [|[i s] l IH]; cbn [del_sess filter get_sess fst].
  - now destruct (j =? k).
  - fold (del_sess l k). destruct (i =? k) eqn:Eik; cbn [negb].
    + apply N.eqb_eq in Eik. subst i. rewrite IH. destruct (j =? k) eqn:Ejk; [reflexivity|].
      rewrite N.eqb_sym, Ejk. reflexivity.
    + cbn [get_sess]. rewrite IH. destruct (i =? j) eqn:Eij; [|reflexivity].
      apply N.eqb_eq in Eij. subst i. rewrite Eik. reflexivity.
Qed.

Lemma get_set_sess l k s j : get_sess (set_sess l k s) j = if j =? k then Some s else get_sess l j.
Proof.
  unfold set_sess. cbn [get_sess]. rewrite N.eqb_sym. destruct (j =? k) eqn:E; [reflexivity|].
  rewrite get_del_sess, E. reflexivity.
Qed.

Opaque exec merge.

(** An action of session [k] other than a commit changes nothing outside [k]. *)
Lemma step_own k st st' n a : of_sess k a = true -> a <> ACommit k -> sim k st st' ->
  sim k (snd (stepg st (n, a))) st'.
Proof.
  intros Ho Hnc [Hc Hs]. unfold stepg. cbn [fst snd].
  destruct a as [s|j|j s|j|j|ss| | | |]; cbn [of_sess] in Ho; try discriminate;
    apply N.eqb_eq in Ho; subst j; cbn [step with_next committed sessions nextid].
  - split; cbn [snd committed sessions]; [exact Hc|]. intros j Hj. rewrite get_set_sess.
    apply N.eqb_neq in Hj. rewrite Hj. apply Hs. now apply N.eqb_neq.
  - destruct (get_sess (sessions st) k) as [ss|]; [|split; cbn [snd with_next committed sessions]; assumption].
    destruct (exec (ss_view ss) n s) as [[r d'] n'].
    destruct r; (split; cbn [snd committed sessions]; [exact Hc|]); intros j Hj;
      rewrite ?get_set_sess; try (apply N.eqb_neq in Hj; rewrite Hj; apply Hs; now apply N.eqb_neq);
      now apply Hs.
  - congruence.
  - destruct (get_sess (sessions st) k) as [ss|]; [|split; cbn [snd with_next committed sessions]; assumption].
    split; cbn [snd committed sessions]; [exact Hc|]. intros j Hj. rewrite get_del_sess.
    apply N.eqb_neq in Hj. rewrite Hj. apply Hs. now apply N.eqb_neq.
Qed.

(** Any other action gives the same answer in both states and keeps them related. *)
Lemma step_other k st st' p : of_sess k (snd p) = false -> sim k st st' ->
  fst (stepg st p) = fst (stepg st' p) /\ sim k (snd (stepg st p)) (snd (stepg st' p)).
Proof.
  intros Ho [Hc Hs]. destruct p as [n a]. unfold stepg. cbn [fst snd] in *.
  assert (forall j s1 s2, j <> k -> (forall i, i <> k -> get_sess s1 i = get_sess s2 i) ->
          forall x i, i <> k -> get_sess (set_sess s1 j x) i = get_sess (set_sess s2 j x) i) as Hset.
  { intros j s1 s2 Hj H x i Hi. rewrite !get_set_sess. destruct (i =? j); [reflexivity|now apply H]. }
  assert (forall j s1 s2, (forall i, i <> k -> get_sess s1 i = get_sess s2 i) ->
          forall i, i <> k -> get_sess (del_sess s1 j) i = get_sess (del_sess s2 j) i) as Hdel.
  { intros j s1 s2 H i Hi. rewrite !get_del_sess. destruct (i =? j); [reflexivity|now apply H]. }
  destruct a as [s|j|j s|j|j|ss| | | |]; cbn [of_sess] in Ho; try apply N.eqb_neq in Ho;
    cbn [step with_next committed sessions nextid]; rewrite <- ?Hc.
  - destruct (exec (committed st) n s) as [[r d'] n']. destruct r; (split; [reflexivity|split; [reflexivity|exact Hs]]).
  - split; [reflexivity|]. split; [reflexivity|]. cbn [snd sessions]. now apply Hset.
  - rewrite <- (Hs j Ho). destruct (get_sess (sessions st) j) as [ss|].
    2:{ split; [reflexivity|]. split; assumption. }
    destruct (exec (ss_view ss) n s) as [[r d'] n'].
    destruct r; (split; [reflexivity|split; [reflexivity|]]); cbn [snd sessions]; try exact Hs; now apply Hset.
  - rewrite <- (Hs j Ho). destruct (get_sess (sessions st) j) as [ss|].
    2:{ split; [reflexivity|]. split; assumption. }
    destruct (merge (committed st) (ss_base ss) (ss_view ss)) as [d'|];
      (split; [reflexivity|split; [reflexivity|]]); cbn [snd sessions]; now apply Hdel.
  - rewrite <- (Hs j Ho). destruct (get_sess (sessions st) j) as [ss|].
    2:{ split; [reflexivity|]. split; assumption. }
    split; [reflexivity|split; [reflexivity|]]. cbn [snd sessions]. now apply Hdel.
  - match goal with |- context [fold_left ?f ss ?z] => destruct (fold_left f ss z) as [[[rs d'] n'] ok] end.
    destruct ok; (split; [reflexivity|split; [reflexivity|exact Hs]]).
  - split; [reflexivity|split; assumption].
  - split; [reflexivity|split; assumption].
  - split; [reflexivity|split; assumption].
  - split; [reflexivity|split; assumption].
Qed.

(** Answers given to everyone but session [k]. *)
Fixpoint answers (k : N) (l : list (N * action)) (st : state) : list aresult :=
  match l with
  | [] => []
  | p :: r => let o := stepg st p in
              if of_sess k (snd p) then answers k r (snd o) else fst o :: answers k r (snd o)
  end.

Definition erase (k : N) (l : list (N * action)) : list (N * action) :=
  filter (fun p => negb (of_sess k (snd p))) l.

Theorem erase_session k l : forall st st', sim k st st' -> never_commits k l ->
  sim k (rung l st) (rung (erase k l) st') /\ answers k l st = answers k (erase k l) st'.
Proof.
  induction l as [|p l IH]; intros st st' Hsim Hnc.
  - split; [exact Hsim|reflexivity].
  - apply Forall_cons_iff in Hnc. destruct Hnc as [Hp Hnc].
    cbn [rung fold_left erase filter answers]. fold (erase k l).
    destruct (of_sess k (snd p)) eqn:Eo; cbn [negb].
    + destruct p as [n a]. cbn [snd] in *.
      apply (IH _ st' (step_own k st st' n a Eo Hp Hsim) Hnc).
    + cbn [fold_left answers]. rewrite Eo.
      destruct (step_other k st st' p Eo Hsim) as [Hout Hsim'].
      destruct (IH _ _ Hsim' Hnc) as [A B]. split; [exact A|]. rewrite Hout, B. reflexivity.
Qed.

(** A failing statement or batch leaves the whole state as it was (the row-id counter aside). *)
Lemma failed_exec_no_effect st s st' : step st (AExec s) = (AR RErr, st') ->
  committed st' = committed st /\ sessions st' = sessions st.
Proof.
  cbn [step]. destruct (exec (committed st) (nextid st) s) as [[r d'] n'].
  destruct r; intros H; inversion H; subst; split; reflexivity.
Qed.

Lemma failed_stmt_no_effect st k s st' : step st (AStmt k s) = (AR RErr, st') ->
  committed st' = committed st /\ sessions st' = sessions st.
Proof.
  cbn [step]. destruct (get_sess (sessions st) k) as [ss|]; [|intros H; inversion H].
  destruct (exec (ss_view ss) (nextid st) s) as [[r d'] n'].
  destruct r; intros H; inversion H; subst; split; reflexivity.
Qed.

Lemma failed_batch_no_effect st ss st' : step st (ABatch ss) = (AR RErr, st') ->
  committed st' = committed st /\ sessions st' = sessions st.
Proof.
  cbn [step].
  match goal with |- context [fold_left ?f ss ?z] => destruct (fold_left f ss z) as [[[rs d'] n'] ok] end.
  destruct ok; intros H; inversion H; subst; split; reflexivity.
Qed.

Lemma failed_commit_no_effect st k st' : step st (ACommit k) = (AR RErr, st') ->
  committed st' = committed st.
Proof.
  cbn [step]. destruct (get_sess (sessions st) k) as [ss|]; [|intros H; inversion H].
  destruct (merge _ _ _); intros H; inversion H; subst; reflexivity.
Qed.
