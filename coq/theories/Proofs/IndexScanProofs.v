(** An index that agrees with its table answers every range query like the table scan does; INSERT,
    DELETE and UPDATE of other columns keep the agreement; UPDATE of the indexed column, done the
    way the engine does it, breaks it. *)
From Axv Require Import Base.Bytes Model.IndexScan.
From Coq Require Import Lia ZifyBool ZifyN Sorting.Permutation.
Open Scope N_scope.

Record Agree (i : idx) (t : tbl) : Prop := {
  ag_rows : NoDup (map fst t);
  ag_entries : NoDup i;
  ag_iff : forall k r, In (k, r) i <-> exists p, In (r, (Some k, p)) t
}.

Lemma find_row_in t r x : NoDup (map fst t) -> In x t -> fst x = r -> find_row t r = Some x.
Proof.
  unfold find_row. induction t as [|y t IH]; cbn [find In map fst]; intros Hnd Hin Hr; [contradiction|].
  apply NoDup_cons_iff in Hnd. destruct Hnd as [Hni Hnd]. destruct Hin as [->|Hin].
  - replace (fst x =? r) with true by lia. reflexivity.
  - destruct (fst y =? r) eqn:E; [|now apply IH].
    exfalso. apply Hni. apply in_map_iff. exists x. split; [lia|exact Hin].
Qed.

Lemma find_row_some t r x : find_row t r = Some x -> In x t /\ fst x = r.
Proof. unfold find_row. intros H. apply find_some in H. destruct H as [A B]. split; [exact A|lia]. Qed.

Lemma in_index_scan i t lo hi resid x : Agree i t ->
  (In x (index_scan i t lo hi resid) <-> In x (seq_scan t lo hi resid)).
Proof.
  intros [Hr He Hiff]. unfold index_scan, seq_scan. rewrite in_flat_map, filter_In. split.
  - intros ((k, r) & Hin & Hx). apply filter_In in Hin. destruct Hin as [Hin Hrange]. cbn [fst snd] in *.
    destruct (find_row t r) as [y|] eqn:Ef; [|contradiction].
    destruct (resid y) eqn:Ey; [|contradiction]. destruct Hx as [->|[]].
    destruct (find_row_some _ _ _ Ef) as [Hy Hfst]. split; [exact Hy|].
    apply Hiff in Hin. destruct Hin as [p Hp].
    assert (find_row t r = Some (r, (Some k, p))) as E2 by (apply find_row_in; [exact Hr|exact Hp|reflexivity]).
    rewrite Ef in E2. injection E2 as ->. cbn [fst snd]. rewrite Hrange. cbn [snd fst] in Ey. now rewrite Ey.
  - intros [Hx Hp]. destruct x as [r [[k|] p]]; cbn [fst snd] in Hp; [|discriminate].
    apply andb_true_iff in Hp. destruct Hp as [Hrange Hres].
    exists (k, r). split.
    + apply filter_In. split; [apply Hiff; now exists p|exact Hrange].
    + cbn [snd]. rewrite (find_row_in t r (r, (Some k, p)) Hr Hx eq_refl), Hres. now left.
Qed.

Lemma nodup_filter {A} (f : A -> bool) l : NoDup l -> NoDup (filter f l).
Proof. apply NoDup_filter. Qed.

Lemma nodup_map_fst_in (t : tbl) x y : NoDup (map fst t) -> In x t -> In y t -> fst x = fst y -> x = y.
Proof.
  induction t as [|z t IH]; cbn [map fst In]; intros Hnd Hx Hy E; [contradiction|].
  apply NoDup_cons_iff in Hnd. destruct Hnd as [Hni Hnd].
  destruct Hx as [->|Hx], Hy as [->|Hy]; [reflexivity| | |now apply IH].
  - exfalso. apply Hni. apply in_map_iff. exists y. split; [congruence|exact Hy].
  - exfalso. apply Hni. apply in_map_iff. exists x. split; [congruence|exact Hx].
Qed.

Lemma index_scan_nodup i t lo hi resid : Agree i t -> NoDup (index_scan i t lo hi resid).
Proof.
  intros [Hr He Hiff]. unfold index_scan.
  assert (NoDup (filter (fun e => in_range lo hi (fst e)) i)) as Hnd by (now apply NoDup_filter).
  assert (forall e, In e (filter (fun e => in_range lo hi (fst e)) i) -> In e i) as Hsub by (intros e H; apply filter_In in H; tauto).
  induction (filter (fun e => in_range lo hi (fst e)) i) as [|[k r] l IH]; cbn [flat_map]; [constructor|].
  apply NoDup_cons_iff in Hnd. destruct Hnd as [Hni Hnd].
  specialize (IH Hnd (fun e H => Hsub e (or_intror H))).
  cbn [snd]. destruct (find_row t r) as [x|] eqn:Ef; [|exact IH]. destruct (resid x); [|exact IH].
  cbn [app]. constructor; [|exact IH]. intros Hin. apply in_flat_map in Hin. destruct Hin as ([k2 r2] & Hin2 & Hx).
  cbn [snd] in Hx. destruct (find_row t r2) as [y|] eqn:Ef2; [|contradiction]. destruct (resid y); [|contradiction].
  destruct Hx as [->|[]].
  destruct (find_row_some _ _ _ Ef) as [Hx1 Hx2]. destruct (find_row_some _ _ _ Ef2) as [_ Hy2].
  assert (r2 = r) as -> by congruence.
  (* both entries index the same row, so they carry the same key *)
  assert (In (k, r) i) as Hi1 by (apply Hsub; now left).
  assert (In (k2, r) i) as Hi2 by (apply Hsub; now right).
  apply Hiff in Hi1. apply Hiff in Hi2. destruct Hi1 as [p1 H1], Hi2 as [p2 H2].
  pose proof (nodup_map_fst_in t _ _ Hr H1 H2 eq_refl) as E. injection E as -> _. contradiction.
Qed.

(** The index scan returns exactly the rows the table scan returns, each once. *)
Theorem index_scan_is_seq_scan i t lo hi resid : Agree i t ->
  Permutation (index_scan i t lo hi resid) (seq_scan t lo hi resid).
Proof.
  intros HA. apply NoDup_Permutation.
  - now apply index_scan_nodup.
  - unfold seq_scan. apply NoDup_filter. destruct HA as [Hr _ _]. now apply NoDup_map_inv in Hr.
  - intros x. now apply in_index_scan.
Qed.

(** Maintenance. *)
Theorem agree_empty : Agree [] [].
Proof. constructor; cbn; [constructor|constructor|]. intros k r. split; [contradiction|intros [p []]]. Qed.

Theorem agree_ins i t x : Agree i t -> ~ In (fst x) (map fst t) -> let '(i', t') := ins i t x in Agree i' t'.
Proof.
  intros [Hr He Hiff] Hfresh. destruct x as [r [key p]]. cbn [ins fst snd] in *. constructor.
  - cbn [map fst]. constructor; assumption.
  - destruct key as [k|]; [|exact He]. constructor; [|exact He]. intros Hin. apply Hiff in Hin. destruct Hin as [q Hq].
    apply Hfresh. apply in_map_iff. exists (r, (Some k, q)). split; [reflexivity|exact Hq].
  - intros k0 r0. destruct key as [k|]; cbn [In].
    + split.
      * intros [E|Hin]; [injection E as <- <-; exists p; now left|]. apply Hiff in Hin. destruct Hin as [q Hq]. exists q. now right.
      * intros [q [E|Hq]]; [injection E as <- <- <-; now left|]. right. apply Hiff. now exists q.
    + split.
      * intros Hin. apply Hiff in Hin. destruct Hin as [q Hq]. exists q. now right.
      * intros [q [E|Hq]]; [discriminate|]. apply Hiff. now exists q.
Qed.

Theorem agree_del i t r : Agree i t -> let '(i', t') := del i t r in Agree i' t'.
Proof.
  intros [Hr He Hiff]. cbn [del]. constructor.
  - clear -Hr. induction t as [|x t IH]; cbn [filter map fst]; [constructor|].
    cbn [map fst] in Hr. apply NoDup_cons_iff in Hr. destruct Hr as [Hni Hr].
    destruct (negb (fst x =? r)); [|now apply IH]. cbn [map fst]. constructor; [|now apply IH].
    intros Hin. apply Hni. apply in_map_iff in Hin. destruct Hin as (y & <- & Hy). apply filter_In in Hy. apply in_map. tauto.
  - now apply NoDup_filter.
  - intros k r0. rewrite filter_In. cbn [snd]. split.
    + intros [Hin Hne]. apply Hiff in Hin. destruct Hin as [p Hp]. exists p. apply filter_In. split; [exact Hp|exact Hne].
    + intros [p Hp]. apply filter_In in Hp. destruct Hp as [Hp Hne]. cbn [fst] in Hne. split; [apply Hiff; now exists p|exact Hne].
Qed.

Theorem agree_upd_payload i t r p : Agree i t -> Agree i (upd_payload t r p).
Proof.
  intros [Hr He Hiff]. unfold upd_payload. constructor.
  - rewrite map_map. erewrite map_ext; [exact Hr|]. intros x. now destruct (fst x =? r).
  - exact He.
  - intros k r0. rewrite Hiff. split.
    + intros [q Hq]. destruct (r0 =? r) eqn:E.
      * exists p. apply in_map_iff. exists (r0, (Some k, q)). cbn [fst snd]. rewrite E. split; [reflexivity|exact Hq].
      * exists q. apply in_map_iff. exists (r0, (Some k, q)). cbn [fst snd]. rewrite E. split; [reflexivity|exact Hq].
    + intros [q Hq]. apply in_map_iff in Hq. destruct Hq as ([r1 [k1 p1]] & E & Hin). cbn [fst snd] in E.
      destruct (r1 =? r); injection E as <- <- <-; now exists p1.
Qed.

(** What the engine does on UPDATE of the indexed column does not keep the agreement: the entry
    of the old key stays and the new key has none, so the two scans differ. *)
Theorem upd_key_breaks_agreement :
  exists i t r k lo hi, Agree i t /\
    ~ Permutation (index_scan i (upd_key_unmaintained t r k) lo hi (fun _ => true))
                  (seq_scan (upd_key_unmaintained t r k) lo hi (fun _ => true)).
Proof.
  exists [(5, 1)], [(1, (Some 5, 0))], 1, (Some 7), (Some 7), (Some 7). split.
  - constructor; cbn; [repeat constructor; intros []|repeat constructor; intros []|].
    intros k r. split; [intros [E|[]]; injection E as <- <-; exists 0; now left|intros [p [E|[]]]; injection E as <- <- <-; now left].
  - vm_compute. intros H. apply Permutation_nil in H. discriminate.
Qed.
