(** Declared constraints hold in every committed state of the reference database, and in every
    session's private view, along every history (C07, reference level). *)
From Axv Require Import Base.Bytes Model.Values Spec.RefDB Proofs.RefDBProofs.
From Coq Require Import Lia.
Open Scope N_scope.

Definition db_ok (d : db) : Prop := Forall (fun p => table_ok (snd p) = true) d.

Lemma get_table_ok d tid t : db_ok d -> get_table d tid = Some t -> table_ok t = true.
Proof.
  induction d as [|[i x] d IH]; cbn [get_table]; intros H Hg; [discriminate|].
  apply Forall_cons_iff in H. destruct H as [Hx Hd]. destruct (i =? tid).
  - injection Hg as <-. exact Hx.
  - now apply IH.
Qed.

Lemma set_table_ok d tid t : db_ok d -> table_ok t = true -> db_ok (set_table d tid t).
Proof.
  induction d as [|[i x] d IH]; cbn [set_table]; intros H Ht.
  - constructor; [exact Ht|constructor].
  - apply Forall_cons_iff in H. destruct H as [Hx Hd]. destruct (i =? tid).
    + constructor; [exact Ht|exact Hd].
    + constructor; [exact Hx|now apply IH].
Qed.

Lemma del_table_ok d tid : db_ok d -> db_ok (del_table d tid).
Proof.
  unfold db_ok, del_table. intros H. apply Forall_forall. intros p Hp. apply filter_In in Hp.
  rewrite Forall_forall in H. now apply H.
Qed.

(** Subsequences: what DELETE leaves behind. *)
Inductive subseq {A} : list A -> list A -> Prop :=
| ss_nil : subseq [] []
| ss_keep x l1 l2 : subseq l1 l2 -> subseq (x :: l1) (x :: l2)
| ss_drop x l1 l2 : subseq l1 l2 -> subseq l1 (x :: l2).

Lemma subseq_in {A} (l1 l2 : list A) x : subseq l1 l2 -> In x l1 -> In x l2.
Proof.
  induction 1 as [|y l1 l2 _ IH|y l1 l2 _ IH]; cbn [In]; intros Hin; [contradiction| |].
  - destruct Hin as [->|Hin]; [now left|right; now apply IH].
  - right. now apply IH.
Qed.

Lemma subseq_map {A B} (f : A -> B) l1 l2 : subseq l1 l2 -> subseq (map f l1) (map f l2).
Proof. induction 1; cbn [map]; constructor; assumption. Qed.

Lemma no_dups_subseq cols rows' rows : subseq rows' rows -> no_dups cols rows = true -> no_dups cols rows' = true.
Proof.
  induction 1 as [|r l1 l2 Hs IH|r l1 l2 Hs IH]; cbn [no_dups]; intros H; [reflexivity| |].
  - apply andb_true_iff in H. destruct H as [H1 H2]. apply andb_true_iff. split; [|now apply IH].
    apply negb_true_iff. apply negb_true_iff in H1.
    destruct (existsb (keys_collide cols r) l1) eqn:E; [|reflexivity].
    exfalso. apply existsb_exists in E. destruct E as (x & Hx & Hc).
    assert (existsb (keys_collide cols r) l2 = true) as E2.
    { apply existsb_exists. exists x. split; [now apply (subseq_in l1 l2)|exact Hc]. }
    congruence.
  - apply andb_true_iff in H. destruct H as [_ H2]. now apply IH.
Qed.

Lemma table_ok_subseq t rows' : subseq rows' (t_rows t) -> table_ok t = true ->
  table_ok {| t_cols := t_cols t; t_uniq := t_uniq t; t_rows := rows' |} = true.
Proof.
  unfold table_ok. cbn [t_cols t_uniq t_rows]. intros Hs H. apply andb_true_iff in H. destruct H as [H1 H2].
  apply andb_true_iff. split.
  - apply forallb_forall. intros r Hr. rewrite forallb_forall in H1.
    unfold row_ok in *. cbn [t_cols]. apply H1. now apply (subseq_in rows' (t_rows t)).
  - apply forallb_forall. intros u Hu. rewrite forallb_forall in H2.
    apply (no_dups_subseq u _ (map snd (t_rows t))); [now apply subseq_map|now apply H2].
Qed.

Lemma mapM_tag_subseq {A} (f : A -> res (A * bool)) rows : (forall r y, f r = Ok y -> fst y = r) ->
  forall fl, mapM f rows = Ok fl -> subseq (map fst (filter (fun p => negb (snd p)) fl)) rows.
Proof.
  intros Hf. induction rows as [|r rows IH]; intros fl H; cbn [mapM] in H.
  - injection H as <-. constructor.
  - destruct (f r) as [[r0 b]|] eqn:E1; cbn [bind] in H; [|discriminate].
    apply Hf in E1. cbn [fst] in E1. subst r0.
    destruct (mapM f rows) as [fl'|] eqn:E2; cbn [bind] in H; [|discriminate].
    injection H as <-. specialize (IH fl' eq_refl).
    cbn [filter snd]. destruct b; cbn [negb map fst]; constructor; exact IH.
Qed.

Lemma delete_rows_subseq (w : option expr) rows fl :
  mapM (fun r : N * list sval => match w with None => Ok (r, true)
                          | Some e => do v <- eval (snd r) e;; Ok (r, is_true v) end) rows = Ok fl ->
  subseq (map fst (filter (fun p => negb (snd p)) fl)) rows.
Proof.
  apply mapM_tag_subseq. intros r y Hy. destruct w as [e|]; [|now injection Hy as <-].
  destruct (eval (snd r) e); cbn [bind] in Hy; [|discriminate]. now injection Hy as <-.
Qed.

Lemma table_ok_empty cols uniq : table_ok {| t_cols := cols; t_uniq := uniq; t_rows := [] |} = true.
Proof. unfold table_ok. cbn [t_rows t_uniq forallb map andb]. apply forallb_forall. intros; reflexivity. Qed.

(** [exec] keeps a well-formed database well-formed (DROP COLUMN, which belongs to C15, excepted). *)
Definition not_drop_column (s : stmt) : Prop := match s with SDropColumn _ _ => False | _ => True end.

Lemma exec_ok d n s : db_ok d -> not_drop_column s ->
  let '(_, d', _) := exec d n s in db_ok d'.
Proof.
  intros Hd Hs. destruct s as [tid cols uniq|tid|tid cs rows|tid sets w|tid w|q|tid c|tid i|tid cols]; cbn [exec].
  - destruct (get_table d tid); [exact Hd|]. apply set_table_ok; [exact Hd|apply table_ok_empty].
  - destruct (get_table d tid); [now apply del_table_ok|exact Hd].
  - destruct (get_table d tid) as [t|]; [|exact Hd].
    match goal with |- context [mapM ?f rows] => destruct (mapM f rows) as [new_rows|] end; [|exact Hd].
    match goal with |- context [table_ok ?t'] => destruct (table_ok t') eqn:E end; [|exact Hd].
    now apply set_table_ok.
  - destruct (get_table d tid) as [t|]; [|exact Hd].
    match goal with |- context [mapM ?f (t_rows t)] => destruct (mapM f (t_rows t)) as [rs|] end; [|exact Hd].
    match goal with |- context [table_ok ?t'] => destruct (table_ok t') eqn:E end; [|exact Hd].
    now apply set_table_ok.
  - destruct (get_table d tid) as [t|] eqn:Eg; [|exact Hd].
    match goal with |- context [mapM ?f (t_rows t)] => destruct (mapM f (t_rows t)) as [fl|] eqn:Em end; [|exact Hd].
    apply set_table_ok; [exact Hd|].
    apply table_ok_subseq; [now apply (delete_rows_subseq w)|now apply (get_table_ok d tid)].
  - destruct (run_select d q) as [[n0 rows]|]; exact Hd.
  - destruct (get_table d tid) as [t|]; [|exact Hd].
    match goal with |- context [table_ok ?t'] => destruct (table_ok t') eqn:E end; [|exact Hd].
    now apply set_table_ok.
  - contradiction.
  - destruct (get_table d tid) as [t|]; [|exact Hd].
    match goal with |- context [table_ok ?t'] => destruct (table_ok t') eqn:E end; [|exact Hd].
    now apply set_table_ok.
Qed.

Definition opt_ok (o : option table) : Prop := match o with Some t => table_ok t = true | None => True end.

Lemma get_table_opt_ok d tid : db_ok d -> opt_ok (get_table d tid).
Proof. intros H. destruct (get_table d tid) eqn:E; [apply (get_table_ok d tid); assumption|exact I]. Qed.

Transparent merge.

Lemma merge_table_ok cur base view r : opt_ok cur -> opt_ok view -> merge_table cur base view = Ok r -> opt_ok r.
Proof.
  intros Hc Hv. unfold merge_table.
  destruct base as [b|], view as [v|].
  - destruct (table_unchanged b v); [intros H; injection H as <-; exact Hc|].
    destruct cur as [c|]; [|discriminate].
    destruct (negb (Nat.eqb (length (t_cols b)) (length (t_cols v)))).
    + match goal with |- (if ?x then _ else _) = _ -> _ => destruct x end; [|discriminate].
      intros H. injection H as <-. exact Hv.
    + destruct (negb (Nat.eqb (length (t_cols c)) (length (t_cols b)))); [discriminate|].
      match goal with |- (if ?x then _ else _) = _ -> _ => destruct x end; [discriminate|].
      match goal with |- (if table_ok ?t' then _ else _) = _ -> _ => destruct (table_ok t') eqn:E end; [|discriminate].
      intros H. injection H as <-. exact E.
  - destruct cur as [c|]; [|discriminate].
    match goal with |- (if ?x then _ else _) = _ -> _ => destruct x end; [|discriminate].
    intros H. injection H as <-. exact I.
  - destruct cur as [c|]; [discriminate|]. intros H. injection H as <-. exact Hv.
  - intros H. injection H as <-. exact Hc.
Qed.

Lemma merge_ok cur base view d' : db_ok cur -> db_ok view -> merge cur base view = Ok d' -> db_ok d'.
Proof.
  intros Hc Hv. unfold merge.
  generalize (nodupN (table_ids cur ++ table_ids base ++ table_ids view)). intros ids.
  assert (forall (acc : res db), (forall d, acc = Ok d -> db_ok d) ->
          forall d', fold_left (fun acc tid => do d <- acc;;
                       do t <- merge_table (get_table cur tid) (get_table base tid) (get_table view tid);;
                       Ok match t with Some t' => set_table d tid t' | None => del_table d tid end) ids acc = Ok d' ->
          db_ok d') as G.
  { induction ids as [|tid ids IH]; intros acc Hacc d2; cbn [fold_left].
    - now apply Hacc.
    - apply IH. intros d3 Hd3. destruct acc as [d|]; cbn [bind] in Hd3; [|discriminate].
      destruct (merge_table (get_table cur tid) (get_table base tid) (get_table view tid)) as [t|] eqn:Em;
        cbn [bind] in Hd3; [|discriminate].
      injection Hd3 as <-.
      pose proof (merge_table_ok _ _ _ _ (get_table_opt_ok cur tid Hc) (get_table_opt_ok view tid Hv) Em) as Ht.
      destruct t as [t'|]; [apply set_table_ok; [now apply Hacc|exact Ht]|apply del_table_ok; now apply Hacc]. }
  intros H. apply (G (Ok cur)); [intros d Hd; now injection Hd as <-|exact H].
Qed.

Opaque merge.

(** Invariant of reachable states. *)
Definition Inv (st : state) : Prop :=
  db_ok (committed st) /\ forall k ss, get_sess (sessions st) k = Some ss -> db_ok (ss_view ss).

Definition action_ok (a : action) : Prop :=
  match a with
  | AExec s | AStmt _ s => not_drop_column s
  | ABatch ss => Forall not_drop_column ss
  | _ => True
  end.

Lemma init_inv : Inv init_state.
Proof. split; [constructor|intros k ss H; discriminate]. Qed.

Lemma batch_ok ss : Forall not_drop_column ss -> forall rs d n ok,
  db_ok d ->
  let '(_, d', _, _) := fold_left (fun (acc : list result * db * N * bool) s => let '(rs, d, n, ok) := acc in
                                if ok then let '(r, d2, n2) := exec d n s in
                                           match r with RErr => (rs, d, n2, false) | _ => (rs ++ [r], d2, n2, true) end
                                else acc) ss (rs, d, n, ok) in db_ok d'.
Proof.
  induction 1 as [|s ss Hs _ IH]; intros rs d n ok Hd; cbn [fold_left]; [exact Hd|].
  destruct ok; [|now apply IH].
  pose proof (exec_ok d n s Hd Hs) as He. destruct (exec d n s) as [[r d2] n2].
  destruct r; now apply IH.
Qed.

Lemma step_inv st a : Inv st -> action_ok a -> Inv (snd (step st a)).
Proof.
  intros [Hc Hs] Ha. destruct a as [s|k|k s|k|k|ss| | | |]; cbn [step action_ok] in *.
  - pose proof (exec_ok (committed st) (nextid st) s Hc Ha) as He.
    destruct (exec (committed st) (nextid st) s) as [[r d'] n'].
    destruct r; split; cbn [snd committed sessions]; assumption.
  - split; cbn [snd committed sessions]; [exact Hc|]. intros j ss. rewrite get_set_sess.
    destruct (j =? k); [intros H; injection H as <-; exact Hc|apply Hs].
  - destruct (get_sess (sessions st) k) as [ss|] eqn:Eg; [|split; assumption].
    pose proof (exec_ok (ss_view ss) (nextid st) s (Hs k ss Eg) Ha) as He.
    destruct (exec (ss_view ss) (nextid st) s) as [[r d'] n'].
    destruct r; split; cbn [snd committed sessions]; try assumption;
      intros j s2; rewrite get_set_sess; (destruct (j =? k); [intros H; injection H as <-; exact He|apply Hs]).
  - destruct (get_sess (sessions st) k) as [ss|] eqn:Eg; [|split; assumption].
    destruct (merge (committed st) (ss_base ss) (ss_view ss)) as [d'|] eqn:Em; split; cbn [snd committed sessions].
    + apply (merge_ok _ _ _ _ Hc (Hs k ss Eg) Em).
    + intros j s2. rewrite get_del_sess. destruct (j =? k); [discriminate|apply Hs].
    + exact Hc.
    + intros j s2. rewrite get_del_sess. destruct (j =? k); [discriminate|apply Hs].
  - destruct (get_sess (sessions st) k) as [ss|] eqn:Eg; [|split; assumption].
    split; cbn [snd committed sessions]; [exact Hc|].
    intros j s2. rewrite get_del_sess. destruct (j =? k); [discriminate|apply Hs].
  - pose proof (batch_ok ss Ha [] (committed st) (nextid st) true Hc) as Hb.
    match goal with |- context [fold_left ?f ss ?z] => destruct (fold_left f ss z) as [[[rs d'] n'] ok] end.
    destruct ok; split; cbn [snd committed sessions]; assumption.
  - split; assumption.
  - split; assumption.
  - split; assumption.
  - split; assumption.
Qed.

Theorem constraints_hold hist : Forall action_ok hist -> Inv (run hist init_state).
Proof.
  intros H. unfold run.
  assert (forall st, Inv st -> Inv (fold_left (fun st a => snd (step st a)) hist st)) as G.
  { induction H as [|a hist Ha _ IH]; intros st Hst; cbn [fold_left]; [exact Hst|].
    apply IH. now apply step_inv. }
  apply G, init_inv.
Qed.

(** What [table_ok] says, spelled out: no NULL in a NOT NULL column, and no two rows agreeing on
    all columns of a declared key unless a key column is NULL. *)
Lemma table_ok_not_null t id row : table_ok t = true -> In (id, row) (t_rows t) ->
  length row = length (t_cols t) /\
  forall i c v, nth_error (t_cols t) i = Some c -> nth_error row i = Some v -> c_notnull c = true -> v <> SNull.
Proof.
  unfold table_ok. intros H Hin. apply andb_true_iff in H. destruct H as [H _].
  rewrite forallb_forall in H. specialize (H _ Hin). cbn [snd] in H. unfold row_ok in H.
  apply andb_true_iff in H. destruct H as [Hl Hf]. apply Nat.eqb_eq in Hl. split; [exact Hl|].
  intros i c v Hc Hv Hnn Hnull. subst v.
  rewrite forallb_forall in Hf.
  assert (In (c, SNull) (combine (t_cols t) row)) as Hi.
  { clear -Hc Hv. revert i row Hc Hv. induction (t_cols t) as [|c0 cs IH]; intros i row Hc Hv; destruct i; cbn in *; try discriminate.
    - destruct row; cbn in *; [discriminate|]. injection Hc as ->. injection Hv as ->. now left.
    - destruct row; cbn in *; [discriminate|]. right. now apply (IH i). }
  specialize (Hf _ Hi). cbn [fst snd] in Hf. rewrite Hnn in Hf.
  apply andb_true_iff in Hf. destruct Hf as [_ Hf]. discriminate.
Qed.

Lemma no_dups_spec cols rows : no_dups cols rows = true ->
  forall pre r1 mid r2 post, rows = pre ++ r1 :: mid ++ r2 :: post -> keys_collide cols r1 r2 = false.
Proof.
  revert cols. induction rows as [|r rows IH]; intros cols H pre r1 mid r2 post E.
  - destruct pre; discriminate.
  - cbn [no_dups] in H. apply andb_true_iff in H. destruct H as [H1 H2].
    destruct pre as [|p pre]; cbn [app] in E.
    + injection E as -> ->. apply negb_true_iff in H1.
      destruct (keys_collide cols r1 r2) eqn:Ek; [|reflexivity].
      assert (existsb (keys_collide cols r1) (mid ++ r2 :: post) = true) as X.
      { apply existsb_exists. exists r2. split; [apply in_or_app; right; now left|exact Ek]. }
      congruence.
    + injection E as -> ->. now apply (IH cols H2 pre r1 mid r2 post).
Qed.

Lemma table_ok_unique t u : table_ok t = true -> In u (t_uniq t) ->
  forall pre r1 mid r2 post, map snd (t_rows t) = pre ++ r1 :: mid ++ r2 :: post -> keys_collide u r1 r2 = false.
Proof.
  unfold table_ok. intros H Hu. apply andb_true_iff in H. destruct H as [_ H].
  rewrite forallb_forall in H. apply (no_dups_spec u _ (H u Hu)).
Qed.
