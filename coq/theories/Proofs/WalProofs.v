(** The write-ahead log refines a list of records: what is read back after a force, a reopen or a
    crash is exactly the forced prefix of what was appended since the last truncation. *)
From Axv Require Import Base.Bytes Base.BytesFacts Gen.GenWal Model.Wal.
From Coq Require Import ZifyBool ZifyN ZifyNat.
Ltac Zify.zify_post_hook ::= Z.div_mod_to_equations.
Open Scope N_scope.

(** Side conditions on the regenerated layout constants (discharged in Gen/GenOkWal.v). *)
Definition layout_ok : Prop :=
  0 < wal_record_header_size /\ 0 < wal_record_alignment /\ wal_block_header_size <= wal_block_zero_header_size.

Section Proofs.
  Variable B : N.
  Hypothesis Hlayout : layout_ok.

  Notation rsize := rsize.
  Notation used := used.
  Notation blk_cap := (blk_cap B).
  Notation hdr_cap := (hdr_cap B).

  Lemma rsize_pos r : 0 < rsize r.
  Proof.
    destruct Hlayout as (Hh & Ha & _). unfold Wal.rsize, roundup.
    set (n := wal_record_header_size + r_undo r + r_redo r). set (a := wal_record_alignment) in *.
    assert (0 < n) by lia.
    assert (n <= (n + a - 1) / a * a).
    { pose proof (N.div_mod (n + a - 1) a ltac:(lia)). pose proof (N.mod_lt (n + a - 1) a ltac:(lia)). nia. }
    lia.
  Qed.

  Lemma used_zero b : used b = 0 -> b = [].
  Proof. destruct b as [|r b]; [reflexivity|]. cbn [Wal.used fold_right]. pose proof (rsize_pos r). lia. Qed.

  Lemma caps : hdr_cap <= blk_cap /\ blk_cap <= max_record B.
  Proof. destruct Hlayout as (_ & _ & H). unfold Wal.hdr_cap, Wal.blk_cap, max_record. lia. Qed.

  (** ** Views *)
  Definition cur_list (w : wal) : list rec := match cur w with Some b => b | None => [] end.
  Definition mem_view (w : wal) : list rec :=
    hdr w ++ concat (firstn (flushed w) (d_blocks (dsk w))) ++ concat (queue w) ++ cur_list w.
  Definition disk_view (d : disk) : list rec :=
    match d_hdr d with
    | None => []
    | Some (h, total, _) => h ++ concat (firstn (N.to_nat total - 1) (d_blocks d))
    end.

  Record Inv (w : wal) (L F : list rec) : Prop := {
    inv_mem : mem_view w = L;
    inv_disk : disk_view (dsk w) = F;
    inv_len : (flushed w <= length (d_blocks (dsk w)))%nat;
    inv_total : match d_hdr (dsk w) with
                | Some (_, total, _) => (N.to_nat total - 1 <= length (d_blocks (dsk w)))%nat /\ 1 <= total
                | None => d_blocks (dsk w) = []
                end;
    inv_queue : cur w = None -> queue w = []
  }.

  (** ** write_at / write_seq *)
  Lemma firstn_write_at {A} p (b : A) l : (p <= length l)%nat ->
    firstn (S p) (write_at p b l) = firstn p l ++ [b] /\ firstn p (write_at p b l) = firstn p l
    /\ (S p <= length (write_at p b l))%nat.
  Proof.
    intros Hp. unfold write_at.
    assert (length (firstn p l) = p) as Hl by (rewrite firstn_length; lia).
    set (l1 := firstn p l) in *. set (X := skipn (S p) l).
    repeat split.
    - replace (S p) with (length l1 + 1)%nat by lia. rewrite firstn_app_2. reflexivity.
    - replace p with (length l1 + 0)%nat at 1 by lia. rewrite firstn_app_2. cbn [firstn]. now rewrite app_nil_r.
    - rewrite !app_length, Hl. cbn. lia.
  Qed.

  Lemma write_seq_spec {A} (bs : list A) : forall p l, (p <= length l)%nat ->
    firstn (p + length bs) (write_seq p bs l) = firstn p l ++ bs
    /\ (p + length bs <= length (write_seq p bs l))%nat.
  Proof.
    induction bs as [|b bs IH]; intros p l Hp; cbn [write_seq length].
    - rewrite Nat.add_0_r, app_nil_r. split; [reflexivity|lia].
    - destruct (firstn_write_at p b l Hp) as (H1 & _ & H3).
      destruct (IH (S p) (write_at p b l) H3) as (I1 & I2).
      replace (p + S (length bs))%nat with (S p + length bs)%nat by lia.
      rewrite I1, H1, <- app_assoc. split; [reflexivity|exact I2].
  Qed.

  Lemma firstn_firstn_le {A} n m (l : list A) : (n <= m)%nat -> firstn n (firstn m l) = firstn n l.
  Proof. intros H. rewrite firstn_firstn. now rewrite Nat.min_l by lia. Qed.

  (** ** Push *)
  Definition accepted (r : rec) : bool := rsize r <=? blk_cap.

  Lemma push_inv w L F r : Inv w L F ->
    let '(w', res) := push B w r in
    Inv w' (if accepted r then L ++ [r] else L) F
    /\ (res = PushOk <-> accepted r = true).
  Proof.
    intros [Hm Hd Hl Ht Hq]. destruct caps as [Hc1 Hc2].
    unfold push, accepted.
    destruct (max_record B <? rsize r) eqn:Emax.
    { replace (rsize r <=? blk_cap) with false by lia. split; [now constructor|]. split; discriminate. }
    set (size := rsize r) in *.
    (* the block path, for any starting block [blk] that is the current block conceptually *)
    assert (Hblock : forall blk w0, hdr w0 = hdr w -> queue w0 = queue w -> flushed w0 = flushed w ->
              dsk w0 = dsk w ->
              hdr w ++ concat (firstn (flushed w) (d_blocks (dsk w))) ++ concat (queue w) ++ blk = L ->
              let '(w', res) :=
                (let '(w1, blk1) :=
                   if blk_cap - used blk <? size
                   then ({| hdr := hdr w0; tot := tot w0 + 1; cur := Some []; queue := queue w0 ++ [blk];
                            flushed := flushed w0; glast := glast w0; dsk := dsk w0 |}, [])
                   else (w0, blk) in
                 if blk_cap - used blk1 <? size
                 then ({| hdr := hdr w1; tot := tot w1; cur := Some blk1; queue := queue w1;
                          flushed := flushed w1; glast := glast w1; dsk := dsk w1 |}, PushFull)
                 else ({| hdr := hdr w1; tot := tot w1; cur := Some (blk1 ++ [r]); queue := queue w1;
                          flushed := flushed w1; glast := glast w1; dsk := dsk w1 |}, PushOk)) in
              Inv w' (if size <=? blk_cap then L ++ [r] else L) F
              /\ (res = PushOk <-> (size <=? blk_cap) = true)).
    { intros blk w0 E1 E2 E3 E4 Hview.
      destruct (blk_cap - used blk <? size) eqn:Erot.
      - cbn [Wal.used fold_right]. rewrite N.sub_0_r.
        destruct (blk_cap <? size) eqn:Efull.
        + replace (size <=? blk_cap) with false by lia. split; [|split; discriminate].
          constructor; cbn [hdr tot cur queue flushed dsk]; rewrite ?E1, ?E2, ?E3, ?E4; try assumption; try discriminate; try exact I.
          unfold mem_view, cur_list. cbn [hdr tot cur queue flushed dsk]. rewrite ?E1, ?E2, ?E3, ?E4.
          rewrite concat_app. cbn [concat]. rewrite !app_nil_r. rewrite <- Hview. rewrite <- ?app_assoc; reflexivity.
        + replace (size <=? blk_cap) with true by lia. split; [|split; reflexivity].
          constructor; cbn [hdr tot cur queue flushed dsk]; rewrite ?E1, ?E2, ?E3, ?E4; try assumption; try discriminate; try exact I.
          unfold mem_view, cur_list. cbn [hdr tot cur queue flushed dsk]. rewrite ?E1, ?E2, ?E3, ?E4.
          rewrite concat_app. cbn [concat app]. rewrite !app_nil_r. rewrite <- Hview. rewrite <- ?app_assoc; reflexivity.
      - cbv beta iota zeta. rewrite Erot.
        replace (size <=? blk_cap) with true by lia. split; [|split; reflexivity].
        constructor; cbn [hdr tot cur queue flushed dsk]; rewrite ?E1, ?E2, ?E3, ?E4; try assumption; try discriminate; try exact I.
        unfold mem_view, cur_list. cbn [hdr tot cur queue flushed dsk]. rewrite ?E1, ?E2, ?E3, ?E4.
        rewrite <- Hview. rewrite <- ?app_assoc; reflexivity. }
    cbn [hdr tot cur queue flushed glast dsk].
    destruct (cur w) as [blk|] eqn:Ecur.
    - apply (Hblock blk {| hdr := hdr w; tot := tot w; cur := Some blk; queue := queue w; flushed := flushed w;
                           glast := Some (r_lsn r); dsk := dsk w |}); try reflexivity.
      unfold mem_view, cur_list in Hm. now rewrite Ecur in Hm.
    - destruct (Nat.eqb (flushed w) 0 && (size <=? hdr_cap - used (hdr w))) eqn:Ehdr.
      + apply andb_true_iff in Ehdr. destruct Ehdr as [Ef Es]. apply Nat.eqb_eq in Ef.
        replace (size <=? blk_cap) with true by lia. split; [|split; reflexivity].
        pose proof (Hq eq_refl) as Hq0.
        constructor; cbn [hdr tot cur queue flushed dsk]; try assumption; try exact I; try (intros _; exact Hq0).
        unfold mem_view, cur_list in *. cbn [hdr tot cur queue flushed dsk]. rewrite Ecur in Hm.
        rewrite Hq0, Ef in *. cbn [firstn concat app] in *. rewrite !app_nil_r in *. now rewrite Hm.
      + apply (Hblock [] {| hdr := hdr w; tot := tot w; cur := None; queue := queue w; flushed := flushed w;
                            glast := Some (r_lsn r); dsk := dsk w |}); try reflexivity.
        unfold mem_view, cur_list in Hm. rewrite Ecur in Hm. exact Hm.
  Qed.

  (** ** Flush *)
  Lemma flush_inv w L F : Inv w L F -> Inv (flush w) L L.
  Proof.
    intros [Hm Hd Hl Ht Hq]. unfold flush.
    destruct (write_seq_spec (queue w) (flushed w) (d_blocks (dsk w)) Hl) as (W1 & W2).
    set (blocks1 := write_seq (flushed w) (queue w) (d_blocks (dsk w))) in *.
    set (fl := (flushed w + length (queue w))%nat) in *.
    unfold mem_view, cur_list in Hm.
    destruct (cur w) as [blk|] eqn:Ecur.
    - destruct (0 <? used blk) eqn:Eu.
      + destruct (firstn_write_at fl blk blocks1 W2) as (A1 & A2 & A3).
        constructor; cbn [hdr tot cur queue flushed dsk d_hdr d_blocks]; try discriminate; try exact I.
        * unfold mem_view, cur_list. cbn [hdr tot cur queue flushed dsk d_hdr d_blocks].
          rewrite A2, W1, concat_app. cbn [concat]. rewrite <- Hm. rewrite <- ?app_assoc; reflexivity.
        * unfold disk_view. cbn [d_hdr d_blocks]. rewrite Nat2N.id.
          replace (S (S fl) - 1)%nat with (S fl) by lia.
          rewrite A1, W1, !concat_app. cbn [concat]. rewrite app_nil_r. rewrite <- Hm. rewrite <- ?app_assoc; reflexivity.
        * lia.
        * rewrite Nat2N.id. split; lia.
      + assert (blk = []) as -> by (apply used_zero; lia).
        constructor; cbn [hdr tot cur queue flushed dsk d_hdr d_blocks]; try discriminate; try exact I.
        * unfold mem_view, cur_list. cbn [hdr tot cur queue flushed dsk d_hdr d_blocks].
          rewrite W1, concat_app. cbn [concat]. rewrite <- Hm. rewrite <- ?app_assoc; reflexivity.
        * unfold disk_view. cbn [d_hdr d_blocks]. rewrite Nat2N.id.
          replace (S fl - 1)%nat with fl by lia.
          rewrite W1, concat_app. rewrite <- Hm. rewrite !app_nil_r. rewrite <- ?app_assoc; reflexivity.
        * exact W2.
        * rewrite Nat2N.id. split; lia.
    - constructor; cbn [hdr tot cur queue flushed dsk d_hdr d_blocks]; try reflexivity; try exact I.
      * unfold mem_view, cur_list. cbn [hdr tot cur queue flushed dsk d_hdr d_blocks].
        rewrite W1, concat_app. cbn [concat]. rewrite <- Hm. rewrite <- ?app_assoc; reflexivity.
      * unfold disk_view. cbn [d_hdr d_blocks]. rewrite Nat2N.id.
        replace (S fl - 1)%nat with fl by lia.
        rewrite W1, concat_app. rewrite <- Hm. rewrite !app_nil_r. rewrite <- ?app_assoc; reflexivity.
      * exact W2.
      * rewrite Nat2N.id. split; lia.
  Qed.

  Lemma create_inv : Inv create [] [].
  Proof. constructor; cbn; try reflexivity; try lia; exact I. Qed.

  Lemma truncate_inv w : Inv (truncate w) [] [].
  Proof. exact create_inv. Qed.

  (** ** Open after a crash *)
  Lemma open_inv w L F : Inv w L F -> exists w', open (dsk w) = Some w' /\ Inv w' F F.
  Proof.
    intros [Hm Hd Hl Ht Hq]. unfold open. unfold disk_view in Hd.
    destruct (d_hdr (dsk w)) as [[[h total] gl]|] eqn:Eh.
    - eexists; split; [reflexivity|].
      destruct Ht as [Ht1 Ht2].
      constructor; cbn [hdr tot cur queue flushed dsk]; try reflexivity; try exact I.
      + unfold mem_view, cur_list. cbn [hdr tot cur queue flushed dsk concat]. rewrite !app_nil_r. exact Hd.
      + unfold disk_view. rewrite Eh. exact Hd.
      + exact Ht1.
      + rewrite Eh. split; assumption.
    - eexists; split; [reflexivity|]. subst F.
      pose proof (flush_inv create [] [] create_inv) as H. exact H.
  Qed.

  (** ** Settled reads *)
  Definition settled (w : wal) : Prop :=
    match d_hdr (dsk w) with Some (_, total, _) => tot w = total | None => False end.

  Lemma read_blocks_firstn n : forall bs, (n <= length bs)%nat -> read_blocks n bs = Some (concat (firstn n bs)).
  Proof.
    induction n as [|n IH]; intros bs Hn; [reflexivity|].
    destruct bs as [|b bs]; [cbn in Hn; lia|]. cbn [read_blocks firstn concat].
    rewrite IH by (cbn in Hn; lia). reflexivity.
  Qed.

  Lemma read_settled w L F : Inv w L F -> settled w -> read_all w = Some F.
  Proof.
    intros [Hm Hd Hl Ht Hq] Hs. unfold read_all, settled, disk_view in *.
    destruct (d_hdr (dsk w)) as [[[h total] gl]|]; [|contradiction].
    rewrite Hs. destruct Ht as [Ht1 _]. rewrite read_blocks_firstn by exact Ht1. now rewrite Hd.
  Qed.

  Lemma flush_settled w : settled (flush w).
  Proof. unfold settled, flush. destruct (cur w) as [blk|]; [destruct (0 <? used blk)|]; reflexivity. Qed.

  Lemma open_settled d w : open d = Some w -> settled w.
  Proof.
    unfold open. destruct (d_hdr d) as [[[h total] gl]|] eqn:E; intros H; inversion H; subst.
    - unfold settled. cbn [dsk tot]. now rewrite E.
    - apply flush_settled.
  Qed.

  (** ** Whole sessions against the list specification *)
  Definition spec_step (s : list rec * list rec * bool) (o : op) : list rec * list rec * bool :=
    let '(L, F, st) := s in
    match o with
    | OPush r => (if accepted r then L ++ [r] else L, F, false)
    | OFlush | OReopen => (L, L, true)
    | OCrash => (F, F, true)
    | OTruncFlush => ([], [], true)
    | OTrunc => ([], [], false)
    | ORead | OLast => s
    end.

  Definition exec_step (w : wal) (o : op) : wal :=
    match fst (step B w o) with Some w' => w' | None => w end.

  Lemma step_inv w L F st o : Inv w L F -> (st = true -> settled w) ->
    let '(L', F', st') := spec_step (L, F, st) o in
    fst (step B w o) <> None /\ Inv (exec_step w o) L' F' /\ (st' = true -> settled (exec_step w o)).
  Proof.
    intros HI Hst. unfold exec_step. destruct o; cbn [spec_step step].
    - pose proof (push_inv w L F r HI) as H. destruct (push B w r) as [w' res]. cbn [fst].
      destruct H as [H _]. split; [discriminate|]. split; [exact H|discriminate].
    - cbn [fst]. split; [discriminate|]. split; [now apply (flush_inv w L F)|intros _; apply flush_settled].
    - pose proof (flush_inv w L F HI) as HF.
      destruct (open_inv _ _ _ HF) as (w' & Ho & HI'). rewrite Ho. cbn [fst].
      split; [discriminate|]. split; [exact HI'|intros _; now apply (open_settled _ _ Ho)].
    - destruct (open_inv _ _ _ HI) as (w' & Ho & HI'). rewrite Ho. cbn [fst].
      split; [discriminate|]. split; [exact HI'|intros _; now apply (open_settled _ _ Ho)].
    - cbn [fst]. split; [discriminate|]. split; [apply (flush_inv _ [] []), truncate_inv|intros _; apply flush_settled].
    - cbn [fst]. split; [discriminate|]. split; [apply truncate_inv|discriminate].
    - cbn [fst]. split; [discriminate|]. split; assumption.
    - cbn [fst]. split; [discriminate|]. split; assumption.
  Qed.

  Theorem wal_refines_list ops :
    let w := fold_left exec_step ops create in
    let '(L, F, st) := fold_left spec_step ops ([], [], false) in
    Inv w L F /\ (st = true -> read_all w = Some F).
  Proof.
    cbn zeta.
    assert (G : forall ops w L F st, Inv w L F -> (st = true -> settled w) ->
              let '(L', F', st') := fold_left spec_step ops (L, F, st) in
              Inv (fold_left exec_step ops w) L' F' /\ (st' = true -> settled (fold_left exec_step ops w))).
    { clear ops. induction ops as [|o ops IH]; intros w L F st HI Hs; cbn [fold_left].
      - split; assumption.
      - pose proof (step_inv w L F st o HI Hs) as H.
        destruct (spec_step (L, F, st) o) as [[L' F'] st']. destruct H as (_ & HI' & Hs').
        apply IH; assumption. }
    pose proof (G ops create [] [] false create_inv ltac:(discriminate)) as H.
    destruct (fold_left spec_step ops ([], [], false)) as [[L F] st]. destruct H as [HI Hs].
    split; [exact HI|]. intros E. apply (read_settled _ L F HI (Hs E)).
  Qed.

  (** The forced records are always a subsequence of the appended ones: nothing is invented. *)
  Lemma spec_forced_prefix ops :
    let '(L, F, _) := fold_left spec_step ops ([], [], false) in exists tl, L = F ++ tl.
  Proof.
    assert (G : forall ops L F st, (exists tl, L = F ++ tl) ->
              let '(L', F', _) := fold_left spec_step ops (L, F, st) in exists tl, L' = F' ++ tl).
    { clear ops. induction ops as [|o ops IH]; intros L F st [tl Htl]; cbn [fold_left]; [now exists tl|].
      destruct o; cbn [spec_step]; apply IH;
        try (now exists tl); try (exists []; now rewrite app_nil_r).
      destruct (accepted r); [exists (tl ++ [r]); now rewrite Htl, app_assoc|now exists tl]. }
    apply G. exists []. reflexivity.
  Qed.
End Proofs.
