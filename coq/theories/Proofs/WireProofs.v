From Axv Require Import Base.Bytes Base.BytesFacts Model.WireTags Gen.GenWire Model.Wire.
From Coq Require Import ZifyBool ZifyN ZifyNat.
Ltac Zify.zify_post_hook ::= Z.div_mod_to_equations.
Open Scope N_scope.

(** * UTF-8 *)
Lemma utf8_step_le bs ok n : utf8_step bs = (ok, n) -> (n <= length bs)%nat.
Proof.
  unfold utf8_step. intros H.
  repeat match type of H with
  | context [match ?l with [] => _ | _ :: _ => _ end] => destruct l; cbn [length] in *
  | context [if ?c then _ else _] => destruct c
  end; inversion H; subst; lia.
Qed.

Lemma utf8_step_pos b bs ok n : utf8_step (b :: bs) = (ok, n) -> (1 <= n)%nat.
Proof.
  unfold utf8_step. intros H.
  repeat match type of H with
  | context [match ?l with [] => _ | _ :: _ => _ end] => destruct l
  | context [if ?c then _ else _] => destruct c
  end; inversion H; subst; lia.
Qed.

Lemma lossy_valid_fuel fuel bs :
  utf8_valid_fuel fuel bs = true -> lossy_fuel fuel bs = bs.
Proof.
  revert bs. induction fuel as [|f IH]; intros bs Hv; [discriminate|].
  cbn [utf8_valid_fuel lossy_fuel] in *.
  destruct bs as [|b bs]; [reflexivity|].
  destruct (utf8_step (b :: bs)) as [ok n] eqn:Hs.
  apply andb_true_iff in Hv. destruct Hv as [Hok Hv]. subst ok.
  rewrite (IH _ Hv). apply firstn_skipn.
Qed.

Lemma lossy_valid s : utf8_valid s = true -> lossy s = s.
Proof. apply lossy_valid_fuel. Qed.

(** * Strings *)
Definition str_wf (s : str) : Prop := bytes_ok s /\ utf8_valid s = true /\ lenN s < 2 ^ 32.

Lemma lenN_app {A} (a b : list A) : lenN (a ++ b) = lenN a + lenN b.
Proof. unfold lenN. rewrite app_length. lia. Qed.

Lemma lenN_le_enc n v : lenN (le_enc n v) = N.of_nat n.
Proof. unfold lenN. now rewrite le_enc_length. Qed.

Lemma firstn_le_enc n v rest : firstn n (le_enc n v ++ rest) = le_enc n v.
Proof. rewrite <- (le_enc_length n v) at 1. apply firstn_app_exact. Qed.

Lemma skipn_le_enc n v rest : skipn n (le_enc n v ++ rest) = rest.
Proof. rewrite <- (le_enc_length n v) at 1. apply skipn_app_exact. Qed.

Lemma read_write_string s rest :
  str_wf s -> read_string (write_string s ++ rest) = WOk (s, rest).
Proof.
  intros (Hb & Hu & Hl). unfold read_string, write_string.
  rewrite <- app_assoc.
  rewrite !lenN_app, lenN_le_enc. change (N.of_nat 4) with 4.
  destruct (4 + (lenN s + lenN rest) <? 4) eqn:E1; [lia|].
  rewrite firstn_le_enc, skipn_le_enc.
  rewrite le_dec_enc by (change (256 ^ N.of_nat 4) with (2 ^ 32); exact Hl).
  destruct (4 + (lenN s + lenN rest) <? 4 + lenN s) eqn:E2; [lia|].
  unfold lenN at 1 2. rewrite Nat2N.id.
  rewrite firstn_app_exact, skipn_app_exact, lossy_valid by exact Hu. reflexivity.
Qed.

Lemma skipn_add {A} n m (l : list A) : skipn (n + m) l = skipn m (skipn n l).
Proof. revert l; induction n as [|n IH]; intros l; [reflexivity|]. destruct l; cbn [Nat.add skipn]; [now rewrite skipn_nil|apply IH]. Qed.

(** * Requests *)
Definition req_wf (r : request) : Prop :=
  match r with
  | RCreate s | ROpen s | RSql s | RExplain s => str_wf s
  | RAnalyze rate rows => rate < 2 ^ 64 /\ rows < 2 ^ 64
  | _ => True
  end.

(** Side condition on the regenerated opcode tables (discharged in Gen/GenOk). *)
Definition req_ops_ok : Prop := forall t, req_dec_op (req_enc_op t) = Some t.
Definition status_ok : Prop :=
  (forall s, status_dec (status_enc s) = Some s) /\ (forall t, status_resp (resp_status t) = t).

Lemma request_roundtrip :
  req_ops_ok -> forall r, req_wf r -> decode_request (encode_request r) = WOk r.
Proof.
  intros Hops r Hwf. unfold decode_request, encode_request.
  rewrite N.eqb_refl. cbn [negb]. rewrite Hops.
  destruct r; cbn [req_tag_of req_wf] in *;
    try reflexivity;
    try (rewrite <- (app_nil_r (write_string _)), read_write_string by exact Hwf; reflexivity).
  destruct Hwf as [Hr Hm].
  rewrite lenN_app, !lenN_le_enc. cbn [N.of_nat]. 
  destruct (_ <? 16) eqn:E; [lia|].
  rewrite firstn_le_enc, skipn_le_enc.
  rewrite <- (app_nil_r (le_enc 8 max_rows)), firstn_le_enc.
  rewrite !le_dec_enc by (change (256 ^ N.of_nat 8) with (2 ^ 64); assumption).
  reflexivity.
Qed.

(** * String sequences *)
Lemma read_strings_roundtrip ss : forall fuel rest,
  Forall str_wf ss -> lenN ss < 2 ^ 32 ->
  (length ss <= fuel)%nat ->
  read_strings fuel (lenN ss) (concat (map write_string ss) ++ rest) = WOk (ss, rest).
Proof.
  induction ss as [|s ss IH]; intros fuel rest Hwf Hl Hf.
  - destruct fuel; reflexivity.
  - destruct fuel as [|f]; [cbn in Hf; lia|].
    inversion Hwf as [|? ? Hs Hss]; subst.
    cbn [read_strings map concat].
    replace (lenN (s :: ss) =? 0) with false by (unfold lenN; cbn [length]; lia).
    rewrite <- app_assoc, read_write_string by exact Hs.
    replace (lenN (s :: ss) - 1) with (lenN ss) by (unfold lenN; cbn [length]; lia).
    rewrite IH; [reflexivity|exact Hss| |].
    + unfold lenN in *. cbn [length] in Hl. lia.
    + cbn [length] in Hf. lia.
Qed.

Lemma write_string_len s : length (write_string s) = (4 + length s)%nat.
Proof. unfold write_string. now rewrite app_length, le_enc_length. Qed.

Lemma concat_write_len ss : (4 * length ss <= length (concat (map write_string ss)))%nat.
Proof.
  induction ss as [|s ss IH]; cbn [map concat length]; [lia|].
  rewrite app_length, write_string_len. lia.
Qed.

Definition row_wf (ncols : nat) (row : list str) : Prop := length row = ncols /\ Forall str_wf row.

Lemma read_rows_roundtrip ncols data : forall fuel rest,
  Forall (row_wf ncols) data -> N.of_nat ncols < 2 ^ 32 ->
  (length data <= fuel)%nat ->
  read_rows fuel (lenN data) (N.of_nat ncols)
    (concat (map (fun row => concat (map write_string row)) data) ++ rest) = WOk (data, rest).
Proof.
  induction data as [|row data IH]; intros fuel rest Hwf Hc Hf.
  - destruct fuel; reflexivity.
  - destruct fuel as [|f]; [cbn in Hf; lia|].
    inversion Hwf as [|? ? [Hlen Hrow] Hdata]; subst.
    cbn [read_rows map concat].
    replace (lenN (row :: data) =? 0) with false by (unfold lenN; cbn [length]; lia).
    rewrite <- app_assoc.
    change (N.of_nat (length row)) with (lenN row).
    rewrite read_strings_roundtrip; [|exact Hrow|exact Hc|].
    2:{ pose proof (concat_write_len row). rewrite app_length. lia. }
    replace (lenN (row :: data) - 1) with (lenN data) by (unfold lenN; cbn [length]; lia).
    rewrite IH; [reflexivity|exact Hdata|exact Hc|cbn [length] in Hf; lia].
Qed.

(** * Responses *)
Definition resp_wf (p : response) : Prop :=
  match p with
  | POk s | PError s | PDdl s | PExplain s => str_wf s
  | PRows cols data =>
      Forall str_wf cols /\ Forall (row_wf (length cols)) data
      /\ lenN cols < 2 ^ 32 /\ lenN data < 2 ^ 32 /\ (cols = [] -> data = [])
  | PRowsAffected n => n < 2 ^ 64
  | PVacuumComplete a b c => a < 2 ^ 64 /\ b < 2 ^ 64 /\ c < 2 ^ 64
  | _ => True
  end.

Lemma rows_len ncols data :
  Forall (row_wf ncols) data ->
  (4 * (length data * ncols) <= length (concat (map (fun row => concat (map write_string row)) data)))%nat.
Proof.
  induction 1 as [|row data [Hl _] _ IH]; cbn [map concat length]; [lia|].
  rewrite app_length. pose proof (concat_write_len row). lia.
Qed.

Lemma decode_rows_roundtrip cols data :
  resp_wf (PRows cols data) ->
  decode_rows (le_enc 4 (lenN cols) ++ concat (map write_string cols)
               ++ le_enc 4 (lenN data) ++ concat (map (fun row => concat (map write_string row)) data))
  = (WOk (PRows cols data),
     lenN cols + lenN data + lenN data * lenN cols).
Proof.
  intros (Hcols & Hdata & Hlc & Hld & Hz). unfold decode_rows.
  set (rowsb := concat (map (fun row => concat (map write_string row)) data)).
  set (colsb := concat (map write_string cols)).
  rewrite lenN_app, lenN_le_enc.
  destruct (_ <? 4) eqn:E1; [lia|]. clear E1.
  rewrite firstn_le_enc, skipn_le_enc.
  rewrite le_dec_enc by (change (256 ^ N.of_nat 4) with (2 ^ 32); exact Hlc).
  pose proof (concat_write_len cols) as Hcl. fold colsb in Hcl.
  pose proof (rows_len _ _ Hdata) as Hrl. fold rowsb in Hrl.
  destruct (_ <? lenN cols) eqn:E2.
  { exfalso. rewrite !lenN_app in E2. unfold lenN in E2. lia. }
  clear E2.
  unfold colsb at 2. rewrite read_strings_roundtrip; [|exact Hcols|exact Hlc|].
  2:{ rewrite !app_length. lia. }
  rewrite lenN_app, lenN_le_enc.
  destruct (_ <? 4) eqn:E3; [lia|]. clear E3.
  rewrite firstn_le_enc, skipn_le_enc.
  rewrite le_dec_enc by (change (256 ^ N.of_nat 4) with (2 ^ 32); exact Hld).
  destruct ((lenN cols =? 0) && negb (lenN data =? 0)) eqn:E4.
  { exfalso. apply andb_true_iff in E4. destruct E4 as [Ea Eb].
    assert (cols = []) as Hnil by (destruct cols; [reflexivity|unfold lenN in Ea; cbn [length] in Ea; lia]).
    rewrite (Hz Hnil) in Eb. discriminate. }
  clear E4.
  destruct (_ <? lenN data * lenN cols) eqn:E5.
  { exfalso. unfold lenN in E5. lia. }
  clear E5.
  unfold rowsb at 2. rewrite <- (app_nil_r (concat _)).
  change (lenN cols) with (N.of_nat (length cols)) at 1.
  rewrite read_rows_roundtrip; [reflexivity|exact Hdata|exact Hlc|].
  destruct cols as [|c cols']; [rewrite (Hz eq_refl); cbn; lia|]. cbn [length] in *. nia.
Qed.

Lemma response_roundtrip :
  status_ok -> forall p, resp_wf p -> decode_response (encode_response p) = WOk p.
Proof.
  intros [Hst Hrt] p Hwf. unfold decode_response, decode_response_alloc, encode_response.
  rewrite N.eqb_refl. cbn [negb]. rewrite Hst, Hrt.
  destruct p; cbn [resp_tag_of resp_wf] in *;
    try reflexivity;
    try (rewrite <- (app_nil_r (write_string _)), read_write_string by exact Hwf; reflexivity).
  - rewrite decode_rows_roundtrip by exact Hwf. reflexivity.
  - rewrite lenN_le_enc. cbn [N.of_nat fst].
    destruct (_ <? 8) eqn:E; [lia|].
    rewrite <- (app_nil_r (le_enc 8 n)), firstn_le_enc.
    rewrite le_dec_enc by (change (256 ^ N.of_nat 8) with (2 ^ 64); assumption). reflexivity.
  - destruct Hwf as (Ha & Hb & Hc).
    rewrite !lenN_app, !lenN_le_enc. cbn [N.of_nat fst].
    destruct (_ <? 24) eqn:E; [lia|].
    rewrite firstn_le_enc, skipn_le_enc, firstn_le_enc.
    change 16%nat with (8 + 8)%nat. rewrite skipn_add, skipn_le_enc, skipn_le_enc.
    rewrite <- (app_nil_r (le_enc 8 txs)), firstn_le_enc.
    rewrite !le_dec_enc by (change (256 ^ N.of_nat 8) with (2 ^ 64); assumption). reflexivity.
Qed.

(** * Framing *)
Lemma frame_roundtrip data rest :
  lenN data <= max_message_size -> max_message_size < 2 ^ 32 ->
  exists f, write_message data = WOk f /\ read_message (f ++ rest) = WOk (data, rest).
Proof.
  intros Hl Hm. unfold write_message.
  destruct (max_message_size <? lenN data) eqn:E; [lia|].
  eexists; split; [reflexivity|]. unfold read_message.
  rewrite <- app_assoc, !lenN_app, lenN_le_enc. change (N.of_nat 4) with 4.
  destruct (4 + (lenN data + lenN rest) <? 4) eqn:E1; [lia|].
  rewrite firstn_le_enc, skipn_le_enc.
  rewrite le_dec_enc by (change (256 ^ N.of_nat 4) with (2 ^ 32); lia).
  rewrite E. rewrite lenN_app.
  destruct (lenN data + lenN rest <? lenN data) eqn:E2; [lia|].
  unfold lenN at 1 2. rewrite Nat2N.id, firstn_app_exact, skipn_app_exact. reflexivity.
Qed.

Lemma frame_reject_write data : max_message_size < lenN data -> write_message data = WErr ETooLarge.
Proof. intros H. unfold write_message. destruct (_ <? _) eqn:E; [reflexivity|lia]. Qed.

Lemma frame_reject_read input :
  4 <= lenN input -> max_message_size < le_dec (firstn 4 input) -> read_message input = WErr ETooLarge.
Proof.
  intros H4 H. unfold read_message. destruct (lenN input <? 4) eqn:E; [lia|].
  destruct (max_message_size <? _) eqn:E2; [reflexivity|lia].
Qed.

(** * No panic: the only [EPanic] in the model is fuel exhaustion, which cannot happen. *)
Lemma read_string_shrinks data s rest :
  read_string data = WOk (s, rest) -> (length rest + 4 <= length data)%nat.
Proof.
  unfold read_string. destruct (lenN data <? 4) eqn:E1; [discriminate|].
  remember (le_dec (firstn 4 data)) as len eqn:Hlen. clear Hlen.
  destruct (lenN data <? 4 + len) eqn:E2; [discriminate|].
  pose proof (skipn_length 4 data) as Hb.
  remember (skipn 4 data) as body eqn:Hbody. clear Hbody.
  intros H. injection H as _ <-. rewrite skipn_length. unfold lenN in *. lia.
Qed.

Lemma read_string_no_panic data : read_string data <> WErr EPanic.
Proof.
  unfold read_string. destruct (lenN data <? 4); [discriminate|].
  destruct (lenN data <? 4 + le_dec (firstn 4 data)); discriminate.
Qed.

Lemma read_strings_no_panic : forall fuel count data,
  (length data < fuel)%nat -> read_strings fuel count data <> WErr EPanic.
Proof.
  induction fuel as [|f IH]; intros count data Hf; [lia|].
  cbn [read_strings]. destruct (count =? 0); [discriminate|].
  destruct (read_string data) as [[s rest]|e] eqn:Hr.
  - apply read_string_shrinks in Hr.
    specialize (IH (count - 1) rest ltac:(lia)).
    destruct (read_strings f (count - 1) rest) as [[ss r']|e]; [discriminate|].
    intros H; inversion H; subst; now apply IH.
  - intros H; inversion H; subst. now apply (read_string_no_panic data).
Qed.

Lemma read_strings_shrinks : forall fuel count data ss rest,
  read_strings fuel count data = WOk (ss, rest) ->
  (length rest + 4 * length ss <= length data)%nat /\ lenN ss = count.
Proof.
  induction fuel as [|f IH]; intros count data ss rest H.
  - cbn [read_strings] in H. destruct (count =? 0) eqn:E; [|discriminate].
    inversion H; subst. cbn. split; lia.
  - cbn [read_strings] in H. destruct (count =? 0) eqn:E.
    + inversion H; subst. cbn. split; lia.
    + destruct (read_string data) as [[s r1]|e] eqn:Hr; [|discriminate].
      destruct (read_strings f (count - 1) r1) as [[ss' r']|e] eqn:Hrs; [|discriminate].
      inversion H; subst. apply read_string_shrinks in Hr. apply IH in Hrs.
      unfold lenN in *. cbn [length]. lia.
Qed.

Lemma read_rows_no_panic : forall fuel rows cols data,
  1 <= cols -> (length data < fuel)%nat -> read_rows fuel rows cols data <> WErr EPanic.
Proof.
  induction fuel as [|f IH]; intros rows cols data Hc Hf; [lia|].
  cbn [read_rows]. destruct (rows =? 0); [discriminate|].
  destruct (read_strings (S (length data)) cols data) as [[r rest]|e] eqn:Hr.
  - apply read_strings_shrinks in Hr. destruct Hr as [Hlen Hcnt].
    assert (length rest < f)%nat by (unfold lenN in Hcnt; lia).
    specialize (IH (rows - 1) cols rest Hc H).
    destruct (read_rows f (rows - 1) cols rest) as [[rs r']|e]; [discriminate|].
    intros H'; inversion H'; subst; now apply IH.
  - intros H; inversion H; subst.
    eapply read_strings_no_panic; [|exact Hr]. lia.
Qed.

Lemma decode_rows_no_panic payload : fst (decode_rows payload) <> WErr EPanic.
Proof.
  unfold decode_rows.
  destruct (lenN payload <? 4); [discriminate|].
  destruct (_ <? le_dec _); [discriminate|].
  destruct (read_strings _ _ _) as [[cols p2]|e] eqn:Hr.
  2:{ cbn [fst]. intros H; inversion H; subst. eapply read_strings_no_panic; [|exact Hr]. lia. }
  destruct (lenN p2 <? 4); [discriminate|].
  destruct (_ && _) eqn:Ez; [discriminate|].
  destruct (_ <? _ * _); [discriminate|].
  destruct (read_rows _ _ _ _) as [[data r]|e] eqn:Hrr; [discriminate|].
  cbn [fst]. intros H; inversion H; subst.
  destruct (le_dec (firstn 4 payload) =? 0) eqn:Ec.
  - (* zero columns: then zero rows, no loop *)
    cbn [andb] in Ez. apply negb_false_iff in Ez.
    cbn [read_rows] in Hrr. rewrite Ez in Hrr. discriminate.
  - eapply read_rows_no_panic; [| |exact Hrr]; lia.
Qed.

Lemma decode_request_no_panic data : decode_request data <> WErr EPanic.
Proof.
  unfold decode_request. destruct data as [|v [|cmd payload]]; try discriminate.
  - destruct (negb _); discriminate.
  - destruct (negb _); [discriminate|].
    destruct (req_dec_op cmd) as [t|]; [|discriminate].
    destruct t; try discriminate;
      try (destruct (read_string payload) as [[s r]|e] eqn:Hr; [discriminate|];
           intros H; inversion H; subst; now apply (read_string_no_panic payload)).
    destruct (_ <? 16); discriminate.
Qed.

Lemma decode_response_no_panic data : decode_response data <> WErr EPanic.
Proof.
  unfold decode_response, decode_response_alloc.
  destruct data as [|v [|st payload]]; try discriminate.
  destruct (negb _); [discriminate|].
  destruct (status_dec st) as [s|]; [|discriminate].
  destruct (status_resp s); try discriminate;
    try (destruct (read_string payload) as [[m r]|e] eqn:Hr; [discriminate|];
         cbn [fst]; intros H; inversion H; subst; now apply (read_string_no_panic payload));
    try (destruct (_ <? _); discriminate).
  apply decode_rows_no_panic.
Qed.

(** * Allocation bound: slots requested through [with_capacity] never exceed the input size. *)
Lemma decode_rows_alloc payload : snd (decode_rows payload) <= lenN payload.
Proof.
  unfold decode_rows.
  destruct (lenN payload <? 4) eqn:E0; [cbn; lia|].
  assert (Hp1 : lenN (skipn 4 payload) = lenN payload - 4).
  { unfold lenN. rewrite skipn_length. lia. }
  destruct (_ <? le_dec _) eqn:E1; [cbn; lia|].
  set (cc := le_dec (firstn 4 payload)) in *.
  destruct (read_strings _ _ _) as [[cols p2]|e] eqn:Hr; [|cbn [snd]; lia].
  apply read_strings_shrinks in Hr. destruct Hr as [Hlen Hcnt].
  destruct (lenN p2 <? 4) eqn:E2; [cbn [snd]; lia|].
  set (rc := le_dec (firstn 4 p2)) in *.
  destruct (_ && _) eqn:Ez; [cbn [snd]; lia|].
  assert (Hp3 : lenN (skipn 4 p2) = lenN p2 - 4).
  { unfold lenN. rewrite skipn_length. lia. }
  destruct (_ <? rc * cc) eqn:E3; [cbn [snd]; lia|].
  assert (cc + rc + rc * cc <= lenN payload).
  { unfold lenN in *.
    assert (rc <= rc * cc).
    { destruct (cc =? 0) eqn:Ec.
      - cbn [andb] in Ez. apply negb_false_iff in Ez. nia.
      - nia. }
    nia. }
  destruct (read_rows _ _ _ _) as [[data r]|e]; cbn [snd]; lia.
Qed.

Lemma decode_response_alloc_bound data : snd (decode_response_alloc data) <= lenN data.
Proof.
  unfold decode_response_alloc.
  destruct data as [|v [|st payload]]; cbn [snd]; try lia.
  destruct (negb _); [cbn; lia|].
  destruct (status_dec st) as [s|]; [|cbn; lia].
  destruct (status_resp s); cbn [snd];
    try (destruct (read_string payload) as [[m r]|e]; cbn; lia);
    try (destruct (_ <? _); cbn; lia); try (cbn; lia).
  pose proof (decode_rows_alloc payload). unfold lenN in *. cbn [length]. lia.
Qed.
