(** C14, safety half: if every thread follows the discipline for one rank of the objects, then in every reachable
    state of every schedule some unfinished thread can take its next step (no deadlock), and every schedule that
    keeps choosing such threads completes. *)
From Coq Require Import List NArith Bool Lia.
From Axv Require Import Model.Locks.
Import ListNotations.
Open Scope N_scope.

Section Locks.
  Variable rank : N -> N.

  Lemma step_thread_ok t : thread_ok rank t = true -> thread_ok rank (step_thread t) = true.
  Proof.
    unfold thread_ok, step_thread. destruct t as [p hd]. cbn [rest held].
    destruct p as [|[m o|o] r]; cbn [disciplined rest held]; intro H; [exact H| |];
      apply andb_true_iff in H; tauto.
  Qed.

  Lemma replace_nth_forall (P : thread -> Prop) i t s : Forall P s -> P t -> Forall P (replace_nth i t s).
  Proof.
    revert i. induction s as [|x s IH]; intros i Hs Ht; [destruct i; constructor|].
    inversion Hs; subst. destruct i; cbn [replace_nth]; constructor; auto.
  Qed.

  Lemma step_at_ok fair s i :
    Forall (fun t => thread_ok rank t = true) s -> Forall (fun t => thread_ok rank t = true) (step_at fair s i).
  Proof.
    intro H. unfold step_at. destruct (nth_error s i) as [t|] eqn:E; [|exact H].
    destruct (enabled fair s t); [|exact H].
    apply replace_nth_forall; [exact H|]. apply step_thread_ok.
    rewrite Forall_forall in H. apply H. apply (nth_error_In _ _ E).
  Qed.

  Lemma run_ok fair sched : forall s,
    Forall (fun t => thread_ok rank t = true) s -> Forall (fun t => thread_ok rank t = true) (run_schedule fair s sched).
  Proof.
    induction sched as [|i sched IH]; intros s H; [exact H|]. cbn [run_schedule fold_left]. apply IH. apply step_at_ok. exact H.
  Qed.

  (** the object a thread is about to request *)
  Definition target (t : thread) : option N := match rest t with Acq _ o :: _ => Some o | _ => None end.

  Lemma exists_max (l : list thread) (key : thread -> N) :
    l <> [] -> exists t, In t l /\ forall u, In u l -> key u <= key t.
  Proof.
    induction l as [|x l IH]; intro Hne; [contradiction|].
    destruct l as [|y l'].
    - exists x. split; [left; reflexivity|]. intros u [E|[]]. subst. lia.
    - destruct (IH ltac:(discriminate)) as [t [Ht Hmax]].
      destruct (N.le_gt_cases (key x) (key t)) as [Hle|Hgt].
      + exists t. split; [right; exact Ht|]. intros u [E|Hu]; [subst; exact Hle|apply Hmax; exact Hu].
      + exists x. split; [left; reflexivity|]. intros u [E|Hu]; [subst; lia|specialize (Hmax u Hu); lia].
  Qed.

  (** a thread that holds [o] under the discipline and is not finished is about to request something of larger
      rank, or to re-request a shared lock it holds, or to release *)
  Lemma holder_next t o :
    thread_ok rank t = true -> holds t o = true ->
    match rest t with
    | [] => False
    | Rel _ :: _ => True
    | Acq m o' :: _ => rank o < rank o' \/ (m = MR /\ holds_r t o' = true)
    end.
  Proof.
    unfold thread_ok, holds, holds_r. destruct t as [p hd]. cbn [rest held]. intros Hok Hh.
    destruct p as [|[m o'|o'] r]; cbn [disciplined] in Hok.
    - destruct hd; [discriminate Hh|discriminate Hok].
    - apply andb_true_iff in Hok. destruct Hok as [Hok _]. apply orb_true_iff in Hok. destruct Hok as [Hre|Hall].
      + right. destruct m; [split; [reflexivity|exact Hre]|discriminate].
      + left. rewrite forallb_forall in Hall. apply existsb_exists in Hh. destruct Hh as [h [Hin E]].
        apply N.eqb_eq in E. specialize (Hall h Hin). apply N.ltb_lt in Hall. rewrite E in Hall. exact Hall.
    - exact I.
  Qed.

  Lemma holds_w_holds t o : holds_w t o = true -> holds t o = true.
  Proof.
    unfold holds_w, holds. rewrite !existsb_exists. intros [h [Hin E]]. exists h. split; [exact Hin|].
    apply andb_true_iff in E. tauto.
  Qed.

  (** ** progress, recursive-read semantics *)
  Theorem progress (s : sys) :
    Forall (fun t => thread_ok rank t = true) s -> existsb unfinished s = true -> existsb (enabled false s) s = true.
  Proof.
    intros Hok Hun. rewrite Forall_forall in Hok.
    destruct (existsb (enabled false s) s) eqn:Hen; [reflexivity|exfalso].
    assert (Hdis : forall t, In t s -> enabled false s t = false).
    { intros t Ht. destruct (enabled false s t) eqn:E; [|reflexivity].
      assert (existsb (enabled false s) s = true) by (apply existsb_exists; exists t; auto). congruence. }
    (* the unfinished threads: all about to acquire *)
    set (U := filter unfinished s).
    assert (HU : U <> []).
    { apply existsb_exists in Hun. destruct Hun as [t [Ht Hu]]. intro E.
      assert (In t U) by (apply filter_In; auto). rewrite E in H. destruct H. }
    destruct (exists_max U (fun t => match target t with Some o => rank o | None => 0 end) HU) as [t [Ht Hmax]].
    apply filter_In in Ht. destruct Ht as [Hts Htu].
    pose proof (Hdis t Hts) as Hd. unfold enabled in Hd. unfold unfinished in Htu.
    destruct (rest t) as [|[m l|l] r] eqn:Er; [discriminate Htu| |discriminate Hd].
    (* some thread u holds l *)
    assert (Hholder : exists u, In u s /\ holds u l = true /\ (m = MR -> holds_r t l = false)).
    { destruct m.
      - apply orb_false_iff in Hd. destruct Hd as [Hd1 Hd2]. apply negb_false_iff in Hd2.
        apply existsb_exists in Hd2. destruct Hd2 as [u [Hu Hw]]. exists u. split; [exact Hu|].
        split; [apply holds_w_holds; exact Hw|intros _; exact Hd1].
      - apply negb_false_iff in Hd. apply existsb_exists in Hd. destruct Hd as [u [Hu Hh]]. exists u.
        split; [exact Hu|]. split; [exact Hh|discriminate]. }
    destruct Hholder as [u [Hus [Hul Hnr]]].
    pose proof (holder_next u l (Hok u Hus) Hul) as Hnext.
    pose proof (Hdis u Hus) as Hdu. unfold enabled in Hdu.
    destruct (rest u) as [|[m' l'|l'] r'] eqn:Eru; [exact Hnext| |discriminate Hdu].
    destruct Hnext as [Hlt|[Em Hre]].
    - (* u is about to request something above l: contradicts the choice of t *)
      assert (Huu : In u U) by (apply filter_In; split; [exact Hus|unfold unfinished; rewrite Eru; reflexivity]).
      specialize (Hmax u Huu). unfold target in Hmax. rewrite Er, Eru in Hmax. lia.
    - (* u re-requests a shared lock it holds: that is enabled *)
      subst m'. rewrite Hre in Hdu. discriminate Hdu.
  Qed.

  (** no reachable state of any schedule is deadlocked *)
  Theorem no_deadlock (progs : list (list act)) (sched : list nat) :
    forallb (fun p => disciplined rank [] p) progs = true ->
    stuck false (run_schedule false (map start progs) sched) = false.
  Proof.
    intro H. unfold stuck.
    assert (Hok : Forall (fun t => thread_ok rank t = true) (run_schedule false (map start progs) sched)).
    { apply run_ok. apply Forall_forall. intros t Ht. apply in_map_iff in Ht. destruct Ht as [p [E Hp]]. subst t.
      rewrite forallb_forall in H. apply (H p Hp). }
    destruct (existsb unfinished (run_schedule false (map start progs) sched)) eqn:E; [|reflexivity].
    rewrite (progress _ Hok E). reflexivity.
  Qed.

  (** ** every schedule that always picks a thread that can move completes: each step consumes one action *)
  Definition remaining (s : sys) : nat := fold_right (fun t n => (length (rest t) + n)%nat) O s.

  Lemma remaining_replace i t s x :
    nth_error s i = Some x -> (remaining (replace_nth i t s) + length (rest x) = remaining s + length (rest t))%nat.
  Proof.
    revert i. induction s as [|y s IH]; intros i E; [destruct i; discriminate|].
    destruct i; cbn [nth_error] in E.
    - injection E as ->. cbn [replace_nth remaining fold_right]. lia.
    - cbn [replace_nth remaining fold_right]. fold (remaining (replace_nth i t s)) (remaining s).
      specialize (IH i E). lia.
  Qed.

  Theorem enabled_step_consumes fair s i t :
    nth_error s i = Some t -> enabled fair s t = true -> (remaining (step_at fair s i) + 1 = remaining s)%nat.
  Proof.
    intros E En. unfold step_at. rewrite E, En.
    pose proof (remaining_replace i (step_thread t) s t E) as H.
    assert (Hl : (length (rest (step_thread t)) + 1 = length (rest t))%nat).
    { unfold enabled in En. unfold step_thread. destruct (rest t) as [|[m o|o] r]; [discriminate| |]; cbn [rest length]; lia. }
    lia.
  Qed.
End Locks.

(** ** the fair (writer-preferring) read deadlocks on a re-entrant read: why fix 82c0144 was needed *)
Definition reentrant_reader : list act := [Acq MR 5; Acq MR 5; Rel 5; Rel 5].
Definition writer : list act := [Acq MW 0; Rel 0; Acq MW 5; Rel 5].

Lemma reentrant_disciplined : forall rank, forallb (fun p => disciplined rank [] p) [reentrant_reader; writer] = true.
Proof. intro rank. reflexivity. Qed.

Lemma fair_read_deadlocks :
  stuck true (run_schedule true (map start [reentrant_reader; writer]) [0; 1; 1]%nat) = true.
Proof. vm_compute. reflexivity. Qed.

Lemma recursive_read_completes :
  existsb unfinished (run_schedule false (map start [reentrant_reader; writer]) [0; 1; 1; 0; 0; 0; 1; 1]%nat) = false.
Proof. vm_compute. reflexivity. Qed.
