(** C14, safety half: if every thread follows the discipline for one certificate (classes of objects, gates of
    classes), then in every reachable state of every schedule some unfinished thread can take its next step (no
    deadlock), and every schedule that keeps choosing such threads completes. *)
From Coq Require Import List Arith NArith Bool Lia PeanoNat.
From Axv Require Import Model.Locks.
Import ListNotations.
Open Scope N_scope.

Section Locks.
  Variable cls : N -> N.
  Variable gate : N -> option N.

  Lemma step_thread_ok t : thread_ok cls gate t = true -> thread_ok cls gate (step_thread t) = true.
  Proof.
    unfold thread_ok, step_thread. destruct t as [p hd]. cbn [rest held].
    destruct p as [|[m o|o] r]; cbn [disciplined rest held]; intro H; [exact H| |];
      apply andb_true_iff in H; tauto.
  Qed.

  Lemma replace_nth_forall (P : thread -> Prop) i t s : Forall P s -> P t -> Forall P (replace_nth i t s).
  Proof.
    revert i. induction s as [|x s IH]; intros i Hs Ht; [destruct i; constructor|].
    inversion Hs; subst. destruct i; cbn [replace_nth]; constructor; auto.
  Qed.

  Lemma step_at_ok fair s i :
    Forall (fun t => thread_ok cls gate t = true) s -> Forall (fun t => thread_ok cls gate t = true) (step_at fair s i).
  Proof.
    intro H. unfold step_at. destruct (nth_error s i) as [t|] eqn:E; [|exact H].
    destruct (enabled fair s t); [|exact H].
    apply replace_nth_forall; [exact H|]. apply step_thread_ok.
    rewrite Forall_forall in H. apply H. apply (nth_error_In _ _ E).
  Qed.

  (** ** mutual exclusion is an invariant of the lock semantics *)
  Definition excl (s : sys) : Prop :=
    forall i j ti tj o, nth_error s i = Some ti -> nth_error s j = Some tj -> i <> j ->
                        holds_w ti o = true -> holds tj o = false.

  Lemma nth_replace_same i t (s : sys) x : nth_error s i = Some x -> nth_error (replace_nth i t s) i = Some t.
  Proof.
    revert i. induction s as [|y s IH]; intros i E; [destruct i; discriminate|].
    destruct i; cbn [replace_nth nth_error] in *; [reflexivity|apply IH; exact E].
  Qed.

  Lemma nth_replace_other i j t (s : sys) : i <> j -> nth_error (replace_nth i t s) j = nth_error s j.
  Proof.
    revert i j. induction s as [|y s IH]; intros i j Hne; [destruct i; reflexivity|].
    destruct i, j; cbn [replace_nth nth_error]; try reflexivity; [contradiction|apply IH; lia].
  Qed.

  Lemma holds_remove_first hd o o' : holds_l (remove_first o hd) o' = true -> holds_l hd o' = true.
  Proof.
    induction hd as [|h hd IH]; cbn [remove_first]; [auto|].
    destruct (fst h =? o) eqn:E; cbn [holds_l existsb]; intro H.
    - fold (holds_l hd o'). rewrite H. apply orb_true_r.
    - fold (holds_l (remove_first o hd) o') in H. fold (holds_l hd o'). apply orb_true_iff in H.
      destruct H as [H|H]; [rewrite H; reflexivity|rewrite (IH H); apply orb_true_r].
  Qed.

  Lemma holds_w_remove_first hd o o' : holds_w_l (remove_first o hd) o' = true -> holds_w_l hd o' = true.
  Proof.
    induction hd as [|h hd IH]; cbn [remove_first]; [auto|].
    destruct (fst h =? o) eqn:E; cbn [holds_w_l existsb]; intro H.
    - fold (holds_w_l hd o'). rewrite H. apply orb_true_r.
    - fold (holds_w_l (remove_first o hd) o') in H. fold (holds_w_l hd o'). apply orb_true_iff in H.
      destruct H as [H|H]; [rewrite H; reflexivity|rewrite (IH H); apply orb_true_r].
  Qed.

  Lemma holds_w_holds_l hd o : holds_w_l hd o = true -> holds_l hd o = true.
  Proof.
    unfold holds_w_l, holds_l. rewrite !existsb_exists. intros [h [Hin E]]. exists h. split; [exact Hin|].
    apply andb_true_iff in E. tauto.
  Qed.

  Lemma holds_r_holds_l hd o : holds_r_l hd o = true -> holds_l hd o = true.
  Proof.
    unfold holds_r_l, holds_l. rewrite !existsb_exists. intros [h [Hin E]]. exists h. split; [exact Hin|].
    apply andb_true_iff in E. tauto.
  Qed.

  Lemma not_exists_false {A} (f : A -> bool) l x : existsb f l = false -> In x l -> f x = false.
  Proof.
    intros H Hin. destruct (f x) eqn:E; [|reflexivity].
    assert (existsb f l = true) by (apply existsb_exists; exists x; auto). congruence.
  Qed.

  Lemma step_at_excl s i : excl s -> excl (step_at false s i).
  Proof.
    intro Hex. unfold step_at. destruct (nth_error s i) as [t|] eqn:Et; [|exact Hex].
    destruct (enabled false s t) eqn:En; [|exact Hex].
    unfold excl. intros a b ta tb o Ha Hb Hab Hw.
    (* what the stepping thread holds afterwards *)
    assert (Hstep_w : forall o', holds_w (step_thread t) o' = true ->
                                 holds_w t o' = true \/ (exists r, rest t = Acq MW o' :: r)).
    { intros o' H. unfold holds_w, step_thread in *. destruct (rest t) as [|[m x|x] r] eqn:Er; cbn [held] in H.
      - left. exact H.
      - cbn [holds_w_l existsb fst snd] in H. apply orb_true_iff in H. destruct H as [H|H]; [|left; exact H].
        apply andb_true_iff in H. destruct H as [E W]. apply N.eqb_eq in E. subst x. destruct m; [discriminate|].
        right. exists r. reflexivity.
      - left. apply (holds_w_remove_first _ _ _ H). }
    assert (Hstep_h : forall o', holds (step_thread t) o' = true ->
                                 holds t o' = true \/ (exists m r, rest t = Acq m o' :: r)).
    { intros o' H. unfold holds, step_thread in *. destruct (rest t) as [|[m x|x] r] eqn:Er; cbn [held] in H.
      - left. exact H.
      - cbn [holds_l existsb fst] in H. apply orb_true_iff in H. destruct H as [H|H]; [|left; exact H].
        apply N.eqb_eq in H. subst x. right. exists m, r. reflexivity.
      - left. apply (holds_remove_first _ _ _ H). }
    destruct (Nat.eq_dec a i) as [Eai|Nai]; destruct (Nat.eq_dec b i) as [Ebi|Nbi]; try lia.
    - (* the stepping thread holds o exclusively *)
      subst a. rewrite (nth_replace_same i _ s t Et) in Ha. injection Ha as <-.
      rewrite (nth_replace_other i b _ s) in Hb by lia.
      destruct (Hstep_w o Hw) as [H|[r Hr]].
      + apply (Hex i b t tb o Et Hb Hab H).
      + unfold enabled in En. rewrite Hr in En. apply negb_true_iff in En.
        apply (not_exists_false _ _ tb En (nth_error_In _ _ Hb)).
    - (* another thread holds o exclusively; the stepping thread must not hold it *)
      subst b. rewrite (nth_replace_same i _ s t Et) in Hb. injection Hb as <-.
      rewrite (nth_replace_other i a _ s) in Ha by lia.
      destruct (holds (step_thread t) o) eqn:Hh; [exfalso|reflexivity].
      destruct (Hstep_h o Hh) as [H|[m [r Hr]]].
      + rewrite (Hex a i ta t o Ha Et Hab Hw) in H. discriminate.
      + unfold enabled in En. rewrite Hr in En. destruct m.
        * apply orb_true_iff in En. destruct En as [En|En].
          -- apply holds_r_holds_l in En. fold (holds t o) in En.
             rewrite (Hex a i ta t o Ha Et Hab Hw) in En. discriminate.
          -- apply negb_true_iff in En.
             rewrite (not_exists_false _ _ ta En (nth_error_In _ _ Ha)) in Hw. discriminate.
        * apply negb_true_iff in En.
          pose proof (not_exists_false _ _ ta En (nth_error_In _ _ Ha)) as Hn. cbn beta in Hn.
          apply holds_w_holds_l in Hw. fold (holds ta o) in Hw. congruence.
    - rewrite (nth_replace_other i a _ s) in Ha by lia. rewrite (nth_replace_other i b _ s) in Hb by lia.
      apply (Hex a b ta tb o Ha Hb Hab Hw).
  Qed.

  Lemma excl_start progs : excl (map start progs).
  Proof.
    intros i j ti tj o Hi Hj _ Hw. apply nth_error_In in Hi. apply in_map_iff in Hi. destruct Hi as [p [E _]].
    subst ti. discriminate Hw.
  Qed.

  Lemma run_inv sched : forall s,
    Forall (fun t => thread_ok cls gate t = true) s -> excl s ->
    Forall (fun t => thread_ok cls gate t = true) (run_schedule false s sched) /\ excl (run_schedule false s sched).
  Proof.
    induction sched as [|i sched IH]; intros s H1 H2; [split; assumption|].
    cbn [run_schedule fold_left]. apply IH; [apply step_at_ok; exact H1|apply step_at_excl; exact H2].
  Qed.

  (** ** progress *)
  Definition target (t : thread) : N := match rest t with Acq _ o :: _ => o | _ => 0 end.

  Lemma exists_max (l : list thread) (key : thread -> N) :
    l <> [] -> exists t, In t l /\ forall u, In u l -> key u <= key t.
  Proof.
    induction l as [|x l IH]; intro Hne; [contradiction|].
    destruct l as [|y l'].
    - exists x. split; [left; reflexivity|]. intros u [E|[]]. subst. lia.
    - destruct (IH ltac:(discriminate)) as [t [Ht Hmax]].
      destruct (N.le_gt_cases (key x) (key t)) as [Hle|Hgt].
      + exists t. split; [right; exact Ht|]. intros u [E|Hu]; [subst; exact Hle|apply Hmax; exact Hu].
      + exists x. split; [left; reflexivity|]. intros u [E|Hu]; [subst; lia|specialize (Hmax u Hu); lia].
  Qed.

  (** a disabled request is blocked by a holder of its object *)
  Lemma blocked_by s t m o r :
    rest t = Acq m o :: r -> enabled false s t = false ->
    exists u, In u s /\ holds u o = true /\ (m = MR -> holds_r t o = false).
  Proof.
    intros Er Hd. unfold enabled in Hd. rewrite Er in Hd. destruct m.
    - apply orb_false_iff in Hd. destruct Hd as [Hd1 Hd2]. apply negb_false_iff in Hd2.
      apply existsb_exists in Hd2. destruct Hd2 as [u [Hu Hw]]. exists u. split; [exact Hu|].
      split; [apply holds_w_holds_l; exact Hw|intros _; exact Hd1].
    - apply negb_false_iff in Hd. apply existsb_exists in Hd. destruct Hd as [u [Hu Hh]]. exists u.
      split; [exact Hu|]. split; [exact Hh|discriminate].
  Qed.

  (** what the discipline says about a lock [o] held by a thread whose next request is not a re-entrant read *)
  Lemma held_vs_target t m o' r o :
    thread_ok cls gate t = true -> rest t = Acq m o' :: r -> (m = MR -> holds_r t o' = false) -> holds t o = true ->
    o <> o' /\ (cls o < cls o' \/ (cls o = cls o' /\ exists g, gate (cls o') = Some g /\ holds_w t g = true)).
  Proof.
    unfold thread_ok, holds, holds_r, holds_w. destruct t as [p hd]. cbn [rest held]. intros Hok Er Hnr Hh. subst p.
    cbn [disciplined] in Hok. apply andb_true_iff in Hok. destruct Hok as [Hok _]. unfold acq_ok in Hok.
    apply orb_true_iff in Hok. destruct Hok as [Hre|Hall].
    - destruct m; [rewrite (Hnr eq_refl) in Hre|]; discriminate.
    - rewrite forallb_forall in Hall. unfold holds_l in Hh. apply existsb_exists in Hh. destruct Hh as [h [Hin E]].
      apply N.eqb_eq in E. specialize (Hall h Hin). rewrite E in Hall. apply andb_true_iff in Hall. destruct Hall as [Hne Hc].
      apply negb_true_iff in Hne. apply N.eqb_neq in Hne. split; [exact Hne|].
      apply orb_true_iff in Hc. destruct Hc as [Hc|Hc]; [left; apply N.ltb_lt; exact Hc|right].
      apply andb_true_iff in Hc. destruct Hc as [Hc Hg]. apply N.eqb_eq in Hc. split; [exact Hc|].
      destruct (gate (cls o')) as [g|]; [|discriminate]. exists g. split; [reflexivity|exact Hg].
  Qed.

  Lemma finished_holds_nothing t o : thread_ok cls gate t = true -> rest t = [] -> holds t o = false.
  Proof.
    unfold thread_ok, holds. destruct t as [p hd]. cbn [rest held]. intros Hok E. subst p. cbn [disciplined] in Hok.
    destruct hd; [reflexivity|discriminate].
  Qed.

  Theorem progress (s : sys) :
    Forall (fun t => thread_ok cls gate t = true) s -> excl s ->
    existsb unfinished s = true -> existsb (enabled false s) s = true.
  Proof.
    intros Hok Hex Hun. rewrite Forall_forall in Hok.
    destruct (existsb (enabled false s) s) eqn:Hen; [reflexivity|exfalso].
    assert (Hdis : forall t, In t s -> enabled false s t = false) by (intros t Ht; apply (not_exists_false _ _ t Hen Ht)).
    set (U := filter unfinished s).
    assert (HU : U <> []).
    { apply existsb_exists in Hun. destruct Hun as [t [Ht Hu]]. intro E.
      assert (In t U) by (apply filter_In; auto). rewrite E in H. destruct H. }
    destruct (exists_max U (fun t => cls (target t)) HU) as [t [Ht Hmax]].
    apply filter_In in Ht. destruct Ht as [Hts Htu].
    (* every unfinished thread is about to acquire *)
    assert (Hacq : forall x, In x s -> unfinished x = true -> exists m o r, rest x = Acq m o :: r).
    { intros x Hx Hxu. pose proof (Hdis x Hx) as Hd. unfold enabled in Hd. unfold unfinished in Hxu.
      destruct (rest x) as [|[m o|o] r]; [discriminate|eauto|discriminate]. }
    assert (Hunf : forall x o, In x s -> holds x o = true -> unfinished x = true).
    { intros x o Hx Hh. unfold unfinished. destruct (rest x) eqn:E; [|reflexivity].
      rewrite (finished_holds_nothing x o (Hok x Hx) E) in Hh. discriminate. }
    destruct (Hacq t Hts Htu) as [m [l [r Er]]].
    destruct (blocked_by s t m l r Er (Hdis t Hts)) as [u [Hus [Hul _]]].
    pose proof (Hunf u l Hus Hul) as Huu.
    destruct (Hacq u Hus Huu) as [m' [l' [r' Eru]]].
    destruct (blocked_by s u m' l' r' Eru (Hdis u Hus)) as [v [Hvs [Hvl' Hnr']]].
    destruct (held_vs_target u m' l' r' l (Hok u Hus) Eru Hnr' Hul) as [Hne [Hlt|[Hc [g [Hg Hug]]]]].
    { assert (In u U) by (apply filter_In; auto). specialize (Hmax u H). unfold target in Hmax. rewrite Er, Eru in Hmax. lia. }
    (* u is inside a gated region; v holds what u wants *)
    pose proof (Hunf v l' Hvs Hvl') as Hvu.
    destruct (Hacq v Hvs Hvu) as [m'' [l'' [r'' Erv]]].
    destruct (blocked_by s v m'' l'' r'' Erv (Hdis v Hvs)) as [_ [_ [_ Hnr'']]].
    destruct (held_vs_target v m'' l'' r'' l' (Hok v Hvs) Erv Hnr'' Hvl') as [Hne' [Hlt|[Hc' [g' [Hg' Hvg]]]]].
    { assert (In v U) by (apply filter_In; auto). specialize (Hmax v H). unfold target in Hmax. rewrite Er, Erv in Hmax. lia. }
    (* both hold the gate of the class exclusively *)
    rewrite <- Hc' in Hg'. rewrite Hg in Hg'. injection Hg' as <-.
    assert (Hnuv : u <> v).
    { intro E. subst v. destruct (held_vs_target u m' l' r' l' (Hok u Hus) Eru Hnr' Hvl') as [H _]. congruence. }
    destruct (In_nth_error _ _ Hus) as [iu Eiu]. destruct (In_nth_error _ _ Hvs) as [iv Eiv].
    assert (iu <> iv) by (intro E; subst iv; congruence).
    pose proof (Hex iu iv u v g Eiu Eiv H Hug) as Hn.
    apply holds_w_holds_l in Hvg. fold (holds v g) in Hvg. congruence.
  Qed.

  Theorem no_deadlock (progs : list (list act)) (sched : list nat) :
    forallb (fun p => disciplined cls gate [] p) progs = true ->
    stuck false (run_schedule false (map start progs) sched) = false.
  Proof.
    intro H. unfold stuck.
    destruct (run_inv sched (map start progs)) as [Hok Hex].
    { apply Forall_forall. intros t Ht. apply in_map_iff in Ht. destruct Ht as [p [E Hp]]. subst t.
      rewrite forallb_forall in H. apply (H p Hp). }
    { apply excl_start. }
    destruct (existsb unfinished (run_schedule false (map start progs) sched)) eqn:E; [|reflexivity].
    rewrite (progress _ Hok Hex E). reflexivity.
  Qed.
End Locks.

(** ** every schedule that always picks a thread that can move completes: each step consumes one action *)
Definition remaining (s : sys) : nat := fold_right (fun t n => (length (rest t) + n)%nat) O s.

Lemma remaining_replace i t s x :
  nth_error s i = Some x -> (remaining (replace_nth i t s) + length (rest x) = remaining s + length (rest t))%nat.
Proof.
  revert i. induction s as [|y s IH]; intros i E; [destruct i; discriminate|].
  destruct i; cbn [nth_error] in E.
  - injection E as ->. cbn [replace_nth remaining fold_right]. lia.
  - cbn [replace_nth remaining fold_right]. fold (remaining (replace_nth i t s)) (remaining s).
    specialize (IH i E). lia.
Qed.

Theorem enabled_step_consumes fair s i t :
  nth_error s i = Some t -> enabled fair s t = true -> (remaining (step_at fair s i) + 1 = remaining s)%nat.
Proof.
  intros E En. unfold step_at. rewrite E, En.
  pose proof (remaining_replace i (step_thread t) s t E) as H.
  assert (Hl : (length (rest (step_thread t)) + 1 = length (rest t))%nat).
  { unfold enabled in En. unfold step_thread. destruct (rest t) as [|[m o|o] r]; [discriminate| |]; cbn [rest length]; lia. }
  lia.
Qed.

(** ** the fair (writer-preferring) read deadlocks on a re-entrant read: why fix 82c0144 was needed *)
Definition reentrant_reader : list act := [Acq MR 5; Acq MR 5; Rel 5; Rel 5].
Definition writer : list act := [Acq MW 0; Rel 0; Acq MW 5; Rel 5].

Lemma reentrant_disciplined : forall cls gate, forallb (fun p => disciplined cls gate [] p) [reentrant_reader; writer] = true.
Proof. intros cls gate. reflexivity. Qed.

Lemma fair_read_deadlocks :
  stuck true (run_schedule true (map start [reentrant_reader; writer]) [0; 1; 1]%nat) = true.
Proof. vm_compute. reflexivity. Qed.

Lemma recursive_read_completes :
  existsb unfinished (run_schedule false (map start [reentrant_reader; writer]) [0; 1; 1; 0; 0; 0; 1; 1]%nat) = false.
Proof. vm_compute. reflexivity. Qed.

(** ** why two locks of one region must not be held together without the gate: a reader that couples latches top-down
    inside a tree deadlocks with a writer that holds the root exclusively and goes bottom-up *)
Definition coupling_reader : list act := [Acq MR 10; Acq MR 11; Rel 10; Rel 11].
Definition bottom_up_writer : list act := [Acq MW 9; Acq MW 11; Acq MW 10; Rel 10; Rel 11; Rel 9].

Lemma coupling_deadlocks :
  stuck false (run_schedule false (map start [coupling_reader; bottom_up_writer]) [0; 1; 1]%nat) = true.
Proof. vm_compute. reflexivity. Qed.

Lemma coupling_not_disciplined :
  forall cls gate, forallb (fun p => disciplined cls gate [] p) [coupling_reader; bottom_up_writer] = false.
Proof.
  intros cls gate. cbn [forallb disciplined acq_ok holds_r_l holds_w_l holds_l existsb forallb fst snd is_w negb andb orb remove_first].
  cbn. destruct (cls 10 <? cls 11) eqn:A, (cls 11 <? cls 10) eqn:B, (cls 10 =? cls 11) eqn:C, (cls 11 =? cls 10) eqn:D;
    try reflexivity; cbn; rewrite ?andb_false_r, ?andb_false_l; try reflexivity;
    try (apply N.ltb_lt in A; apply N.ltb_lt in B; lia);
    try (apply N.ltb_lt in A; apply N.eqb_eq in D; lia);
    try (apply N.ltb_lt in B; apply N.eqb_eq in C; lia);
    destruct (gate (cls 11)); destruct (gate (cls 10)); cbn; rewrite ?andb_false_r; reflexivity.
Qed.
