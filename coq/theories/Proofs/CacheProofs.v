(** The page cache is transparent: whatever its capacity, whichever frames it evicts and however
    often it is flushed, a read returns the last value written to the page.  The only other answer
    is the explicit out-of-memory error, and then nothing changes. *)
From Axv Require Import Base.Bytes Model.Cache.
From Coq Require Import Lia ZifyBool ZifyN ZifyNat.
Open Scope N_scope.

Lemma NoDup_app_one {A} (l : list A) x : NoDup l -> ~ In x l -> NoDup (l ++ [x]).
Proof.
  induction l as [|a l IH]; cbn [app]; intros Hnd Hni; [constructor; [tauto|constructor]|].
  apply NoDup_cons_iff in Hnd. destruct Hnd as [H1 H2]. constructor.
  - rewrite in_app_iff. cbn [In]. intros [H|[H|[]]]; [tauto|subst; apply Hni; now left].
  - apply IH; [exact H2|]. intros H. apply Hni. now right.
Qed.

Definition view (st : pst) (p : N) : N :=
  match afind (frames st) p with Some (v, _) => v | None => dget (disk st) p end.

Record Inv (st : pst) : Prop := {
  inv_nodup : NoDup (map fst (frames st));
  inv_clean : forall p v, afind (frames st) p = Some (v, false) -> dget (disk st) p = v
}.

Lemma afind_aset {V} (l : list (N * V)) k v k' : afind (aset l k v) k' = if k' =? k then Some v else afind l k'.
Proof.
  induction l as [|[a va] l IH]; cbn [aset afind].
  - rewrite N.eqb_sym. destruct (k' =? k); reflexivity.
  - destruct (a =? k) eqn:E; cbn [afind].
    + apply N.eqb_eq in E. subst a. rewrite N.eqb_sym. destruct (k' =? k); reflexivity.
    + destruct (a =? k') eqn:E2; [replace (k' =? k) with false by lia; reflexivity|exact IH].
Qed.

Lemma aset_keys {V} (l : list (N * V)) k v x : In x (map fst (aset l k v)) <-> x = k \/ In x (map fst l).
Proof.
  induction l as [|[a va] l IH]; cbn [aset map fst In]; [intuition congruence|].
  destruct (a =? k) eqn:E; cbn [map fst In].
  - apply N.eqb_eq in E. subst a. intuition congruence.
  - rewrite IH. intuition congruence.
Qed.

Lemma aset_nodup {V} (l : list (N * V)) k v : NoDup (map fst l) -> NoDup (map fst (aset l k v)).
Proof.
  induction l as [|[a va] l IH]; cbn [aset map fst]; intros H; [constructor; [tauto|constructor]|].
  apply NoDup_cons_iff in H. destruct H as [H1 H2]. destruct (a =? k) eqn:E; cbn [map fst].
  - apply N.eqb_eq in E. subst a. constructor; assumption.
  - constructor; [|now apply IH]. rewrite aset_keys. intros [->|H]; [lia|contradiction].
Qed.

Lemma dget_aset d k v k' : dget (aset d k v) k' = if k' =? k then v else dget d k'.
Proof. unfold dget. rewrite afind_aset. destruct (k' =? k); reflexivity. Qed.

Lemma afind_in {V} (l : list (N * V)) k v : afind l k = Some v -> In k (map fst l).
Proof.
  induction l as [|[a va] l IH]; cbn [afind map fst In]; [discriminate|].
  destruct (a =? k) eqn:E; [apply N.eqb_eq in E; now left|intros H; right; now apply IH].
Qed.

Lemma afind_not_in {V} (l : list (N * V)) k : ~ In k (map fst l) -> afind l k = None.
Proof.
  induction l as [|[a va] l IH]; cbn [afind map fst In]; [reflexivity|]. intros H.
  destruct (a =? k) eqn:E; [apply N.eqb_eq in E; tauto|apply IH; tauto].
Qed.

Lemma afind_app {V} (l1 l2 : list (N * V)) k :
  afind (l1 ++ l2) k = match afind l1 k with Some v => Some v | None => afind l2 k end.
Proof. induction l1 as [|[a va] l1 IH]; cbn [app afind]; [reflexivity|]. destruct (a =? k); [reflexivity|exact IH]. Qed.

(** The victim is one of the frames; the others stay, in order. *)
Lemma take_victim_spec pinl fs f rest : take_victim pinl fs = Some (f, rest) ->
  exists pre post, fs = pre ++ f :: post /\ rest = pre ++ post.
Proof.
  revert f rest. induction fs as [|g fs IH]; intros f rest H; cbn [take_victim] in H; [discriminate|].
  destruct (existsb (N.eqb (fst g)) pinl).
  - destruct (take_victim pinl fs) as [[v r']|] eqn:E; [|discriminate]. injection H as <- <-.
    destruct (IH _ _ eq_refl) as (pre & post & -> & ->). exists (g :: pre), post. split; reflexivity.
  - injection H as <- <-. exists [], fs. split; reflexivity.
Qed.

Lemma afind_remove_mid (pre post : list (N * (N * bool))) f q : NoDup (map fst (pre ++ f :: post)) ->
  afind (pre ++ post) q = if q =? fst f then None else afind (pre ++ f :: post) q.
Proof.
  intros Hnd. rewrite !afind_app. cbn [afind]. destruct f as [p x]. cbn [fst].
  rewrite map_app in Hnd. cbn [map fst] in Hnd. apply NoDup_remove in Hnd. destruct Hnd as [_ Hni].
  rewrite in_app_iff in Hni.
  destruct (q =? p) eqn:E.
  - apply N.eqb_eq in E. subst q.
    rewrite (afind_not_in pre p) by tauto. rewrite (afind_not_in post p) by tauto. reflexivity.
  - rewrite (N.eqb_sym p q), E. reflexivity.
Qed.

Lemma make_room_spec st st' : Inv st -> make_room st = Some st' ->
  Inv st' /\ (forall q, view st' q = view st q) /\ pins st' = pins st /\ nextp st' = nextp st /\ cap st' = cap st
  /\ (forall q, In q (map fst (frames st')) -> In q (map fst (frames st))).
Proof.
  intros [Hnd Hcl] H. unfold make_room in H.
  destruct (Nat.ltb (length (frames st)) (cap st)); [injection H as <-; repeat split; auto|].
  destruct (take_victim (pins st) (frames st)) as [[[p [v dirty]] rest]|] eqn:E.
  2:{ destruct (Nat.eqb (length (frames st)) 0); [injection H as <-; repeat split; auto|discriminate]. }
  injection H as <-. destruct (take_victim_spec _ _ _ _ E) as (pre & post & Hfs & ->).
  assert (forall q, afind (pre ++ post) q = if q =? p then None else afind (frames st) q) as Hfind.
  { intros q. rewrite Hfs. rewrite Hfs in Hnd. apply (afind_remove_mid pre post (p, (v, dirty)) q Hnd). }
  assert (afind (frames st) p = Some (v, dirty)) as Hp.
  { rewrite Hfs, afind_app. rewrite Hfs, map_app in Hnd. cbn [map fst] in Hnd. apply NoDup_remove in Hnd.
    rewrite (afind_not_in pre p) by (rewrite in_app_iff in Hnd; tauto). cbn [afind]. now rewrite N.eqb_refl. }
  split; [|split; [|repeat split; auto]].
  - constructor; cbn [frames disk].
    + rewrite Hfs, map_app in Hnd. cbn [map fst] in Hnd. apply NoDup_remove in Hnd. rewrite map_app. tauto.
    + intros q w Hq. rewrite Hfind in Hq. destruct (q =? p) eqn:Eq; [discriminate|].
      destruct dirty; [rewrite dget_aset, Eq|]; now apply Hcl.
  - intros q. unfold view. cbn [frames disk]. rewrite Hfind. destruct (q =? p) eqn:Eq.
    + apply N.eqb_eq in Eq. subst q. rewrite Hp. destruct dirty; [rewrite dget_aset, N.eqb_refl; reflexivity|now apply Hcl].
    + destruct (afind (frames st) q) as [[w d]|]; [reflexivity|]. destruct dirty; [rewrite dget_aset, Eq|]; reflexivity.
  - cbn [frames]. intros q Hq. rewrite Hfs. rewrite map_app in *. cbn [map fst]. rewrite in_app_iff in *. cbn [In]. tauto.
Qed.

Lemma fetch_spec st p st' : Inv st -> fetch st p = Some st' ->
  Inv st' /\ (forall q, view st' q = view st q) /\ pins st' = pins st /\ nextp st' = nextp st /\ cap st' = cap st
  /\ afind (frames st') p <> None.
Proof.
  intros HI H. unfold fetch in H. destruct (afind (frames st) p) as [x|] eqn:E.
  - injection H as <-. repeat split; auto; try apply HI. congruence.
  - destruct (make_room st) as [st1|] eqn:Em; [|discriminate]. injection H as <-.
    destruct (make_room_spec st st1 HI Em) as ([Hnd Hcl] & Hv & Hp & Hn & Hc & Hsub).
    assert (afind (frames st1) p = None) as Hnone.
    { apply afind_not_in. intros Hin. apply Hsub in Hin. apply in_map_iff in Hin. destruct Hin as ([a b] & <- & Hin).
      clear -E Hin. induction (frames st) as [|[c d] l IH]; cbn [afind In fst] in *; [contradiction|].
      destruct (c =? a) eqn:Ec; [discriminate|]. destruct Hin as [H|H]; [injection H as -> _; lia|now apply IH]. }
    split; [|split; [|repeat split; auto]].
    + constructor; cbn [frames disk].
      * rewrite map_app. cbn [map fst]. apply NoDup_app_one; [exact Hnd|]. intros Hin.
        apply in_map_iff in Hin. destruct Hin as ([a b] & Ha & Hin). cbn [fst] in Ha. subst a.
        assert (afind (frames st1) p <> None) as X.
        { clear -Hin Hnd. induction (frames st1) as [|[c d] l IH]; cbn [afind In map fst] in *; [contradiction|].
          destruct (c =? p) eqn:Ec; [discriminate|]. apply NoDup_cons_iff in Hnd. destruct Hin as [H|H]; [injection H as -> _; lia|apply IH; tauto]. }
        congruence.
      * intros q w Hq. rewrite afind_app in Hq. destruct (afind (frames st1) q) as [y|] eqn:Eq.
        -- injection Hq as ->. now apply Hcl.
        -- cbn [afind] in Hq. destruct (p =? q) eqn:Epq; [|discriminate]. apply N.eqb_eq in Epq. subst q. now injection Hq as <-.
    + intros q. rewrite <- Hv. unfold view. cbn [frames disk]. rewrite afind_app.
      destruct (afind (frames st1) q) as [[w d]|] eqn:Eq; [reflexivity|]. cbn [afind].
      destruct (p =? q) eqn:Epq; [apply N.eqb_eq in Epq; subst q; reflexivity|reflexivity].
    + cbn [frames]. rewrite afind_app, Hnone. cbn [afind]. rewrite N.eqb_refl. discriminate.
Qed.

(** * Refinement to a plain memory *)
Definition mem := N -> N.
Definition is_oom (r : pres) : bool := match r with POom => true | _ => false end.
Definition in_file (n p : N) : bool := (1 <=? p) && (p <? n).

(** What the operation means without any cache.  An allocation that runs out of frames has
    already advanced the page counter (the id is not reused); every other operation that runs out
    of frames changes nothing. *)
Definition sstep (s : mem * N) (o : pop) (oom : bool) : (mem * N) * pres :=
  let '(m, n) := s in
  match o with
  | PAlloc => if oom then ((m, n + 1), POom) else ((fun q => if q =? n then 0 else m q, n + 1), PId n)
  | PWrite p v => if negb (in_file n p) then (s, PBad) else if oom then (s, POom) else ((fun q => if q =? p then v else m q, n), POk)
  | PRead p => if negb (in_file n p) then (s, PBad) else if oom then (s, POom) else (s, PVal (m p))
  | PPin p => if negb (in_file n p) then (s, PBad) else if oom then (s, POom) else (s, POk)
  | PUnpin _ => (s, POk)
  | PFlush => (s, POk)
  end.

(** Pages not yet allocated are nowhere: neither cached nor on disk. *)
Definition Rng (st : pst) : Prop :=
  (forall q, In q (map fst (frames st)) -> q < nextp st) /\ (forall q v, afind (disk st) q = Some v -> q < nextp st).

Lemma make_room_rng st st' : Inv st -> Rng st -> make_room st = Some st' -> Rng st'.
Proof.
  intros HI [Hf Hd] H. pose proof (make_room_spec st st' HI H) as (_ & _ & _ & Hn & _ & Hsub).
  split.
  - intros q Hq. rewrite Hn. apply Hf. now apply Hsub.
  - intros q v Hq. rewrite Hn. unfold make_room in H.
    destruct (Nat.ltb (length (frames st)) (cap st)); [injection H as <-; now apply (Hd q v)|].
    destruct (take_victim (pins st) (frames st)) as [[[p [w dirty]] rest]|] eqn:E.
    2:{ destruct (Nat.eqb (length (frames st)) 0); [injection H as <-; now apply (Hd q v)|discriminate]. }
    injection H as <-. cbn [disk] in Hq. destruct dirty; [|now apply (Hd q v)].
    rewrite afind_aset in Hq. destruct (q =? p) eqn:Eq; [|now apply (Hd q v)].
    apply N.eqb_eq in Eq. subst q. apply Hf. destruct (take_victim_spec _ _ _ _ E) as (pre & post & -> & _).
    rewrite map_app. cbn [map fst]. apply in_or_app. right. now left.
Qed.

Lemma fetch_rng st p st' : Inv st -> Rng st -> p < nextp st -> fetch st p = Some st' -> Rng st'.
Proof.
  intros HI HR Hp H. unfold fetch in H. destruct (afind (frames st) p); [injection H as <-; exact HR|].
  destruct (make_room st) as [st1|] eqn:Em; [|discriminate]. injection H as <-.
  pose proof (make_room_spec st st1 HI Em) as (_ & _ & _ & Hn & _ & _).
  destruct (make_room_rng st st1 HI HR Em) as [Hf Hd]. split; cbn [frames disk nextp].
  - intros q Hq. rewrite map_app in Hq. cbn [map fst] in Hq. apply in_app_or in Hq. destruct Hq as [Hq|[<-|[]]]; [now apply Hf|lia].
  - exact Hd.
Qed.

Lemma view_fresh st q : Rng st -> nextp st <= q -> view st q = 0.
Proof.
  intros [Hf Hd] Hq. unfold view. rewrite afind_not_in.
  - unfold dget. destruct (afind (disk st) q) as [v|] eqn:E; [apply Hd in E; lia|reflexivity].
  - intros Hin. apply Hf in Hin. lia.
Qed.

Definition R (st : pst) (s : mem * N) : Prop :=
  Inv st /\ Rng st /\ (forall q, view st q = fst s q) /\ nextp st = snd s.

Lemma flush_disk fs : forall d, NoDup (map fst fs) ->
  forall q, dget (fold_left (fun (d : assoc) (f : N * (N * bool)) => if snd (snd f) then aset d (fst f) (fst (snd f)) else d) fs d) q =
            match afind fs q with Some (v, true) => v | _ => dget d q end.
Proof.
  induction fs as [|[p [v dirty]] fs IH]; intros d Hnd q; cbn [fold_left afind fst snd]; [reflexivity|].
  cbn [map fst] in Hnd. apply NoDup_cons_iff in Hnd. destruct Hnd as [Hni Hnd]. rewrite IH by exact Hnd.
  destruct (p =? q) eqn:E.
  - apply N.eqb_eq in E. subst q. rewrite (afind_not_in fs p Hni).
    destruct dirty; [rewrite dget_aset, N.eqb_refl|]; reflexivity.
  - destruct (afind fs q) as [[w [|]]|]; try reflexivity; (destruct dirty; [rewrite dget_aset; replace (q =? p) with false by lia|]; reflexivity).
Qed.

Lemma flush_keys fs : forall d q v,
  afind (fold_left (fun (d : assoc) (f : N * (N * bool)) => if snd (snd f) then aset d (fst f) (fst (snd f)) else d) fs d) q = Some v ->
  In q (map fst fs) \/ exists w, afind d q = Some w.
Proof.
  induction fs as [|[p [w dirty]] fs IH]; intros d q v H; cbn [fold_left fst snd] in H; [right; now exists v|].
  apply IH in H. cbn [map fst In]. destruct H as [H|[x Hx]]; [left; now right|].
  destruct dirty; [|right; now exists x]. rewrite afind_aset in Hx. destruct (q =? p) eqn:E; [left; left; lia|right; now exists x].
Qed.

Theorem pstep_refines st s o : R st s ->
  let '(st', r) := pstep st o in
  let '(s', r') := sstep s o (is_oom r) in
  R st' s' /\ r = r'.
Proof.
  intros (HI & HR & Hv & Hn). destruct s as [m n]. cbn [fst snd] in Hv, Hn. subst n.
  destruct o as [|p v|p|p|p|]; cbn [pstep sstep].
  - (* alloc *)
    set (st0 := {| cap := cap st; frames := frames st; pins := pins st; disk := disk st; nextp := nextp st + 1 |}).
    assert (Inv st0) as HI0 by (destruct HI; constructor; assumption).
    assert (Rng st0) as HR0 by (destruct HR as [A B]; split; cbn [st0 frames disk nextp]; intros; [apply A in H|apply B in H]; lia).
    destruct (make_room st0) as [st1|] eqn:Em; cbn [is_oom].
    + destruct (make_room_spec st0 st1 HI0 Em) as ([Hnd Hcl] & Hv1 & Hp & Hn1 & Hc & Hsub).
      destruct (make_room_rng st0 st1 HI0 HR0 Em) as [Hf1 Hd1]. cbn [st0 nextp] in Hn1.
      assert (~ In (nextp st) (map fst (frames st1))) as Hfresh.
      { intros Hin. apply Hsub in Hin. cbn [st0 frames] in Hin. destruct HR as [A _]. apply A in Hin. lia. }
      split; [|reflexivity]. split; [|split; [|split]].
      * constructor; cbn [frames disk].
        -- rewrite map_app. cbn [map fst]. now apply NoDup_app_one.
        -- intros q w Hq. rewrite afind_app in Hq. destruct (afind (frames st1) q) as [y|] eqn:Eq.
           ++ injection Hq as ->. now apply Hcl.
           ++ cbn [afind] in Hq. destruct (nextp st =? q); discriminate.
      * split; cbn [frames disk nextp]; rewrite Hn1.
        -- intros q Hq. rewrite map_app in Hq. cbn [map fst] in Hq. apply in_app_or in Hq.
           destruct Hq as [Hq|[<-|[]]]; [apply Hf1 in Hq; lia|lia].
        -- intros q w Hq. apply Hd1 in Hq. lia.
      * intros q. cbn [fst]. unfold view. cbn [frames disk]. rewrite afind_app.
        destruct (q =? nextp st) eqn:Eq.
        -- apply N.eqb_eq in Eq. subst q. rewrite (afind_not_in _ _ Hfresh). cbn [afind]. now rewrite N.eqb_refl.
        -- specialize (Hv1 q). unfold view in Hv1. cbn [st0 frames disk] in Hv1.
           destruct (afind (frames st1) q) as [[w d]|] eqn:Ef.
           ++ rewrite <- Hv. unfold view. exact Hv1.
           ++ cbn [afind]. replace (nextp st =? q) with false by lia. rewrite <- Hv. unfold view. exact Hv1.
      * cbn [nextp snd]. rewrite Hn1. reflexivity.
    + split; [|reflexivity]. split; [exact HI0|]. split; [exact HR0|]. split; [exact Hv|]. reflexivity.
  - (* write *)
    unfold in_file. destruct (negb ((1 <=? p) && (p <? nextp st))) eqn:Eb; cbn [is_oom].
    + split; [|reflexivity]. split; [exact HI|split; [exact HR|split; [exact Hv|reflexivity]]].
    + destruct (fetch st p) as [st1|] eqn:Ef; cbn [is_oom].
      2:{ split; [|reflexivity]. split; [exact HI|split; [exact HR|split; [exact Hv|reflexivity]]]. }
      destruct (fetch_spec st p st1 HI Ef) as ([Hnd Hcl] & Hv1 & Hp & Hn1 & Hc & Hin).
      destruct (fetch_rng st p st1 HI HR ltac:(lia) Ef) as [Hf1 Hd1].
      split; [|reflexivity]. split; [|split; [|split]].
      * constructor; cbn [frames disk]; [now apply aset_nodup|].
        intros q w Hq. rewrite afind_aset in Hq. destruct (q =? p); [discriminate|now apply Hcl].
      * split; cbn [frames disk nextp]; [|exact Hd1].
        intros q Hq. apply aset_keys in Hq. destruct Hq as [->|Hq]; [lia|now apply Hf1].
      * intros q. cbn [fst]. unfold view. cbn [frames disk]. rewrite afind_aset.
        destruct (q =? p); [reflexivity|]. rewrite <- Hv, <- Hv1. reflexivity.
      * cbn [nextp snd]. lia.
  - (* read *)
    unfold in_file. destruct (negb ((1 <=? p) && (p <? nextp st))) eqn:Eb; cbn [is_oom].
    + split; [|reflexivity]. split; [exact HI|split; [exact HR|split; [exact Hv|reflexivity]]].
    + destruct (fetch st p) as [st1|] eqn:Ef; cbn [is_oom].
      2:{ split; [|reflexivity]. split; [exact HI|split; [exact HR|split; [exact Hv|reflexivity]]]. }
      destruct (fetch_spec st p st1 HI Ef) as (HI1 & Hv1 & Hp & Hn1 & Hc & Hin).
      pose proof (fetch_rng st p st1 HI HR ltac:(lia) Ef) as HR1.
      split.
      * split; [exact HI1|]. split; [exact HR1|]. split; [intros q; now rewrite Hv1|cbn [snd]; lia].
      * f_equal. rewrite <- Hv, <- Hv1. unfold view. destruct (afind (frames st1) p) as [[w d]|]; [reflexivity|congruence].
  - (* pin *)
    unfold in_file. destruct (negb ((1 <=? p) && (p <? nextp st))) eqn:Eb; cbn [is_oom].
    + split; [|reflexivity]. split; [exact HI|split; [exact HR|split; [exact Hv|reflexivity]]].
    + destruct (fetch st p) as [st1|] eqn:Ef; cbn [is_oom].
      2:{ split; [|reflexivity]. split; [exact HI|split; [exact HR|split; [exact Hv|reflexivity]]]. }
      destruct (fetch_spec st p st1 HI Ef) as ([Hnd Hcl] & Hv1 & Hp & Hn1 & Hc & Hin).
      pose proof (fetch_rng st p st1 HI HR ltac:(lia) Ef) as HR1.
      split; [|reflexivity]. split; [constructor; assumption|]. split; [exact HR1|].
      split; [intros q; unfold view in *; cbn [frames disk]; rewrite <- Hv; apply Hv1|cbn [nextp snd]; lia].
  - (* unpin *)
    cbn [is_oom]. split; [|reflexivity]. split; [destruct HI; constructor; assumption|]. split; [exact HR|]. split; [exact Hv|reflexivity].
  - (* flush *)
    cbn [is_oom]. split; [|reflexivity]. destruct HI as [Hnd Hcl]. destruct HR as [Hf Hd].
    split; [constructor; cbn [frames]; [constructor|intros; discriminate]|].
    split.
    + split; cbn [frames disk nextp]; [intros q []|].
      intros q v Hq. apply flush_keys in Hq. destruct Hq as [Hq|[w Hw]]; [now apply Hf|now apply (Hd q w)].
    + split; [|reflexivity]. intros q. rewrite <- Hv. unfold view. cbn [frames disk afind].
      rewrite flush_disk by exact Hnd. destruct (afind (frames st) q) as [[w [|]]|] eqn:E; try reflexivity.
      now apply Hcl.
Qed.

Lemma R_init c : R (init_pst c) (fun _ => 0, 1).
Proof.
  split; [constructor; cbn; [constructor|intros; discriminate]|].
  split; [split; cbn; [intros q []|intros; discriminate]|]. split; [reflexivity|reflexivity].
Qed.

(** Along any operation sequence, with any capacity: answers and contents are those of a plain
    memory, out-of-memory answers aside. *)
Fixpoint run_both (st : pst) (s : mem * N) (ops : list pop) : list (pres * pres) :=
  match ops with
  | [] => []
  | o :: r => let '(st', a) := pstep st o in
              let '(s', b) := sstep s o (is_oom a) in
              (a, b) :: run_both st' s' r
  end.

Theorem cache_transparent c ops : Forall (fun ab => fst ab = snd ab) (run_both (init_pst c) (fun _ => 0, 1) ops).
Proof.
  assert (forall st s, R st s -> Forall (fun ab => fst ab = snd ab) (run_both st s ops)) as G.
  { induction ops as [|o ops IH]; intros st s HR; cbn [run_both]; [constructor|].
    pose proof (pstep_refines st s o HR) as H. destruct (pstep st o) as [st' a]. destruct (sstep s o (is_oom a)) as [s' b].
    destruct H as [HR' E]. constructor; [exact E|now apply IH]. }
  apply G, R_init.
Qed.
