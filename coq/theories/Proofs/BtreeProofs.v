(** Soundness of the structural checker run on every dumped B+tree, and the laws of the abstract
    ordered map the tree is compared with. *)
From Axv Require Import Base.Bytes Model.Btree.
From Coq Require Import Lia Sorting.Sorted ZifyBool ZifyN.
Open Scope N_scope.

(** * Induction principle for dumped trees *)
Lemma dtree_ind' (P : dtree -> Prop) :
  (forall ks, P (DLeaf ks)) ->
  (forall f r, P f -> Forall (fun p => P (snd p)) r -> P (DNode f r)) ->
  forall t, P t.
Proof.
  intros HL HN. fix IH 1. intros [ks|f r]; [apply HL|]. apply HN; [apply IH|].
  induction r as [|[s c] r IHr]; constructor; [apply IH|exact IHr].
Qed.

Definition kids_flat (r : list (N * dtree)) : list N := flat_map (fun p => flatten (snd p)) r.

Lemma flatten_node f r : flatten (DNode f r) = flatten f ++ kids_flat r.
Proof.
  cbn [flatten]. f_equal. induction r as [|[s c] r IH]; [reflexivity|].
  cbn [kids_flat flat_map snd]. f_equal. exact IH.
Qed.

Definition inb (lo hi : option N) (x : N) : Prop := ge_lo lo x = true /\ lt_hi hi x = true.
Definition sorted (l : list N) : Prop := StronglySorted N.lt l.

Lemma sorted_app l1 l2 : sorted l1 -> sorted l2 -> (forall x y, In x l1 -> In y l2 -> x < y) -> sorted (l1 ++ l2).
Proof.
  intros H1 H2 H. induction l1 as [|a l1 IH]; [exact H2|].
  apply StronglySorted_inv in H1. destruct H1 as [H1 Ha]. cbn [app]. constructor.
  - apply IH; [exact H1|]. intros x y Hx Hy. apply H; [now right|exact Hy].
  - apply Forall_app. split; [exact Ha|]. apply Forall_forall. intros y Hy. apply H; [now left|exact Hy].
Qed.

Lemma sorted_in_spec ks : forall lo hi, sorted_in lo hi ks = true ->
  Forall (inb lo hi) ks /\ sorted ks.
Proof.
  induction ks as [|k ks IH]; intros lo hi H; [split; constructor|].
  cbn [sorted_in] in H. apply andb_true_iff in H. destruct H as [H H3]. apply andb_true_iff in H. destruct H as [H1 H2].
  destruct (IH _ _ H3) as [Hb Hs]. split.
  - constructor; [split; assumption|]. eapply Forall_impl; [|exact Hb].
    intros x [Hx1 Hx2]. split; [|exact Hx2]. cbn [ge_lo] in Hx1. destruct lo as [l|]; cbn [ge_lo] in *; [lia|reflexivity].
  - constructor; [exact Hs|]. eapply Forall_impl; [|exact Hb]. intros x [Hx1 _]. cbn [ge_lo] in Hx1. lia.
Qed.

Lemma mem_app k l1 l2 : existsb (N.eqb k) (l1 ++ l2) = existsb (N.eqb k) l1 || existsb (N.eqb k) l2.
Proof. apply existsb_app. Qed.

Lemma mem_false k l : (forall x, In x l -> x <> k) -> existsb (N.eqb k) l = false.
Proof.
  intros H. destruct (existsb (N.eqb k) l) eqn:E; [|reflexivity].
  apply existsb_exists in E. destruct E as (x & Hx & Hk). apply N.eqb_eq in Hk. subst x. exfalso. now apply (H k).
Qed.

(** What the checker establishes for one tree. *)
Definition Good (t : dtree) : Prop :=
  forall lo hi, wfb lo hi t = true ->
    Forall (inb lo hi) (flatten t) /\ sorted (flatten t) /\
    forall k, inb lo hi k -> route k t = existsb (N.eqb k) (flatten t).

Definition go_wf (lo hi : option N) :=
  fix go (r : list (N * dtree)) : bool :=
    match r with
    | [] => true
    | (s, c) :: r' => ge_lo lo s && lt_hi (next_sep r' hi) s && wfb (Some s) (next_sep r' hi) c && go r'
    end.

Definition go_route (k : N) :=
  fix go (r : list (N * dtree)) : bool :=
    match r with
    | [] => false
    | (_, c) :: r' =>
        match r' with
        | (s2, _) :: _ => if k <? s2 then route k c else go r'
        | [] => route k c
        end
    end.

Lemma kids_good lo hi r : Forall (fun p => Good (snd p)) r -> go_wf lo hi r = true ->
  Forall (inb (next_sep r hi) hi) (kids_flat r) /\ sorted (kids_flat r) /\
  (forall k, inb (next_sep r hi) hi k -> r <> [] -> go_route k r = existsb (N.eqb k) (kids_flat r)) /\
  (forall s0 c0 r0, r = (s0, c0) :: r0 -> ge_lo lo s0 = true /\ lt_hi hi s0 = true).
Proof.
  induction r as [|[s c] r IH]; intros HG H.
  - split; [constructor|]. split; [constructor|]. split; [intros k _ Hne; congruence|intros; discriminate].
  - apply Forall_cons_iff in HG. destruct HG as [Hc HG]. cbn [snd] in Hc.
    cbn [go_wf] in H. fold (go_wf lo hi) in H.
    apply andb_true_iff in H. destruct H as [H H4]. apply andb_true_iff in H. destruct H as [H H3].
    apply andb_true_iff in H. destruct H as [H1 H2].
    destruct (Hc _ _ H3) as (Bc & Sc & Rc). destruct (IH HG H4) as (Br & Sr & Rr & Fr).
    assert (lt_hi hi s = true) as Hshi.
    { destruct r as [|[s2 c2] r]; cbn [next_sep] in H2; [exact H2|].
      destruct (Fr s2 c2 r eq_refl) as [_ B]. destruct hi as [h|]; cbn [lt_hi] in *; [lia|reflexivity]. }
    cbn [kids_flat flat_map snd next_sep]. fold (kids_flat r).
    assert (forall x, In x (kids_flat r) -> inb (next_sep r hi) hi x) as Brf by (now apply Forall_forall).
    assert (forall x, In x (flatten c) -> inb (Some s) (next_sep r hi) x) as Bcf by (now apply Forall_forall).
    split; [|split; [|split]].
    4:{ intros s0 c0 r0 E. injection E as <- <- <-. split; assumption. }
    + apply Forall_app. split.
      * apply Forall_forall. intros x Hx. destruct (Bcf x Hx) as [A B]. split; [exact A|].
        destruct r as [|[s2 c2] r]; cbn [next_sep] in *; [exact B|].
        destruct (Fr s2 c2 r eq_refl) as [_ B2]. destruct hi as [h|]; cbn [lt_hi] in *; [lia|reflexivity].
      * apply Forall_forall. intros x Hx. destruct (Brf x Hx) as [A B]. split; [|exact B].
        destruct r as [|[s2 c2] r]; cbn [next_sep] in *; [cbn [kids_flat flat_map] in Hx; contradiction|].
        cbn [ge_lo lt_hi] in *. lia.
    + apply sorted_app; [exact Sc|exact Sr|]. intros x y Hx Hy.
      destruct (Bcf x Hx) as [_ B]. destruct (Brf y Hy) as [A _].
      destruct r as [|[s2 c2] r]; cbn [next_sep] in *; [cbn [kids_flat flat_map] in Hy; contradiction|].
      cbn [ge_lo lt_hi] in *. lia.
    + intros k [Hk1 Hk2] _. cbn [go_route]. fold (go_route k). rewrite mem_app.
      destruct r as [|[s2 c2] r].
      * cbn [kids_flat flat_map existsb]. rewrite orb_false_r. apply Rc. split; [exact Hk1|exact Hk2].
      * cbn [next_sep] in *. destruct (k <? s2) eqn:E.
        -- rewrite (mem_false k (kids_flat ((s2, c2) :: r))).
           2:{ intros x Hx. destruct (Brf x Hx) as [A _]. cbn [ge_lo] in A. lia. }
           rewrite orb_false_r. apply Rc. split; [exact Hk1|cbn [lt_hi]; lia].
        -- rewrite (mem_false k (flatten c)).
           2:{ intros x Hx. destruct (Bcf x Hx) as [_ B]. cbn [lt_hi] in B. lia. }
           cbn [orb]. apply Rr; [|discriminate]. split; [cbn [ge_lo]; lia|exact Hk2].
Qed.

Lemma route_node k f r :
  route k (DNode f r) = match r with [] => route k f | (s0, _) :: _ => if k <? s0 then route k f else go_route k r end.
Proof. destruct r as [|[s0 c0] r]; reflexivity. Qed.

Theorem wf_sound : forall t, Good t.
Proof.
  apply dtree_ind'.
  - intros ks lo hi H. cbn [wfb] in H. destruct (sorted_in_spec ks lo hi H) as [B S].
    cbn [flatten route]. split; [exact B|]. split; [exact S|reflexivity].
  - intros f r Hf Hr lo hi H. rewrite flatten_node.
    cbn [wfb] in H. apply andb_true_iff in H. destruct H as [H1 H2].
    change (go_wf lo hi r = true) in H2.
    destruct (Hf _ _ H1) as (Bf & Sf & Rf). destruct (kids_good lo hi r Hr H2) as (Br & Sr & Rr & Fr).
    assert (forall x, In x (kids_flat r) -> inb (next_sep r hi) hi x) as Brf by (now apply Forall_forall).
    assert (forall x, In x (flatten f) -> inb lo (next_sep r hi) x) as Bff by (now apply Forall_forall).
    split; [|split].
    + apply Forall_app. split.
      * apply Forall_forall. intros x Hx. destruct (Bff x Hx) as [A B]. split; [exact A|].
        destruct r as [|[s c] r]; cbn [next_sep] in *; [exact B|].
        destruct (Fr s c r eq_refl) as [_ B2]. destruct hi as [h|]; cbn [lt_hi] in *; [lia|reflexivity].
      * apply Forall_forall. intros x Hx. destruct (Brf x Hx) as [A B]. split; [|exact B].
        destruct r as [|[s c] r]; cbn [next_sep] in *; [cbn [kids_flat flat_map] in Hx; contradiction|].
        destruct (Fr s c r eq_refl) as [A2 _]. destruct lo as [l|]; cbn [ge_lo] in *; [lia|reflexivity].
    + apply sorted_app; [exact Sf|exact Sr|]. intros x y Hx Hy.
      destruct (Bff x Hx) as [_ B]. destruct (Brf y Hy) as [A _].
      destruct r as [|[s c] r]; cbn [next_sep] in *; [cbn [kids_flat flat_map] in Hy; contradiction|].
      cbn [ge_lo lt_hi] in *. lia.
    + intros k [Hk1 Hk2]. rewrite mem_app, route_node.
      destruct r as [|[s0 c0] r0] eqn:Er.
      * cbn [kids_flat flat_map existsb]. rewrite orb_false_r. apply Rf. split; [exact Hk1|exact Hk2].
      * cbn [next_sep] in *. destruct (k <? s0) eqn:E.
        -- rewrite (mem_false k (kids_flat ((s0, c0) :: r0))).
           2:{ intros x Hx. destruct (Brf x Hx) as [A _]. cbn [ge_lo] in A. lia. }
           rewrite orb_false_r. apply Rf. split; [exact Hk1|cbn [lt_hi]; lia].
        -- rewrite (mem_false k (flatten f)).
           2:{ intros x Hx. destruct (Bff x Hx) as [_ B]. cbn [lt_hi] in B. lia. }
           cbn [orb]. apply Rr; [|discriminate]. split; [cbn [ge_lo]; lia|exact Hk2].
Qed.

(** * The abstract map: a sorted association list behaves as a finite map *)
Definition asorted (m : amap) : Prop := StronglySorted N.lt (map fst m).

Lemma asorted_inv k v m : asorted ((k, v) :: m) -> asorted m /\ Forall (fun p => k < fst p) m.
Proof.
  unfold asorted. cbn [map fst]. intros H. apply StronglySorted_inv in H. destruct H as [H1 H2].
  split; [exact H1|]. rewrite Forall_map in H2. exact H2.
Qed.

Lemma aget_none_below m k : asorted m -> Forall (fun p => k < fst p) m -> aget m k = None.
Proof.
  intros _ H. destruct m as [|[k' v'] m]; [reflexivity|].
  apply Forall_cons_iff in H. destruct H as [H _]. cbn [fst] in H. cbn [aget].
  replace (k' =? k) with false by lia. replace (k <? k') with true by lia. reflexivity.
Qed.

Lemma aget_aput m k v k' : asorted m ->
  aget (aput m k v) k' = if k' =? k then Some v else aget m k'.
Proof.
  induction m as [|[a va] m IH]; intros Hs; cbn [aput aget].
  - rewrite N.eqb_sym. destruct (k' =? k) eqn:E; [reflexivity|]. destruct (k' <? k); reflexivity.
  - destruct (asorted_inv _ _ _ Hs) as [Hs' Hall].
    destruct (a =? k) eqn:Eak.
    + apply N.eqb_eq in Eak. subst a. cbn [aget]. rewrite N.eqb_sym. destruct (k' =? k) eqn:E; reflexivity.
    + destruct (k <? a) eqn:Elt; cbn [aget].
      * rewrite (N.eqb_sym k k'). destruct (k' =? k) eqn:E; [reflexivity|].
        destruct (k' <? k) eqn:E2; [|reflexivity].
        replace (a =? k') with false by lia. replace (k' <? a) with true by lia. reflexivity.
      * destruct (a =? k') eqn:E3.
        -- replace (k' =? k) with false by lia. reflexivity.
        -- destruct (k' <? a) eqn:E4; [replace (k' =? k) with false by lia; reflexivity|]. apply IH. exact Hs'.
Qed.

Lemma aput_fst_in m k v x : In x (map fst (aput m k v)) -> x = k \/ In x (map fst m).
Proof.
  induction m as [|[a va] m IH]; cbn [aput map fst In]; [intros [H|H]; [now left|contradiction]|].
  destruct (a =? k) eqn:E; cbn [map fst In].
  - apply N.eqb_eq in E. subst. intros [H|H]; [now left|right; now right].
  - destruct (k <? a); cbn [map fst In].
    + intros [H|[H|H]]; [now left|right; now left|right; now right].
    + intros [H|H]; [right; now left|]. destruct (IH H) as [H2|H2]; [now left|right; now right].
Qed.

Lemma aput_sorted m k v : asorted m -> asorted (aput m k v).
Proof.
  induction m as [|[a va] m IH]; intros Hs; cbn [aput].
  - unfold asorted. cbn. constructor; constructor.
  - destruct (asorted_inv _ _ _ Hs) as [Hs' Hall]. unfold asorted in *.
    destruct (a =? k) eqn:E.
    + apply N.eqb_eq in E. subst a. exact Hs.
    + destruct (k <? a) eqn:E2; cbn [map fst].
      * constructor; [exact Hs|]. constructor; [lia|]. rewrite Forall_map. eapply Forall_impl; [|exact Hall]. cbn. intros p Hp. lia.
      * constructor; [now apply IH|]. apply Forall_forall. intros x Hx.
        destruct (aput_fst_in _ _ _ _ Hx) as [->|Hin]; [lia|].
        rewrite Forall_forall in Hall. apply in_map_iff in Hin. destruct Hin as (p & <- & Hp). now apply Hall.
Qed.

Lemma adel_fst_in m k x : In x (map fst (adel m k)) -> In x (map fst m).
Proof.
  induction m as [|[a va] m IH]; cbn [adel map fst In]; [trivial|].
  destruct (a =? k); cbn [map fst In]; [intros H; now right|]. intros [H|H]; [now left|]. right. now apply IH.
Qed.

Lemma adel_sorted m k : asorted m -> asorted (adel m k).
Proof.
  induction m as [|[a va] m IH]; intros Hs; cbn [adel]; [exact Hs|].
  destruct (asorted_inv _ _ _ Hs) as [Hs' Hall]. destruct (a =? k); [exact Hs'|].
  unfold asorted in *. cbn [map fst]. constructor; [now apply IH|].
  apply Forall_forall. intros x Hx. apply adel_fst_in in Hx. rewrite Forall_forall in Hall.
  apply in_map_iff in Hx. destruct Hx as (p & <- & Hp). now apply Hall.
Qed.

Lemma aget_adel m k k' : asorted m -> aget (adel m k) k' = if k' =? k then None else aget m k'.
Proof.
  induction m as [|[a va] m IH]; intros Hs; cbn [adel aget]; [now destruct (k' =? k)|].
  destruct (asorted_inv _ _ _ Hs) as [Hs' Hall].
  destruct (a =? k) eqn:E.
  - apply N.eqb_eq in E. subst a. destruct (k' =? k) eqn:E2.
    + apply N.eqb_eq in E2. subst k'. apply aget_none_below; assumption.
    + rewrite (N.eqb_sym k k'), E2. destruct (k' <? k) eqn:E3; [|reflexivity].
      apply aget_none_below; [exact Hs'|]. eapply Forall_impl; [|exact Hall]. cbn. intros p Hp. lia.
  - cbn [aget]. destruct (a =? k') eqn:E2; [replace (k' =? k) with false by lia; reflexivity|].
    destruct (k' <? a) eqn:E3; [now destruct (k' =? k)|]. now apply IH.
Qed.

(** Refinement to a finite map: along any operation sequence the list stays sorted, a lookup
    returns the latest payload put under the key and not removed, and a scan lists every key once,
    in increasing order. *)
Definition fmap := N -> option (N * N).
Definition fstep (f : fmap) (o : top) : fmap :=
  match o with
  | TIns k l s => match f k with Some _ => f | None => fun x => if x =? k then Some (l, s) else f x end
  | TUps k l s => fun x => if x =? k then Some (l, s) else f x
  | TUpd k l s => match f k with Some _ => fun x => if x =? k then Some (l, s) else f x | None => f end
  | TRem k => match f k with Some _ => fun x => if x =? k then None else f x | None => f end
  | _ => f
  end.

Theorem tstep_refines m o : asorted m ->
  asorted (fst (tstep m o)) /\ (forall x, aget (fst (tstep m o)) x = fstep (aget m) o x).
Proof.
  intros Hs. destruct o as [k l s|k l s|k l s|k|k|]; cbn [tstep fstep].
  - destruct (aget m k) eqn:E; cbn [fst]; [split; [exact Hs|reflexivity]|].
    split; [now apply aput_sorted|intros x; now apply aget_aput].
  - cbn [fst]. split; [now apply aput_sorted|intros x; now apply aget_aput].
  - destruct (aget m k) eqn:E; cbn [fst]; [|split; [exact Hs|reflexivity]].
    split; [now apply aput_sorted|intros x; now apply aget_aput].
  - destruct (aget m k) eqn:E; cbn [fst]; [|split; [exact Hs|reflexivity]].
    split; [now apply adel_sorted|intros x; now apply aget_adel].
  - split; [exact Hs|reflexivity].
  - split; [exact Hs|reflexivity].
Qed.

Theorem map_reachable ops : forall m, asorted m ->
  let m' := fold_left (fun m o => fst (tstep m o)) ops m in
  asorted m' /\ forall x, aget m' x = fold_left fstep ops (aget m) x.
Proof.
  induction ops as [|o ops IH]; intros m Hs; cbn [fold_left]; [split; [exact Hs|reflexivity]|].
  destruct (tstep_refines m o Hs) as [Hs' Hg]. destruct (IH _ Hs') as [A B]. split; [exact A|].
  intros x. rewrite B. clear -Hg. revert Hg. generalize (aget (fst (tstep m o))) (fstep (aget m) o).
  intros f g Hfg. revert f g Hfg. induction ops as [|o2 ops IH2]; intros f g Hfg; cbn [fold_left]; [apply Hfg|].
  apply IH2. intros y. destruct o2 as [k l s|k l s|k l s|k|k|]; cbn [fstep]; rewrite ?Hfg; try reflexivity;
    destruct (g k); rewrite ?Hfg; reflexivity.
Qed.

Lemma scan_lookup m k : asorted m -> (In k (map fst m) <-> aget m k <> None).
Proof.
  induction m as [|[a va] m IH]; intros Hs; cbn [map fst In aget]; [split; [contradiction|congruence]|].
  destruct (asorted_inv _ _ _ Hs) as [Hs' Hall].
  destruct (a =? k) eqn:E; [apply N.eqb_eq in E; split; [discriminate|now left]|].
  destruct (k <? a) eqn:E2.
  - split; [|congruence]. intros [H|H]; [lia|]. exfalso. rewrite Forall_forall in Hall.
    apply in_map_iff in H. destruct H as (p & Hp1 & Hp2). specialize (Hall p Hp2). lia.
  - rewrite <- (IH Hs'). split; [intros [H|H]; [lia|exact H]|now right].
Qed.
