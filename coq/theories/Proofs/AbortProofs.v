(** How the engine makes a rolled-back transaction disappear (C03, mechanism level): abort only
    flips the transaction's state; every snapshot taken afterwards lists it as aborted, and the
    visibility test then ignores its inserts and its deletes.  (Its updates are NOT ignored: the
    new version is stamped with the original creator - see Props/C18.v [C18_refuted].) *)
From Axv Require Import Base.Bytes Model.Values Model.Tuple Model.Coord Proofs.CoordProofs Proofs.TupleProofs.
From Coq Require Import Lia.
Open Scope N_scope.

(** Every snapshot taken in a reachable coordinator state treats an aborted transaction as not
    committed, and is not that transaction's own snapshot. *)
Theorem aborted_not_committed_before c t x : CInv c ->
  find_tx t (c_txs c) = Some x -> x_state x = Aborted ->
  let '(_, id, s) := begin c in committed_before s t = false /\ s_xid s <> t.
Proof.
  intros HI Hf Hs. pose proof (snapshot_sound c HI) as SS.
  destruct HI as [Hnd Hall Hc Hl Hn].
  assert (t < c_last_created c) as Hlt by (apply Hall; eapply find_in; exact Hf).
  unfold begin in *. cbn [s_xid snapshot_of].
  assert (t <> c_last_created c) as Hne by lia.
  split; [|lia].
  destruct (committed_before _ t) eqn:E; [|reflexivity].
  apply (SS t Hne) in E. destruct E as (y & Hy & Hys). congruence.
Qed.

Lemma walk_none s vals ds t : committed_before s t = false -> Forall (fun d => d_xmin d = t) ds ->
  walk s vals ds = None.
Proof.
  intros Hc. revert vals. induction ds as [|d ds IH]; intros vals Hall; [reflexivity|].
  apply Forall_cons_iff in Hall. destruct Hall as [Hd Hall]. cbn [walk]. rewrite Hd, Hc. now apply IH.
Qed.

(** A row created by the aborted transaction [t] - whatever [t] did to it afterwards - is read by
    nobody whose snapshot regards [t] as not committed. *)
Theorem aborted_insert_invisible s tu t : committed_before s t = false -> s_xid s <> t ->
  wf_tuple tu -> t_xmin tu = t -> decode_for tu s = None.
Proof.
  intros Hc Hx Hwf Hmin. unfold decode_for.
  destruct (match t_xmax tu with Some x => committed_before s x || (s_xid s =? x) | None => false end); [reflexivity|].
  assert (valid_for s (t_xmin tu) (t_xmax tu) = false) as Hv.
  { unfold valid_for. rewrite Hmin, Hc. apply N.eqb_neq in Hx. rewrite Hx. cbn [orb].
    destruct (t_xmax tu); reflexivity. }
  rewrite Hv. unfold wf_tuple in Hwf. rewrite Hmin in Hwf. now rewrite (walk_none s _ _ t Hc Hwf).
Qed.

(** A delete stamped by the aborted transaction [t] is ignored: the row reads as if the delete had
    never happened. *)
Theorem aborted_delete_ignored s tu t : committed_before s t = false -> s_xid s <> t ->
  t_xmax tu = None -> decode_for (delete tu t) s = decode_for tu s.
Proof.
  intros Hc Hx Hmax. unfold decode_for, delete, valid_for. cbn [t_xmax t_xmin t_keys t_vals t_deltas].
  rewrite Hmax, Hc. apply N.eqb_neq in Hx. rewrite Hx. cbn [orb negb]. rewrite andb_true_r. reflexivity.
Qed.

(** ... and a later delete by somebody else then takes effect (the repaired [Tuple::delete]). *)
Theorem delete_after_aborted_delete tu t u : delete (delete tu t) u = delete tu u.
Proof. reflexivity. Qed.
