(** Laws of schema changes in the reference database (C15). *)
From Axv Require Import Base.Bytes Model.Values Spec.RefDB Proofs.RefDBProofs.
From Coq Require Import Lia.
Open Scope N_scope.

Transparent exec.

Lemma get_set_same d tid t : get_table (set_table d tid t) tid = Some t.
Proof.
  induction d as [|[i x] d IH]; cbn [set_table get_table]; [now rewrite N.eqb_refl|].
  destruct (i =? tid) eqn:E; cbn [get_table]; rewrite E; [reflexivity|exact IH].
Qed.

Lemma get_set_other d tid t tid' : tid' <> tid -> get_table (set_table d tid t) tid' = get_table d tid'.
Proof.
  intros Hne. induction d as [|[i x] d IH]; cbn [set_table get_table].
  - replace (tid =? tid') with false by (symmetry; apply N.eqb_neq; congruence). reflexivity.
  - destruct (i =? tid) eqn:E; cbn [get_table].
    + apply N.eqb_eq in E. subst i. replace (tid =? tid') with false by (symmetry; apply N.eqb_neq; congruence). reflexivity.
    + destruct (i =? tid'); [reflexivity|exact IH].
Qed.

Lemma get_del_same d tid : get_table (del_table d tid) tid = None.
Proof.
  unfold del_table. induction d as [|[i x] d IH]; cbn [filter get_table fst]; [reflexivity|].
  destruct (i =? tid) eqn:E; cbn [negb]; [exact IH|]. cbn [get_table]. rewrite E. exact IH.
Qed.

Lemma get_del_other d tid tid' : tid' <> tid -> get_table (del_table d tid) tid' = get_table d tid'.
Proof.
  intros Hne. unfold del_table. induction d as [|[i x] d IH]; cbn [filter get_table fst]; [reflexivity|].
  destruct (i =? tid) eqn:E; cbn [negb].
  - apply N.eqb_eq in E. subst i. replace (tid =? tid') with false by (symmetry; apply N.eqb_neq; congruence). exact IH.
  - cbn [get_table]. destruct (i =? tid'); [reflexivity|exact IH].
Qed.

(** The table a statement is about. *)
Definition target (s : stmt) : option N :=
  match s with
  | SCreate tid _ _ | SDrop tid | SInsert tid _ _ | SUpdate tid _ _ | SDelete tid _
  | SAddColumn tid _ | SDropColumn tid _ | SCreateUnique tid _ => Some tid
  | SSelect _ => None
  end.

(** Frame: no statement - DDL included, successful or not - changes any other table. *)
Theorem exec_frame d n s tid' : target s <> Some tid' ->
  let '(_, d', _) := exec d n s in get_table d' tid' = get_table d tid'.
Proof.
  intros Ht.
  assert (forall tid, target s = Some tid -> tid' <> tid) as Hne by (intros tid E He; subst; congruence).
  destruct s as [tid cols uniq|tid|tid cs rows|tid sets w|tid w|q|tid c|tid i|tid cols]; cbn [exec target] in *;
    try (specialize (Hne tid eq_refl)).
  - destruct (get_table d tid); [reflexivity|now apply get_set_other].
  - destruct (get_table d tid); [now apply get_del_other|reflexivity].
  - destruct (get_table d tid) as [t|]; [|reflexivity].
    match goal with |- context [mapM ?f rows] => destruct (mapM f rows) end; [|reflexivity].
    match goal with |- context [table_ok ?t'] => destruct (table_ok t') end; [now apply get_set_other|reflexivity].
  - destruct (get_table d tid) as [t|]; [|reflexivity].
    match goal with |- context [mapM ?f (t_rows t)] => destruct (mapM f (t_rows t)) end; [|reflexivity].
    match goal with |- context [table_ok ?t'] => destruct (table_ok t') end; [now apply get_set_other|reflexivity].
  - destruct (get_table d tid) as [t|]; [|reflexivity].
    match goal with |- context [mapM ?f (t_rows t)] => destruct (mapM f (t_rows t)) end; [now apply get_set_other|reflexivity].
  - destruct (run_select d q) as [[n0 rows]|]; reflexivity.
  - destruct (get_table d tid) as [t|]; [|reflexivity].
    match goal with |- context [table_ok ?t'] => destruct (table_ok t') end; [now apply get_set_other|reflexivity].
  - destruct (get_table d tid) as [t|]; [|reflexivity].
    match goal with |- context [if ?c then _ else _] => destruct c end; [reflexivity|now apply get_set_other].
  - destruct (get_table d tid) as [t|]; [|reflexivity].
    match goal with |- context [table_ok ?t'] => destruct (table_ok t') end; [now apply get_set_other|reflexivity].
Qed.

(** CREATE: succeeds exactly on a free name and yields an empty table of the declared shape. *)
Theorem create_spec d n tid cols uniq :
  match get_table d tid with
  | None => exists d', exec d n (SCreate tid cols uniq) = (RDdl, d', n) /\
                       get_table d' tid = Some {| t_cols := cols; t_uniq := uniq; t_rows := [] |}
  | Some _ => exec d n (SCreate tid cols uniq) = (RErr, d, n)
  end.
Proof.
  cbn [exec]. destruct (get_table d tid) eqn:E; [reflexivity|].
  eexists. split; [reflexivity|apply get_set_same].
Qed.

(** DROP: succeeds exactly on an existing name, after which the name is free again (and can be
    re-created with any shape). *)
Theorem drop_spec d n tid :
  match get_table d tid with
  | Some _ => exists d', exec d n (SDrop tid) = (RDdl, d', n) /\ get_table d' tid = None /\
                forall cols uniq, exists d'', exec d' n (SCreate tid cols uniq) = (RDdl, d'', n) /\
                  get_table d'' tid = Some {| t_cols := cols; t_uniq := uniq; t_rows := [] |}
  | None => exec d n (SDrop tid) = (RErr, d, n)
  end.
Proof.
  cbn [exec]. destruct (get_table d tid) eqn:E; [|reflexivity].
  eexists. split; [reflexivity|]. split; [apply get_del_same|].
  intros cols uniq. pose proof (create_spec (del_table d tid) n tid cols uniq) as H.
  rewrite get_del_same in H. exact H.
Qed.

(** ADD COLUMN: every existing row keeps its values and reads the default (or NULL) in the new column. *)
Theorem add_column_spec d n tid c t d' n' :
  get_table d tid = Some t -> exec d n (SAddColumn tid c) = (RDdl, d', n') ->
  exists t', get_table d' tid = Some t' /\ t_cols t' = t_cols t ++ [c] /\ t_uniq t' = t_uniq t /\
    t_rows t' = map (fun r => (fst r, snd r ++ [match c_default c with Some v => v | None => SNull end])) (t_rows t).
Proof.
  intros Hg. cbn [exec]. rewrite Hg.
  match goal with |- context [table_ok ?t'] => destruct (table_ok t') end; [|discriminate].
  intros H. injection H as <- <-. eexists. split; [apply get_set_same|]. repeat split.
Qed.

(** DROP COLUMN: every existing row loses exactly that position. *)
Theorem drop_column_spec d n tid i t d' n' :
  get_table d tid = Some t -> exec d n (SDropColumn tid i) = (RDdl, d', n') ->
  exists t', get_table d' tid = Some t' /\
    t_cols t' = firstn i (t_cols t) ++ skipn (S i) (t_cols t) /\
    t_rows t' = map (fun r => (fst r, firstn i (snd r) ++ skipn (S i) (snd r))) (t_rows t).
Proof.
  intros Hg. cbn [exec]. rewrite Hg.
  match goal with |- context [if ?c then _ else _] => destruct c end; [discriminate|].
  intros H. injection H as <- <-. eexists. split; [apply get_set_same|]. split; reflexivity.
Qed.

Opaque exec.
