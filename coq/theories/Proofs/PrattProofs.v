(** For ANY binding-power table with positive right powers, the Pratt parser is the exact inverse of
    the minimal-parentheses printer of that table: parse (print e) = e, for expression trees of any
    depth.  Continuation-style induction plus fuel monotonicity. *)
From Coq Require Import Arith NArith List Bool Lia.
From Axv Require Import Model.PrattOps Model.Pratt.
Import ListNotations.
Open Scope N_scope.

Section Proofs.
Variable bp : pbinop -> N * N.
Variable pnot : N.
Hypothesis bp_pos : forall o, 1 <= snd (bp o).
Hypothesis pnot_pos : 1 <= pnot.

Notation parse_bp := (parse_bp bp pnot).
Notation loop := (loop bp pnot).
Notation pr := (pr bp pnot).

Lemma parse_bp_S : forall f m ts, parse_bp (S f) m ts =
    match ts with
    | TNum n :: r => loop f m (PNum n) r
    | TId k :: r => loop f m (PId k) r
    | TLP :: r => match parse_bp f 0 r with
                  | Some (e, TRP :: r') => loop f m e r'
                  | _ => None end
    | TNot :: r => match parse_bp f pnot r with
                   | Some (e, r') => loop f m (PNot e) r'
                   | None => None end
    | _ => None
    end.
Proof. reflexivity. Qed.
Lemma loop_S : forall f m lhs ts, loop (S f) m lhs ts =
    match ts with
    | TBin o :: r =>
        let '(l, rb) := bp o in
        if l <? m then Some (lhs, ts)
        else match parse_bp f rb r with
             | Some (rhs, r') => loop f m (PBin o lhs rhs) r'
             | None => None end
    | _ => Some (lhs, ts)
    end.
Proof. reflexivity. Qed.

Lemma mono_S : forall f,
  (forall m ts r, parse_bp f m ts = Some r -> parse_bp (S f) m ts = Some r) /\
  (forall m l ts r, loop f m l ts = Some r -> loop (S f) m l ts = Some r).
Proof.
  induction f as [|f [IHp IHl]]; split; intros; try discriminate.
  - rewrite parse_bp_S in H |- *.
    destruct ts as [|t ts']; [discriminate|].
    destruct t; try discriminate.
    + apply IHl; exact H.
    + apply IHl; exact H.
    + destruct (parse_bp f 0 ts') as [[e r']|] eqn:E; [|discriminate].
      rewrite (IHp _ _ _ E).
      destruct r' as [|t' r'']; [discriminate|]. destruct t'; try discriminate.
      apply IHl; exact H.
    + destruct (parse_bp f pnot ts') as [[e r']|] eqn:E; [|discriminate].
      rewrite (IHp _ _ _ E). apply IHl; exact H.
  - rewrite loop_S in H |- *.
    destruct ts as [|t ts']; [exact H|].
    destruct t; try exact H.
    destruct (bp o) as [lb rb]. destruct (lb <? m); [exact H|].
    destruct (parse_bp f rb ts') as [[rhs r']|] eqn:E; [|discriminate].
    rewrite (IHp _ _ _ E). apply IHl; exact H.
Qed.

Lemma mono_p : forall f f' m ts r, (f <= f')%nat -> parse_bp f m ts = Some r -> parse_bp f' m ts = Some r.
Proof. induction 1; auto. intros. apply mono_S; auto. Qed.
Lemma mono_l : forall f f' m l ts r, (f <= f')%nat -> loop f m l ts = Some r -> loop f' m l ts = Some r.
Proof. induction 1; auto. intros. apply mono_S; auto. Qed.

Definition follow_ok (rt : N) (rest : list ptok) : Prop :=
  match rest with TBin o :: _ => fst (bp o) <= rt | _ => True end.

Lemma loop_stop : forall m e rest rt, follow_ok rt rest -> rt < m ->
  loop 1 m e rest = Some (e, rest).
Proof.
  intros. cbn. destruct rest as [|t r]; auto. destruct t; auto.
  cbn in H. destruct (bp o) as [lb rb]. cbn in H.
  destruct (N.ltb_spec lb m); auto. lia.
Qed.

Lemma paren_ok : forall e inner rest m res,
  (forall rest' res', (exists f, loop f 0 e rest' = Some res') -> follow_ok 0 rest' ->
        exists f, parse_bp f 0 (inner ++ rest') = Some res') ->
  (exists f, loop f m e rest = Some res) ->
  exists f, parse_bp f m ((TLP :: inner ++ [TRP]) ++ rest) = Some res.
Proof.
  intros e inner rest m res Hin [f Hl].
  destruct (Hin (TRP :: rest) (e, TRP :: rest)) as [f1 H1].
  - exists 1%nat. reflexivity.
  - exact I.
  - exists (S (Nat.max f f1)). cbn [app]. rewrite parse_bp_S. rewrite <- app_assoc. cbn [app].
    rewrite (mono_p f1 _ _ _ _ (Nat.le_max_r f f1) H1).
    apply (mono_l f); [apply Nat.le_max_l | exact Hl].
Qed.

Theorem pr_cont : forall e m rt rest res,
  follow_ok rt rest ->
  (exists f, loop f m e rest = Some res) ->
  exists f, parse_bp f m (pr m rt e ++ rest) = Some res.
Proof.
  induction e as [n | k | o a IHa b IHb | a IHa]; intros m rt rest res Hf [f Hl].
  - exists (S f). cbn. exact Hl.
  - exists (S f). cbn. exact Hl.
  - (* Bin *)
    assert (BARE: forall m rt rest res, fst (bp o) >= m -> snd (bp o) > rt -> follow_ok rt rest ->
              (exists f, loop f m (PBin o a b) rest = Some res) ->
              exists f, parse_bp f m ((pr m (fst (bp o)) a ++ TBin o :: pr (snd (bp o)) rt b) ++ rest) = Some res).
    { clear m rt rest res Hf f Hl. intros m rt rest res Hm Hr Hf [f Hl].
      rewrite <- app_assoc. cbn [app].
      apply IHa.
      - cbn. lia.
      - destruct (IHb (snd (bp o)) rt rest (b, rest) Hf) as [f3 H3].
        { exists 1%nat. apply loop_stop with (rt:=rt); auto. lia. }
        exists (S (Nat.max f f3)). rewrite loop_S.
        destruct (bp o) as [lb rb] eqn:Eo. cbn in *.
        destruct (N.ltb_spec lb m); [lia|].
        rewrite (mono_p f3 _ _ _ _ (Nat.le_max_r f f3) H3).
        apply (mono_l f); [apply Nat.le_max_l|exact Hl]. }
    cbn [Pratt.pr]. destruct (bp o) as [lb rb] eqn:Eo. cbn [fst snd] in BARE.
    destruct ((lb <? m) || (rb <=? rt)) eqn:Need.
    + cbn [paren].
      apply paren_ok with (e := PBin o a b); [|exists f; exact Hl].
      intros rest' res' Hl' Hf'. apply BARE; auto; try lia.
      pose proof (bp_pos o). rewrite Eo in H. cbn in H. lia.
    + cbn [paren]. apply orb_false_iff in Need. destruct Need as [N1 N2].
      apply N.ltb_ge in N1. apply N.leb_gt in N2.
      apply BARE; auto; try lia. exists f; exact Hl.
  - (* Not *)
    assert (BARE: forall m rt rest res, pnot > rt -> follow_ok rt rest ->
              (exists f, loop f m (PNot a) rest = Some res) ->
              exists f, parse_bp f m ((TNot :: pr pnot rt a) ++ rest) = Some res).
    { clear m rt rest res Hf f Hl. intros m rt rest res Hr Hf [f Hl].
      destruct (IHa pnot rt rest (a, rest) Hf) as [f3 H3].
      { exists 1%nat. apply loop_stop with (rt:=rt); auto. lia. }
      exists (S (Nat.max f f3)). cbn [app]. rewrite parse_bp_S.
      rewrite (mono_p f3 _ _ _ _ (Nat.le_max_r f f3) H3).
      apply (mono_l f); [apply Nat.le_max_l|exact Hl]. }
    cbn [Pratt.pr]. destruct (pnot <=? rt) eqn:Need.
    + cbn [paren]. apply paren_ok with (e := PNot a); [|exists f; exact Hl].
      intros rest' res' Hl' Hf'. apply BARE; auto. lia.
    + cbn [paren]. apply N.leb_gt in Need. apply BARE; auto. lia. exists f; exact Hl.
Qed.

Theorem parse_print : forall e, exists f, parse_bp f 0 (pr 0 0 e) = Some (e, []).
Proof.
  intros. rewrite <- (app_nil_r (pr 0 0 e)). apply pr_cont.
  - exact I.
  - exists 1%nat. reflexivity.
Qed.
End Proofs.
