(** The VACUUM pass over one tree (schema/catalog.rs [vacuum_btree]) and the forgetting of finished
    transactions that follows it (coordinator [vacuum_transactions], pager [clear_aborted_up_to]):
    what a reader sees afterwards is what a reader saw before. *)
From Axv Require Import Base.Bytes Model.Values Model.Tuple Model.Coord Proofs.TupleProofs Proofs.CoordProofs Proofs.AbortProofs.
From Coq Require Import Lia.
Open Scope N_scope.

(** Decision taken for one stored row. [aborted] is the vacuum snapshot's aborted set (VACUUM has
    aborted every active transaction, so a stamp that is not aborted is committed). *)
Definition vac_tuple (aborted : N -> bool) (h : N) (t : tuple) : option tuple :=
  if aborted (t_xmin t) then None
  else match t_xmax t with
       | Some x => if aborted x then Some (vacuum (undelete t) h) else None
       | None => Some (vacuum t h)
       end.

Definition vac_store (aborted : N -> bool) (h : N) (store : list tuple) : list tuple :=
  flat_map (fun t => match vac_tuple aborted h t with Some t' => [t'] | None => [] end) store.

(** Transaction ids stamped on a row. *)
Definition stamps (t : tuple) : list N :=
  t_xmin t :: (match t_xmax t with Some x => [x] | None => [] end) ++ map d_xmin (t_deltas t).

(** [s] is a snapshot of the moment VACUUM runs: every stamp on the row belongs to a finished
    transaction and is judged committed exactly when it is not aborted.  [s'] is any later
    snapshot, taken after the finished transactions have been forgotten: every old stamp now
    reads as committed. *)
Definition before_vacuum (aborted : N -> bool) (s : snap) (t : tuple) : Prop :=
  forall x, In x (stamps t) -> committed_before s x = negb (aborted x) /\ s_xid s <> x.
Definition after_vacuum (aborted : N -> bool) (s' : snap) (t : tuple) : Prop :=
  forall x, In x (stamps t) -> aborted x = false -> committed_before s' x = true /\ s_xid s' <> x.

Lemma undelete_wf t : wf_tuple t -> wf_tuple (undelete t).
Proof. exact (fun H => H). Qed.

Theorem vac_tuple_preserves aborted h t s s' : wf_tuple t ->
  before_vacuum aborted s t -> after_vacuum aborted s' t ->
  match vac_tuple aborted h t with
  | None => decode_for t s = None
  | Some t' => decode_for t' s' = decode_for t s
  end.
Proof.
  intros Hwf Hb Ha. unfold vac_tuple.
  assert (In (t_xmin t) (stamps t)) as Hin by (now left).
  destruct (Hb _ Hin) as [Hbm Hbo].
  destruct (aborted (t_xmin t)) eqn:Eab; cbn [negb] in Hbm.
  - now apply (aborted_insert_invisible s t (t_xmin t)).
  - destruct (Ha _ Hin Eab) as [Ham Hao]. destruct (t_xmax t) as [x|] eqn:Ex.
    + assert (In x (stamps t)) as Hix by (unfold stamps; rewrite Ex; right; now left).
      destruct (Hb _ Hix) as [Hbx Hbxo].
      destruct (aborted x) eqn:Eax; cbn [negb] in Hbx.
      * rewrite vacuum_preserves by now apply undelete_wf.
        unfold decode_for, undelete, valid_for. cbn [t_xmax t_xmin t_keys t_vals t_deltas].
        rewrite Ex, Ham, Hbm, Hbx. apply N.eqb_neq in Hbxo. rewrite Hbxo. cbn [orb negb andb]. reflexivity.
      * unfold decode_for. rewrite Ex, Hbx. reflexivity.
    + rewrite vacuum_preserves by exact Hwf.
      unfold decode_for, valid_for. rewrite Ex, Ham, Hbm. cbn [orb]. reflexivity.
Qed.

(** Store level: the rows a reader obtains (those that decode to something) are the same, in the
    same order, before and after the pass. *)
Definition read_store (s : snap) (store : list tuple) : list (list value) :=
  flat_map (fun t => match decode_for t s with Some r => [r] | None => [] end) store.

Theorem vac_store_preserves aborted h store s s' :
  Forall wf_tuple store ->
  Forall (before_vacuum aborted s) store -> Forall (after_vacuum aborted s') store ->
  read_store s' (vac_store aborted h store) = read_store s store.
Proof.
  induction store as [|t store IH]; intros Hw Hb Ha; [reflexivity|].
  apply Forall_cons_iff in Hw. apply Forall_cons_iff in Hb. apply Forall_cons_iff in Ha.
  destruct Hw as [Hw1 Hw2], Hb as [Hb1 Hb2], Ha as [Ha1 Ha2].
  unfold vac_store, read_store in *. cbn [flat_map].
  pose proof (vac_tuple_preserves aborted h t s s' Hw1 Hb1 Ha1) as H.
  destruct (vac_tuple aborted h t) as [t'|].
  - cbn [app flat_map]. rewrite H. f_equal. now apply IH.
  - cbn [app]. rewrite H. cbn [app]. now apply IH.
Qed.

(** The pass only removes or shrinks: nothing is added, and the history kept on a row never grows. *)
Lemma take_needed_length h ds : (length (take_needed h ds) <= length ds)%nat.
Proof. induction ds as [|d ds IH]; cbn [take_needed length]; [lia|]. destruct (h <=? d_xmin d); cbn [length]; lia. Qed.

Theorem vac_store_shrinks aborted h store :
  (length (vac_store aborted h store) <= length store)%nat /\
  Forall (fun t' => exists t, In t store /\ (length (t_deltas t') <= length (t_deltas t))%nat /\ t_vals t' = t_vals t /\ t_keys t' = t_keys t)
         (vac_store aborted h store).
Proof.
  induction store as [|t store [IH1 IH2]]; [split; [cbn; lia|constructor]|].
  unfold vac_store in *. cbn [flat_map].
  assert (forall t', vac_tuple aborted h t = Some t' ->
            (length (t_deltas t') <= length (t_deltas t))%nat /\ t_vals t' = t_vals t /\ t_keys t' = t_keys t) as Hone.
  { unfold vac_tuple. intros t' H. destruct (aborted (t_xmin t)); [discriminate|].
    destruct (t_xmax t) as [x|]; [destruct (aborted x); [|discriminate]|]; injection H as <-;
      (split; [apply take_needed_length|split; reflexivity]). }
  destruct (vac_tuple aborted h t) as [t'|] eqn:E; cbn [app length].
  - split; [lia|]. constructor.
    + exists t. split; [now left|now apply Hone].
    + eapply Forall_impl; [|exact IH2]. intros a (t0 & Hin & Hrest). exists t0. split; [now right|exact Hrest].
  - split; [lia|]. eapply Forall_impl; [|exact IH2]. intros a (t0 & Hin & Hrest). exists t0. split; [now right|exact Hrest].
Qed.

(** * Where the two snapshot conditions come from (coordinator model) *)

Definition no_active (c : coord) : Prop := ids_in_state Active (c_txs c) = [].
Definition aborted_in (c : coord) (x : N) : bool := memN x (ids_in_state Aborted (c_txs c)).

(** VACUUM first aborts every active transaction; the snapshot it then takes judges every known
    transaction committed exactly when it is not aborted. *)
Lemma vacuum_snapshot_judges c : CInv c -> no_active c ->
  let '(_, _, s) := begin c in
  forall x tx, find_tx x (c_txs c) = Some tx -> committed_before s x = negb (aborted_in c x) /\ s_xid s <> x.
Proof.
  intros HI Hna. pose proof (snapshot_sound c HI) as SS.
  destruct HI as [Hnd Hall Hc Hl Hn].
  unfold begin in *. cbn [s_xid snapshot_of]. intros x tx Hf.
  assert (x < c_last_created c) as Hlt by (apply Hall; eapply find_in; exact Hf).
  assert (x <> c_last_created c) as Hne by lia. split; [|lia].
  specialize (SS x Hne). unfold aborted_in.
  destruct (x_state tx) eqn:Es.
  - exfalso. assert (In x (ids_in_state Active (c_txs c))) as Hin by (apply in_state_iff; [exact Hnd|now exists tx]).
    rewrite Hna in Hin. contradiction.
  - exfalso. now apply (Hn x tx Hf).
  - assert (memN x (ids_in_state Aborted (c_txs c)) = false) as ->.
    { destruct (memN x _) eqn:E; [|reflexivity]. apply memN_in, in_state_iff in E; [|exact Hnd].
      destruct E as (y & Hy & Hys). congruence. }
    cbn [negb]. apply SS. now exists tx.
  - assert (memN x (ids_in_state Aborted (c_txs c)) = true) as ->.
    { apply memN_in, in_state_iff; [exact Hnd|now exists tx]. }
    cbn [negb]. destruct (committed_before _ x) eqn:E; [|reflexivity].
    destruct (proj1 SS eq_refl) as (y & Hy & Hys). congruence.
Qed.

Lemma in_state_filter st f l x : In x (ids_in_state st (filter f l)) ->
  exists tx, In (x, tx) l /\ x_state tx = st /\ f (x, tx) = true.
Proof.
  unfold ids_in_state. intros H. apply in_map_iff in H. destruct H as ([i tx] & <- & Hin).
  apply filter_In in Hin. destruct Hin as [Hin Hst]. apply filter_In in Hin. destruct Hin as [Hin Hf].
  exists tx. cbn [fst snd] in *. split; [exact Hin|]. split; [|exact Hf].
  destruct (x_state tx), st; cbn in Hst; congruence.
Qed.

Lemma in_find_nodup l x tx : NoDup (map fst l) -> In (x, tx) l -> find_tx x l = Some tx.
Proof.
  induction l as [|[i y] l IH]; cbn [map fst find_tx In]; intros Hnd Hin; [contradiction|].
  apply NoDup_cons_iff in Hnd. destruct Hnd as [Hni Hnd]. destruct Hin as [E|Hin].
  - injection E as -> ->. now rewrite N.eqb_refl.
  - destruct (i =? x) eqn:Ei; [|now apply IH].
    apply N.eqb_eq in Ei. subst i. exfalso. apply Hni. apply in_map_iff. now exists (x, tx).
Qed.

(** After the coordinator has forgotten finished transactions, a transaction that had committed,
    or had aborted below the horizon, or was never known, reads as committed: this is why the pass
    has to erase every aborted stamp it leaves on a row. *)
Lemma forgotten_reads_committed c x : CInv c -> x <= c_last_committed c ->
  (forall tx, find_tx x (c_txs c) = Some tx ->
     x_state tx = Committed \/ (x_state tx = Aborted /\ x < c_last_committed c)) ->
  let '(_, _, s') := begin (vacuum_txs c) in committed_before s' x = true.
Proof.
  intros HI Hle Hx. destruct HI as [Hnd _ _ _ _].
  unfold begin, committed_before, snapshot_of, vacuum_txs. cbn [s_xmax s_active s_aborted c_txs c_last_committed c_last_created].
  replace (c_last_committed c <? x) with false by lia.
  apply negb_true_iff, orb_false_iff. split.
  - destruct (memN x _) eqn:E; [|reflexivity]. exfalso. apply memN_in, in_state_filter in E.
    destruct E as (tx & Hin & Hst & _). apply (in_find_nodup _ _ _ Hnd) in Hin.
    destruct (Hx tx Hin) as [H|[H _]]; congruence.
  - destruct (memN x _) eqn:E; [|reflexivity]. exfalso. apply memN_in, in_state_filter in E.
    destruct E as (tx & Hin & Hst & Hk). apply (in_find_nodup _ _ _ Hnd) in Hin.
    destruct (Hx tx Hin) as [H|[_ H]]; [congruence|].
    cbn [fst snd] in Hk. rewrite Hst in Hk. cbn in Hk. lia.
Qed.
