(** Snapshot soundness and first-committer-wins for the coordinator model. *)
From Axv Require Import Base.Bytes Model.Values Model.Tuple Model.Coord.
From Coq Require Import ZifyBool ZifyN ZifyNat.
Open Scope N_scope.

Definition cstep (c : coord) (o : cop) : coord :=
  match o with
  | CBegin => fst (fst (begin c))
  | CCommit id => fst (commit c id)
  | CAbort id => fst (abort c id)
  | CWrite id t r => fst (record_write c id (t, r))
  | CVacuum => vacuum_txs c
  end.

Definition no_vacuum (ops : list cop) : Prop := Forall (fun o => o <> CVacuum) ops.

Lemma NoDup_app_one {A} (l : list A) x : NoDup l -> ~ In x l -> NoDup (l ++ [x]).
Proof.
  induction l as [|y l IH]; intros Hnd Hni; cbn [app].
  - constructor; [intros []|constructor].
  - inversion Hnd as [|? ? Hy Hl]; subst. constructor.
    + rewrite in_app_iff. cbn [In]. intros [H|[H|[]]]; [contradiction|]. subst. apply Hni. now left.
    + apply IH; [exact Hl|]. intros H. apply Hni. now right.
Qed.

(** * Table lemmas *)
Lemma find_set_same id x l : find_tx id l <> None -> find_tx id (set_tx id x l) = Some x.
Proof.
  induction l as [|[i y] l IH]; cbn [find_tx set_tx]; [congruence|].
  destruct (i =? id) eqn:E; cbn [find_tx]; rewrite E; [reflexivity|exact IH].
Qed.

Lemma find_set_other id id' x l : id' <> id -> find_tx id' (set_tx id x l) = find_tx id' l.
Proof.
  intros Hne. induction l as [|[i y] l IH]; cbn [find_tx set_tx]; [reflexivity|].
  destruct (i =? id) eqn:E; cbn [find_tx].
  - apply N.eqb_eq in E. subst i. replace (id =? id') with false; [reflexivity|].
    symmetry. apply N.eqb_neq. congruence.
  - destruct (i =? id'); [reflexivity|exact IH].
Qed.

Lemma set_tx_ids id x l : map fst (set_tx id x l) = map fst l.
Proof.
  induction l as [|[i y] l IH]; cbn [set_tx map]; [reflexivity|].
  destruct (i =? id); cbn [map fst]; [reflexivity|now rewrite IH].
Qed.

Lemma find_app id l1 l2 : find_tx id (l1 ++ l2) = match find_tx id l1 with Some x => Some x | None => find_tx id l2 end.
Proof.
  induction l1 as [|[i y] l1 IH]; cbn [app find_tx]; [reflexivity|]. destruct (i =? id); [reflexivity|exact IH].
Qed.

Lemma find_in id l x : find_tx id l = Some x -> In id (map fst l).
Proof.
  induction l as [|[i y] l IH]; cbn [find_tx map fst]; [discriminate|].
  destruct (i =? id) eqn:E; [apply N.eqb_eq in E; now left|right; now apply IH].
Qed.

Lemma not_in_find id l : ~ In id (map fst l) -> find_tx id l = None.
Proof. intros H. destruct (find_tx id l) eqn:E; [exfalso; apply H; eapply find_in; eassumption|reflexivity]. Qed.

(** With distinct ids, membership in a state list is lookup. *)
Lemma in_state_iff st id l : NoDup (map fst l) ->
  (In id (ids_in_state st l) <-> exists x, find_tx id l = Some x /\ x_state x = st).
Proof.
  unfold ids_in_state. induction l as [|[i y] l IH]; intros Hnd; cbn [filter map find_tx fst snd].
  - split; [contradiction|intros (x & H & _); discriminate].
  - inversion Hnd as [|? ? Hni Hnd']; subst. specialize (IH Hnd').
    destruct (i =? id) eqn:E.
    + apply N.eqb_eq in E. subst i.
      destruct (tstate_eqb (x_state y) st) eqn:Es; cbn [map fst In].
      * split; [intros _; exists y; split; [reflexivity|destruct (x_state y), st; (reflexivity || discriminate)]|now left].
      * split.
        -- intros Hin. exfalso. apply Hni. apply IH in Hin. destruct Hin as (x & Hf & _). eapply find_in; eassumption.
        -- intros (x & Hx & Hs). injection Hx as <-. rewrite Hs in Es. destruct st; discriminate.
    + assert (i <> id) as Hne by (intros ->; rewrite N.eqb_refl in E; discriminate).
      destruct (tstate_eqb (x_state y) st); cbn [map fst In]; rewrite <- IH; tauto.
Qed.

Lemma memN_in x l : memN x l = true <-> In x l.
Proof.
  unfold memN. rewrite existsb_exists. split.
  - intros (y & Hy & E). apply N.eqb_eq in E. now subst.
  - intros H. exists x. split; [exact H|apply N.eqb_refl].
Qed.

(** * Invariant of reachable coordinator states (no vacuum) *)
Record CInv (c : coord) : Prop := {
  ci_nodup : NoDup (map fst (c_txs c));
  ci_all : forall i, i < c_last_created c <-> In i (map fst (c_txs c));
  ci_committed : forall i x, find_tx i (c_txs c) = Some x -> x_state x = Committed -> i <= c_last_committed c;
  ci_last : c_last_committed c < c_last_created c \/ c_last_committed c = 0;
  ci_nocommitting : forall i x, find_tx i (c_txs c) = Some x -> x_state x <> Committing
}.

Lemma init_inv : CInv init_coord.
Proof.
  constructor; cbn.
  - constructor.
  - intros i. split; [lia|contradiction].
  - discriminate.
  - now right.
  - discriminate.
Qed.

Lemma set_state_inv c id x st :
  CInv c -> find_tx id (c_txs c) = Some x -> st <> Committing -> st <> Committed ->
  CInv (with_txs c (set_tx id {| x_state := st; x_start := x_start x; x_wset := x_wset x |} (c_txs c))).
Proof.
  intros [Hnd Hall Hc Hl Hn] Hf Hs1 Hs2. constructor; cbn [with_txs c_txs c_last_created c_last_committed].
  - now rewrite set_tx_ids.
  - intros i. now rewrite set_tx_ids.
  - intros i y Hy Hst. destruct (N.eq_dec i id) as [->|Hne].
    + rewrite find_set_same in Hy by congruence. injection Hy as <-. cbn in Hst. contradiction.
    + rewrite find_set_other in Hy by exact Hne. eapply Hc; eassumption.
  - exact Hl.
  - intros i y Hy. destruct (N.eq_dec i id) as [->|Hne].
    + rewrite find_set_same in Hy by congruence. injection Hy as <-. exact Hs1.
    + rewrite find_set_other in Hy by exact Hne. eapply Hn; eassumption.
Qed.

Lemma step_inv c o : CInv c -> o <> CVacuum -> CInv (cstep c o).
Proof.
  intros HI Hnv. destruct o as [|id|id|id t r|]; cbn [cstep]; [| | | |contradiction].
  - (* begin *)
    destruct HI as [Hnd Hall Hc Hl Hn]. unfold begin. cbn [fst].
    constructor; cbn [c_txs c_last_created c_last_committed].
    + rewrite map_app. cbn [map fst]. apply NoDup_app_one; [exact Hnd|]. intros Hin. apply Hall in Hin. lia.
    + intros i. rewrite map_app, in_app_iff. cbn [map fst In]. rewrite <- Hall. lia.
    + intros i x Hf Hs. rewrite find_app in Hf. destruct (find_tx i (c_txs c)) eqn:E.
      * injection Hf as <-. eapply Hc; eassumption.
      * cbn [find_tx] in Hf. destruct (c_last_created c =? i); [injection Hf as <-; discriminate|discriminate].
    + destruct Hl; [left; lia|right; assumption].
    + intros i x Hf. rewrite find_app in Hf. destruct (find_tx i (c_txs c)) eqn:E.
      * injection Hf as <-. eapply Hn; eassumption.
      * cbn [find_tx] in Hf. destruct (c_last_created c =? i); [injection Hf as <-; discriminate|discriminate].
  - (* commit *)
    unfold commit. destruct (find_tx id (c_txs c)) as [x|] eqn:Ef; [|exact HI].
    destruct (x_state x) eqn:Es; cbn [fst]; try exact HI.
    destruct (existsb _ (x_wset x)); cbn [fst].
    + apply set_state_inv; try assumption; discriminate.
    + destruct HI as [Hnd Hall Hc Hl Hn].
      assert (id < c_last_created c) as Hid by (apply Hall; eapply find_in; eassumption).
      constructor; cbn [c_txs c_last_created c_last_committed].
      * now rewrite set_tx_ids.
      * intros i. now rewrite set_tx_ids.
      * intros i y Hy Hst. destruct (N.eq_dec i id) as [->|Hne].
        -- destruct (c_last_committed c <? id) eqn:E; lia.
        -- rewrite find_set_other in Hy by exact Hne. pose proof (Hc i y Hy Hst).
           destruct (c_last_committed c <? id) eqn:E; lia.
      * destruct (c_last_committed c <? id) eqn:E; [left; exact Hid|exact Hl].
      * intros i y Hy. destruct (N.eq_dec i id) as [->|Hne].
        -- rewrite find_set_same in Hy by congruence. injection Hy as <-. discriminate.
        -- rewrite find_set_other in Hy by exact Hne. eapply Hn; eassumption.
  - (* abort *)
    unfold abort. destruct (find_tx id (c_txs c)) as [x|] eqn:Ef; [|exact HI]. cbn [fst].
    apply set_state_inv; try assumption; discriminate.
  - (* record_write *)
    unfold record_write. destruct (find_tx id (c_txs c)) as [x|] eqn:Ef; [|exact HI].
    destruct (x_state x) eqn:Es; cbn [fst]; try exact HI.
    destruct HI as [Hnd Hall Hc Hl Hn].
    constructor; cbn [with_txs c_txs c_last_created c_last_committed].
    + now rewrite set_tx_ids.
    + intros i. now rewrite set_tx_ids.
    + intros i y Hy Hst. destruct (N.eq_dec i id) as [->|Hne].
      * rewrite find_set_same in Hy by congruence. injection Hy as <-. discriminate.
      * rewrite find_set_other in Hy by exact Hne. eapply Hc; eassumption.
    + exact Hl.
    + intros i y Hy. destruct (N.eq_dec i id) as [->|Hne].
      * rewrite find_set_same in Hy by congruence. injection Hy as <-. discriminate.
      * rewrite find_set_other in Hy by exact Hne. eapply Hn; eassumption.
Qed.

Lemma reach_inv ops : no_vacuum ops -> CInv (fold_left cstep ops init_coord).
Proof.
  intros Hnv.
  assert (G : forall c, CInv c -> CInv (fold_left cstep ops c)).
  { induction ops as [|o ops IH]; intros c HI; cbn [fold_left]; [exact HI|].
    inversion Hnv as [|? ? Ho Hops]; subst. apply IH; [exact Hops|]. now apply step_inv. }
  apply G, init_inv.
Qed.

(** * Snapshot soundness: the snapshot handed out by [begin] says "committed before" exactly for the
      transactions that are committed at that moment *)
Theorem snapshot_sound c : CInv c ->
  let '(_, id, s) := begin c in
  forall t, t <> id ->
    (committed_before s t = true <-> exists x, find_tx t (c_txs c) = Some x /\ x_state x = Committed).
Proof.
  intros [Hnd Hall Hc Hl Hn]. unfold begin. intros t Hne.
  unfold committed_before, snapshot_of. cbn [s_xmax s_active s_aborted c_txs c_last_committed].
  split.
  - intros H.
    destruct (c_last_committed c <? t) eqn:E; [discriminate|].
    apply negb_true_iff, orb_false_iff in H. destruct H as [Ha Hb].
    assert (t < c_last_created c) as Ht.
    { destruct Hl as [Hl|Hl]; [lia|]. rewrite Hl in E.
      assert (t = 0) by lia. subst t. lia. }
    apply Hall in Ht.
    destruct (find_tx t (c_txs c)) as [x|] eqn:Ef.
    2:{ exfalso. clear -Ht Ef. induction (c_txs c) as [|[i y] l IH]; cbn in *; [contradiction|].
        destruct (i =? t) eqn:E; [discriminate|]. destruct Ht as [Ht|Ht]; [subst; rewrite N.eqb_refl in E; discriminate|now apply IH]. }
    exists x. split; [reflexivity|].
    destruct (x_state x) eqn:Es; try reflexivity; exfalso.
    + assert (In t (ids_in_state Active (c_txs c))) as Hin by (apply in_state_iff; [exact Hnd|now exists x]).
      apply memN_in in Hin. congruence.
    + now apply (Hn t x Ef).
    + assert (In t (ids_in_state Aborted (c_txs c))) as Hin by (apply in_state_iff; [exact Hnd|now exists x]).
      apply memN_in in Hin. congruence.
  - intros (x & Hf & Hs). pose proof (Hc t x Hf Hs) as Hle.
    replace (c_last_committed c <? t) with false by lia.
    apply negb_true_iff, orb_false_iff. split.
    + destruct (memN t (ids_in_state Active (c_txs c))) eqn:E; [|reflexivity].
      apply memN_in, in_state_iff in E; [|exact Hnd]. destruct E as (y & Hy & Hys). congruence.
    + destruct (memN t (ids_in_state Aborted (c_txs c))) eqn:E; [|reflexivity].
      apply memN_in, in_state_iff in E; [|exact Hnd]. destruct E as (y & Hy & Hys). congruence.
Qed.

(** A snapshot never sees its own transaction or later ones as committed. *)
Theorem snapshot_no_future c : CInv c ->
  let '(_, id, s) := begin c in forall t, id < t -> committed_before s t = false.
Proof.
  intros [Hnd Hall Hc Hl Hn]. unfold begin. intros t Ht.
  unfold committed_before, snapshot_of. cbn [s_xmax c_last_committed].
  replace (c_last_committed c <? t) with true; [reflexivity|]. destruct Hl; lia.
Qed.

(** * First committer wins (given that writes are recorded) *)
(** Ghost history: commit timestamp of every transaction whose commit succeeded. *)
Definition gstep (cg : coord * list (N * N)) (o : cop) : coord * list (N * N) :=
  let '(c, g) := cg in
  match o with
  | CCommit id => match commit c id with
                  | (c', COk) => (c', (id, c_counter c) :: g)
                  | (c', _) => (c', g)
                  end
  | _ => (cstep c o, g)
  end.

Lemma gstep_fst cg o : fst (gstep cg o) = cstep (fst cg) o.
Proof. destruct cg as [c g]. destruct o; cbn [gstep cstep fst]; try reflexivity. destruct (commit c id) as [c' []]; reflexivity. Qed.

Lemma find_commit_set k k' ts l :
  find_commit k (set_commit k' ts l) = if key_eqb k k' then Some ts else find_commit k l.
Proof.
  unfold set_commit. cbn [find_commit]. destruct (key_eqb k k') eqn:E; [reflexivity|].
  induction l as [|[k2 t2] l IH]; cbn [filter find_commit fst]; [reflexivity|].
  destruct (key_eqb k' k2) eqn:E2; cbn [negb].
  - (* dropped entry: k2 = k' <> k *)
    rewrite IH. destruct (key_eqb k k2) eqn:E3; [|reflexivity].
    exfalso. unfold key_eqb in *. destruct k, k', k2. cbn in *.
    apply andb_true_iff in E2, E3. destruct E2, E3.
    apply N.eqb_eq in H, H0, H1, H2. subst. rewrite !N.eqb_refl in E. discriminate.
  - cbn [find_commit]. destruct (key_eqb k k2); [reflexivity|exact IH].
Qed.

Lemma key_eqb_refl k : key_eqb k k = true.
Proof. unfold key_eqb. now rewrite !N.eqb_refl. Qed.
Lemma key_eqb_eq k k' : key_eqb k k' = true -> k = k'.
Proof.
  unfold key_eqb. destruct k, k'. cbn. intros H. apply andb_true_iff in H. destruct H as [A B].
  apply N.eqb_eq in A, B. now subst.
Qed.

(** After the commit of a write set at [ts], every key of it maps to [ts]; other keys keep theirs. *)
Lemma fold_set_commit ws : forall ts l k,
  find_commit k (fold_left (fun acc k => set_commit k ts acc) ws l)
  = if existsb (key_eqb k) ws then Some ts else find_commit k l.
Proof.
  induction ws as [|w ws IH]; intros ts l k; cbn [fold_left existsb]; [reflexivity|].
  rewrite IH, find_commit_set. destruct (key_eqb k w) eqn:E; cbn [orb].
  - destruct (existsb (key_eqb k) ws); reflexivity.
  - reflexivity.
Qed.

Record GInv (c : coord) (g : list (N * N)) : Prop := {
  gi_ts : forall id ts, In (id, ts) g -> ts < c_counter c;
  gi_keys : forall id ts, In (id, ts) g ->
            exists x, find_tx id (c_txs c) = Some x /\ x_state x <> Active /\
              forall k, existsb (key_eqb k) (x_wset x) = true ->
                        exists ts', find_commit k (c_tuple_commits c) = Some ts' /\ ts <= ts';
  gi_tc : forall k ts, find_commit k (c_tuple_commits c) = Some ts -> ts < c_counter c;
  gi_start : forall id x, find_tx id (c_txs c) = Some x -> x_start x <= c_counter c
}.

Lemma ginit : GInv init_coord [].
Proof. constructor; cbn; try contradiction; try discriminate. Qed.

Lemma gstep_inv c g o : CInv c -> GInv c g -> o <> CVacuum ->
  GInv (fst (gstep (c, g) o)) (snd (gstep (c, g) o)).
Proof.
  intros HC [Hts Hk Htc Hst] Hnv. destruct o as [|id|id|id t r|]; [| | | |contradiction].
  - (* begin *)
    cbn [gstep cstep fst snd]. unfold begin. cbn [fst].
    constructor; cbn [c_txs c_counter c_tuple_commits].
    + exact Hts.
    + intros i ts Hin. destruct (Hk i ts Hin) as (x & Hf & Hs & Hw). exists x. split; [|split; assumption].
      rewrite find_app, Hf. reflexivity.
    + exact Htc.
    + intros i x Hf. rewrite find_app in Hf. destruct (find_tx i (c_txs c)) eqn:E.
      * injection Hf as <-. eapply Hst; eassumption.
      * cbn [find_tx] in Hf. destruct (c_last_created c =? i); [injection Hf as <-; cbn; lia|discriminate].
  - (* commit *)
    cbn [gstep]. unfold commit.
    destruct (find_tx id (c_txs c)) as [x|] eqn:Ef; [|cbn [fst snd]; now constructor].
    destruct (x_state x) eqn:Es; try (cbn [fst snd]; now constructor).
    destruct (existsb _ (x_wset x)) eqn:Econf; cbn [fst snd].
    + (* conflict: state -> Aborted *)
      constructor; cbn [with_txs c_txs c_counter c_tuple_commits]; try assumption.
      * intros i ts Hin. destruct (Hk i ts Hin) as (y & Hf & Hs & Hw).
        destruct (N.eq_dec i id) as [->|Hne]; [congruence|].
        exists y. rewrite find_set_other by exact Hne. split; [exact Hf|split; assumption].
      * intros i y Hy. destruct (N.eq_dec i id) as [->|Hne].
        -- rewrite find_set_same in Hy by congruence. injection Hy as <-. cbn. eapply Hst; eassumption.
        -- rewrite find_set_other in Hy by exact Hne. eapply Hst; eassumption.
    + (* success *)
      constructor; cbn [c_txs c_counter c_tuple_commits].
      * intros i ts [Heq|Hin]; [injection Heq as <- <-; lia|]. pose proof (Hts i ts Hin). lia.
      * intros i ts [Heq|Hin].
        -- injection Heq as <- <-. eexists. rewrite find_set_same by congruence. split; [reflexivity|].
           split; [discriminate|]. cbn [x_wset]. intros k Hkin. exists (c_counter c).
           rewrite fold_set_commit, Hkin. split; [reflexivity|lia].
        -- destruct (Hk i ts Hin) as (y & Hf & Hs & Hw).
           destruct (N.eq_dec i id) as [->|Hne]; [congruence|].
           exists y. rewrite find_set_other by exact Hne. split; [exact Hf|]. split; [exact Hs|].
           intros k Hkin. destruct (Hw k Hkin) as (ts' & Hf' & Hle).
           rewrite fold_set_commit. destruct (existsb (key_eqb k) (x_wset x)).
           ++ exists (c_counter c). split; [reflexivity|]. pose proof (Htc k ts' Hf'). lia.
           ++ exists ts'. split; assumption.
      * intros k ts. rewrite fold_set_commit. destruct (existsb (key_eqb k) (x_wset x)).
        -- intros H. injection H as <-. lia.
        -- intros H. pose proof (Htc k ts H). lia.
      * intros i y Hy. destruct (N.eq_dec i id) as [->|Hne].
        -- rewrite find_set_same in Hy by congruence. injection Hy as <-. cbn. pose proof (Hst id x Ef). lia.
        -- rewrite find_set_other in Hy by exact Hne. pose proof (Hst i y Hy). lia.
  - (* abort *)
    cbn [gstep cstep fst snd]. unfold abort.
    destruct (find_tx id (c_txs c)) as [x|] eqn:Ef; cbn [fst]; [|now constructor].
    constructor; cbn [with_txs c_txs c_counter c_tuple_commits]; try assumption.
    + intros i ts Hin. destruct (Hk i ts Hin) as (y & Hf & Hs & Hw).
      destruct (N.eq_dec i id) as [->|Hne].
      * rewrite Ef in Hf. injection Hf as <-. eexists. rewrite find_set_same by congruence.
        split; [reflexivity|]. split; [discriminate|exact Hw].
      * exists y. rewrite find_set_other by exact Hne. split; [exact Hf|split; assumption].
    + intros i y Hy. destruct (N.eq_dec i id) as [->|Hne].
      * rewrite find_set_same in Hy by congruence. injection Hy as <-. cbn. eapply Hst; eassumption.
      * rewrite find_set_other in Hy by exact Hne. eapply Hst; eassumption.
  - (* record_write *)
    cbn [gstep cstep fst snd]. unfold record_write.
    destruct (find_tx id (c_txs c)) as [x|] eqn:Ef; cbn [fst]; [|now constructor].
    destruct (x_state x) eqn:Es; cbn [fst]; try now constructor.
    constructor; cbn [with_txs c_txs c_counter c_tuple_commits]; try assumption.
    + intros i ts Hin. destruct (Hk i ts Hin) as (y & Hf & Hs & Hw).
      destruct (N.eq_dec i id) as [->|Hne]; [congruence|].
      exists y. rewrite find_set_other by exact Hne. split; [exact Hf|split; assumption].
    + intros i y Hy. destruct (N.eq_dec i id) as [->|Hne].
      * rewrite find_set_same in Hy by congruence. injection Hy as <-. cbn. eapply Hst; eassumption.
      * rewrite find_set_other in Hy by exact Hne. eapply Hst; eassumption.
Qed.

Lemma greach ops : no_vacuum ops ->
  let cg := fold_left gstep ops (init_coord, []) in CInv (fst cg) /\ GInv (fst cg) (snd cg).
Proof.
  intros Hnv.
  assert (G : forall c g, CInv c -> GInv c g ->
            let cg := fold_left gstep ops (c, g) in CInv (fst cg) /\ GInv (fst cg) (snd cg)).
  { induction ops as [|o ops IH]; intros c g HC HG; cbn [fold_left]; [split; assumption|].
    inversion Hnv as [|? ? Ho Hops]; subst.
    pose proof (gstep_inv c g o HC HG Ho) as HG'.
    pose proof (step_inv c o HC Ho) as HC'. assert (cstep c o = fst (gstep (c, g) o)) as E by (symmetry; apply (gstep_fst (c, g) o)).
    rewrite E in HC'.
    destruct (gstep (c, g) o) as [c' g']. apply IH; assumption. }
  apply G; [apply init_inv|apply ginit].
Qed.

(** If [id2] commits successfully and an earlier successful committer [id1] wrote a common tuple,
    then [id1]'s commit happened strictly before [id2] began (they were not concurrent). *)
Theorem first_committer_wins ops id1 ts1 id2 x2 c' k : no_vacuum ops ->
  let cg := fold_left gstep ops (init_coord, []) in
  In (id1, ts1) (snd cg) -> id1 <> id2 ->
  find_tx id2 (c_txs (fst cg)) = Some x2 ->
  commit (fst cg) id2 = (c', COk) ->
  (exists x1, find_tx id1 (c_txs (fst cg)) = Some x1 /\ existsb (key_eqb k) (x_wset x1) = true) ->
  existsb (key_eqb k) (x_wset x2) = true ->
  ts1 < x_start x2.
Proof.
  intros Hnv. pose proof (greach ops Hnv) as [HC HG]. cbn zeta in *.
  destruct (fold_left gstep ops (init_coord, [])) as [c g]. cbn [fst snd] in *.
  intros Hin Hne Hf2 Hcommit (x1 & Hf1 & Hk1) Hk2.
  destruct HG as [Hts Hk Htc Hst].
  destruct (Hk id1 ts1 Hin) as (y & Hy & _ & Hw). rewrite Hf1 in Hy. injection Hy as <-.
  destruct (Hw k Hk1) as (ts' & Hf' & Hle).
  unfold commit in Hcommit. rewrite Hf2 in Hcommit.
  destruct (x_state x2); try discriminate.
  destruct (existsb _ (x_wset x2)) eqn:Econf; [discriminate|].
  (* no conflict: every key of x2's write set has no commit at or after x2's start *)
  assert (forall kk, existsb (key_eqb kk) (x_wset x2) = true ->
            match find_commit kk (c_tuple_commits c) with Some ts => (x_start x2 <=? ts) = false | None => True end) as Hall.
  { intros kk Hkk. apply existsb_exists in Hkk. destruct Hkk as (w & Hw_in & Hw_eq).
    apply key_eqb_eq in Hw_eq. subst w.
    destruct (find_commit kk (c_tuple_commits c)) as [ts|] eqn:E; [|exact I].
    destruct (x_start x2 <=? ts) eqn:E2; [|reflexivity].
    exfalso. assert (existsb (fun k0 => match find_commit k0 (c_tuple_commits c) with
                                       | Some ts0 => x_start x2 <=? ts0 | None => false end) (x_wset x2) = true) as Hc.
    { apply existsb_exists. exists kk. split; [exact Hw_in|]. now rewrite E. }
    congruence. }
  specialize (Hall k Hk2). rewrite Hf' in Hall. lia.
Qed.
