(** Soundness of the page-ownership checker. *)
From Axv Require Import Base.Bytes Model.Pages.
From Coq Require Import Lia ZifyBool ZifyN ZifyNat.
Open Scope N_scope.

Lemma count_app x l1 l2 : countN x (l1 ++ l2) = (countN x l1 + countN x l2)%nat.
Proof. unfold countN. apply count_occ_app. Qed.

Lemma count_pos x l : In x l <-> (countN x l > 0)%nat.
Proof. unfold countN. apply count_occ_In. Qed.

Lemma count_nodup l : (forall x, In x l -> countN x l = 1%nat) -> NoDup l.
Proof.
  intros H. apply (NoDup_count_occ' N.eq_dec). exact H.
Qed.

(** What an accepted dump guarantees: every page other than the header has exactly one owner -
    it is a tree node, or a link of an overflow chain, or a member of the free list, and never two
    of these nor the same twice - and no owner claims a page outside the file. *)
Theorem owned_sound total tree ovf free : ownedb total tree ovf free = true ->
  (forall i, 1 <= i < total ->
     (In i tree /\ ~ In i ovf /\ ~ In i free) \/ (~ In i tree /\ In i ovf /\ ~ In i free) \/ (~ In i tree /\ ~ In i ovf /\ In i free))
  /\ NoDup tree /\ NoDup ovf /\ NoDup free
  /\ (forall x, In x (tree ++ ovf ++ free) -> 1 <= x < total).
Proof.
  unfold ownedb. intros H. apply andb_true_iff in H. destruct H as [H1 H2].
  rewrite forallb_forall in H1, H2.
  assert (forall x, In x (tree ++ ovf ++ free) -> 1 <= x < total) as Hrange.
  { intros x Hx. specialize (H2 x Hx). lia. }
  assert (forall i, 1 <= i < total -> countN i (tree ++ ovf ++ free) = 1%nat) as Hone.
  { intros i Hi. apply Nat.eqb_eq. apply H1. apply in_map_iff. exists (N.to_nat i). split; [lia|].
    apply in_seq. lia. }
  split; [|split; [|split; [|split]]]; try exact Hrange.
  - intros i Hi. specialize (Hone i Hi). rewrite !count_app in Hone.
    destruct (Nat.eq_dec (countN i tree) 0) as [Et|Et], (Nat.eq_dec (countN i ovf) 0) as [Eo|Eo],
             (Nat.eq_dec (countN i free) 0) as [Ef|Ef]; try lia.
    + right. right. rewrite !count_pos. lia.
    + right. left. rewrite !count_pos. lia.
    + left. rewrite !count_pos. lia.
  - apply count_nodup. intros x Hx.
    assert (1 <= x < total) as Hr by (apply Hrange; apply in_or_app; now left).
    specialize (Hone x Hr). rewrite !count_app in Hone. apply count_pos in Hx. lia.
  - apply count_nodup. intros x Hx.
    assert (1 <= x < total) as Hr by (apply Hrange; apply in_or_app; right; apply in_or_app; now left).
    specialize (Hone x Hr). rewrite !count_app in Hone. apply count_pos in Hx. lia.
  - apply count_nodup. intros x Hx.
    assert (1 <= x < total) as Hr by (apply Hrange; apply in_or_app; right; apply in_or_app; now right).
    specialize (Hone x Hr). rewrite !count_app in Hone. apply count_pos in Hx. lia.
Qed.

(** The free list, being duplicate-free, is acyclic; its recorded ends are its real ends. *)
Theorem free_list_sound head tail free : free_list_okb head tail free = true ->
  match free with
  | [] => head = None /\ tail = None
  | x :: _ => head = Some x /\ tail = Some (last free 0)
  end.
Proof.
  unfold free_list_okb. destruct free as [|x r].
  - destruct head, tail; try discriminate. now split.
  - destruct head as [h|], tail as [t|]; try discriminate. intros H. apply andb_true_iff in H.
    destruct H as [A B]. apply N.eqb_eq in A, B. subst. now split.
Qed.
