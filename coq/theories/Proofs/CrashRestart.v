(** Recovery can be repeated: its result is a clean image on which a further open changes nothing, and a recovery
    that is interrupted before its checkpoint reaches the data file leaves an image from which the next recovery
    computes the same contents (C08), to any nesting depth. *)
From Coq Require Import List NArith Bool Lia Sorted.
From Axv Require Import Model.Crash Proofs.CrashFold Proofs.CrashAnalysis Proofs.CrashRecover.
Import ListNotations.
Open Scope N_scope.

Section Restart.
  Context {db op : Type}.
  Variable apply : op -> db -> db.
  Variable init : db.
  Notation disk := (disk (op := op)).
  Notation rec := (rec (op := op)).

  (** ** opening an image whose log is empty changes nothing *)
  Theorem clean_open_noop (d : disk) :
    WF d -> d_log d = [] -> recovered_view apply init d = view apply init (d_hdr d) (d_hist d).
  Proof.
    intros Hwf Hlog. rewrite (recover_view apply init d Hwf).
    - unfold durable_contents, view, view_from. rewrite Hlog. cbn [tagged_ops]. rewrite app_nil_r.
      apply fold_apply_if_ext. intros x Hx. unfold durable_d, visible.
      pose proof (w_hist d Hwf x Hx) as Hlt. apply N.ltb_lt in Hlt. rewrite Hlt.
      destruct (w_vis d Hwf x Hx) as [Hle|Hab].
      + apply N.leb_le in Hle. rewrite Hle. reflexivity.
      + rewrite Hab. cbn [negb]. rewrite andb_false_r. reflexivity.
    - unfold winners_commute. rewrite Hlog. exact I.
  Qed.

  Lemma recover_wf (d : disk) : WF d -> WF (recover d).
  Proof.
    intro Hwf. destruct (recovery_tid_fresh d) as [Hr Hlog].
    constructor; unfold recover; cbn [d_hist d_hdr d_log h_created h_committed h_aborted].
    - intros p Hp. apply in_app_or in Hp. destruct Hp as [Hp|Hp].
      + pose proof (w_hist d Hwf p Hp). lia.
      + apply in_map_iff in Hp. destruct Hp as [o [E _]]. subst p. cbn [fst]. lia.
    - intros t Ht. rewrite memN_app in Ht. apply orb_true_iff in Ht. destruct Ht as [Ht|Ht].
      + pose proof (w_ab d Hwf t Ht). lia.
      + apply memN_true in Ht. apply filter_In in Ht. destruct Ht as [Ht _]. apply memN_true in Ht.
        rewrite seen_spec in Ht. unfold seen in Ht. apply existsb_exists in Ht. destruct Ht as [x [Hx Ex]].
        apply N.eqb_eq in Ex. specialize (Hlog x Hx). lia.
    - intros r [].
    - intros t H. discriminate.
    - intros p Hp. left. assert (fst p <= recovery_tid d).
      { apply in_app_or in Hp. destruct Hp as [Hp|Hp].
        - pose proof (w_hist d Hwf p Hp). lia.
        - apply in_map_iff in Hp. destruct Hp as [o [E _]]. subst p. cbn [fst]. lia. }
      destruct (h_committed (d_hdr d) <? recovery_tid d) eqn:E; [lia|apply N.ltb_ge in E; lia].
  Qed.

  Theorem recover_idempotent (d : disk) :
    WF d -> d_log (recover d) = [] /\ recovered_view apply init (recover d) = recovered_view apply init d.
  Proof.
    intro Hwf. split; [reflexivity|].
    rewrite (clean_open_noop (recover d) (recover_wf d Hwf) eq_refl). reflexivity.
  Qed.

  Lemma firstn_in {A} (n : nat) (l : list A) x : In x (firstn n l) -> In x l.
  Proof.
    revert l. induction n as [|n IH]; intros l H; [destruct H|].
    destruct l as [|y l]; [destruct H|]. destruct H as [E|H]; [left; exact E|right; apply IH; exact H].
  Qed.

  (** ** an interrupted recovery *)
  Lemma ext_records (d : disk) n x :
    In x (firstn n (recovery_records d)) -> fst x = recovery_tid d /\ (is_begin (snd x) = true \/ is_op (snd x) = true).
  Proof.
    intro H. apply firstn_in in H. unfold recovery_records in H. destruct H as [E|H].
    - subst x. split; [reflexivity|left; reflexivity].
    - apply in_map_iff in H. destruct H as [o [E _]]. subst x. split; [reflexivity|right; reflexivity].
  Qed.

  Lemma has_ext_false (d : disk) n k t :
    (forall y, is_begin y = true \/ is_op y = true -> k y = false) -> has k t (firstn n (recovery_records d)) = false.
  Proof.
    intro Hk. destruct (has k t (firstn n (recovery_records d))) eqn:E; [|reflexivity].
    unfold has in E. apply existsb_exists in E. destruct E as [x [Hx E]]. apply andb_true_iff in E.
    destruct (ext_records d n x Hx) as [_ Hkind]. rewrite (Hk _ Hkind) in E. destruct E. discriminate.
  Qed.

  Lemma commit_interrupted (d : disk) n t : has is_commit t (d_log (interrupted d n)) = has is_commit t (d_log d).
  Proof.
    unfold interrupted. cbn [d_log]. rewrite has_app, has_ext_false; [apply orb_false_r|].
    intros y [H|H]; destruct y; try discriminate; reflexivity.
  Qed.

  Lemma abort_interrupted (d : disk) n t : has is_abort t (d_log (interrupted d n)) = has is_abort t (d_log d).
  Proof.
    unfold interrupted. cbn [d_log]. rewrite has_app, has_ext_false; [apply orb_false_r|].
    intros y [H|H]; destruct y; try discriminate; reflexivity.
  Qed.

  Lemma no_commit_fresh (d : disk) : has is_commit (recovery_tid d) (d_log d) = false.
  Proof.
    destruct (has is_commit (recovery_tid d) (d_log d)) eqn:E; [|reflexivity].
    unfold has in E. apply existsb_exists in E. destruct E as [x [Hx E]]. apply andb_true_iff in E. destruct E as [E _].
    apply N.eqb_eq in E. destruct (recovery_tid_fresh d) as [_ H]. specialize (H x Hx). lia.
  Qed.

  Lemma interrupted_wf (d : disk) n : WF d -> WF (interrupted d n).
  Proof.
    intro Hwf. constructor; try (unfold interrupted; cbn [d_hist d_hdr]; apply Hwf).
    - unfold interrupted. cbn [d_log d_hdr]. intros r Hr He. apply in_app_or in Hr. destruct Hr as [Hr|Hr].
      + apply (w_log d Hwf r Hr He).
      + destruct (ext_records d n r Hr) as [E _]. rewrite E. apply recovery_tid_fresh.
    - intros t H. rewrite commit_interrupted in H. rewrite abort_interrupted. apply (w_dec d Hwf t H).
  Qed.

  Lemma tagged_ext_filtered (d : disk) n (f : N -> bool) :
    f (recovery_tid d) = false ->
    filter (fun p => f (fst p)) (tagged_ops (firstn n (recovery_records d))) = [].
  Proof.
    intro Hf. assert (H : forall x, In x (firstn n (recovery_records d)) -> fst x = recovery_tid d).
    { intros x Hx. apply (ext_records d n x Hx). }
    induction (firstn n (recovery_records d)) as [|[t k] l IH]; [reflexivity|].
    assert (IH' := IH (fun x Hx => H x (or_intror Hx))).
    destruct k; cbn [tagged_ops]; try exact IH'.
    cbn [filter fst]. pose proof (H (t, KOp o) (or_introl eq_refl)) as Et. cbn [fst] in Et. rewrite Et, Hf. exact IH'.
  Qed.

  Lemma interrupted_commute (d : disk) n : winners_commute apply d -> winners_commute apply (interrupted d n).
  Proof.
    unfold winners_commute. intro H.
    assert (E : filter (fun p => has is_commit (fst p) (d_log (interrupted d n))) (tagged_ops (d_log (interrupted d n)))
                = filter (fun p => has is_commit (fst p) (d_log d)) (tagged_ops (d_log d))).
    { rewrite (filter_ext _ (fun p => has is_commit (fst p) (d_log d)) (fun p => commit_interrupted d n (fst p))).
      unfold interrupted. cbn [d_log]. rewrite tagged_app, filter_app.
      rewrite (tagged_ext_filtered d n (fun t => has is_commit t (d_log d)) (no_commit_fresh d)). apply app_nil_r. }
    rewrite E. exact H.
  Qed.

  Theorem recovery_restartable (d : disk) (n : nat) :
    WF d -> winners_commute apply d ->
    recovered_view apply init (interrupted d n) = recovered_view apply init d.
  Proof.
    intros Hwf Hc.
    rewrite (recover_view apply init _ (interrupted_wf d n Hwf) (interrupted_commute d n Hc)).
    rewrite (recover_view apply init d Hwf Hc).
    unfold durable_contents. unfold interrupted at 2 3. cbn [d_hist d_log].
    rewrite tagged_app, app_assoc, fold_left_app.
    assert (Ed : forall t, durable_d (interrupted d n) t = durable_d d t).
    { intro t. unfold durable_d. rewrite commit_interrupted. reflexivity. }
    rewrite (fold_apply_if_ext apply (durable_d (interrupted d n)) (durable_d d) _ (fun x _ => Ed (fst x))).
    rewrite fold_apply_if_filter.
    rewrite (tagged_ext_filtered d n (durable_d d)).
    - cbn [map fold_ops fold_left]. apply fold_apply_if_ext. intros x _. apply Ed.
    - unfold durable_d. destruct (recovery_tid_fresh d) as [Hr _].
      replace (recovery_tid d <? h_created (d_hdr d)) with false by (symmetry; apply N.ltb_ge; exact Hr).
      apply no_commit_fresh.
  Qed.

  (** nested to depth two (and, by the same argument, to any depth) *)
  Theorem recovery_restartable_twice (d : disk) (n m : nat) :
    WF d -> winners_commute apply d ->
    recovered_view apply init (interrupted (interrupted d n) m) = recovered_view apply init d.
  Proof.
    intros Hwf Hc.
    rewrite (recovery_restartable (interrupted d n) m (interrupted_wf d n Hwf) (interrupted_commute d n Hc)).
    apply recovery_restartable; assumption.
  Qed.
End Restart.
