(** Proofs about the page allocator model (Model/FreeList.v): along every sequence of engine
    operations the free list is an acyclic list with the recorded head and tail, every page other
    than page zero is either handed out or on the free list and never both, and allocation takes
    from the free list before it extends the file. *)
From Coq Require Import List ZArith NArith Bool Lia ZifyBool ZifyN PeanoNat.
From Axv Require Import Model.FreeList.
Import ListNotations.
Open Scope N_scope.

Lemma get_set_same m p v : get (set m p v) p = v.
Proof. unfold get, set. cbn [find fst]. now rewrite N.eqb_refl. Qed.
Lemma get_set_other m p q v : p <> q -> get (set m p v) q = get m q.
Proof. intros H. unfold get, set. cbn [find fst]. destruct (N.eqb_spec p q); [contradiction|reflexivity]. Qed.

Lemma mem_n_In p l : mem_n p l = true <-> In p l.
Proof.
  unfold mem_n. rewrite existsb_exists. split.
  - intros (x & Hx & E). apply N.eqb_eq in E. now subst.
  - intros H. exists p. split; auto. apply N.eqb_refl.
Qed.
Lemma remove_n_In x p l : In x (remove_n p l) <-> In x l /\ x <> p.
Proof. unfold remove_n. rewrite filter_In, negb_true_iff, N.eqb_neq. tauto. Qed.
Lemma remove_n_NoDup p l : NoDup l -> NoDup (remove_n p l).
Proof. apply NoDup_filter. Qed.

Lemma NoDup_snoc {A} (l : list A) p : NoDup l -> ~ In p l -> NoDup (l ++ [p]).
Proof.
  induction l as [|x r IH]; intros Hn Hp; cbn.
  - constructor; [auto|constructor].
  - inversion Hn; subst. constructor.
    + rewrite in_app_iff. cbn. intros [H|[<-|[]]]; auto. apply Hp. now left.
    + apply IH; auto. intro; apply Hp; now right.
Qed.

Fixpoint lseg_to (m : hdr) (cur : option N) (fl : list N) (stop : option N) : Prop :=
  match fl with
  | [] => cur = stop
  | x :: r => cur = Some x /\ lseg_to m (get m x) r stop
  end.

Lemma lseg_to_set_notin m p v a : forall cur stop, ~ In p a -> (lseg_to (set m p v) cur a stop <-> lseg_to m cur a stop).
Proof.
  induction a as [|x r IH]; intros cur stop Hn; cbn [lseg_to]; [tauto|].
  rewrite get_set_other by (intros ->; apply Hn; now left). rewrite IH by (intro; apply Hn; now right). tauto.
Qed.
Lemma lseg_to_app m a : forall cur l stop, lseg_to m cur a (Some l) -> get m l = stop -> lseg_to m cur (a ++ [l]) stop.
Proof.
  induction a as [|x r IH]; intros cur l stop H Hg; cbn [lseg_to app] in *.
  - split; auto.
  - destruct H as [-> H]. split; auto.
Qed.
Lemma walk_lseg m fl : forall fuel cur, lseg_to m cur fl None -> (length fl <= fuel)%nat -> walk fuel m cur = fl.
Proof.
  induction fl as [|x r IH]; intros fuel cur H Hl; cbn [lseg_to length] in *.
  - subst. destruct fuel; reflexivity.
  - destruct H as [-> H]. destruct fuel as [|f]; [lia|]. cbn [walk]. f_equal. apply IH; auto. lia.
Qed.

Definition Rep (s : fstate) (fl : list N) (pend : option N) : Prop :=
  (fl = [] /\ first s = None /\ last s = None /\ pend = None) \/
  (exists fl0 l, fl = fl0 ++ [l] /\ lseg_to (nxt s) (first s) fl0 (Some l) /\ last s = Some l /\ get (nxt s) l = pend).

Record FInv (s : fstate) (fl : list N) : Prop := {
  f_nd : NoDup fl;
  f_ndu : NoDup (used s);
  f_free : forall x, In x fl -> 0 < x < total s /\ ~ In x (used s);
  f_used : forall u, In u (used s) -> 0 < u < total s;
  f_cover : forall p, 0 < p < total s -> In p fl \/ In p (used s);
  f_tot : 1 <= total s
}.

Lemma rep_first_some s fl0 l : lseg_to (nxt s) (first s) fl0 (Some l) -> exists x, first s = Some x.
Proof. destruct fl0; cbn [lseg_to]; [eauto|]. intros [-> _]. eauto. Qed.

(** ** allocation *)
Lemma alloc_ok s fl : FInv s fl -> Rep s fl None ->
  exists fl', FInv (fst (alloc s)) fl' /\ Rep (fst (alloc s)) fl' None /\
              match fl with [] => snd (alloc s) = FId (total s) | x :: r => snd (alloc s) = FId x /\ fl' = r /\ total (fst (alloc s)) = total s end.
Proof.
  intros HI [(-> & Hf & Hl & _)|(fl0 & l & -> & Hseg & Hl & Hg)].
  - unfold alloc. rewrite Hf. cbn [fst snd]. exists []. split; [|split; [left; cbn; auto|reflexivity]].
    destruct HI as [A B C D E T]. constructor; cbn [used total].
    + constructor.
    + constructor; auto. intros Hin. apply D in Hin. lia.
    + intros x [].
    + intros u [<-|Hu]; [lia|]. apply D in Hu. lia.
    + intros p Hp. right. destruct (N.eq_dec p (total s)) as [->|]; [now left|]. right.
      destruct (E p) as [[]|]; auto. lia.
    + lia.
  - destruct HI as [A B C D E T]. destruct fl0 as [|x r0]; cbn [lseg_to app] in *.
    + (* the free list is [l] *)
      unfold alloc. rewrite Hseg, Hl. cbn [opt_eqb]. rewrite N.eqb_refl, Hg. cbn [fst snd]. exists [].
      split; [|split; [left; cbn; auto|auto]].
      destruct (C l (or_introl eq_refl)) as [Hb Hnu].
      constructor; cbn [used total].
      * constructor.
      * constructor; auto.
      * intros x [].
      * intros u [<-|Hu]; auto.
      * intros p Hp. right. destruct (E p Hp) as [[<-|[]]|]; [now left|now right].
      * exact T.
    + destruct Hseg as [Hf Hseg]. unfold alloc. rewrite Hf, Hl. cbn [opt_eqb].
      inversion A as [|? ? Hx A']; subst.
      assert (Hxl : l <> x) by (intros ->; apply Hx; apply in_or_app; right; now left).
      destruct (N.eqb_spec l x); [contradiction|]. cbn [fst snd]. exists (r0 ++ [l]).
      split; [|split; [|auto]].
      * destruct (C x (or_introl eq_refl)) as [Hb Hnu].
        constructor; cbn [used total].
        -- exact A'.
        -- constructor; auto.
        -- intros y Hy. destruct (C y (or_intror Hy)) as [? Hn]. split; auto. intros [<-|Hu]; auto.
        -- intros u [<-|Hu]; auto.
        -- intros p Hp. destruct (E p Hp) as [[<-|Hin]|]; [right; now left|now left|right; now right].
        -- exact T.
      * right. exists r0, l. cbn [first last nxt]. repeat split; auto.
        -- apply lseg_to_set_notin; auto. intros Hin. apply Hx. apply in_or_app. now left.
        -- rewrite get_set_other by congruence. exact Hg.
Qed.

(** ** returning one page (the pointer surgery; [pend] is whatever the freed page's own next is) *)
Lemma dealloc1_ok s fl pend p fresh : FInv s fl -> Rep s fl pend -> In p (used s) -> p <> 0 ->
  FInv (dealloc1 s p fresh) (fl ++ [p]) /\
  Rep (dealloc1 s p fresh) (fl ++ [p]) (if fresh then None else get (nxt s) p).
Proof.
  intros [A B C D E T] HR Hp Hp0.
  assert (Hpf : ~ In p fl) by (intros Hin; apply C in Hin; tauto).
  split.
  - constructor; unfold dealloc1; cbn [used total].
    + now apply NoDup_snoc.
    + now apply remove_n_NoDup.
    + intros x Hx. rewrite remove_n_In. apply in_app_or in Hx. destruct Hx as [Hx|[<-|[]]].
      * destruct (C x Hx). split; auto. tauto.
      * split; [apply D; auto|]. tauto.
    + intros u Hu. apply remove_n_In in Hu. apply D. tauto.
    + intros q Hq. rewrite in_app_iff, remove_n_In. cbn [In]. destruct (N.eq_dec q p) as [->|Hne]; [left; right; now left|].
      destruct (E q Hq); [left; now left|right; tauto].
    + exact T.
  - right. exists fl, p. split; [reflexivity|].
    destruct HR as [(-> & Hf & Hl & _)|(fl0 & l & -> & Hseg & Hl & Hg)]; unfold dealloc1; cbn [first last nxt]; rewrite Hl.
    + rewrite Hf. cbn [lseg_to]. repeat split; auto. destruct fresh; [apply get_set_same|reflexivity].
    + destruct (rep_first_some _ _ _ Hseg) as (x & Hx). rewrite Hx.
      assert (Hlp : l <> p) by (intros ->; apply Hpf; apply in_or_app; right; now left).
      assert (Hl0 : ~ In l fl0).
      { intros Hin. clear -A Hin. induction fl0 as [|y r IH]; [contradiction|]. cbn in A. inversion A; subst.
        destruct Hin as [->|Hin]; [apply H1; apply in_or_app; right; now left|auto]. }
      assert (Hp0' : ~ In p fl0) by (intro; apply Hpf; apply in_or_app; now left).
      repeat split; auto.
      * rewrite <- Hx. apply lseg_to_app.
        -- destruct fresh; [apply lseg_to_set_notin; auto|]; apply lseg_to_set_notin; auto.
        -- destruct fresh; [rewrite get_set_other by congruence|]; apply get_set_same.
      * destruct fresh; [apply get_set_same|]. now rewrite get_set_other by assumption.
Qed.

Lemma chain_ok_used m us ps : chain_ok m us ps = true -> forall q, In q ps -> In q us.
Proof.
  induction ps as [|p r IH]; intros H q Hq; [contradiction|]. cbn [chain_ok] in H.
  rewrite !andb_true_iff in H. destruct H as ((((Hu & _) & _) & _) & Hr). destruct Hq as [<-|Hq]; [now apply mem_n_In|auto].
Qed.
Lemma chain_ok_ext m m' us us' ps :
  (forall q, In q ps -> get m' q = get m q) -> (forall q, In q ps -> In q us -> In q us') ->
  chain_ok m us ps = true -> chain_ok m' us' ps = true.
Proof.
  induction ps as [|p r IH]; intros Hg Hu H; [reflexivity|]. cbn [chain_ok] in *.
  rewrite !andb_true_iff in *. destruct H as ((((H1 & H2) & H3) & H4) & H5).
  repeat split; auto.
  - apply mem_n_In. apply Hu; [now left|now apply mem_n_In].
  - rewrite (Hg p (or_introl eq_refl)). exact H4.
  - apply IH; auto. + intros q Hq. apply Hg. now right. + intros q Hq. apply Hu. now right.
Qed.

(** ** returning a chain, link by link *)
Lemma chain_fold ps : forall s fl pend, FInv s fl -> Rep s fl pend -> chain_ok (nxt s) (used s) ps = true ->
  (ps = [] -> pend = None) ->
  exists fl', FInv (fold_left (fun st p => dealloc1 st p false) ps s) fl' /\
              Rep (fold_left (fun st p => dealloc1 st p false) ps s) fl' None /\ fl' = fl ++ ps.
Proof.
  induction ps as [|p r IH]; intros s fl pend HI HR Hc Hpend; cbn [fold_left].
  - rewrite (Hpend eq_refl) in HR. exists fl. rewrite app_nil_r. auto.
  - cbn [chain_ok] in Hc. rewrite !andb_true_iff, !negb_true_iff in Hc. destruct Hc as ((((Hu & Hnr) & H0) & Hlink) & Hrest).
    apply mem_n_In in Hu. apply N.eqb_neq in H0.
    destruct (dealloc1_ok s fl pend p false HI HR Hu H0) as [HI1 HR1].
    assert (Hlast_free : forall l, last s = Some l -> ~ In l (used s)).
    { intros l Hl. destruct HR as [(_ & _ & Hn & _)|(fl0 & l' & -> & _ & Hl' & _)]; [congruence|].
      rewrite Hl in Hl'. injection Hl' as <-. apply (f_free s _ HI). apply in_or_app. right. now left. }
    assert (Hget : forall q, In q (used s) -> get (nxt (dealloc1 s p false)) q = get (nxt s) q).
    { intros q Hq. unfold dealloc1. cbn [nxt]. destruct (last s) as [l|] eqn:El; auto.
      apply get_set_other. intros ->. exact (Hlast_free q eq_refl Hq). }
    destruct (IH (dealloc1 s p false) (fl ++ [p]) (get (nxt s) p) HI1 HR1) as (fl' & A & B & C).
    + (* the rest of the chain is still a chain *)
      apply (chain_ok_ext (nxt s) _ (used s) _ r); auto.
      * intros q Hq. apply Hget. eapply chain_ok_used; eauto.
      * intros q Hq Hqu. unfold dealloc1. cbn [used]. apply remove_n_In. split; auto. intros ->.
        apply mem_n_In in Hq. congruence.
    + intros Hr. rewrite Hr in Hlink. destruct (get (nxt s) p); [discriminate|reflexivity].
    + exists fl'. split; [exact A|split; [exact B|]]. rewrite C, <- app_assoc. reflexivity.
Qed.

(** ** every engine operation, every sequence *)
Lemma fstep_ok s fl o : engine_op o = true -> FInv s fl -> Rep s fl None ->
  exists fl', FInv (fst (fstep s o)) fl' /\ Rep (fst (fstep s o)) fl' None.
Proof.
  intros He HI HR. destruct o as [|a b|p|p|ps]; cbn [fstep engine_op] in *; try discriminate.
  - destruct (alloc_ok s fl HI HR) as (fl' & A & B & _). eauto.
  - destruct (mem_n a (used s)) eqn:Ea; cbn [fst]; [|eauto]. apply mem_n_In in Ea. exists fl.
    destruct HI as [A B C D E T].
    assert (Hafl : ~ In a fl) by (intros Hin; apply C in Hin; tauto).
    split; [constructor; cbn [used total]; auto|].
    destruct HR as [(-> & Hf & Hl & _)|(fl0 & l & -> & Hseg & Hl & Hg)]; [left; cbn; auto|right].
    exists fl0, l. cbn [first last nxt]. repeat split; auto.
    + apply lseg_to_set_notin; auto. intro; apply Hafl; apply in_or_app; now left.
    + rewrite get_set_other; auto. intros ->. apply Hafl. apply in_or_app. right. now left.
  - destruct (mem_n p (used s) && negb (p =? 0)) eqn:Ep; cbn [fst]; [|eauto].
    apply andb_true_iff in Ep. destruct Ep as [Hu H0]. apply mem_n_In in Hu. apply negb_true_iff, N.eqb_neq in H0.
    destruct (dealloc1_ok s fl None p true HI HR Hu H0) as [A B]. eauto.
  - destruct (chain_ok (nxt s) (used s) ps) eqn:Ec; cbn [fst]; [|eauto].
    destruct (chain_fold ps s fl None HI HR Ec (fun _ => eq_refl)) as (fl' & A & B & _). eauto.
Qed.

Lemma frun_ok ops : forall s fl, forallb engine_op ops = true -> FInv s fl -> Rep s fl None ->
  exists fl', FInv (fst (frun s ops)) fl' /\ Rep (fst (frun s ops)) fl' None.
Proof.
  induction ops as [|o ops IH]; intros s fl He HI HR; cbn [frun]; [eauto|].
  cbn [forallb] in He. apply andb_true_iff in He. destruct He as [Ho Hops].
  destruct (fstep_ok s fl o Ho HI HR) as (fl1 & A & B).
  destruct (fstep s o) as [s1 a]. cbn [fst] in A, B.
  destruct (IH s1 fl1 Hops A B) as (fl2 & A2 & B2). destruct (frun s1 ops) as [s2 l]. cbn [fst] in *. eauto.
Qed.

Lemma finit_ok : FInv finit [] /\ Rep finit [] None.
Proof.
  split; [constructor; cbn; try constructor; try (intros ? []); try lia|left; cbn; auto].
Qed.

Lemma bounded_length (l : list N) t : NoDup l -> (forall x, In x l -> x < t) -> (length l <= N.to_nat t)%nat.
Proof.
  intros Hn Hb.
  assert (Hincl : incl l (map N.of_nat (seq 0 (N.to_nat t)))).
  { intros x Hx. apply in_map_iff. exists (N.to_nat x). split; [apply N2Nat.id|]. apply in_seq. specialize (Hb x Hx). lia. }
  pose proof (NoDup_incl_length Hn Hincl) as H. now rewrite map_length, seq_length in H.
Qed.

Definition last_opt (l : list N) : option N := match rev l with [] => None | x :: _ => Some x end.

Lemma rep_free_list s fl : FInv s fl -> Rep s fl None ->
  free_list s = fl /\ first s = hd_error fl /\ last s = last_opt fl.
Proof.
  intros HI HR.
  assert (Hlen : (length fl <= N.to_nat (total s))%nat).
  { apply bounded_length; [apply (f_nd s fl HI)|]. intros x Hx. apply (f_free s fl HI x Hx). }
  destruct HR as [(-> & Hf & Hl & _)|(fl0 & l & -> & Hseg & Hl & Hg)].
  - unfold free_list. rewrite Hf. cbn. destruct (N.to_nat (total s)); auto.
  - split; [|split].
    + unfold free_list. apply walk_lseg; auto. now apply lseg_to_app.
    + destruct fl0 as [|x r]; cbn [lseg_to app hd_error] in *; [exact Hseg|tauto].
    + unfold last_opt. now rewrite rev_unit.
Qed.

Theorem free_list_sound ops : forallb engine_op ops = true ->
  let s := fst (frun finit ops) in
  NoDup (free_list s) /\ NoDup (used s) /\
  (forall p, 0 < p < total s -> (In p (free_list s) /\ ~ In p (used s)) \/ (In p (used s) /\ ~ In p (free_list s))) /\
  (forall p, In p (free_list s) \/ In p (used s) -> 0 < p < total s) /\
  first s = hd_error (free_list s) /\ last s = last_opt (free_list s).
Proof.
  intros He s. destruct finit_ok as [A0 B0]. destruct (frun_ok ops finit [] He A0 B0) as (fl & HI & HR). fold s in HI, HR.
  destruct (rep_free_list s fl HI HR) as (-> & Hf & Hl). destruct HI as [A B C D E T].
  repeat split; auto.
  - intros p Hp. destruct (E p Hp) as [Hin|Hin]; [left|right]; split; auto.
    + now apply C.
    + intros Hf'. apply C in Hf'. tauto.
  - destruct H as [H|H]; [apply C in H|apply D in H]; lia.
  - destruct H as [H|H]; [apply C in H|apply D in H]; lia.
Qed.

Theorem free_pages_reused ops x r : forallb engine_op ops = true ->
  let s := fst (frun finit ops) in
  free_list s = x :: r ->
  snd (alloc s) = FId x /\ total (fst (alloc s)) = total s /\ free_list (fst (alloc s)) = r.
Proof.
  intros He s Hfl. destruct finit_ok as [A0 B0]. destruct (frun_ok ops finit [] He A0 B0) as (fl & HI & HR). fold s in HI, HR.
  destruct (rep_free_list s fl HI HR) as (Hfl' & _). rewrite Hfl in Hfl'. subst fl.
  destruct (alloc_ok s (x :: r) HI HR) as (fl' & A & B & (Hres & -> & Htot)).
  destruct (rep_free_list _ _ A B) as (Hf & _). auto.
Qed.
