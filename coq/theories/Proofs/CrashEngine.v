(** The running engine: an invariant of every reachable state (under the hypothesis that checkpoints happen while no
    transaction is open) from which the crash image is well-formed and the ghost bookkeeping (durable, acknowledged)
    agrees with what the disk says. *)
From Coq Require Import List NArith Bool Lia Sorted.
From Axv Require Import Model.Crash Proofs.CrashFold Proofs.CrashAnalysis Proofs.CrashRecover.
Import ListNotations.
Open Scope N_scope.

Section Engine.
  Context {db op : Type}.
  Variable apply : op -> db -> db.
  Variable init : db.
  Notation engine := (engine (op := op)).
  Notation rec := (rec (op := op)).
  Notation ev := (ev (op := op)).

  Definition L (e : engine) : list rec := d_log (e_disk e) ++ e_pending e.
  Definition dc (e : engine) : N := h_created (d_hdr (e_disk e)).
  Definition ec (e : engine) : N := h_created (e_hdr e).

  Record Inv (e : engine) : Prop := {
    i_hist : e_hist e = d_hist (e_disk e) ++ tagged_ops (L e);
    i_blog : forall r, In r (L e) -> fst r < ec e;
    i_bdhist : forall p, In p (d_hist (e_disk e)) -> fst p < dc e;
    i_created : dc e <= ec e;
    i_dab : forall t, memN t (h_aborted (d_hdr (e_disk e))) = true -> t < dc e;
    i_eab : forall t, memN t (h_aborted (e_hdr e)) = true -> t < ec e;
    i_act : forall t, memN t (e_active e) = true ->
              dc e <= t /\ t < ec e /\ memN t (g_durable e) = false /\ memN t (g_cpending e) = false /\
              has is_commit t (L e) = false /\ has is_abort t (L e) = false /\ memN t (h_aborted (e_hdr e)) = false;
    i_cpend : forall t, memN t (g_cpending e) = true ->
              dc e <= t /\ has is_commit t (e_pending e) = true /\ memN t (g_durable e) = false /\
              memN t (h_aborted (e_hdr e)) = false /\ t <= h_committed (e_hdr e);
    i_cpend2 : forall t, has is_commit t (e_pending e) = true -> memN t (g_cpending e) = true;
    i_post : forall r, In r (L e) -> is_end (snd r) = false -> dc e <= fst r;
    i_dec : forall t, has is_commit t (L e) = true -> has is_abort t (L e) = false;
    i_dur : forall t, memN t (g_durable e) = true ->
              (t < dc e \/ has is_commit t (d_log (e_disk e)) = true) /\
              memN t (h_aborted (e_hdr e)) = false /\ t <= h_committed (e_hdr e);
    i_cdlog : forall t, has is_commit t (d_log (e_disk e)) = true -> memN t (g_durable e) = true;
    i_dstat : forall p, In p (d_hist (e_disk e)) ->
              memN (fst p) (g_durable e) = negb (memN (fst p) (h_aborted (d_hdr (e_disk e)))) /\
              (fst p <= h_committed (d_hdr (e_disk e)) \/ memN (fst p) (h_aborted (d_hdr (e_disk e))) = true);
    i_stat : forall p, In p (e_hist e) ->
              memN (fst p) (e_active e) = true \/ memN (fst p) (g_durable e) = true \/
              memN (fst p) (g_cpending e) = true \/ memN (fst p) (h_aborted (e_hdr e)) = true;
    i_pops : forall t o, In (t, KOp o) (e_pending e) -> memN t (g_durable e) = false;
    i_ack : forall t, memN t (g_acked e) = true -> memN t (g_durable e) = true
  }.

  Lemma inv_init : Inv init_engine.
  Proof.
    constructor; cbn; try (intros; contradiction); try (intros; discriminate); try reflexivity; try lia.
  Qed.

  (** ** small facts *)
  Lemma has_snoc k t (l : list rec) r : has k t (l ++ [r]) = has k t l || ((fst r =? t) && k (snd r)).
  Proof. rewrite has_app. cbn [has existsb]. rewrite orb_false_r. reflexivity. Qed.

  Lemma has_in' k t (log : list rec) : has k t log = true -> exists x, In x log /\ fst x = t /\ k (snd x) = true.
  Proof.
    unfold has. rewrite existsb_exists. intros [x [Hx H]]. apply andb_true_iff in H. destruct H as [H1 H2].
    apply N.eqb_eq in H1. exists x. auto.
  Qed.

  Lemma has_intro k t (log : list rec) x : In x log -> fst x = t -> k (snd x) = true -> has k t log = true.
  Proof.
    intros Hx E Hk. unfold has. apply existsb_exists. exists x. split; [exact Hx|].
    rewrite E, N.eqb_refl, Hk. reflexivity.
  Qed.

  Lemma memN_snoc t l x : memN t (l ++ [x]) = memN t l || (t =? x).
  Proof. rewrite memN_app. cbn [memN existsb]. rewrite orb_false_r. reflexivity. Qed.

  Lemma tagged_snoc (l : list rec) r :
    tagged_ops (l ++ [r]) = tagged_ops l ++ match snd r with KOp o => [(fst r, o)] | _ => [] end.
  Proof. rewrite tagged_app. destruct r as [t k]. destruct k; reflexivity. Qed.

  Lemma L_push (e : engine) r : L (push e r) = L e ++ [r].
  Proof. unfold L, push. cbn [e_disk e_pending]. apply app_assoc. Qed.

  Lemma L_force (e : engine) : L (force e) = L e.
  Proof. unfold L, force. cbn [e_disk e_pending d_log]. apply app_nil_r. Qed.

  (** ** force *)
  Lemma inv_force (e : engine) : Inv e -> Inv (force e).
  Proof.
    intro H. pose proof (L_force e) as EL.
    constructor; rewrite ?EL; unfold dc, ec; cbn [force e_hist e_hdr e_active e_pending e_disk g_durable g_cpending g_acked d_hist d_hdr d_log].
    - apply (i_hist e H).
    - apply (i_blog e H).
    - apply (i_bdhist e H).
    - apply (i_created e H).
    - apply (i_dab e H).
    - apply (i_eab e H).
    - intros t Ht. destruct (i_act e H t Ht) as (A1 & A2 & A3 & A4 & A5 & A6 & A7).
      rewrite memN_app, A3, A4. repeat split; auto.
    - intros t Ht. discriminate.
    - intros t Ht. discriminate.
    - apply (i_post e H).
    - apply (i_dec e H).
    - intros t Ht. rewrite memN_app in Ht. apply orb_true_iff in Ht. rewrite has_app. destruct Ht as [Ht|Ht].
      + destruct (i_dur e H t Ht) as (A1 & A2 & A3). repeat split; auto.
        destruct A1 as [A1|A1]; [left; exact A1|right; rewrite A1; reflexivity].
      + destruct (i_cpend e H t Ht) as (A1 & A2 & A3 & A4 & A5). repeat split; auto.
        right. rewrite A2. apply orb_true_r.
    - intros t Ht. rewrite has_app in Ht. rewrite memN_app. apply orb_true_iff in Ht. destruct Ht as [Ht|Ht].
      + rewrite (i_cdlog e H t Ht). reflexivity.
      + rewrite (i_cpend2 e H t Ht). apply orb_true_r.
    - intros p Hp. destruct (i_dstat e H p Hp) as [A1 A2]. split; [|exact A2].
      rewrite memN_app, A1.
      destruct (memN (fst p) (g_cpending e)) eqn:E; [|apply orb_false_r].
      destruct (i_cpend e H _ E) as (B1 & _). pose proof (i_bdhist e H p Hp). unfold dc in *. lia.
    - intros p Hp. rewrite memN_app. destruct (i_stat e H p Hp) as [A|[A|[A|A]]]; rewrite A; auto using orb_true_r.
    - intros t o [].
    - intros t Ht. rewrite memN_app, (i_ack e H t Ht). reflexivity.
  Qed.

  (** every id that occurs anywhere is below the counter *)
  Lemma durable_lt (e : engine) t : Inv e -> memN t (g_durable e) = true -> t < ec e.
  Proof.
    intros H Ht. destruct (i_dur e H t Ht) as ([A|A] & _).
    - pose proof (i_created e H). lia.
    - apply has_in' in A. destruct A as [x [Hx [E _]]]. subst t. apply (i_blog e H).
      unfold L. apply in_or_app. left. exact Hx.
  Qed.

  Lemma cpending_lt (e : engine) t : Inv e -> memN t (g_cpending e) = true -> t < ec e.
  Proof.
    intros H Ht. destruct (i_cpend e H t Ht) as (_ & A & _).
    apply has_in' in A. destruct A as [x [Hx [E _]]]. subst t. apply (i_blog e H).
    unfold L. apply in_or_app. right. exact Hx.
  Qed.

  Lemma has_L_lt (e : engine) k t : Inv e -> has k t (L e) = true -> t < ec e.
  Proof.
    intros H A. apply has_in' in A. destruct A as [x [Hx [E _]]]. subst t. apply (i_blog e H). exact Hx.
  Qed.

  Lemma false_of_not_true (b : bool) : (b = true -> False) -> b = false.
  Proof. destruct b; intro H; [exfalso; apply H; reflexivity|reflexivity]. Qed.

  (** ** begin *)
  Lemma inv_begin (e : engine) : Inv e -> Inv (step e EBegin).
  Proof.
    intro H. set (t0 := h_created (e_hdr e)).
    assert (EL : L (step e EBegin) = L e ++ [(t0, KBegin)]).
    { unfold L. cbn [step e_disk e_pending]. apply app_assoc. }
    constructor; rewrite ?EL; unfold dc, ec; cbn [step e_hist e_hdr e_active e_pending e_disk g_durable g_cpending g_acked h_created h_committed h_aborted]; fold t0.
    - rewrite tagged_snoc. cbn [snd]. rewrite app_nil_r. apply (i_hist e H).
    - intros r Hr. apply in_app_or in Hr. destruct Hr as [Hr|[Hr|[]]].
      + pose proof (i_blog e H r Hr). unfold ec in *. fold t0 in H0. lia.
      + subst r. cbn [fst]. lia.
    - apply (i_bdhist e H).
    - pose proof (i_created e H). unfold dc, ec in *. fold t0 in H0. lia.
    - apply (i_dab e H).
    - intros t Ht. pose proof (i_eab e H t Ht). unfold ec in *. fold t0 in H0. lia.
    - intros t Ht. rewrite memN_snoc in Ht. rewrite !has_snoc. cbn [fst snd is_commit is_abort]. rewrite !andb_false_r, !orb_false_r.
      apply orb_true_iff in Ht. destruct Ht as [Ht|Ht].
      + destruct (i_act e H t Ht) as (A1 & A2 & A3 & A4 & A5 & A6 & A7). unfold dc, ec in *. fold t0 in A2.
        repeat split; auto. lia.
      + apply N.eqb_eq in Ht. subst t. pose proof (i_created e H) as Hc. unfold dc, ec in Hc. fold t0 in Hc.
        repeat split; try lia.
        * apply false_of_not_true. intro A. pose proof (durable_lt e t0 H A). unfold ec in *. fold t0 in H0. lia.
        * apply false_of_not_true. intro A. pose proof (cpending_lt e t0 H A). unfold ec in *. fold t0 in H0. lia.
        * apply false_of_not_true. intro A. pose proof (has_L_lt e _ t0 H A). unfold ec in *. fold t0 in H0. lia.
        * apply false_of_not_true. intro A. pose proof (has_L_lt e _ t0 H A). unfold ec in *. fold t0 in H0. lia.
        * apply false_of_not_true. intro A. pose proof (i_eab e H t0 A). unfold ec in *. fold t0 in H0. lia.
    - intros t Ht. rewrite has_snoc. cbn [snd is_commit]. rewrite andb_false_r, orb_false_r. apply (i_cpend e H t Ht).
    - intros t Ht. rewrite has_snoc in Ht. cbn [snd is_commit] in Ht. rewrite andb_false_r, orb_false_r in Ht. apply (i_cpend2 e H t Ht).
    - intros r Hr He. apply in_app_or in Hr. destruct Hr as [Hr|[Hr|[]]].
      + apply (i_post e H r Hr He).
      + subst r. cbn [fst]. apply (i_created e H).
    - intros t Ht. rewrite has_snoc in *. cbn [snd is_commit is_abort] in *. rewrite andb_false_r, orb_false_r in *. apply (i_dec e H t Ht).
    - apply (i_dur e H).
    - apply (i_cdlog e H).
    - apply (i_dstat e H).
    - intros p Hp. rewrite memN_snoc. destruct (i_stat e H p Hp) as [A|[A|[A|A]]]; rewrite A; auto.
    - intros t o Hin. apply in_app_or in Hin. destruct Hin as [Hin|[Hin|[]]]; [apply (i_pops e H t o Hin)|discriminate].
    - apply (i_ack e H).
  Qed.

  (** ** one logged operation *)
  Lemma inv_op (e : engine) t o : Inv e -> Inv (step e (EOp t o)).
  Proof.
    intro H. cbn [step]. destruct (memN t (e_active e)) eqn:Hact; [|exact H].
    destruct (i_act e H t Hact) as (T1 & T2 & T3 & T4 & T5 & T6 & T7).
    set (e' := {| e_hist := e_hist e ++ [(t, o)]; e_hdr := e_hdr e; e_active := e_active e;
                  e_pending := e_pending e ++ [(t, KOp o)]; e_disk := e_disk e; g_durable := g_durable e;
                  g_cpending := g_cpending e; g_acked := g_acked e |}).
    assert (EL : L e' = L e ++ [(t, KOp o)]) by (unfold L, e'; cbn [e_disk e_pending]; apply app_assoc).
    constructor; rewrite ?EL; unfold dc, ec, e'; cbn [e_hist e_hdr e_active e_pending e_disk g_durable g_cpending g_acked].
    - rewrite tagged_snoc. cbn [fst snd]. rewrite (i_hist e H), app_assoc. reflexivity.
    - intros r Hr. apply in_app_or in Hr. destruct Hr as [Hr|[Hr|[]]]; [apply (i_blog e H r Hr)|subst r; exact T2].
    - apply (i_bdhist e H).
    - apply (i_created e H).
    - apply (i_dab e H).
    - apply (i_eab e H).
    - intros t' Ht'. rewrite !has_snoc. cbn [snd is_commit is_abort]. rewrite !andb_false_r, !orb_false_r.
      apply (i_act e H t' Ht').
    - intros t' Ht'. rewrite has_snoc. cbn [snd is_commit]. rewrite andb_false_r, orb_false_r. apply (i_cpend e H t' Ht').
    - intros t' Ht'. rewrite has_snoc in Ht'. cbn [snd is_commit] in Ht'. rewrite andb_false_r, orb_false_r in Ht'. apply (i_cpend2 e H t' Ht').
    - intros r Hr He. apply in_app_or in Hr. destruct Hr as [Hr|[Hr|[]]]; [apply (i_post e H r Hr He)|subst r; exact T1].
    - intros t' Ht'. rewrite has_snoc in *. cbn [snd is_commit is_abort] in *. rewrite andb_false_r, orb_false_r in *. apply (i_dec e H t' Ht').
    - apply (i_dur e H).
    - apply (i_cdlog e H).
    - apply (i_dstat e H).
    - intros p Hp. apply in_app_or in Hp. destruct Hp as [Hp|[Hp|[]]]; [apply (i_stat e H p Hp)|subst p; left; exact Hact].
    - intros t' o' Hin. apply in_app_or in Hin. destruct Hin as [Hin|[Hin|[]]]; [apply (i_pops e H t' o' Hin)|].
      injection Hin as -> _. exact T3.
    - apply (i_ack e H).
  Qed.

  (** ** commit *)
  Lemma inv_commit (e : engine) t : Inv e -> Inv (step e (ECommit t)).
  Proof.
    intro H. cbn [step]. destruct (memN t (e_active e)) eqn:Hact; [|exact H].
    destruct (i_act e H t Hact) as (T1 & T2 & T3 & T4 & T5 & T6 & T7).
    set (c' := if h_committed (e_hdr e) <? t then t else h_committed (e_hdr e)).
    assert (Hc1 : h_committed (e_hdr e) <= c') by (unfold c'; destruct (h_committed (e_hdr e) <? t) eqn:E; [apply N.ltb_lt in E|]; lia).
    assert (Hc2 : t <= c') by (unfold c'; destruct (h_committed (e_hdr e) <? t) eqn:E; [|apply N.ltb_ge in E]; lia).
    set (e' := {| e_hist := e_hist e;
                  e_hdr := {| h_created := h_created (e_hdr e); h_committed := c'; h_aborted := h_aborted (e_hdr e) |};
                  e_active := removeN t (e_active e); e_pending := e_pending e ++ [(t, KCommit)];
                  e_disk := e_disk e; g_durable := g_durable e; g_cpending := g_cpending e ++ [t]; g_acked := g_acked e |}).
    change (Inv e').
    assert (EL : L e' = L e ++ [(t, KCommit)]) by (unfold L, e'; cbn [e_disk e_pending]; apply app_assoc).
    constructor; rewrite ?EL; unfold dc, ec, e'; cbn [e_hist e_hdr e_active e_pending e_disk g_durable g_cpending g_acked h_created h_committed h_aborted].
    - rewrite tagged_snoc. cbn [snd]. rewrite app_nil_r. apply (i_hist e H).
    - intros r Hr. apply in_app_or in Hr. destruct Hr as [Hr|[Hr|[]]]; [apply (i_blog e H r Hr)|subst r; exact T2].
    - apply (i_bdhist e H).
    - apply (i_created e H).
    - apply (i_dab e H).
    - apply (i_eab e H).
    - intros t' Ht'. rewrite memN_removeN in Ht'. apply andb_true_iff in Ht'. destruct Ht' as [Hne Ht'].
      apply negb_true_iff in Hne. destruct (i_act e H t' Ht') as (A1 & A2 & A3 & A4 & A5 & A6 & A7).
      rewrite memN_snoc, !has_snoc, A4, A5, A6, Hne. cbn [fst snd is_commit is_abort].
      rewrite N.eqb_sym, Hne. repeat split; auto.
    - intros t' Ht'. rewrite memN_snoc in Ht'. rewrite has_snoc. cbn [fst snd is_commit]. apply orb_true_iff in Ht'. destruct Ht' as [Ht'|Ht'].
      + destruct (i_cpend e H t' Ht') as (A1 & A2 & A3 & A4 & A5). rewrite A2. repeat split; auto. lia.
      + apply N.eqb_eq in Ht'. subst t'. rewrite N.eqb_refl. rewrite orb_true_r. repeat split; auto.
    - intros t' Ht'. rewrite has_snoc in Ht'. cbn [fst snd is_commit] in Ht'. rewrite memN_snoc. apply orb_true_iff in Ht'. destruct Ht' as [Ht'|Ht'].
      + rewrite (i_cpend2 e H t' Ht'). reflexivity.
      + rewrite andb_true_r in Ht'. rewrite N.eqb_sym, Ht'. apply orb_true_r.
    - intros r Hr He. apply in_app_or in Hr. destruct Hr as [Hr|[Hr|[]]]; [apply (i_post e H r Hr He)|subst r; exact T1].
    - intros t' Ht'. rewrite has_snoc in *. cbn [fst snd is_commit is_abort] in *. rewrite andb_false_r, orb_false_r.
      apply orb_true_iff in Ht'. destruct Ht' as [Ht'|Ht'].
      + apply (i_dec e H t' Ht').
      + rewrite andb_true_r in Ht'. apply N.eqb_eq in Ht'. subst t'. exact T6.
    - intros t' Ht'. destruct (i_dur e H t' Ht') as (A1 & A2 & A3). repeat split; auto. lia.
    - apply (i_cdlog e H).
    - apply (i_dstat e H).
    - intros p Hp. rewrite memN_removeN, memN_snoc. destruct (fst p =? t) eqn:E.
      + right. right. left. apply orb_true_r.
      + cbn [negb andb]. rewrite orb_false_r. apply (i_stat e H p Hp).
    - intros t' o' Hin. apply in_app_or in Hin. destruct Hin as [Hin|[Hin|[]]]; [apply (i_pops e H t' o' Hin)|discriminate].
    - apply (i_ack e H).
  Qed.

  (** ** abort *)
  Lemma inv_abort (e : engine) t : Inv e -> Inv (step e (EAbort t)).
  Proof.
    intro H. cbn [step]. destruct (memN t (e_active e)) eqn:Hact; [|exact H].
    destruct (i_act e H t Hact) as (T1 & T2 & T3 & T4 & T5 & T6 & T7).
    set (e' := {| e_hist := e_hist e;
                  e_hdr := {| h_created := h_created (e_hdr e); h_committed := h_committed (e_hdr e);
                              h_aborted := h_aborted (e_hdr e) ++ [t] |};
                  e_active := removeN t (e_active e); e_pending := e_pending e ++ [(t, KAbort)];
                  e_disk := e_disk e; g_durable := g_durable e; g_cpending := g_cpending e; g_acked := g_acked e |}).
    change (Inv e').
    assert (EL : L e' = L e ++ [(t, KAbort)]) by (unfold L, e'; cbn [e_disk e_pending]; apply app_assoc).
    assert (Hne : forall t', (memN t' (g_durable e) = true \/ memN t' (g_cpending e) = true) -> (t' =? t) = false).
    { intros t' [A|A]; apply N.eqb_neq; intro E; subst t'; congruence. }
    constructor; rewrite ?EL; unfold dc, ec, e'; cbn [e_hist e_hdr e_active e_pending e_disk g_durable g_cpending g_acked h_created h_committed h_aborted].
    - rewrite tagged_snoc. cbn [snd]. rewrite app_nil_r. apply (i_hist e H).
    - intros r Hr. apply in_app_or in Hr. destruct Hr as [Hr|[Hr|[]]]; [apply (i_blog e H r Hr)|subst r; exact T2].
    - apply (i_bdhist e H).
    - apply (i_created e H).
    - apply (i_dab e H).
    - intros t' Ht'. rewrite memN_snoc in Ht'. apply orb_true_iff in Ht'. destruct Ht' as [Ht'|Ht'].
      + apply (i_eab e H t' Ht').
      + apply N.eqb_eq in Ht'. subst t'. exact T2.
    - intros t' Ht'. rewrite memN_removeN in Ht'. apply andb_true_iff in Ht'. destruct Ht' as [Hn Ht'].
      apply negb_true_iff in Hn. destruct (i_act e H t' Ht') as (A1 & A2 & A3 & A4 & A5 & A6 & A7).
      rewrite memN_snoc, !has_snoc, A5, A6, A7, Hn. cbn [fst snd is_commit is_abort].
      rewrite N.eqb_sym, Hn. repeat split; auto.
    - intros t' Ht'. rewrite has_snoc, memN_snoc. cbn [snd is_commit]. rewrite andb_false_r, orb_false_r.
      destruct (i_cpend e H t' Ht') as (A1 & A2 & A3 & A4 & A5). rewrite A4, (Hne t' (or_intror Ht')). repeat split; auto.
    - intros t' Ht'. rewrite has_snoc in Ht'. cbn [snd is_commit] in Ht'. rewrite andb_false_r, orb_false_r in Ht'. apply (i_cpend2 e H t' Ht').
    - intros r Hr He. apply in_app_or in Hr. destruct Hr as [Hr|[Hr|[]]]; [apply (i_post e H r Hr He)|subst r; exact T1].
    - intros t' Ht'. rewrite has_snoc in *. cbn [fst snd is_commit is_abort] in *. rewrite andb_false_r, orb_false_r in Ht'.
      rewrite (i_dec e H t' Ht'). cbn [orb]. rewrite andb_true_r. apply N.eqb_neq. intro E. subst t'. congruence.
    - intros t' Ht'. destruct (i_dur e H t' Ht') as (A1 & A2 & A3). rewrite memN_snoc, A2, (Hne t' (or_introl Ht')). repeat split; auto.
    - apply (i_cdlog e H).
    - apply (i_dstat e H).
    - intros p Hp. rewrite memN_removeN, memN_snoc. destruct (fst p =? t) eqn:E.
      + right. right. right. apply orb_true_r.
      + cbn [negb andb]. rewrite orb_false_r. apply (i_stat e H p Hp).
    - intros t' o' Hin. apply in_app_or in Hin. destruct Hin as [Hin|[Hin|[]]]; [apply (i_pops e H t' o' Hin)|discriminate].
    - apply (i_ack e H).
  Qed.

  (** ** end: force, END record, acknowledgement *)
  Lemma inv_push_end (e : engine) t : Inv e -> t < ec e -> Inv (push e (t, KEnd)).
  Proof.
    intros H Hlt. pose proof (L_push e (t, KEnd)) as EL.
    constructor; rewrite ?EL; unfold dc, ec; cbn [push e_hist e_hdr e_active e_pending e_disk g_durable g_cpending g_acked].
    - rewrite tagged_snoc. cbn [snd]. rewrite app_nil_r. apply (i_hist e H).
    - intros r Hr. apply in_app_or in Hr. destruct Hr as [Hr|[Hr|[]]]; [apply (i_blog e H r Hr)|subst r; exact Hlt].
    - apply (i_bdhist e H).
    - apply (i_created e H).
    - apply (i_dab e H).
    - apply (i_eab e H).
    - intros t' Ht'. rewrite !has_snoc. cbn [snd is_commit is_abort]. rewrite !andb_false_r, !orb_false_r. apply (i_act e H t' Ht').
    - intros t' Ht'. rewrite has_snoc. cbn [snd is_commit]. rewrite andb_false_r, orb_false_r. apply (i_cpend e H t' Ht').
    - intros t' Ht'. rewrite has_snoc in Ht'. cbn [snd is_commit] in Ht'. rewrite andb_false_r, orb_false_r in Ht'. apply (i_cpend2 e H t' Ht').
    - intros r Hr He. apply in_app_or in Hr. destruct Hr as [Hr|[Hr|[]]]; [apply (i_post e H r Hr He)|subst r; discriminate].
    - intros t' Ht'. rewrite has_snoc in *. cbn [snd is_commit is_abort] in *. rewrite andb_false_r, orb_false_r in *. apply (i_dec e H t' Ht').
    - apply (i_dur e H).
    - apply (i_cdlog e H).
    - apply (i_dstat e H).
    - apply (i_stat e H).
    - intros t' o' Hin. apply in_app_or in Hin. destruct Hin as [Hin|[Hin|[]]]; [apply (i_pops e H t' o' Hin)|discriminate].
    - apply (i_ack e H).
  Qed.

  Lemma inv_set_acked (e : engine) acked :
    Inv e -> (forall t, memN t acked = true -> memN t (g_durable e) = true) ->
    Inv {| e_hist := e_hist e; e_hdr := e_hdr e; e_active := e_active e; e_pending := e_pending e;
           e_disk := e_disk e; g_durable := g_durable e; g_cpending := g_cpending e; g_acked := acked |}.
  Proof. intros H Ha. destruct H. constructor; assumption. Qed.

  Lemma inv_end (e : engine) t : Inv e -> Inv (step e (EEnd t)).
  Proof.
    intro H. cbn [step]. destruct (negb (memN t (e_active e)) && (t <? h_created (e_hdr e))) eqn:C; [|exact H].
    apply andb_true_iff in C. destruct C as [_ C]. apply N.ltb_lt in C.
    assert (H1 : Inv (push (force e) (t, KEnd))) by (apply inv_push_end; [apply inv_force; exact H|exact C]).
    apply (inv_set_acked _ _ H1).
    intros t' Ht'. destruct (memN t (g_durable (push (force e) (t, KEnd)))) eqn:E.
    - rewrite memN_snoc in Ht'. apply orb_true_iff in Ht'. destruct Ht' as [Ht'|Ht'].
      + apply (i_ack _ H1 t' Ht').
      + apply N.eqb_eq in Ht'. subst t'. exact E.
    - apply (i_ack _ H1 t' Ht').
  Qed.

  (** ** checkpoint while no transaction is open *)
  Lemma hist_bound (e : engine) p : Inv e -> In p (e_hist e) -> fst p < ec e.
  Proof.
    intros H Hp. rewrite (i_hist e H) in Hp. apply in_app_or in Hp. destruct Hp as [Hp|Hp].
    - pose proof (i_bdhist e H p Hp). pose proof (i_created e H). lia.
    - destruct p as [t o]. apply tagged_in in Hp. apply (i_blog e H _ Hp).
  Qed.

  Lemma inv_checkpoint (e : engine) : Inv e -> e_active e = [] -> Inv (step e ECheckpoint).
  Proof.
    intros H0 Hq. pose proof (inv_force e H0) as H. cbn [step].
    set (e1 := force e) in *.
    assert (Hact : e_active e1 = []) by exact Hq.
    assert (Hcp : g_cpending e1 = []) by reflexivity.
    constructor; unfold L, dc, ec; cbn [e_hist e_hdr e_active e_pending e_disk g_durable g_cpending g_acked d_hist d_hdr d_log app].
    - cbn [tagged_ops]. symmetry. apply app_nil_r.
    - intros r [].
    - intros p Hp. apply (hist_bound e1 p H Hp).
    - lia.
    - apply (i_eab e1 H).
    - apply (i_eab e1 H).
    - intros t Ht. rewrite Hact in Ht. discriminate.
    - intros t Ht. discriminate.
    - intros t Ht. discriminate.
    - intros r [].
    - intros t Ht. discriminate.
    - intros t Ht. destruct (i_dur e1 H t Ht) as (_ & A2 & A3). repeat split; auto.
      left. apply (durable_lt e1 t H Ht).
    - intros t Ht. discriminate.
    - intros p Hp. destruct (i_stat e1 H p Hp) as [A|[A|[A|A]]].
      + rewrite Hact in A. discriminate.
      + destruct (i_dur e1 H _ A) as (_ & A2 & A3). rewrite A, A2. split; [reflexivity|left; exact A3].
      + rewrite Hcp in A. discriminate.
      + split; [|right; exact A]. rewrite A. cbn [negb]. apply false_of_not_true. intro D.
        destruct (i_dur e1 H _ D) as (_ & A2 & _). congruence.
    - apply (i_stat e1 H).
    - intros t o [].
    - apply (i_ack e1 H).
  Qed.

  (** ** every reachable state *)
  Lemma inv_step (e : engine) (x : ev) : Inv e -> (x = ECheckpoint -> e_active e = []) -> Inv (step e x).
  Proof.
    intros H Hq. destruct x.
    - apply inv_begin; exact H.
    - apply inv_op; exact H.
    - apply inv_commit; exact H.
    - apply inv_abort; exact H.
    - apply inv_end; exact H.
    - apply inv_force; exact H.
    - apply inv_checkpoint; [exact H|apply Hq; reflexivity].
  Qed.

  Lemma inv_run_from (evs : list ev) : forall e, Inv e -> quiescent_from e evs -> Inv (fold_left step evs e).
  Proof.
    induction evs as [|x evs IH]; intros e H Hq; [exact H|].
    destruct Hq as [Hq1 Hq2]. cbn [fold_left]. apply IH; [apply inv_step; assumption|exact Hq2].
  Qed.

  Theorem inv_run (evs : list ev) : quiescent evs -> Inv (run evs).
  Proof. intro Hq. apply inv_run_from; [apply inv_init|exact Hq]. Qed.

  (** a checkable form of the quiescence hypothesis *)
  Fixpoint quiescentb_from (e : engine) (evs : list ev) : bool :=
    match evs with
    | [] => true
    | x :: r => (match x with
                 | ECheckpoint => match e_active e with [] => true | _ => false end
                 | _ => true
                 end) && quiescentb_from (step e x) r
    end.

  Lemma quiescentb_sound (evs : list ev) : forall e, quiescentb_from e evs = true -> quiescent_from e evs.
  Proof.
    induction evs as [|x evs IH]; intros e H; [exact I|].
    cbn [quiescentb_from] in H. apply andb_true_iff in H. destruct H as [H1 H2].
    split; [|apply IH; exact H2]. intro E. subst x. destruct (e_active e); [reflexivity|discriminate].
  Qed.
End Engine.
