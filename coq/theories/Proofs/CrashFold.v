(** Reordering lemmas for the redo pass: replaying the winners in ascending transaction id, each transaction's
    operations together, gives the same state as replaying the operations in log order, provided every pair of
    operations whose order changes commutes. *)
From Coq Require Import List NArith Bool Lia Sorted.
From Axv Require Import Model.Crash.
Import ListNotations.
Open Scope N_scope.

Section Fold.
  Context {db op : Type}.
  Variable apply : op -> db -> db.

  Definition fold_ops (l : list op) (d : db) : db := fold_left (fun d o => apply o d) l d.

  Lemma fold_ops_app l1 l2 d : fold_ops (l1 ++ l2) d = fold_ops l2 (fold_ops l1 d).
  Proof. unfold fold_ops. apply fold_left_app. Qed.

  Lemma commute_through (o : op) (l : list op) :
    (forall o', In o' l -> commutes apply o' o) -> forall d, fold_ops l (apply o d) = apply o (fold_ops l d).
  Proof.
    induction l as [|x l IH]; intros H d; [reflexivity|].
    cbn [fold_ops fold_left]. change (fold_left (fun d o => apply o d) l ?z) with (fold_ops l z).
    rewrite (H x (or_introl eq_refl)). apply IH. intros o' Ho'. apply H. right. exact Ho'.
  Qed.

  Lemma commutes_sym (a b : op) : commutes apply a b -> commutes apply b a.
  Proof. intros H d. symmetry. apply H. Qed.

  (** tagged lists *)
  Definition sel (t : N) (l : list (N * op)) : list op := map snd (filter (fun p => fst p =? t) l).

  Lemma sel_cons t p l : sel t (p :: l) = if fst p =? t then snd p :: sel t l else sel t l.
  Proof. unfold sel. cbn [filter]. destruct (fst p =? t); reflexivity. Qed.

  (** pull the operations of transaction [t] to the front *)
  Lemma pull_front (t : N) (l : list (N * op)) :
    (forall pre x post, l = pre ++ x :: post -> fst x = t ->
       forall y, In y pre -> fst y <> t -> commutes apply (snd x) (snd y)) ->
    forall d, fold_ops (map snd l) d = fold_ops (map snd (filter (fun p => negb (fst p =? t)) l)) (fold_ops (sel t l) d).
  Proof.
    induction l as [|p l IH]; intros H d; [reflexivity|].
    assert (Hl : forall pre x post, l = pre ++ x :: post -> fst x = t ->
                 forall y, In y pre -> fst y <> t -> commutes apply (snd x) (snd y)).
    { intros pre x post E Hx y Hy Hny. apply (H (p :: pre) x post); [rewrite E; reflexivity|exact Hx|right; exact Hy|exact Hny]. }
    rewrite sel_cons. cbn [filter map]. destruct (fst p =? t) eqn:Ept; cbn [negb].
    - cbn [fold_ops fold_left]. change (fold_left (fun d o => apply o d) ?l ?z) with (fold_ops l z).
      apply IH. exact Hl.
    - cbn [map fold_ops fold_left]. change (fold_left (fun d o => apply o d) ?l ?z) with (fold_ops l z).
      rewrite (IH Hl (apply (snd p) d)).
      f_equal. apply commute_through.
      intros o' Ho'. unfold sel in Ho'. apply in_map_iff in Ho'. destruct Ho' as [x [Ex Hx]].
      apply filter_In in Hx. destruct Hx as [Hx Hxt]. apply N.eqb_eq in Hxt. subst o'.
      apply in_split in Hx. destruct Hx as [pre [post E]].
      apply (H (p :: pre) x post); [rewrite E; reflexivity|exact Hxt|left; reflexivity|].
      intro E2. rewrite E2, N.eqb_refl in Ept. discriminate.
  Qed.

  (** [inversions_commute] restated with positions *)
  Lemma inversions_split (l : list (N * op)) :
    inversions_commute apply l ->
    forall pre x post, l = pre ++ x :: post -> forall y, In y pre -> fst x < fst y -> commutes apply (snd y) (snd x).
  Proof.
    induction l as [|[t o] l IH]; intros H pre x post E y Hy Hlt.
    - destruct pre; discriminate.
    - destruct H as [H1 H2]. destruct pre as [|q pre]; [destruct Hy|].
      cbn in E. injection E as Eq El. subst q. destruct Hy as [Hy|Hy].
      + subst y. cbn [fst snd] in *. destruct x as [t' o']. apply (H1 t' o'); [|exact Hlt].
        rewrite El. apply in_or_app. right. left. reflexivity.
      + apply (IH H2 pre x post El y Hy Hlt).
  Qed.

  Lemma inversions_filter (f : N * op -> bool) (l : list (N * op)) :
    inversions_commute apply l -> inversions_commute apply (filter f l).
  Proof.
    induction l as [|[t o] l IH]; intros H; [exact I|].
    destruct H as [H1 H2]. cbn [filter]. destruct (f (t, o)).
    - split; [|apply IH; exact H2]. intros t' o' Hin Hlt. apply filter_In in Hin. apply (H1 t' o'); tauto.
    - apply IH. exact H2.
  Qed.

  Definition group (ts : list N) (l : list (N * op)) : list op := flat_map (fun t => sel t l) ts.

  Lemma sel_filter_other t t0 (l : list (N * op)) :
    t <> t0 -> sel t (filter (fun p => negb (fst p =? t0)) l) = sel t l.
  Proof.
    intro Hne. unfold sel. f_equal. induction l as [|p l IH]; [reflexivity|].
    cbn [filter]. destruct (fst p =? t0) eqn:E0; cbn [negb filter].
    - destruct (fst p =? t) eqn:E1; [|exact IH]. apply N.eqb_eq in E0, E1. congruence.
    - destruct (fst p =? t); [f_equal|]; exact IH.
  Qed.

  Lemma group_filter_other ts t0 (l : list (N * op)) :
    ~ In t0 ts -> group ts (filter (fun p => negb (fst p =? t0)) l) = group ts l.
  Proof.
    induction ts as [|t ts IH]; intro Hn; [reflexivity|].
    unfold group in *. cbn [flat_map]. rewrite sel_filter_other, IH; [reflexivity| |].
    - intro Hin. apply Hn. right. exact Hin.
    - intro E. apply Hn. left. exact E.
  Qed.

  (** the redo order (ascending ids, grouped) against the log order *)
  Lemma group_fold (ts : list N) :
    StronglySorted N.lt ts ->
    forall l : list (N * op),
      (forall p, In p l -> In (fst p) ts) -> inversions_commute apply l ->
      forall d, fold_ops (group ts l) d = fold_ops (map snd l) d.
  Proof.
    induction ts as [|t0 ts IH]; intros Hs l Hin Hinv d.
    - destruct l as [|p l]; [reflexivity|]. destruct (Hin p (or_introl eq_refl)).
    - inversion Hs as [|? ? Hs' Hall]; subst.
      unfold group. cbn [flat_map]. fold (group ts l). rewrite fold_ops_app.
      rewrite (pull_front t0 l).
      + rewrite <- (group_filter_other ts t0 l).
        * apply IH; [exact Hs'| |apply inversions_filter; exact Hinv].
          intros p Hp. apply filter_In in Hp. destruct Hp as [Hp Hne].
          destruct (Hin p Hp) as [E|Hts]; [|exact Hts].
          rewrite E, N.eqb_refl in Hne. discriminate.
        * intro Hin0. rewrite Forall_forall in Hall. specialize (Hall t0 Hin0). lia.
      + intros pre x post E Hx y Hy Hny. apply commutes_sym.
        apply (inversions_split l Hinv pre x post E y Hy).
        assert (Hyin : In y l) by (rewrite E; apply in_or_app; left; exact Hy).
        destruct (Hin y Hyin) as [E0|Hts]; [congruence|].
        rewrite Forall_forall in Hall. specialize (Hall (fst y) Hts). lia.
  Qed.
End Fold.
