(** C01 / C02 / C08 for the crash protocol model: what a crash at any point of any (quiescent-checkpoint) history
    leaves on disk recovers to exactly the versions of the transactions whose commit is durable. *)
From Coq Require Import List NArith ZArith Bool Lia Sorted.
From Axv Require Import Model.Crash Proofs.CrashFold Proofs.CrashAnalysis Proofs.CrashRecover Proofs.CrashRestart
     Proofs.CrashEngine.
Import ListNotations.
Open Scope N_scope.

Section Theorems.
  Context {db op : Type}.
  Variable apply : op -> db -> db.
  Variable init : db.
  Notation engine := (engine (op := op)).
  Notation ev := (ev (op := op)).

  Lemma filter_none {A} (f : A -> bool) (l : list A) : (forall x, In x l -> f x = false) -> filter f l = [].
  Proof.
    induction l as [|x l IH]; intro H; [reflexivity|].
    cbn [filter]. rewrite (H x (or_introl eq_refl)). apply IH. intros y Hy. apply H. right. exact Hy.
  Qed.

  Lemma wf_of_inv (e : engine) : Inv e -> WF (e_disk e).
  Proof.
    intro H. constructor.
    - apply (i_bdhist e H).
    - apply (i_dab e H).
    - intros r Hr He. apply (i_post e H r); [unfold L; apply in_or_app; left; exact Hr|exact He].
    - intros t Ht. assert (Hc : has is_commit t (L e) = true) by (unfold L; rewrite has_app, Ht; reflexivity).
      pose proof (i_dec e H t Hc) as Ha. unfold L in Ha. rewrite has_app in Ha. apply orb_false_iff in Ha. tauto.
    - intros p Hp. apply (i_dstat e H p Hp).
  Qed.

  Lemma spec_is_durable_contents (e : engine) : Inv e -> spec_view apply init e = durable_contents apply init (e_disk e).
  Proof.
    intro H. unfold spec_view, durable_contents. rewrite (i_hist e H). unfold L.
    rewrite tagged_app, app_assoc, fold_left_app.
    set (dur := fun t => memN t (g_durable e)).
    (* pending operations belong to transactions that are not durable *)
    assert (Ep : forall d0, fold_left (apply_if apply dur) (tagged_ops (e_pending e)) d0 = d0).
    { intro d0. rewrite fold_apply_if_filter.
      replace (filter (fun x => dur (fst x)) (tagged_ops (e_pending e))) with (@nil (N * op)); [reflexivity|].
      symmetry. apply filter_none. intros [t o] Hin.
      apply tagged_in in Hin. cbn [fst]. unfold dur. apply (i_pops e H t o Hin). }
    rewrite Ep. apply fold_apply_if_ext. intros [t o] Hin. cbn [fst]. unfold dur, durable_d.
    apply in_app_or in Hin. destruct Hin as [Hin|Hin].
    - pose proof (i_bdhist e H _ Hin) as Hlt. cbn [fst] in Hlt. unfold dc in Hlt.
      apply N.ltb_lt in Hlt. rewrite Hlt. apply (proj1 (i_dstat e H _ Hin)).
    - apply tagged_in in Hin.
      assert (Hge : dc e <= t) by (apply (i_post e H (t, KOp o)); [unfold L; apply in_or_app; left; exact Hin|reflexivity]).
      unfold dc in Hge. replace (t <? h_created (d_hdr (e_disk e))) with false by (symmetry; apply N.ltb_ge; exact Hge).
      destruct (has is_commit t (d_log (e_disk e))) eqn:Ec.
      + apply (i_cdlog e H t Ec).
      + apply false_of_not_true. intro D. destruct (i_dur e H t D) as ([A|A] & _); [unfold dc in A; lia|congruence].
  Qed.

  (** ** C01 + C02: the contents after crash and recovery *)
  Theorem crash_recovery_exact (evs : list ev) :
    quiescent evs -> winners_commute apply (e_disk (run evs)) ->
    recovered_view apply init (e_disk (run evs)) = spec_view apply init (run evs).
  Proof.
    intros Hq Hc. pose proof (inv_run evs Hq) as H.
    rewrite (recover_view apply init _ (wf_of_inv _ H) Hc). symmetry. apply spec_is_durable_contents. exact H.
  Qed.

  (** acknowledged commits are durable (the commit call returns after the END record, which follows the force) *)
  Theorem acked_is_durable (evs : list ev) t :
    quiescent evs -> memN t (g_acked (run evs)) = true -> memN t (g_durable (run evs)) = true.
  Proof. intros Hq. apply (i_ack _ (inv_run evs Hq)). Qed.

  (** nothing of a transaction that is still open or was rolled back is durable *)
  Theorem unfinished_not_durable (evs : list ev) t :
    quiescent evs ->
    memN t (e_active (run evs)) = true \/ memN t (h_aborted (e_hdr (run evs))) = true ->
    memN t (g_durable (run evs)) = false.
  Proof.
    intros Hq [A|A]; pose proof (inv_run evs Hq) as H.
    - apply (i_act _ H t A).
    - apply false_of_not_true. intro D. destruct (i_dur _ H t D) as (_ & A2 & _). congruence.
  Qed.

  (** ** C08: recovery interrupted (twice) before its checkpoint reaches the data file, then completed *)
  Theorem crash_recovery_restartable (evs : list ev) (n m : nat) :
    quiescent evs -> winners_commute apply (e_disk (run evs)) ->
    recovered_view apply init (interrupted (interrupted (e_disk (run evs)) n) m) = spec_view apply init (run evs).
  Proof.
    intros Hq Hc. pose proof (inv_run evs Hq) as H.
    rewrite (recovery_restartable_twice apply init _ n m (wf_of_inv _ H) Hc). apply crash_recovery_exact; assumption.
  Qed.

  Theorem reopen_after_recovery_noop (evs : list ev) :
    quiescent evs -> winners_commute apply (e_disk (run evs)) ->
    d_log (recover (e_disk (run evs))) = [] /\
    recovered_view apply init (recover (e_disk (run evs))) = spec_view apply init (run evs).
  Proof.
    intros Hq Hc. pose proof (inv_run evs Hq) as H.
    destruct (recover_idempotent apply init _ (wf_of_inv _ H)) as [E1 E2]. split; [exact E1|].
    rewrite E2. apply crash_recovery_exact; assumption.
  Qed.

  (** a sufficient condition for the commutation hypothesis: the winners' operations appear in the log in
      ascending transaction id (no transaction commits operations that interleave with an older one's) *)
  Lemma sorted_inversions_commute (l : list (N * op)) :
    StronglySorted (fun a b => fst a <= fst b) l -> inversions_commute apply l.
  Proof.
    induction l as [|[t o] l IH]; intro Hs; [exact I|].
    inversion Hs as [|? ? Hs' Hall]; subst. split; [|apply IH; exact Hs'].
    intros t' o' Hin Hlt. rewrite Forall_forall in Hall. specialize (Hall (t', o') Hin). cbn [fst] in Hall. lia.
  Qed.
End Theorems.
