(** Facts about the analysis pass of the crash model (run_analysis): the sets are strictly increasing lists and
    membership is characterised by the records in the log. *)
From Coq Require Import List NArith Bool Lia Sorted.
From Axv Require Import Model.Crash.
Import ListNotations.
Open Scope N_scope.

Section Analysis.
  Context {op : Type}.
  Notation rec := (rec (op := op)).

  Definition is_begin (k : rkind (op := op)) : bool := match k with KBegin => true | _ => false end.
  Definition is_commit (k : rkind (op := op)) : bool := match k with KCommit => true | _ => false end.
  Definition is_abort (k : rkind (op := op)) : bool := match k with KAbort => true | _ => false end.
  Definition is_end (k : rkind (op := op)) : bool := match k with KEnd => true | _ => false end.
  Definition is_op (k : rkind (op := op)) : bool := match k with KOp _ => true | _ => false end.

  Definition has (k : rkind (op := op) -> bool) (t : N) (log : list rec) : bool :=
    existsb (fun r => (fst r =? t) && k (snd r)) log.
  Definition seen (t : N) (log : list rec) : bool := existsb (fun r => fst r =? t) log.

  Lemma has_app k t l1 l2 : has k t (l1 ++ l2) = has k t l1 || has k t l2.
  Proof. unfold has. apply existsb_app. Qed.
  Lemma seen_app t l1 l2 : seen t (l1 ++ l2) = seen t l1 || seen t l2.
  Proof. unfold seen. apply existsb_app. Qed.
  Lemma has_seen k t l : has k t l = true -> seen t l = true.
  Proof.
    unfold has, seen. rewrite !existsb_exists. intros [r [Hr H]]. exists r. split; [exact Hr|].
    apply andb_true_iff in H. tauto.
  Qed.

  Lemma memN_true t l : memN t l = true <-> In t l.
  Proof.
    unfold memN. rewrite existsb_exists. split.
    - intros [x [Hx E]]. apply N.eqb_eq in E. subst. exact Hx.
    - intros H. exists t. split; [exact H|apply N.eqb_refl].
  Qed.

  Lemma memN_app t l1 l2 : memN t (l1 ++ l2) = memN t l1 || memN t l2.
  Proof. unfold memN. apply existsb_app. Qed.

  Lemma memN_insert_sorted x t l : memN x (insert_sorted t l) = (x =? t) || memN x l.
  Proof.
    induction l as [|y l IH]; cbn [insert_sorted memN existsb]; [reflexivity|].
    destruct (t <? y) eqn:E1; cbn [memN existsb]; [reflexivity|].
    destruct (t =? y) eqn:E2; cbn [memN existsb].
    - apply N.eqb_eq in E2. subst y. destruct (x =? t); reflexivity.
    - fold (memN x (insert_sorted t l)). rewrite IH. fold (memN x l).
      destruct (x =? t), (x =? y); reflexivity.
  Qed.

  Lemma memN_removeN x t l : memN x (removeN t l) = negb (x =? t) && memN x l.
  Proof.
    induction l as [|y l IH]; cbn [removeN filter memN existsb]; [destruct (x =? t); reflexivity|].
    fold (removeN t l). destruct (y =? t) eqn:E; cbn [negb memN existsb].
    - fold (memN x (removeN t l)) (memN x l). rewrite IH. apply N.eqb_eq in E. subst y.
      destruct (x =? t); reflexivity.
    - fold (memN x (removeN t l)) (memN x l). rewrite IH.
      destruct (x =? y) eqn:E2; [|destruct (x =? t); reflexivity].
      apply N.eqb_eq in E2. subst y. rewrite E. reflexivity.
  Qed.

  Lemma sorted_insert t l : StronglySorted N.lt l -> StronglySorted N.lt (insert_sorted t l).
  Proof.
    induction l as [|y l IH]; intro H; cbn [insert_sorted].
    - constructor; constructor.
    - inversion H as [|? ? Hs Hall]; subst.
      destruct (t <? y) eqn:E1.
      + apply N.ltb_lt in E1. constructor; [exact H|]. constructor; [exact E1|].
        rewrite Forall_forall in *. intros z Hz. specialize (Hall z Hz). lia.
      + destruct (t =? y) eqn:E2; [exact H|].
        apply N.ltb_ge in E1. apply N.eqb_neq in E2.
        constructor; [apply IH; exact Hs|].
        rewrite Forall_forall in *. intros z Hz. apply memN_true in Hz.
        rewrite memN_insert_sorted in Hz. apply orb_true_iff in Hz. destruct Hz as [Hz|Hz].
        * apply N.eqb_eq in Hz. lia.
        * apply memN_true in Hz. apply Hall. exact Hz.
  Qed.

  Lemma sorted_remove t l : StronglySorted N.lt l -> StronglySorted N.lt (removeN t l).
  Proof.
    induction l as [|y l IH]; intro H; cbn [removeN filter]; [constructor|].
    inversion H as [|? ? Hs Hall]; subst. fold (removeN t l).
    destruct (negb (y =? t)); [|apply IH; exact Hs].
    constructor; [apply IH; exact Hs|].
    rewrite Forall_forall in *. intros z Hz. apply filter_In in Hz. apply Hall. tauto.
  Qed.

  Lemma analyse_snoc (l : list rec) r : analyse (l ++ [r]) = analyse_rec (analyse l) r.
  Proof. unfold analyse. rewrite fold_left_app. reflexivity. Qed.

  Lemma redo_sorted (log : list rec) : StronglySorted N.lt (a_redo (analyse log)).
  Proof.
    induction log as [|r log IH] using rev_ind; [constructor|].
    rewrite analyse_snoc. unfold analyse_rec. destruct (snd r); cbn [a_redo]; auto using sorted_insert, sorted_remove.
  Qed.

  Lemma seen_spec t (log : list rec) : memN t (a_seen (analyse log)) = seen t log.
  Proof.
    induction log as [|r log IH] using rev_ind; [reflexivity|].
    rewrite analyse_snoc, seen_app. unfold analyse_rec.
    assert (E : memN t (insert_sorted (fst r) (a_seen (analyse log))) = seen t log || seen t [r]).
    { rewrite memN_insert_sorted, IH. cbn [seen existsb]. rewrite N.eqb_sym.
      destruct (fst r =? t), (seen t log); reflexivity. }
    destruct (snd r); cbn [a_seen]; exact E.
  Qed.

  Lemma ended_spec t (log : list rec) : memN t (a_ended (analyse log)) = has is_end t log.
  Proof.
    induction log as [|r log IH] using rev_ind; [reflexivity|].
    rewrite analyse_snoc, has_app. unfold analyse_rec. cbn [has existsb].
    destruct (snd r); cbn [a_ended is_end]; rewrite ?memN_insert_sorted, IH, ?andb_false_r, ?andb_true_r, ?orb_false_r; try reflexivity.
    rewrite N.eqb_sym. apply orb_comm.
  Qed.

  Lemma redo_commit t (log : list rec) : memN t (a_redo (analyse log)) = true -> has is_commit t log = true.
  Proof.
    induction log as [|r log IH] using rev_ind; [discriminate|].
    rewrite analyse_snoc, has_app. unfold analyse_rec. cbn [has existsb].
    destruct (snd r); cbn [a_redo is_commit]; rewrite ?memN_insert_sorted, ?memN_removeN, ?andb_false_r, ?andb_true_r, ?orb_false_r; intro H; auto.
    - apply orb_true_iff in H. destruct H as [H|H].
      + rewrite N.eqb_sym, H. apply orb_true_r.
      + rewrite (IH H). reflexivity.
    - apply andb_true_iff in H. apply IH. tauto.
  Qed.

  Lemma redo_spec t (log : list rec) :
    has is_abort t log = false -> memN t (a_redo (analyse log)) = has is_commit t log.
  Proof.
    induction log as [|r log IH] using rev_ind; [reflexivity|].
    rewrite analyse_snoc, !has_app. intro H. apply orb_false_iff in H. destruct H as [H1 H2].
    specialize (IH H1). unfold analyse_rec. cbn [has existsb] in *.
    destruct (snd r); cbn [a_redo is_commit is_abort] in *; rewrite ?memN_insert_sorted, ?memN_removeN, ?andb_false_r, ?andb_true_r, ?orb_false_r in *; auto.
    - rewrite IH, N.eqb_sym. apply orb_comm.
    - rewrite IH. rewrite N.eqb_sym, H2. reflexivity.
  Qed.

  Lemma undo_spec t (log : list rec) :
    memN t (a_undo (analyse log)) = true -> has is_begin t log = true \/ has is_abort t log = true.
  Proof.
    induction log as [|r log IH] using rev_ind; [discriminate|].
    rewrite analyse_snoc, !has_app. unfold analyse_rec. cbn [has existsb].
    destruct (snd r); cbn [a_undo is_begin is_abort]; rewrite ?memN_insert_sorted, ?memN_removeN, ?andb_false_r, ?andb_true_r, ?orb_false_r; intro H.
    - apply orb_true_iff in H. destruct H as [H|H].
      + left. rewrite N.eqb_sym, H. apply orb_true_r.
      + destruct (IH H) as [E|E]; rewrite E; auto.
    - apply andb_true_iff in H. destruct (IH (proj2 H)) as [E|E]; rewrite E; auto.
    - apply orb_true_iff in H. destruct H as [H|H].
      + right. rewrite N.eqb_sym, H. apply orb_true_r.
      + destruct (IH H) as [E|E]; rewrite E; auto.
    - destruct (IH H) as [E|E]; rewrite E; auto.
    - destruct (IH H) as [E|E]; rewrite E; auto.
  Qed.
End Analysis.
