(** Infix operators of the expression grammar (the binding-power table over them is regenerated). *)
Inductive pbinop := BOr | BAnd | BEq | BNeq | BLt | BGt | BLe | BGe | BLike
                  | BPlus | BMinus | BMul | BDiv | BMod | BConcat.
Definition all_pbinops : list pbinop :=
  (BOr :: BAnd :: BEq :: BNeq :: BLt :: BGt :: BLe :: BGe :: BLike :: BPlus :: BMinus :: BMul :: BDiv :: BMod :: BConcat :: nil)%list.
