(** Case runner for the tuple model (harness mode [tup]). *)
From Axv Require Import Base.Bytes Base.Show Model.Values Model.ValuesRun Model.Tuple.
Open Scope string_scope.

Inductive top :=
| TUpd (xid : N) (mods : list (nat * value)) | TDel (xid : N) | TUndel | TVac (oldest : N)
| TSnap (s : snap) | TLast | THdr.

Definition show_row (r : list value) : string := join "," (map show_value r).

Definition Sn (xid xmin : N) (xmax : option N) (act ab : list N) : snap :=
  {| s_xid := xid; s_xmin := xmin; s_xmax := xmax; s_active := act; s_aborted := ab |}.

Fixpoint run_tops (vk : list kind) (t : tuple) (ops : list top) : option (list string) :=
  match ops with
  | [] => Some []
  | o :: r =>
    let cont (t' : tuple) (ev : list string) :=
      match run_tops vk t' r with Some evs => Some (List.app ev evs) | None => None end in
    match o with
    | TUpd xid mods =>
        match add_version vk t mods xid with
        | TOk t' => cont t' []
        | TErr => cont t ["uerr"]
        | TPanic => None
        end
    | TDel xid => cont (delete t xid) []
    | TUndel => cont (undelete t) []
    | TVac h => cont (vacuum t h) []
    | TSnap s => cont t [match decode_for t s with Some r => "vis[" ++ show_row r ++ "]" | None => "none" end]
    | TLast => cont t ["last[" ++ show_row (decode_last t) ++ "]"]
    | THdr => cont t ["hdr:" ++ showN (t_xmin t) ++ ":" ++ match t_xmax t with Some x => showN x | None => "-" end
                        ++ ":" ++ showN (t_version t)]
    end
  end.

Definition run_tup_case (c : list kind * list kind * list value * N * list top) : string :=
  let '(kk, vk, row, xmin, ops) := c in
  match build kk vk row xmin with
  | TErr => "builderr"
  | TPanic => "panic"
  | TOk t =>
    match run_tops vk t ops with
    | None => "panic"
    | Some [] => "-"
    | Some evs => join " " evs
    end
  end.
