(** Case runner for the wire model: the same cases the Rust harness executes (mode [wire]). *)
From Axv Require Import Base.Bytes Base.Show Model.WireTags Gen.GenWire Model.Wire.
Open Scope N_scope.
Open Scope string_scope.

Inductive wire_case :=
| CReq (r : request)            (* encode, then decode what was encoded *)
| CResp (p : response)
| CBytesReq (bs : list N)       (* Request::from_bytes on arbitrary bytes *)
| CBytesResp (bs : list N)      (* Response::from_bytes on arbitrary bytes *)
| CReadFrame (bs : list N)      (* read_message on a byte stream *)
| CWriteFrameLen (n : N)        (* write_message on a body of n bytes: header or error *)
| CFrameRoundTrip (n : N).      (* write_message then read_message on a body of n bytes (lengths only; bodies: theorem) *)

Definition show_err (e : werr) : string :=
  match e with
  | EVersion => "err:version" | EUnknownCmd => "err:unknowncmd" | EUnknownStatus => "err:unknownstatus"
  | EInvalid => "err:invalid" | ETooLarge => "err:toolarge" | EIo => "err:io" | EPanic => "panic"
  end.

Definition show_request (r : request) : string :=
  match r with
  | RCreate s => "create:" ++ hex s | ROpen s => "open:" ++ hex s | RSql s => "sql:" ++ hex s
  | RBegin => "begin" | RRollback => "rollback" | RCommit => "commit"
  | RExplain s => "explain:" ++ hex s
  | RAnalyze rate rows => "analyze:" ++ showN rate ++ ":" ++ showN rows
  | RVacuum => "vacuum" | RClose => "close" | RPing => "ping" | RShutdown => "shutdown"
  end.

Definition show_row (row : list str) : string := join "," (map hex row).
Definition show_response (p : response) : string :=
  match p with
  | POk s => "ok:" ++ hex s | PError s => "error:" ++ hex s
  | PRows cols data =>
      "rows:" ++ show_nat (List.length cols) ++ ":" ++ show_nat (List.length data) ++ ":"
      ++ show_row cols ++ ":" ++ join ";" (map show_row data)
  | PSessionStarted => "sessionstarted" | PSessionEnd => "sessionend"
  | PRowsAffected n => "rowsaffected:" ++ showN n
  | PDdl s => "ddl:" ++ hex s | PExplain s => "explainp:" ++ hex s
  | PVacuumComplete a b c => "vacuum:" ++ showN a ++ ":" ++ showN b ++ ":" ++ showN c
  | PPong => "pong" | PGoodbye => "goodbye" | PShuttingDown => "shuttingdown"
  end.

Definition show_res {A} (f : A -> string) (r : wres A) : string :=
  match r with WOk a => f a | WErr e => show_err e end.

Definition write_header_len (n : N) : wres (list N) :=
  if (max_message_size <? n)%N then WErr ETooLarge else WOk (le_enc 4 n).

Definition run_wire_case (c : wire_case) : string :=
  match c with
  | CReq r => let e := encode_request r in
              "enc=" ++ hex e ++ " dec=" ++ show_res show_request (decode_request e)
  | CResp p => let e := encode_response p in
               "enc=" ++ hex e ++ " dec=" ++ show_res show_response (decode_response e)
  | CBytesReq bs => show_res show_request (decode_request bs)
  | CBytesResp bs => show_res show_response (decode_response bs)
  | CReadFrame bs =>
      show_res (fun '(body, rest) => "frame:" ++ hex body ++ ":" ++ show_nat (List.length rest)) (read_message bs)
  | CWriteFrameLen n => show_res (fun h => "hdr:" ++ hex h) (write_header_len n)
  | CFrameRoundTrip n =>
      match write_header_len n with
      | WErr e => show_err e
      | WOk h => if (max_message_size <? le_dec h)%N then show_err ETooLarge else "ok"
      end
  end.

Definition run_wire_cases (cs : list wire_case) : string := lines (map run_wire_case cs).
