(** B+tree (tree/bplustree.rs), two executable models.  No proofs in this file.
    1. The abstract ordered map every tree is supposed to implement, with the results of
       insert / upsert / update / remove / get / scan.
    2. The shape of a dumped tree and the structural checker run on every dump: keys ordered
       within and across pages, separators routing correctly, all leaves at one depth.
    Keys are natural numbers: the harness maps each key to its rank in the order the key type
    defines (numeric for integers, lexicographic for text and composite keys). *)
From Axv Require Import Base.Bytes.
Open Scope N_scope.

(** * Abstract map: association list sorted by key, values are (length, checksum) summaries *)
Definition amap := list (N * (N * N)).

Fixpoint aget (m : amap) (k : N) : option (N * N) :=
  match m with [] => None | (k', v) :: r => if k' =? k then Some v else if k <? k' then None else aget r k end.
Fixpoint aput (m : amap) (k : N) (v : N * N) : amap :=
  match m with
  | [] => [(k, v)]
  | (k', v') :: r => if k' =? k then (k, v) :: r else if k <? k' then (k, v) :: (k', v') :: r else (k', v') :: aput r k v
  end.
Fixpoint adel (m : amap) (k : N) : amap :=
  match m with [] => [] | (k', v) :: r => if k' =? k then r else (k', v) :: adel r k end.

Inductive top := TIns (k len sum : N) | TUps (k len sum : N) | TUpd (k len sum : N) | TRem (k : N) | TGet (k : N) | TScan.
Inductive tres := ROk | RExists | RMissing | RVal (v : option (N * N)) | RScan (m : amap).

Definition tstep (m : amap) (o : top) : amap * tres :=
  match o with
  | TIns k l s => match aget m k with Some _ => (m, RExists) | None => (aput m k (l, s), ROk) end
  | TUps k l s => (aput m k (l, s), ROk)
  | TUpd k l s => match aget m k with Some _ => (aput m k (l, s), ROk) | None => (m, RMissing) end
  | TRem k => match aget m k with Some _ => (adel m k, ROk) | None => (m, RMissing) end
  | TGet k => (m, RVal (aget m k))
  | TScan => (m, RScan m)
  end.

(** * Dumped trees *)
(** [DNode first rest]: children [first, c1, ..., cn] with separators [s1 .. sn]:
    keys(first) < s1 <= keys(c1) < s2 <= ... (a separator is a copy of the first key to its right). *)
Inductive dtree := DLeaf (keys : list N) | DNode (first : dtree) (rest : list (N * dtree)).

Fixpoint flatten (t : dtree) : list N :=
  match t with
  | DLeaf ks => ks
  | DNode f r => flatten f ++ (fix go (r : list (N * dtree)) := match r with [] => [] | (_, c) :: r' => flatten c ++ go r' end) r
  end.

Definition ge_lo (lo : option N) (x : N) : bool := match lo with Some l => l <=? x | None => true end.
Definition lt_hi (hi : option N) (x : N) : bool := match hi with Some h => x <? h | None => true end.

Fixpoint sorted_in (lo hi : option N) (ks : list N) : bool :=
  match ks with
  | [] => true
  | k :: r => ge_lo lo k && lt_hi hi k && sorted_in (Some (k + 1)) hi r
  end.

Definition next_sep (r : list (N * dtree)) (hi : option N) : option N :=
  match r with (s, _) :: _ => Some s | [] => hi end.

(** [lo] inclusive, [hi] exclusive.  Child [c] of entry [(s, c)] holds keys in [s, next separator). *)
Fixpoint wfb (lo hi : option N) (t : dtree) : bool :=
  match t with
  | DLeaf ks => sorted_in lo hi ks
  | DNode f r =>
      wfb lo (next_sep r hi) f &&
      (fix go (r : list (N * dtree)) : bool :=
         match r with
         | [] => true
         | (s, c) :: r' =>
             ge_lo lo s && lt_hi (next_sep r' hi) s && wfb (Some s) (next_sep r' hi) c && go r'
         end) r
  end.

Fixpoint depth (t : dtree) : option nat :=
  match t with
  | DLeaf _ => Some 0%nat
  | DNode f r =>
      match depth f with
      | None => None
      | Some d =>
        if (fix go (r : list (N * dtree)) : bool :=
              match r with [] => true | (_, c) :: r' => (match depth c with Some d' => Nat.eqb d d' | None => false end) && go r' end) r
        then Some (S d) else None
      end
  end.

(** Lookup as the tree does it: at a node take the child just before the first separator that
    exceeds the key. *)
Fixpoint route (k : N) (t : dtree) : bool :=
  match t with
  | DLeaf ks => existsb (N.eqb k) ks
  | DNode f r =>
      match r with
      | [] => route k f
      | (s0, _) :: _ =>
        if k <? s0 then route k f
        else (fix go (r : list (N * dtree)) : bool :=
                match r with
                | [] => false
                | (_, c) :: r' =>
                    match r' with
                    | (s2, _) :: _ => if k <? s2 then route k c else go r'
                    | [] => route k c
                    end
                end) r
      end
  end.

Definition check_tree (t : dtree) : bool := wfb None None t && (match depth t with Some _ => true | None => false end).
