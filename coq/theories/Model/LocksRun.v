(** Case runner for the lock model: the recorded per-thread lock sequences of a multi-threaded run are checked
    against the discipline for a certificate computed outside (harness mode [mt], verified checker). *)
From Axv Require Import Base.Bytes Base.Show Model.Locks.
Open Scope string_scope.

Fixpoint first_bad (cls : N -> N) (gate : N -> option N) (progs : list (list act)) (i : N) : option N :=
  match progs with
  | [] => None
  | p :: r => if disciplined cls gate [] p then first_bad cls gate r (i + 1)%N else Some i
  end.

(** [classes]: object -> class; [gates]: class -> gate object *)
Definition check_locks_case (classes gates : list (N * N)) (progs : list (list act)) : string :=
  match first_bad (rank_of classes) (gate_of gates) progs 0%N with
  | None => "ok"
  | Some i => "sequence " ++ showN i ++ " leaves the lock discipline"
  end.

Definition aw (o : N) : act := Acq MW o.
Definition ar (o : N) : act := Acq MR o.
Definition rl (o : N) : act := Rel o.
