(** Variant tags of the wire protocol (hand-written; the opcode tables over them are
    regenerated from /repo into Gen/GenWire.v). *)
From Coq Require Import NArith List. Import ListNotations.

Inductive req_tag := TCreate | TOpen | TSql | TBegin | TRollback | TCommit | TExplain
                   | TAnalyze | TVacuum | TClose | TPing | TShutdown.
Definition all_req_tags : list req_tag :=
  [TCreate; TOpen; TSql; TBegin; TRollback; TCommit; TExplain; TAnalyze; TVacuum; TClose; TPing; TShutdown].

(** [StatusCode] variants. *)
Inductive status := SOk | SError | SRows | SRowsAffected | SDdl | SExplain | SPong | SGoodbye
                  | SShuttingDown | SVacuumComplete | SBegin | SEnd.
Definition all_status : list status :=
  [SOk; SError; SRows; SRowsAffected; SDdl; SExplain; SPong; SGoodbye; SShuttingDown;
   SVacuumComplete; SBegin; SEnd].

(** [Response] variants. *)
Inductive resp_tag := PTOk | PTError | PTRows | PTSessionStarted | PTSessionEnd | PTRowsAffected
                    | PTDdl | PTExplain | PTVacuumComplete | PTPong | PTGoodbye | PTShuttingDown.
Definition all_resp_tags : list resp_tag :=
  [PTOk; PTError; PTRows; PTSessionStarted; PTSessionEnd; PTRowsAffected; PTDdl; PTExplain;
   PTVacuumComplete; PTPong; PTGoodbye; PTShuttingDown].

Definition req_tag_eqb (a b : req_tag) : bool :=
  match a, b with
  | TCreate, TCreate | TOpen, TOpen | TSql, TSql | TBegin, TBegin | TRollback, TRollback
  | TCommit, TCommit | TExplain, TExplain | TAnalyze, TAnalyze | TVacuum, TVacuum
  | TClose, TClose | TPing, TPing | TShutdown, TShutdown => true
  | _, _ => false
  end.
Definition status_eqb (a b : status) : bool :=
  match a, b with
  | SOk, SOk | SError, SError | SRows, SRows | SRowsAffected, SRowsAffected | SDdl, SDdl
  | SExplain, SExplain | SPong, SPong | SGoodbye, SGoodbye | SShuttingDown, SShuttingDown
  | SVacuumComplete, SVacuumComplete | SBegin, SBegin | SEnd, SEnd => true
  | _, _ => false
  end.
Definition resp_tag_eqb (a b : resp_tag) : bool :=
  match a, b with
  | PTOk, PTOk | PTError, PTError | PTRows, PTRows | PTSessionStarted, PTSessionStarted
  | PTSessionEnd, PTSessionEnd | PTRowsAffected, PTRowsAffected | PTDdl, PTDdl
  | PTExplain, PTExplain | PTVacuumComplete, PTVacuumComplete | PTPong, PTPong
  | PTGoodbye, PTGoodbye | PTShuttingDown, PTShuttingDown => true
  | _, _ => false
  end.
