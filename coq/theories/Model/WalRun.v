(** Case runner for the WAL model (harness mode [wal]). *)
From Axv Require Import Base.Bytes Base.Show Gen.GenWal Model.Wal.
Open Scope string_scope.

Definition show_rec (r : rec) : string :=
  showN (r_lsn r) ++ ":" ++ showN (r_tid r) ++ ":" ++ showN (r_kind r) ++ ":" ++ showN (r_undo r)
  ++ ":" ++ showN (r_redo r) ++ ":1".

Definition show_event (e : event) : string :=
  match e with
  | EPushErr l => "perr:" ++ showN l
  | ERead rs => "read[" ++ join "," (map show_rec rs) ++ "]"
  | EReadErr => "rerr"
  | EOpErr => "operr"
  | ELast None => "last:none"
  | ELast (Some l) => "last:" ++ showN l
  end.

Definition P (lsn tid kind u r : N) : op := OPush {| r_lsn := lsn; r_tid := tid; r_kind := kind; r_undo := u; r_redo := r |}.

Definition run_wal_case (c : N * list op) : string :=
  let '(bsize, ops) := c in
  match run bsize (create) ops with
  | [] => "-"
  | evs => join " " (map show_event evs)
  end.
