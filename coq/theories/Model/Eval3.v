(** The predicate forms of runtime/eval.rs as the code computes them, on abstract inputs:
    a value is NULL, TRUE or FALSE ([option bool], [None] = NULL); comparisons are
    [Option<Ordering>]-style results.  Mirrors IsNull / Between / InList / LIKE / AND / OR.  No proofs. *)
From Coq Require Import List Bool.
Import ListNotations.

Definition bval := option bool.            (* None = DataType::Null *)

(** [matches!(v, Null) != negated] *)
Definition mech_isnull (is_null negated : bool) : bval := Some (xorb is_null negated).

(** [compare_3vl]: [partial_cmp(..).map(test)]; the two tests of BETWEEN, then the match. *)
Definition mech_between (ge le : option bool) (negated : bool) : bval :=
  let between :=
    match ge, le with
    | Some false, _ | _, Some false => Some false
    | Some true, Some true => Some true
    | _, _ => None
    end in
  match between with
  | Some b => Some (xorb b negated)        (* b != negated *)
  | None => None
  end.

(** [InList]: the value is NULL -> NULL; the set contains it -> !negated; the set contains NULL -> NULL;
    otherwise negated.  [cs] = comparison of the value with each list element (None for a NULL element). *)
Definition mech_inlist (value_null : bool) (cs : list (option bool)) (negated : bool) : bval :=
  if value_null then None
  else if existsb (fun c => match c with Some true => true | _ => false end) cs then Some (negb negated)
  else if existsb (fun c => match c with None => true | _ => false end) cs then None
  else Some negated.

(** [lhs.like(pattern) != negated] (both operands non-NULL; NULL operands propagate earlier). *)
Definition mech_like (matches negated : bool) : bval := Some (xorb matches negated).

(** AND / OR in [eval_binary_op]: the NULL pre-check with its short circuits, then logical_and/or. *)
Definition mech_and (l r : bval) : bval :=
  match l, r with
  | None, _ | _, None =>
      match l with
      | Some false => Some false
      | _ => match r with
             | Some false => Some false
             | _ => None                       (* falls through to logical_and: NULL *)
             end
      end
  | Some a, Some b => Some (a && b)
  end.
Definition mech_or (l r : bval) : bval :=
  match l, r with
  | None, _ | _, None =>
      match l with
      | Some true => Some true
      | _ => match r with
             | Some true => Some true
             | _ => None
             end
      end
  | Some a, Some b => Some (a || b)
  end.
(** NOT: NULL stays NULL. *)
Definition mech_not (v : bval) : bval := option_map negb v.

(** WHERE keeps a row iff [evaluate_as_bool] is true: NULL is treated as false. *)
Definition mech_keep (v : bval) : bool := match v with Some true => true | _ => false end.
