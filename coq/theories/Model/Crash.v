(** Executable model of the commit / checkpoint / crash / recovery protocol
    (runtime/context.rs TransactionLogger, tcp/session.rs, lib.rs Database::execute / run_recovery,
    io/pager.rs Pager::flush, io/wal.rs run_analysis, io/recovery.rs run_redo).

    The logical database is abstract: [db], [op] and [apply] are section variables (an operation is one logged
    row or catalog change; applying it is total and deterministic).  The data file is a multi-version store: the
    list of operations that reached it, each tagged with the transaction that wrote it; what a reader sees is decided
    by the page-zero header (last committed id, aborted set), as [Snapshot] visibility does.

    What is *not* in this model: the byte layout of log and pages (C17, C10, C11, C18), page stealing and the
    non-atomic part of a checkpoint (the data file is the image of the last completed checkpoint; the windows in
    which it is not are a recorded finding), the 8192-id limit of the aborted bitmap (C09).
    No proofs in this file. *)
From Coq Require Import List NArith Bool.
Import ListNotations.
Open Scope N_scope.

Section Crash.
  Context {db op : Type}.
  Variable apply : op -> db -> db.
  Variable init : db.

  (** * Log records, header, disk *)
  Inductive rkind := KBegin | KCommit | KAbort | KEnd | KOp (o : op).
  Definition rec : Type := (N * rkind)%type.

  Record header := { h_created : N;      (* next transaction id (last_created_transaction) *)
                     h_committed : N;    (* last_committed_transaction *)
                     h_aborted : list N  (* aborted-transaction bitmap *) }.

  Definition memN (t : N) (l : list N) : bool := existsb (N.eqb t) l.

  (** Visibility of a version written by [t] for a reader that starts with no transaction active
      (Snapshot::is_committed_before_snapshot with the header's bounds). *)
  Definition visible (h : header) (t : N) : bool := (t <=? h_committed h) && negb (memN t (h_aborted h)).

  Definition apply_if (p : N -> bool) (d : db) (x : N * op) : db := if p (fst x) then apply (snd x) d else d.
  Definition view_from (h : header) (hist : list (N * op)) (d : db) : db := fold_left (apply_if (visible h)) hist d.
  Definition view (h : header) (hist : list (N * op)) : db := view_from h hist init.

  Record disk := { d_hist : list (N * op); d_hdr : header; d_log : list rec }.

  (** * Analysis (WriteAheadLog::run_analysis): BTreeSets are strictly increasing lists *)
  Fixpoint insert_sorted (t : N) (l : list N) : list N :=
    match l with
    | [] => [t]
    | x :: r => if t <? x then t :: l else if t =? x then l else x :: insert_sorted t r
    end.
  Definition removeN (t : N) (l : list N) : list N := filter (fun x => negb (x =? t)) l.

  Record analysis := { a_redo : list N; a_undo : list N; a_ended : list N; a_seen : list N }.
  Definition a_empty : analysis := {| a_redo := []; a_undo := []; a_ended := []; a_seen := [] |}.

  Definition analyse_rec (a : analysis) (r : rec) : analysis :=
    let t := fst r in
    let seen := insert_sorted t (a_seen a) in
    match snd r with
    | KBegin => {| a_redo := a_redo a; a_undo := insert_sorted t (a_undo a); a_ended := a_ended a; a_seen := seen |}
    | KCommit => {| a_redo := insert_sorted t (a_redo a); a_undo := removeN t (a_undo a); a_ended := a_ended a; a_seen := seen |}
    | KAbort => {| a_redo := removeN t (a_redo a); a_undo := insert_sorted t (a_undo a); a_ended := a_ended a; a_seen := seen |}
    | KEnd => {| a_redo := a_redo a; a_undo := a_undo a; a_ended := insert_sorted t (a_ended a); a_seen := seen |}
    | KOp _ => {| a_redo := a_redo a; a_undo := a_undo a; a_ended := a_ended a; a_seen := seen |}
    end.
  Definition analyse (log : list rec) : analysis := fold_left analyse_rec log a_empty.

  (** the operations of one transaction, in log order (the per-transaction LSN chain) *)
  Fixpoint ops_of (t : N) (log : list rec) : list op :=
    match log with
    | [] => []
    | (t', KOp o) :: r => if t' =? t then o :: ops_of t r else ops_of t r
    | _ :: r => ops_of t r
    end.

  (** Database::run_recovery: who is rolled back (marked aborted) *)
  Definition loser (a : analysis) (t : N) : bool :=
    memN t (a_undo a) || (negb (memN t (a_redo a)) && negb (memN t (a_ended a))).

  Definition max_tid (log : list rec) : option N :=
    match log with [] => None | r :: l => Some (fold_left N.max (map fst l) (fst r)) end.

  (** * Recovery: analysis, id counter past the log, losers aborted, redo of the winners in id order under the
      recovery transaction, commit, checkpoint (which empties the log). *)
  Definition recovery_tid (d : disk) : N :=
    match max_tid (d_log d) with
    | Some m => if h_created (d_hdr d) <=? m then m + 1 else h_created (d_hdr d)
    | None => h_created (d_hdr d)
    end.

  Definition replay (d : disk) : list op := flat_map (fun t => ops_of t (d_log d)) (a_redo (analyse (d_log d))).

  Definition recover (d : disk) : disk :=
    let a := analyse (d_log d) in
    let r := recovery_tid d in
    {| d_hist := d_hist d ++ map (pair r) (replay d);
       d_hdr := {| h_created := r + 1;
                   h_committed := if h_committed (d_hdr d) <? r then r else h_committed (d_hdr d);
                   h_aborted := h_aborted (d_hdr d) ++ filter (loser a) (a_seen a) |};
       d_log := [] |}.

  (** Recovery interrupted before its checkpoint touched the data file: the only thing that can have reached the
      disk is the log force at the start of that checkpoint, i.e. the recovery transaction's own records. *)
  Definition recovery_records (d : disk) : list rec :=
    (recovery_tid d, KBegin) :: map (fun o => (recovery_tid d, KOp o)) (replay d).
  Definition interrupted (d : disk) (n : nat) : disk :=
    {| d_hist := d_hist d; d_hdr := d_hdr d; d_log := d_log d ++ firstn n (recovery_records d) |}.

  (** * The running engine *)
  Record engine := {
    e_hist : list (N * op);        (* every version written so far, execution order *)
    e_hdr : header;                (* page-zero header in memory *)
    e_active : list N;
    e_pending : list rec;          (* log records not yet forced *)
    e_disk : disk;
    g_durable : list N;            (* ghost: transactions whose COMMIT record has reached the disk *)
    g_cpending : list N;           (* ghost: committed in memory, COMMIT record still pending *)
    g_acked : list N               (* ghost: transactions whose commit call has returned *)
  }.

  Definition hdr0 : header := {| h_created := 0; h_committed := 0; h_aborted := [] |}.
  Definition init_engine : engine :=
    {| e_hist := []; e_hdr := hdr0; e_active := []; e_pending := [];
       e_disk := {| d_hist := []; d_hdr := hdr0; d_log := [] |};
       g_durable := []; g_cpending := []; g_acked := [] |}.

  Inductive ev :=
  | EBegin                       (* Database::begin_transaction: new id, BEGIN record *)
  | EOp (t : N) (o : op)         (* one logged change of transaction t *)
  | ECommit (t : N)              (* log_commit + coordinator commit *)
  | EAbort (t : N)               (* log_abort + coordinator abort *)
  | EEnd (t : N)                 (* log_end: force the log, then the END record; the call returns after it *)
  | EForce                       (* any other force of the log *)
  | ECheckpoint.                 (* Pager::flush: force, pages, header, truncate *)

  Definition force (e : engine) : engine :=
    {| e_hist := e_hist e; e_hdr := e_hdr e; e_active := e_active e; e_pending := [];
       e_disk := {| d_hist := d_hist (e_disk e); d_hdr := d_hdr (e_disk e); d_log := d_log (e_disk e) ++ e_pending e |};
       g_durable := g_durable e ++ g_cpending e; g_cpending := []; g_acked := g_acked e |}.

  Definition push (e : engine) (r : rec) : engine :=
    {| e_hist := e_hist e; e_hdr := e_hdr e; e_active := e_active e; e_pending := e_pending e ++ [r];
       e_disk := e_disk e; g_durable := g_durable e; g_cpending := g_cpending e; g_acked := g_acked e |}.

  Definition step (e : engine) (x : ev) : engine :=
    match x with
    | EBegin =>
        let t := h_created (e_hdr e) in
        {| e_hist := e_hist e;
           e_hdr := {| h_created := t + 1; h_committed := h_committed (e_hdr e); h_aborted := h_aborted (e_hdr e) |};
           e_active := e_active e ++ [t]; e_pending := e_pending e ++ [(t, KBegin)];
           e_disk := e_disk e; g_durable := g_durable e; g_cpending := g_cpending e; g_acked := g_acked e |}
    | EOp t o =>
        if memN t (e_active e) then
          {| e_hist := e_hist e ++ [(t, o)]; e_hdr := e_hdr e; e_active := e_active e;
             e_pending := e_pending e ++ [(t, KOp o)];
             e_disk := e_disk e; g_durable := g_durable e; g_cpending := g_cpending e; g_acked := g_acked e |}
        else e
    | ECommit t =>
        if memN t (e_active e) then
          {| e_hist := e_hist e;
             e_hdr := {| h_created := h_created (e_hdr e);
                         h_committed := if h_committed (e_hdr e) <? t then t else h_committed (e_hdr e);
                         h_aborted := h_aborted (e_hdr e) |};
             e_active := removeN t (e_active e); e_pending := e_pending e ++ [(t, KCommit)];
             e_disk := e_disk e; g_durable := g_durable e; g_cpending := g_cpending e ++ [t]; g_acked := g_acked e |}
        else e
    | EAbort t =>
        if memN t (e_active e) then
          {| e_hist := e_hist e;
             e_hdr := {| h_created := h_created (e_hdr e); h_committed := h_committed (e_hdr e);
                         h_aborted := h_aborted (e_hdr e) ++ [t] |};
             e_active := removeN t (e_active e); e_pending := e_pending e ++ [(t, KAbort)];
             e_disk := e_disk e; g_durable := g_durable e; g_cpending := g_cpending e; g_acked := g_acked e |}
        else e
    | EEnd t =>
        if negb (memN t (e_active e)) && (t <? h_created (e_hdr e)) then
          let e1 := push (force e) (t, KEnd) in
          {| e_hist := e_hist e1; e_hdr := e_hdr e1; e_active := e_active e1; e_pending := e_pending e1;
             e_disk := e_disk e1; g_durable := g_durable e1; g_cpending := g_cpending e1;
             g_acked := if memN t (g_durable e1) then g_acked e1 ++ [t] else g_acked e1 |}
        else e
    | EForce => force e
    | ECheckpoint =>
        let e1 := force e in
        {| e_hist := e_hist e1; e_hdr := e_hdr e1; e_active := e_active e1; e_pending := [];
           e_disk := {| d_hist := e_hist e1; d_hdr := e_hdr e1; d_log := [] |};
           g_durable := g_durable e1; g_cpending := []; g_acked := g_acked e1 |}
    end.

  Definition run (evs : list ev) : engine := fold_left step evs init_engine.

  (** every checkpoint happens while no transaction is open *)
  Fixpoint quiescent_from (e : engine) (evs : list ev) : Prop :=
    match evs with
    | [] => True
    | x :: r => (x = ECheckpoint -> e_active e = []) /\ quiescent_from (step e x) r
    end.
  Definition quiescent (evs : list ev) : Prop := quiescent_from init_engine evs.

  (** * Specification: what a reader must find after a crash at this point: the versions written by the
      transactions whose commit is durable, in the order in which they were written. *)
  Definition spec_view (e : engine) : db :=
    fold_left (apply_if (fun t => memN t (g_durable e))) (e_hist e) init.

  (** the state found after a crash followed by a (complete) recovery *)
  Definition recovered_view (d : disk) : db := let d' := recover d in view (d_hdr d') (d_hist d').

  (** operations tagged with their writer, in log order *)
  Fixpoint tagged_ops (log : list rec) : list (N * op) :=
    match log with
    | [] => []
    | (t, KOp o) :: r => (t, o) :: tagged_ops r
    | _ :: r => tagged_ops r
    end.

  Definition commutes (o1 o2 : op) : Prop := forall d, apply o1 (apply o2 d) = apply o2 (apply o1 d).

  (** every pair of operations that the replay (ascending id, each transaction's operations together) puts in the
      other order commutes: under snapshot isolation with write-write conflict detection, committed transactions that
      overlap in time write disjoint rows *)
  Fixpoint inversions_commute (l : list (N * op)) : Prop :=
    match l with
    | [] => True
    | (t, o) :: r => (forall t' o', In (t', o') r -> t' < t -> commutes o o') /\ inversions_commute r
    end.
End Crash.

Arguments KBegin {op}.
Arguments KCommit {op}.
Arguments KAbort {op}.
Arguments KEnd {op}.
Arguments EBegin {op}.
Arguments EForce {op}.
Arguments ECheckpoint {op}.
Arguments ECommit {op} t.
Arguments EAbort {op} t.
Arguments EEnd {op} t.
