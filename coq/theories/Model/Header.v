(** Executable model of the persisted set of aborted transactions (storage/page.rs, PageZeroHeader):
    a fixed bitmap of [aborted_bitmap_size] bytes indexed by transaction id.  The header is a
    plain-old-data struct written to page zero as is, so a reopen reads back the same bytes.
    [clear_up_to] is written per byte (the code loops over transaction ids); the correspondence
    stream compares the two.  No proofs in this file. *)
From Axv Require Import Base.Bytes Gen.GenHeader.
Open Scope N_scope.

Definition bitmap := list N.
Definition empty_bitmap : bitmap := repeat 0 (N.to_nat aborted_bitmap_size).

Definition get_byte (bm : bitmap) (i : N) : N := nth (N.to_nat i) bm 0.
Definition set_byte (bm : bitmap) (i : N) (v : N) : bitmap :=
  firstn (N.to_nat i) bm ++ v :: skipn (S (N.to_nat i)) bm.

(** [mark_transaction_aborted] *)
Definition mark (bm : bitmap) (x : N) : bitmap :=
  if x <? max_tracked_aborted_txs
  then set_byte bm (x / 8) (N.lor (get_byte bm (x / 8)) (N.shiftl 1 (x mod 8)))
  else bm.

(** [is_transaction_aborted] *)
Definition is_aborted (bm : bitmap) (x : N) : bool :=
  if max_tracked_aborted_txs <=? x then false
  else negb (N.land (get_byte bm (x / 8)) (N.shiftl 1 (x mod 8)) =? 0).

(** [clear_aborted_up_to]: bits of ids [0 .. min m (max-1)] are cleared. *)
Definition clear_byte (m : N) (i : N) (byte : N) : N :=
  fold_left (fun acc b => if 8 * i + b <=? N.min m (max_tracked_aborted_txs - 1) then N.ldiff acc (N.shiftl 1 b) else acc)
            [0; 1; 2; 3; 4; 5; 6; 7] byte.
Fixpoint clear_from (m : N) (i : N) (bm : bitmap) : bitmap :=
  match bm with
  | [] => []
  | byte :: r => clear_byte m i byte :: clear_from m (i + 1) r
  end.
Definition clear_up_to (bm : bitmap) (m : N) : bitmap := clear_from m 0 bm.

(** [get_aborted_transactions] *)
Definition nseq (n : N) : list N := map N.of_nat (seq 0 (N.to_nat n)).
Definition aborted_list (bm : bitmap) : list N := filter (is_aborted bm) (nseq max_tracked_aborted_txs).

(** What a reopen sees. *)
Definition reload (bm : bitmap) : bitmap := bm.
