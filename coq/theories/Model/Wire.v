(** Executable model of the wire protocol (crates/axmos-db/src/tcp/mod.rs).
    Strings are byte lists (a Rust [String] is a valid UTF-8 byte string); decoders apply
    [lossy] = [String::from_utf8_lossy].  No proofs in this file. *)
From Axv Require Import Base.Bytes Model.WireTags Gen.GenWire.
Open Scope N_scope.

(** * UTF-8 lossy decoding, as core::str::lossy::Utf8Chunks does it *)
Definition in_rng (lo hi b : N) : bool := (lo <=? b) && (b <=? hi).
Definition is_cont (b : N) : bool := in_rng 128 191 b.

Definition ok3 (b0 b1 : N) : bool :=
  ((b0 =? 224) && in_rng 160 191 b1) || (in_rng 225 236 b0 && in_rng 128 191 b1)
  || ((b0 =? 237) && in_rng 128 159 b1) || (in_rng 238 239 b0 && in_rng 128 191 b1).
Definition ok4 (b0 b1 : N) : bool :=
  ((b0 =? 240) && in_rng 144 191 b1) || (in_rng 241 243 b0 && in_rng 128 191 b1)
  || ((b0 =? 244) && in_rng 128 143 b1).

(** One scalar value: [(true, n)] = a valid sequence of [n] bytes, [(false, k)] = an invalid
    sequence of [k >= 1] bytes to be replaced by U+FFFD. *)
Definition utf8_step (bs : list N) : bool * nat :=
  match bs with
  | [] => (true, 0%nat)
  | b0 :: r =>
    if b0 <? 128 then (true, 1%nat)
    else if in_rng 194 223 b0 then
      match r with
      | b1 :: _ => if is_cont b1 then (true, 2%nat) else (false, 1%nat)
      | [] => (false, 1%nat)
      end
    else if in_rng 224 239 b0 then
      match r with
      | b1 :: r2 =>
        if ok3 b0 b1 then
          match r2 with
          | b2 :: _ => if is_cont b2 then (true, 3%nat) else (false, 2%nat)
          | [] => (false, 2%nat)
          end
        else (false, 1%nat)
      | [] => (false, 1%nat)
      end
    else if in_rng 240 244 b0 then
      match r with
      | b1 :: r2 =>
        if ok4 b0 b1 then
          match r2 with
          | b2 :: r3 =>
            if is_cont b2 then
              match r3 with
              | b3 :: _ => if is_cont b3 then (true, 4%nat) else (false, 3%nat)
              | [] => (false, 3%nat)
              end
            else (false, 2%nat)
          | [] => (false, 2%nat)
          end
        else (false, 1%nat)
      | [] => (false, 1%nat)
      end
    else (false, 1%nat)
  end.

Definition replacement : list N := [239; 191; 189].

Fixpoint lossy_fuel (fuel : nat) (bs : list N) : list N :=
  match fuel with
  | O => []
  | S f =>
    match bs with
    | [] => []
    | _ =>
      let '(ok, n) := utf8_step bs in
      if ok then firstn n bs ++ lossy_fuel f (skipn n bs)
      else replacement ++ lossy_fuel f (skipn n bs)
    end
  end.
Definition lossy (bs : list N) : list N := lossy_fuel (S (length bs)) bs.

Fixpoint utf8_valid_fuel (fuel : nat) (bs : list N) : bool :=
  match fuel with
  | O => false
  | S f =>
    match bs with
    | [] => true
    | _ => let '(ok, n) := utf8_step bs in ok && utf8_valid_fuel f (skipn n bs)
    end
  end.
Definition utf8_valid (bs : list N) : bool := utf8_valid_fuel (S (length bs)) bs.

(** * Messages *)
Definition str := list N.

Inductive request :=
| RCreate (p : str) | ROpen (p : str) | RSql (s : str) | RBegin | RRollback | RCommit
| RExplain (s : str) | RAnalyze (rate_bits : N) (max_rows : N) | RVacuum | RClose | RPing | RShutdown.

Inductive response :=
| POk (m : str) | PError (m : str) | PRows (cols : list str) (data : list (list str))
| PSessionStarted | PSessionEnd | PRowsAffected (n : N) | PDdl (m : str) | PExplain (m : str)
| PVacuumComplete (tables bytes txs : N) | PPong | PGoodbye | PShuttingDown.

Definition req_tag_of (r : request) : req_tag :=
  match r with
  | RCreate _ => TCreate | ROpen _ => TOpen | RSql _ => TSql | RBegin => TBegin
  | RRollback => TRollback | RCommit => TCommit | RExplain _ => TExplain
  | RAnalyze _ _ => TAnalyze | RVacuum => TVacuum | RClose => TClose | RPing => TPing
  | RShutdown => TShutdown
  end.
Definition resp_tag_of (p : response) : resp_tag :=
  match p with
  | POk _ => PTOk | PError _ => PTError | PRows _ _ => PTRows | PSessionStarted => PTSessionStarted
  | PSessionEnd => PTSessionEnd | PRowsAffected _ => PTRowsAffected | PDdl _ => PTDdl
  | PExplain _ => PTExplain | PVacuumComplete _ _ _ => PTVacuumComplete | PPong => PTPong
  | PGoodbye => PTGoodbye | PShuttingDown => PTShuttingDown
  end.

Inductive werr := EVersion | EUnknownCmd | EUnknownStatus | EInvalid | ETooLarge | EIo | EPanic.
Inductive wres (A : Type) := WOk (a : A) | WErr (e : werr).
Arguments WOk {A} a.
Arguments WErr {A} e.

(** * Encoders *)
Definition write_string (s : str) : list N := le_enc 4 (lenN s) ++ s.

Definition encode_request (r : request) : list N :=
  protocol_version :: req_enc_op (req_tag_of r) ::
  match r with
  | RCreate s | ROpen s | RSql s | RExplain s => write_string s
  | RAnalyze rate rows => le_enc 8 rate ++ le_enc 8 rows
  | _ => []
  end.

Definition encode_response (p : response) : list N :=
  protocol_version :: status_enc (resp_status (resp_tag_of p)) ::
  match p with
  | POk s | PError s | PDdl s | PExplain s => write_string s
  | PRows cols data =>
      le_enc 4 (lenN cols) ++ concat (map write_string cols)
      ++ le_enc 4 (lenN data) ++ concat (map (fun row => concat (map write_string row)) data)
  | PRowsAffected n => le_enc 8 n
  | PVacuumComplete a b c => le_enc 8 a ++ le_enc 8 b ++ le_enc 8 c
  | _ => []
  end.

(** * Decoders *)
(** [read_string_with_len]: the decoded string and the remaining input. *)
Definition read_string (data : list N) : wres (str * list N) :=
  if lenN data <? 4 then WErr EInvalid
  else
    let len := le_dec (firstn 4 data) in
    if lenN data <? 4 + len then WErr EInvalid
    else
      let body := skipn 4 data in
      let n := N.to_nat len in
      WOk (lossy (firstn n body), skipn n body).

Definition decode_request (data : list N) : wres request :=
  match data with
  | [] => WErr EInvalid
  | v :: rest =>
    if negb (v =? protocol_version) then WErr EVersion
    else match rest with
    | [] => WErr EInvalid
    | cmd :: payload =>
      match req_dec_op cmd with
      | None => WErr EUnknownCmd
      | Some t =>
        let with_str (k : str -> request) :=
          match read_string payload with WOk (s, _) => WOk (k s) | WErr e => WErr e end in
        match t with
        | TCreate => with_str RCreate
        | TOpen => with_str ROpen
        | TSql => with_str RSql
        | TExplain => with_str RExplain
        | TAnalyze =>
            if lenN payload <? 16 then WErr EInvalid
            else WOk (RAnalyze (le_dec (firstn 8 payload)) (le_dec (firstn 8 (skipn 8 payload))))
        | TClose => WOk RClose | TPing => WOk RPing | TVacuum => WOk RVacuum | TBegin => WOk RBegin
        | TCommit => WOk RCommit | TRollback => WOk RRollback | TShutdown => WOk RShutdown
        end
      end
    end
  end.

(** Reads [count] strings; the fuel (one more than the input length) is never exhausted because
    every string consumes at least its 4-byte length prefix. *)
Fixpoint read_strings (fuel : nat) (count : N) (data : list N) : wres (list str * list N) :=
  if count =? 0 then WOk ([], data)
  else match fuel with
  | O => WErr EPanic
  | S f =>
    match read_string data with
    | WErr e => WErr e
    | WOk (s, rest) =>
      match read_strings f (count - 1) rest with
      | WErr e => WErr e
      | WOk (ss, rest') => WOk (s :: ss, rest')
      end
    end
  end.

Fixpoint read_rows (fuel : nat) (rows cols : N) (data : list N) : wres (list (list str) * list N) :=
  if rows =? 0 then WOk ([], data)
  else match fuel with
  | O => WErr EPanic
  | S f =>
    match read_strings (S (length data)) cols data with
    | WErr e => WErr e
    | WOk (r, rest) =>
      match read_rows f (rows - 1) cols rest with
      | WErr e => WErr e
      | WOk (rs, rest') => WOk (r :: rs, rest')
      end
    end
  end.

(** [Response::from_bytes] for the [Rows] status.  The second component is the total number of
    vector slots requested through [Vec::with_capacity] (allocation accounting). *)
Definition decode_rows (payload : list N) : wres response * N :=
  if lenN payload <? 4 then (WErr EInvalid, 0)
  else
    let col_count := le_dec (firstn 4 payload) in
    let p1 := skipn 4 payload in
    if lenN p1 / 4 <? col_count then (WErr EInvalid, 0)
    else
      match read_strings (S (length p1)) col_count p1 with
      | WErr e => (WErr e, col_count)
      | WOk (cols, p2) =>
        if lenN p2 <? 4 then (WErr EInvalid, col_count)
        else
          let row_count := le_dec (firstn 4 p2) in
          let p3 := skipn 4 p2 in
          if (col_count =? 0) && negb (row_count =? 0) then (WErr EInvalid, col_count)
          else if lenN p3 / 4 <? row_count * col_count then (WErr EInvalid, col_count)
          else
            let alloc := col_count + row_count + row_count * col_count in
            match read_rows (S (length p3)) row_count col_count p3 with
            | WErr e => (WErr e, alloc)
            | WOk (data, _) => (WOk (PRows cols data), alloc)
            end
      end.

Definition decode_response_alloc (data : list N) : wres response * N :=
  match data with
  | v :: st :: payload =>
    if negb (v =? protocol_version) then (WErr EVersion, 0)
    else match status_dec st with
    | None => (WErr EUnknownStatus, 0)
    | Some s =>
      let with_str (k : str -> response) :=
        match read_string payload with WOk (m, _) => (WOk (k m), 0) | WErr e => (WErr e, 0) end in
      match status_resp s with
      | PTOk => with_str POk
      | PTError => with_str PError
      | PTDdl => with_str PDdl
      | PTExplain => with_str PExplain
      | PTRows => decode_rows payload
      | PTRowsAffected =>
          if lenN payload <? 8 then (WErr EInvalid, 0) else (WOk (PRowsAffected (le_dec (firstn 8 payload))), 0)
      | PTVacuumComplete =>
          if lenN payload <? 24 then (WErr EInvalid, 0)
          else (WOk (PVacuumComplete (le_dec (firstn 8 payload)) (le_dec (firstn 8 (skipn 8 payload)))
                                     (le_dec (firstn 8 (skipn 16 payload)))), 0)
      | PTPong => (WOk PPong, 0) | PTGoodbye => (WOk PGoodbye, 0)
      | PTShuttingDown => (WOk PShuttingDown, 0)
      | PTSessionStarted => (WOk PSessionStarted, 0) | PTSessionEnd => (WOk PSessionEnd, 0)
      end
    end
  | _ => (WErr EInvalid, 0)
  end.
Definition decode_response (data : list N) : wres response := fst (decode_response_alloc data).

(** * Framing *)
Definition write_message (data : list N) : wres (list N) :=
  if max_message_size <? lenN data then WErr ETooLarge else WOk (le_enc 4 (lenN data) ++ data).

(** [read_message] on a byte stream: the frame body and the rest of the stream. *)
Definition read_message (input : list N) : wres (list N * list N) :=
  if lenN input <? 4 then WErr EIo
  else
    let len := le_dec (firstn 4 input) in
    if max_message_size <? len then WErr ETooLarge
    else
      let body := skipn 4 input in
      if lenN body <? len then WErr EIo
      else WOk (firstn (N.to_nat len) body, skipn (N.to_nat len) body).
