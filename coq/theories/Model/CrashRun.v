(** Case runner for the crash protocol model (harness mode [crash], protocol stream): the model is instantiated
    with a one-table key/value database and prints, for every prefix of the event list, the records of the forced
    log and the contents found after crash + recovery. *)
From Axv Require Import Base.Bytes Base.Show Model.Crash.
Open Scope string_scope.

Inductive kvop := OCreate | OIns (id : N) (v : Z) | OUpd (id : N) (v : Z) | ODel (id : N).
Definition kvdb := option (list (N * Z)).

Fixpoint kv_has (id : N) (l : list (N * Z)) : bool :=
  match l with [] => false | (i, _) :: r => if (i =? id)%N then true else kv_has id r end.
Fixpoint kv_set (id : N) (v : Z) (l : list (N * Z)) : list (N * Z) :=
  match l with [] => [] | (i, w) :: r => if (i =? id)%N then (i, v) :: r else (i, w) :: kv_set id v r end.
Definition kv_del (id : N) (l : list (N * Z)) : list (N * Z) := filter (fun p => negb (fst p =? id)%N) l.

(** redo semantics of the engine: INSERT of a row that is there does nothing, UPDATE/DELETE of a row that is not
    there does nothing, CREATE of the table that is there fails (not reachable from a completed checkpoint) *)
Definition kv_apply (o : kvop) (d : kvdb) : kvdb :=
  match o, d with
  | OCreate, None => Some []
  | OCreate, Some l => Some l
  | _, None => None
  | OIns id v, Some l => Some (if kv_has id l then l else List.app l [(id, v)])
  | OUpd id v, Some l => Some (kv_set id v l)
  | ODel id, Some l => Some (kv_del id l)
  end.

Definition show_kvdb (d : kvdb) : string :=
  match d with
  | None => "t=absent"
  | Some l => "t=rows!:2[" ++ join ";" (map (fun p => showN (fst p) ++ "," ++ showZ (snd p)) l) ++ "]"
  end.

Definition show_rec (r : rec (op := kvop)) : string :=
  (match snd r with KBegin => "B" | KCommit => "C" | KAbort => "A" | KEnd => "E" | KOp _ => "O" end) ++ showN (fst r).

Definition show_disk (d : disk (op := kvop)) : string :=
  join "." (map show_rec (d_log d)) ++ "#" ++ show_kvdb (recovered_view kv_apply None d).

Fixpoint dedup_adjacent (l : list string) : list string :=
  match l with
  | x :: ((y :: _) as r) => if String.eqb x y then dedup_adjacent r else x :: dedup_adjacent r
  | _ => l
  end.

Fixpoint prefixes_from (e : engine (op := kvop)) (evs : list (ev (op := kvop))) : list string :=
  match evs with
  | [] => [show_disk (e_disk e)]
  | x :: r => show_disk (e_disk e) :: prefixes_from (step e x) r
  end.

(** the distinct on-disk situations the history goes through, in order *)
Definition run_protocol_case (evs : list (ev (op := kvop))) : string :=
  join " | " (dedup_adjacent (prefixes_from init_engine evs)).

(** the specification side for the same prefixes: contents defined by the durable transactions *)
Fixpoint spec_from (e : engine (op := kvop)) (evs : list (ev (op := kvop))) : list string :=
  match evs with
  | [] => [show_kvdb (spec_view kv_apply None e)]
  | x :: r => show_kvdb (spec_view kv_apply None e) :: spec_from (step e x) r
  end.
Definition run_protocol_spec (evs : list (ev (op := kvop))) : string :=
  join " | " (dedup_adjacent (spec_from init_engine evs)).

Definition demo : list (ev (op := kvop)) :=
  [EBegin; EOp 0 OCreate; ECommit 0; EEnd 0; EBegin; EOp 1 (OIns 1 5); EBegin; EOp 2 (OIns 2 7); ECommit 2; EEnd 2;
   EAbort 1; EEnd 1; ECheckpoint; EBegin; EOp 3 (OUpd 2 9); ECommit 3; EForce].
Eval vm_compute in run_protocol_case demo.
Eval vm_compute in run_protocol_spec demo.
