(** The page allocator of io/pager.rs: `allocate_page` (pop the head of the free list, or extend
    the file) and `dealloc_page` (append at the tail), with the free list threaded through the
    `next` field of the freed pages and its ends recorded in page zero.  A freed B+tree page gets a
    fresh header (next = None); a freed overflow page keeps the `next` it had as a chain link
    (MemFrame::dealloc only clears its data), which is harmless exactly when the links of a chain
    are freed in chain order - the only way the engine frees them (CellDeallocator) and the unit
    [FDeallocChain] of this model.  [used] is a ghost: the pages handed out and not yet returned.
    No proofs in this file. *)
From Coq Require Export List NArith Bool.
Export ListNotations.
Open Scope N_scope.

Definition hdr := list (N * option N).            (* page -> its `next` field; newest entry first *)
Definition get (m : hdr) (p : N) : option N :=
  match find (fun e => fst e =? p) m with Some e => snd e | None => None end.
Definition set (m : hdr) (p : N) (v : option N) : hdr := (p, v) :: m.

Record fstate := mkF { first : option N; last : option N; nxt : hdr; total : N; used : list N }.
Definition finit : fstate := mkF None None [] 1 [].

Inductive fop := FAlloc | FLink (a b : N) | FDeallocB (p : N) | FDeallocO (p : N) | FDeallocChain (ps : list N).
Inductive fres := FId (p : N) | FOk | FRejected.

Definition opt_eqb (a : option N) (b : N) : bool := match a with Some x => x =? b | None => false end.
Definition mem_n (p : N) (l : list N) : bool := existsb (N.eqb p) l.
Definition remove_n (p : N) (l : list N) : list N := filter (fun x => negb (x =? p)) l.

Definition alloc (s : fstate) : fstate * fres :=
  match first s with
  | Some x =>
    (mkF (get (nxt s) x) (if opt_eqb (last s) x then None else last s) (set (nxt s) x None) (total s) (x :: used s), FId x)
  | None => (mkF None (last s) (set (nxt s) (total s) None) (total s + 1) (total s :: used s), FId (total s))
  end.

(** the pointer surgery of dealloc_page; [fresh] = the freed page gets a new header *)
Definition dealloc1 (s : fstate) (p : N) (fresh : bool) : fstate :=
  let n1 := match last s with Some l => set (nxt s) l (Some p) | None => nxt s end in
  let n2 := if fresh then set n1 p None else n1 in
  mkF (match first s with None => Some p | f => f end) (Some p) n2 (total s) (remove_n p (used s)).

(** a chain as the engine frees it: links in use, distinct, each pointing at the next, the last at nothing *)
Fixpoint chain_ok (m : hdr) (us : list N) (ps : list N) : bool :=
  match ps with
  | [] => true
  | p :: r => mem_n p us && negb (mem_n p r) && negb (p =? 0) &&
              match r with [] => match get m p with None => true | Some _ => false end
                         | q :: _ => opt_eqb (get m p) q end && chain_ok m us r
  end.

Definition fstep (s : fstate) (o : fop) : fstate * fres :=
  match o with
  | FAlloc => alloc s
  | FLink a b => if mem_n a (used s) then (mkF (first s) (last s) (set (nxt s) a (Some b)) (total s) (used s), FOk) else (s, FRejected)
  | FDeallocB p => if mem_n p (used s) && negb (p =? 0) then (dealloc1 s p true, FOk) else (s, FRejected)
  | FDeallocO p => if mem_n p (used s) && negb (p =? 0) then (dealloc1 s p false, FOk) else (s, FRejected)
  | FDeallocChain ps =>
    if chain_ok (nxt s) (used s) ps then (fold_left (fun st p => dealloc1 st p false) ps s, FOk) else (s, FRejected)
  end.

Fixpoint frun (s : fstate) (ops : list fop) : fstate * list fres :=
  match ops with
  | [] => (s, [])
  | o :: r => let '(s1, a) := fstep s o in let '(s2, l) := frun s1 r in (s2, a :: l)
  end.

(** the free list as anyone reads it: follow `next` from the recorded head *)
Fixpoint walk (fuel : nat) (m : hdr) (cur : option N) : list N :=
  match fuel, cur with
  | S f, Some x => x :: walk f m (get m x)
  | _, _ => []
  end.
Definition free_list (s : fstate) : list N := walk (N.to_nat (total s)) (nxt s) (first s).

(** operations the engine performs: single overflow pages are never freed on their own *)
Definition engine_op (o : fop) : bool := match o with FDeallocO _ => false | _ => true end.
