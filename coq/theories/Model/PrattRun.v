(** Case runner for the Pratt model (harness mode [pexpr]) with the regenerated table. *)
From Axv Require Import Base.Bytes Base.Show Model.PrattOps Model.Pratt Gen.GenPratt.
Open Scope string_scope.

Definition op_name (o : pbinop) : string :=
  match o with
  | BOr => "or" | BAnd => "and" | BEq => "eq" | BNeq => "neq" | BLt => "lt" | BGt => "gt" | BLe => "le" | BGe => "ge"
  | BLike => "like" | BPlus => "plus" | BMinus => "minus" | BMul => "mul" | BDiv => "div" | BMod => "mod" | BConcat => "concat"
  end.

Fixpoint show_pexpr (e : pexpr) : string :=
  match e with
  | PNum n => showN n
  | PId k => "x" ++ showN k
  | PBin o a b => "(" ++ op_name o ++ " " ++ show_pexpr a ++ " " ++ show_pexpr b ++ ")"
  | PNot a => "(not " ++ show_pexpr a ++ ")"
  end.

Definition run_pexpr_case (ts : list ptok) : string :=
  match parse infix_bp pnot ts with
  | Some (e, []) => show_pexpr e ++ " end"
  | Some (e, _) => show_pexpr e ++ " more"
  | None => "err"
  end.
