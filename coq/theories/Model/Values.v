(** Executable model of the value layer: VarInt (types/varint.rs), Blob comparison (types/blob.rs),
    DataType equality / ordering / hashing (types/macros/datatype.rs), casts (types/mod.rs,
    types/numeric.rs).  Floats are IEEE-754 bit patterns ([N]); integers are mathematical ([Z]) with
    the machine ranges written into the functions that depend on them.  No proofs here. *)
From Axv Require Import Base.Bytes.
Open Scope Z_scope.

(** * VarInt: zig-zag + base 128, exactly with the shifts and masks of the code *)
Definition wrap64 (z : Z) : Z := z mod 2 ^ 64.

(** [((value << 1) ^ (value >> 63)) as u64] *)
Definition zigzag (v : Z) : Z := wrap64 (Z.lxor (Z.shiftl v 1) (Z.shiftr v 63)).
(** [((value >> 1) as i64) ^ (-((value & 1) as i64))] for a u64 [u] *)
Definition unzigzag (u : Z) : Z := Z.lxor (Z.shiftr u 1) (- (Z.land u 1)).

(** The encode loop; ten iterations always suffice for a u64. *)
Fixpoint varint_enc_fuel (fuel : nat) (u : Z) : list N :=
  match fuel with
  | O => []
  | S f =>
    let b := Z.land u 127 in
    let u' := Z.shiftr u 7 in
    if u' =? 0 then [Z.to_N b] else Z.to_N (Z.lor b 128) :: varint_enc_fuel f u'
  end.
Definition varint_encode (v : Z) : list N := varint_enc_fuel 10 (zigzag v).

(** [from_encoded_bytes]: the number of bytes of the varint at the head of [bs]
    (scans at most MAX_VARINT_LEN = 10 bytes for one without the continuation bit). *)
Fixpoint varint_scan (fuel : nat) (bs : list N) : option nat :=
  match fuel, bs with
  | O, _ => None
  | _, [] => None
  | S f, b :: r =>
    if Z.land (Z.of_N b) 128 =? 0 then Some 1%nat
    else match varint_scan f r with Some n => Some (S n) | None => None end
  end.

(** [value()]: [result |= ((b & 0x7F) as u64) << shift], u64 arithmetic. *)
Fixpoint varint_val (bs : list N) (shift acc : Z) : Z :=
  match bs with
  | [] => acc
  | b :: r =>
    let acc' := Z.lor acc (wrap64 (Z.shiftl (Z.land (Z.of_N b) 127) shift)) in
    if Z.land (Z.of_N b) 128 =? 0 then acc' else varint_val r (shift + 7) acc'
  end.

(** Decoded value and number of bytes consumed. *)
Definition varint_decode (bs : list N) : option (Z * nat) :=
  match varint_scan 10 bs with
  | None => None
  | Some n => Some (unzigzag (varint_val (firstn n bs) 0 0), n)
  end.

(** * Blob comparison, as BlobComparator::partial_cmp_blobs *)
Open Scope N_scope.
Definition be_val (bs : list N) : N := fold_left (fun acc b => acc * 256 + b) bs 0.

Fixpoint cmp_bytes (a b : list N) : comparison :=
  match a, b with
  | x :: a', y :: b' => match x ?= y with Eq => cmp_bytes a' b' | o => o end
  | _, _ => Eq
  end.

(** [cc] iterations of the 8-byte big-endian chunk loop; returns the verdict and what is left. *)
Fixpoint cmp_chunks (cc : nat) (a b : list N) : comparison * (list N * list N) :=
  match cc with
  | O => (Eq, (a, b))
  | S c =>
    match be_val (firstn 8 a) ?= be_val (firstn 8 b) with
    | Eq => cmp_chunks c (skipn 8 a) (skipn 8 b)
    | o => (o, (a, b))
    end
  end.

Definition blob_cmp (l r : list N) : comparison :=
  let n := Nat.min (length l) (length r) in
  let res :=
    if (8 <? n)%nat then
      let cc := (n / 8)%nat in
      match cmp_chunks cc (firstn n l) (firstn n r) with
      | (Eq, (l', r')) => cmp_bytes l' r'
      | (o, _) => o
      end
    else cmp_bytes (firstn n l) (firstn n r) in
  match res with
  | Eq => Nat.compare (length l) (length r)
  | o => o
  end.

(** Specification: lexicographic order on byte strings, a proper prefix first. *)
Fixpoint lex_cmp (a b : list N) : comparison :=
  match a, b with
  | [], [] => Eq
  | [], _ :: _ => Lt
  | _ :: _, [] => Gt
  | x :: a', y :: b' => match x ?= y with Eq => lex_cmp a' b' | o => o end
  end.

(** * IEEE-754 binary64 on bit patterns *)
Definition f64_exp (b : N) : N := (b / 2 ^ 52) mod 2048.
Definition f64_man (b : N) : N := b mod 2 ^ 52.
Definition f64_neg (b : N) : bool := 2 ^ 63 <=? b.
Definition f64_is_nan (b : N) : bool := (f64_exp b =? 2047) && negb (f64_man b =? 0).
Definition f64_is_inf (b : N) : bool := (f64_exp b =? 2047) && (f64_man b =? 0).
Definition f64_is_zero (b : N) : bool := b mod 2 ^ 63 =? 0.

(** Order key: IEEE comparison of two non-NaN doubles is integer comparison of their keys. *)
Definition f64_key (b : N) : Z :=
  let mag := Z.of_N (b mod 2 ^ 63) in if f64_neg b then (- mag)%Z else mag.
Definition f64_cmp (a b : N) : option comparison :=
  if f64_is_nan a || f64_is_nan b then None else Some (Z.compare (f64_key a) (f64_key b)).
Definition f64_eqb (a b : N) : bool := match f64_cmp a b with Some Eq => true | _ => false end.

(** [m / 2^sh] rounded to nearest, ties to even. *)
Definition round_shift (m sh : N) : N :=
  if sh =? 0 then m
  else
    let q := m / 2 ^ sh in
    let r := m mod 2 ^ sh in
    let half := 2 ^ (sh - 1) in
    if (half <? r) || ((r =? half) && N.odd q) then q + 1 else q.

(** [m as f64] for a non-negative integer below 2^64 (bits without the sign). *)
Definition f64_of_mag (m : N) : N :=
  if m =? 0 then 0
  else
    let n := N.log2 m in
    if n <? 53 then (n + 1023) * 2 ^ 52 + (m * 2 ^ (52 - n) - 2 ^ 52)
    else
      let q := round_shift m (n - 52) in
      if q =? 2 ^ 53 then (n + 1 + 1023) * 2 ^ 52 else (n + 1023) * 2 ^ 52 + (q - 2 ^ 52).
Definition f64_of_Z (z : Z) : N :=
  if (z <? 0)%Z then 2 ^ 63 + f64_of_mag (Z.abs_N z) else f64_of_mag (Z.to_N z).

(** [x as f64] for a binary32 bit pattern (exact widening; NaN payloads are shifted, quiet bit kept). *)
Definition f64_of_f32 (b : N) : N :=
  let s := b / 2 ^ 31 in
  let e := (b / 2 ^ 23) mod 256 in
  let m := b mod 2 ^ 23 in
  s * 2 ^ 63 +
  (if e =? 255 then 2047 * 2 ^ 52 + m * 2 ^ 29
   else if e =? 0 then
     (if m =? 0 then 0 else let n := N.log2 m in (n + 874) * 2 ^ 52 + (m * 2 ^ (52 - n) - 2 ^ 52))
   else (e + 896) * 2 ^ 52 + m * 2 ^ 29).

(** Finite double -> integer by truncation toward zero ([f64::trunc] then [as i64]/[as u64]):
    magnitude of the truncated value. *)
Definition f64_trunc_mag (b : N) : N :=
  let e := f64_exp b in
  let m := f64_man b in
  if e =? 0 then 0
  else
    let sig := 2 ^ 52 + m in          (* value = sig * 2^(e - 1075) *)
    if e <? 1075 then sig / 2 ^ (1075 - e) else sig * 2 ^ (e - 1075).

(** * DataType *)
Inductive kind := KNull | KBool | KInt | KBigInt | KUInt | KBigUInt | KFloat | KDouble | KBlob.

Inductive value :=
| VNull
| VBool (b : bool)
| VInt (z : Z) | VBigInt (z : Z) | VUInt (z : Z) | VBigUInt (z : Z)
| VFloat (bits32 : N) | VDouble (bits : N)
| VBlob (data : list N).       (* the data part; the stored blob is varint(len) ++ data *)

Definition kind_of (v : value) : kind :=
  match v with
  | VNull => KNull | VBool _ => KBool | VInt _ => KInt | VBigInt _ => KBigInt | VUInt _ => KUInt
  | VBigUInt _ => KBigUInt | VFloat _ => KFloat | VDouble _ => KDouble | VBlob _ => KBlob
  end.

Definition in_range (k : kind) (z : Z) : bool :=
  match k with
  | KInt => (- 2 ^ 31 <=? z)%Z && (z <? 2 ^ 31)%Z
  | KBigInt => (- 2 ^ 63 <=? z)%Z && (z <? 2 ^ 63)%Z
  | KUInt => (0 <=? z)%Z && (z <? 2 ^ 32)%Z
  | KBigUInt => (0 <=? z)%Z && (z <? 2 ^ 64)%Z
  | _ => false
  end.

Definition value_wf (v : value) : bool :=
  match v with
  | VInt z => in_range KInt z | VBigInt z => in_range KBigInt z | VUInt z => in_range KUInt z
  | VBigUInt z => in_range KBigUInt z | VFloat b => b <? 2 ^ 32 | VDouble b => b <? 2 ^ 64
  | VBlob d => bytes_okb d
  | _ => true
  end.

(** [to_f64]: [inner.0 as f64] for numeric variants. *)
Definition to_f64 (v : value) : option N :=
  match v with
  | VInt z | VBigInt z | VUInt z | VBigUInt z => Some (f64_of_Z z)
  | VFloat b => Some (f64_of_f32 b)
  | VDouble b => Some b
  | _ => None
  end.

Definition bool_cmp (a b : bool) : comparison :=
  match a, b with false, true => Lt | true, false => Gt | _, _ => Eq end.

(** [impl_datatype_partial_ord] *)
Definition value_cmp (a b : value) : option comparison :=
  match a, b with
  | VNull, _ | _, VNull => None
  | VBool x, VBool y => Some (bool_cmp x y)
  | VBlob x, VBlob y => Some (blob_cmp x y)
  | _, _ =>
    match to_f64 a, to_f64 b with
    | Some x, Some y => f64_cmp x y
    | _, _ => None
    end
  end.

(** [impl_datatype_partial_eq] *)
Definition value_eqb (a b : value) : bool :=
  match a, b with
  | VNull, VNull => true
  | VNull, _ | _, VNull => false
  | VBool x, VBool y => Bool.eqb x y
  | VBlob x, VBlob y => match blob_cmp x y with Eq => true | _ => false end
  | _, _ =>
    match to_f64 a, to_f64 b with
    | Some x, Some y => f64_eqb x y
    | _, _ => false
    end
  end.

(** What [impl_datatype_hash] feeds to the hasher (two values hash alike iff these agree, up to
    collisions of the hash function itself). *)
Definition hash_key (v : value) : list N :=
  match v with
  | VNull => [0]
  | VBool b => [1; if b then 1 else 0]
  | VBlob d => 3 :: le_enc 8 (lenN (varint_encode (Z.of_nat (length d)) ++ d))
                 ++ varint_encode (Z.of_nat (length d)) ++ d
  | _ => match to_f64 v with Some b => 2 :: le_enc 8 b | None => [] end
  end.

(** * Casts (DataType::try_cast) *)
Definition mk_int (k : kind) (z : Z) : value :=
  match k with KInt => VInt z | KBigInt => VBigInt z | KUInt => VUInt z | _ => VBigUInt z end.

(** [f64_to_signed] / [f64_to_unsigned]: NaN/inf rejected, truncation, range test against
    [MIN as f64] / [MAX as f64], then a saturating [as] conversion. *)
Definition sat (k : kind) (z : Z) : Z :=
  match k with
  | KInt => Z.max (- 2 ^ 31) (Z.min z (2 ^ 31 - 1))
  | KBigInt => Z.max (- 2 ^ 63) (Z.min z (2 ^ 63 - 1))
  | KUInt => Z.max 0 (Z.min z (2 ^ 32 - 1))
  | _ => Z.max 0 (Z.min z (2 ^ 64 - 1))
  end%Z.
Definition kmin (k : kind) : Z := match k with KInt => - 2 ^ 31 | KBigInt => - 2 ^ 63 | _ => 0 end%Z.
Definition kmax (k : kind) : Z :=
  match k with KInt => 2 ^ 31 - 1 | KBigInt => 2 ^ 63 - 1 | KUInt => 2 ^ 32 - 1 | _ => 2 ^ 64 - 1 end%Z.

Definition f64_to_int (k : kind) (b : N) : option value :=
  if f64_is_nan b || f64_is_inf b then None
  else
    let t := (if f64_neg b then - Z.of_N (f64_trunc_mag b) else Z.of_N (f64_trunc_mag b))%Z in
    let signed := match k with KInt | KBigInt => true | _ => false end in
    (* unsigned: [value < 0.0] rejects before truncation (-0.5 is rejected, -0.0 is not) *)
    if negb signed && f64_neg b && negb (f64_is_zero b) then None
    else
      (* the bounds are [MIN as f64] and [MAX as f64]: compare as doubles *)
      let lo := f64_key (f64_of_Z (kmin k)) in
      let hi := f64_key (f64_of_Z (kmax k)) in
      let tk := f64_key (f64_of_Z t) in
      if signed && ((tk <? lo)%Z || (hi <? tk)%Z) then None
      else if negb signed && (hi <? tk)%Z then None
      else
        (* [t as i64] then [v as i32] (wrapping) for Int; [t as u64] then [v as u32] for UInt *)
        match k with
        | KInt => Some (VInt (sat KInt t))
        | KUInt => Some (VUInt (sat KUInt t))
        | _ => Some (mk_int k (sat k t))
        end.

Definition cast (v : value) (k : kind) : option value :=
  if match kind_of v, k with
     | KNull, KNull | KBool, KBool | KInt, KInt | KBigInt, KBigInt | KUInt, KUInt
     | KBigUInt, KBigUInt | KFloat, KFloat | KDouble, KDouble | KBlob, KBlob => true
     | _, _ => false end
  then Some v
  else
  match v, k with
  | VNull, _ => Some VNull
  | (VInt z | VBigInt z | VUInt z | VBigUInt z), (KInt | KBigInt | KUInt | KBigUInt) =>
      if in_range k z then Some (mk_int k z) else None
  | (VInt z | VBigInt z | VUInt z | VBigUInt z), KDouble => Some (VDouble (f64_of_Z z))
  | (VInt z | VBigInt z | VUInt z | VBigUInt z), KBool => Some (VBool (negb (z =? 0)%Z))
  | VDouble b, (KInt | KBigInt | KUInt | KBigUInt) => f64_to_int k b
  | VFloat b, (KInt | KBigInt | KUInt | KBigUInt) => f64_to_int k (f64_of_f32 b)
  | VFloat b, KDouble => Some (VDouble (f64_of_f32 b))
  | VDouble b, KBool => Some (VBool (negb (f64_is_zero b)))     (* [v != 0.0]: NaN != 0.0 is true *)
  | VFloat b, KBool => Some (VBool (negb (f64_is_zero (f64_of_f32 b))))
  | VBool x, (KInt | KBigInt | KUInt | KBigUInt) => Some (mk_int k (if x then 1 else 0)%Z)
  | VBool x, KDouble => Some (VDouble (if x then 1023 * 2 ^ 52 else 0))
  | VBool x, KFloat => Some (VFloat (if x then 127 * 2 ^ 23 else 0))
  | _, _ => None
  end.

(** * Stored form of a value (SerializableType::write_to / reinterpret_cast) *)
Definition twos (bits : Z) (z : Z) : N := Z.to_N (z mod 2 ^ bits).
Definition untwos (bits : Z) (n : N) : Z :=
  let z := Z.of_N n in if (z <? 2 ^ (bits - 1))%Z then z else (z - 2 ^ bits)%Z.

Definition serialize (v : value) : option (list N) :=
  match v with
  | VNull => None
  | VBool b => Some [if b then 1 else 0]
  | VInt z => Some (le_enc 4 (twos 32 z))
  | VBigInt z => Some (le_enc 8 (twos 64 z))
  | VUInt z => Some (le_enc 4 (Z.to_N z))
  | VBigUInt z => Some (le_enc 8 (Z.to_N z))
  | VFloat b => Some (le_enc 4 b)
  | VDouble b => Some (le_enc 8 b)
  | VBlob d => Some (varint_encode (Z.of_nat (length d)) ++ d)
  end.

Definition deserialize (k : kind) (bs : list N) : option (value * nat) :=
  let fixed (n : nat) (f : N -> value) :=
    if (length bs <? n)%nat then None else Some (f (le_dec (firstn n bs)), n) in
  match k with
  | KNull => None
  | KBool => fixed 1%nat (fun n => VBool (negb (n =? 0)))
  | KInt => fixed 4%nat (fun n => VInt (untwos 32 n))
  | KBigInt => fixed 8%nat (fun n => VBigInt (untwos 64 n))
  | KUInt => fixed 4%nat (fun n => VUInt (Z.of_N n))
  | KBigUInt => fixed 8%nat (fun n => VBigUInt (Z.of_N n))
  | KFloat => fixed 4%nat VFloat
  | KDouble => fixed 8%nat VDouble
  | KBlob =>
    match varint_decode bs with
    | None => None
    | Some (len, off) =>
      (* [len_varint.into(): usize] is a wrapping [as usize]; a negative length becomes huge *)
      if (Z.of_nat (length bs) <? Z.of_nat off + wrap64 len)%Z then None
      else let len_n := Z.to_nat (wrap64 len) in
           Some (VBlob (firstn len_n (skipn off bs)), (off + len_n)%nat)
    end
  end.
