(** Executable model of row versions (storage/tuple.rs) at the logical level: header, current
    values with NULLs, reverse deltas (full NULL bitmap of the old version + changed old values),
    [add_version_with], [delete], [vaccum_with], [parse_last_version], [parse_for_snapshot], and the
    snapshot visibility test of multithreading/coordinator.rs.  Byte offsets are not modelled here.
    No proofs in this file. *)
From Axv Require Import Base.Bytes Model.Values.
Open Scope N_scope.

Record snap := { s_xid : N; s_xmin : N; s_xmax : option N; s_active : list N; s_aborted : list N }.

Definition memN (x : N) (l : list N) : bool := existsb (N.eqb x) l.

(** [Snapshot::is_committed_before_snapshot] *)
Definition committed_before (s : snap) (t : N) : bool :=
  if match s_xmax s with Some m => m <? t | None => false end then false
  else negb (memN t (s_active s) || memN t (s_aborted s)).

Record delta := { d_xmin : N; d_version : N; d_nulls : list bool; d_changes : list (nat * value) }.
Record tuple := { t_xmin : N; t_xmax : option N; t_version : N;
                  t_keys : list value; t_vals : list value; t_deltas : list delta }.

Definition is_null (v : value) : bool := match v with VNull => true | _ => false end.

Definition kind_eqb (a b : kind) : bool :=
  match a, b with
  | KNull, KNull | KBool, KBool | KInt, KInt | KBigInt, KBigInt | KUInt, KUInt | KBigUInt, KBigUInt
  | KFloat, KFloat | KDouble, KDouble | KBlob, KBlob => true
  | _, _ => false
  end.

Inductive tres (A : Type) := TOk (a : A) | TErr | TPanic.
Arguments TOk {A} a.
Arguments TErr {A}.
Arguments TPanic {A}.

(** [TupleBuilder::build] after [Row::validate]. *)
Definition build (kkinds vkinds : list kind) (row : list value) (xmin : N) : tres tuple :=
  let nk := length kkinds in
  if negb (Nat.eqb (length row) (nk + length vkinds)) then TErr
  else
    let keys := firstn nk row in
    let vals := skipn nk row in
    if negb (forallb (fun p => kind_eqb (fst p) (kind_of (snd p))) (combine kkinds keys)) then TErr
    else if negb (forallb (fun p => is_null (snd p) || kind_eqb (fst p) (kind_of (snd p))) (combine vkinds vals)) then TErr
    else TOk {| t_xmin := xmin; t_xmax := None; t_version := 0; t_keys := keys; t_vals := vals; t_deltas := [] |}.

Fixpoint lookup (i : nat) (m : list (nat * value)) : option value :=
  match m with
  | [] => None
  | (j, v) :: m' => if Nat.eqb i j then Some v else lookup i m'
  end.

Fixpoint mapi_from {A B} (f : nat -> A -> B) (i : nat) (l : list A) : list B :=
  match l with [] => [] | x :: r => f i x :: mapi_from f (S i) r end.
Definition mapi {A B} (f : nat -> A -> B) (l : list A) : list B := mapi_from f 0 l.

(** [add_version_with]: the header keeps the ORIGINAL creator ([original_xmin]); [new_xmin] is not
    used by the code (recorded finding C03/C18-update-not-stamped). *)
Definition add_version (vkinds : list kind) (t : tuple) (mods : list (nat * value)) (new_xmin : N) : tres tuple :=
  match mods with
  | [] => TOk t
  | _ =>
    if negb (forallb (fun m => match nth_error vkinds (fst m) with
                               | Some k => is_null (snd m) || kind_eqb k (kind_of (snd m))
                               | None => false end) mods) then TErr
    else if 255 <=? t_version t then TPanic          (* [old_version + 1] on a u8 *)
    else
      let old := t_vals t in
      let new_vals := mapi (fun i v => match lookup i mods with Some nv => nv | None => v end) old in
      let changed := concat (mapi (fun i v => match lookup i mods with Some _ => [(i, v)] | None => [] end) old) in
      let d := {| d_xmin := t_xmin t; d_version := t_version t; d_nulls := map is_null old; d_changes := changed |} in
      TOk {| t_xmin := t_xmin t; t_xmax := None; t_version := t_version t + 1; t_keys := t_keys t;
             t_vals := new_vals; t_deltas := d :: t_deltas t |}
  end.

(** [Tuple::delete] overwrites xmax: callers only delete rows visible to them, so an xmax already
    present belongs to a transaction whose delete did not take effect. *)
Definition delete (t : tuple) (xid : N) : tuple :=
  {| t_xmin := t_xmin t; t_xmax := Some xid; t_version := t_version t; t_keys := t_keys t;
     t_vals := t_vals t; t_deltas := t_deltas t |}.

(** [Tuple::undelete]: VACUUM erases a delete that was rolled back. *)
Definition undelete (t : tuple) : tuple :=
  {| t_xmin := t_xmin t; t_xmax := None; t_version := t_version t; t_keys := t_keys t;
     t_vals := t_vals t; t_deltas := t_deltas t |}.

Fixpoint take_needed (oldest : N) (ds : list delta) : list delta :=
  match ds with
  | [] => []
  | d :: r => if oldest <=? d_xmin d then d :: take_needed oldest r else []
  end.

(** [vaccum_with]: keeps the newest deltas whose creator is not below the horizon. *)
Definition vacuum (t : tuple) (oldest : N) : tuple :=
  {| t_xmin := t_xmin t; t_xmax := t_xmax t; t_version := t_version t; t_keys := t_keys t;
     t_vals := t_vals t; t_deltas := take_needed oldest (t_deltas t) |}.

(** Values of the previous version: the delta's full NULL bitmap decides NULLs, changed fields take
    their old value, the others keep the value carried from the newer version. *)
Definition apply_delta (vals : list value) (d : delta) : list value :=
  mapi (fun i v => if nth i (d_nulls d) false then VNull
                   else match lookup i (d_changes d) with Some old => old | None => v end) vals.

Definition decode_last (t : tuple) : list value := t_keys t ++ t_vals t.

Definition valid_for (s : snap) (vmin : N) (vmax : option N) : bool :=
  let created := committed_before s vmin || (s_xid s =? vmin) in
  match vmax with
  | Some x => created && negb (committed_before s x || (s_xid s =? x))
  | None => created
  end.

Fixpoint walk (s : snap) (vals : list value) (ds : list delta) : option (list value) :=
  match ds with
  | [] => None
  | d :: r =>
    let vals' := apply_delta vals d in
    if committed_before s (d_xmin d) then Some vals' else walk s vals' r
  end.

(** [parse_for_snapshot] + [to_row_with]. *)
Definition decode_for (t : tuple) (s : snap) : option (list value) :=
  if match t_xmax t with Some x => committed_before s x || (s_xid s =? x) | None => false end then None
  else if valid_for s (t_xmin t) (t_xmax t) then Some (t_keys t ++ t_vals t)
  else match walk s (t_vals t) (t_deltas t) with
       | Some vals => Some (t_keys t ++ vals)
       | None => None
       end.

(** State-changing operations on one stored row. *)
Inductive tev := EUpd (xid : N) (mods : list (nat * value)) | EDel (xid : N) | EVac (oldest : N).

Definition apply_ev (vk : list kind) (t : tuple) (e : tev) : tres tuple :=
  match e with
  | EUpd xid mods => add_version vk t mods xid
  | EDel xid => TOk (delete t xid)
  | EVac h => TOk (vacuum t h)
  end.

(** Runs the events; a rejected update leaves the row as it was. *)
Fixpoint apply_evs (vk : list kind) (t : tuple) (es : list tev) : option tuple :=
  match es with
  | [] => Some t
  | e :: r =>
    match apply_ev vk t e with
    | TOk t' => apply_evs vk t' r
    | TErr => apply_evs vk t r
    | TPanic => None
    end
  end.
