(** Case runner for the slotted-page model (harness mode [slot]). *)
From Axv Require Import Base.Bytes Base.Show Model.Slotted.
Open Scope string_scope.

Definition show_cell (c : cell) : string := showN (cid c) ++ "." ++ showN (plen c).
Definition show_err (e : err) : string :=
  match e with EInvalidInput => "InvalidInput" | EStorageFull => "StorageFull" | EInvalidData => "InvalidData" end.
Definition show_res (r : res) : string :=
  match r with
  | ROk i => "ok" ++ show_nat i
  | RCell c => "c" ++ show_cell c
  | RCells l => "cs" ++ join "+" (map show_cell l)
  | RUnit => "unit"
  | RErr e => "err:" ++ show_err e
  | RPanic => "panic"
  end.
Definition show_state (chdr : N) (p : page) : string :=
  "[" ++ showN (fsp p) ++ "," ++ showN (fs p) ++ "|" ++
  join "," (map (fun o => match read (mem p) o with
                          | Some c => showN o ++ "." ++ show_cell c
                          | None => showN o ++ ".corrupt" end) (slots p)) ++ "]".

Fixpoint run_show (chdr phdr : N) (p : page) (ops : list op) : list string :=
  match ops with
  | [] => []
  | o :: r => let '(p1, a) := step chdr phdr p o in (show_res a ++ show_state chdr p1) :: run_show chdr phdr p1 r
  end.
(** case = (cell header size, page header size, capacity, operations) *)
Definition run_slot_case (c : N * N * N * list op) : string :=
  let '(chdr, phdr, capacity, ops) := c in
  join " " (("cap" ++ showN capacity) :: run_show chdr phdr (init capacity) ops).
