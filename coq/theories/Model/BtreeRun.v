(** Case runners for the B+tree models (harness mode [tree]). *)
From Axv Require Import Base.Bytes Base.Show Model.Btree.
Open Scope string_scope.

Definition show_v (v : N * N) : string := showN (fst v) ++ "." ++ showN (snd v).
Definition show_tres (pre : string) (r : tres) : string :=
  match r with
  | ROk => pre ++ "ok"
  | RExists => pre ++ "err:exists"
  | RMissing => pre ++ "err:missing"
  | RVal (Some v) => "g=" ++ show_v v
  | RVal None => "g=none"
  | RScan m => "scan[" ++ join ";" (map (fun p => showN (fst p) ++ "=" ++ show_v (snd p)) m) ++ "]"
  end.
Definition op_prefix (o : top) : string :=
  match o with TIns _ _ _ => "i" | TUps _ _ _ => "u" | TUpd _ _ _ => "p" | TRem _ => "r" | _ => "" end.

Fixpoint run_tops (m : amap) (ops : list top) : list string :=
  match ops with
  | [] => []
  | o :: r => let '(m', res) := tstep m o in show_tres (op_prefix o) res :: run_tops m' r
  end.
Definition run_tree_case (ops : list top) : string := join " " (run_tops [] ops).

(** The verified checker on a dumped tree, with the keys it must hold. *)
Definition check_dump (t : dtree) (expected : list N) : string :=
  if negb (check_tree t) then "bad-structure"
  else if negb (forallb (fun p => N.eqb (fst p) (snd p)) (combine (flatten t) expected) && Nat.eqb (List.length (flatten t)) (List.length expected))
  then "bad-contents"
  else if negb (forallb (fun k => route k t) expected) then "bad-routing"
  else "ok".

Definition check_dump_case (p : dtree * list N) : string := check_dump (fst p) (snd p).

From Axv Require Import Model.Pages.
(** The verified ownership checker on one dump: total pages, tree nodes, overflow links, free list, recorded head and tail. *)
Definition check_pages_case (p : N * list N * list N * list N * option N * option N) : string :=
  let '(total, tree, ovf, free, head, tail) := p in
  if check_pages total tree ovf free head tail then "ok" else "bad-ownership".
