(** Case runner for the value model (harness mode [val]). *)
From Axv Require Import Base.Bytes Base.Show Model.Values.
Open Scope string_scope.

Inductive val_case :=
| CPair (a b : value)
| CCast (v : value) (k : kind)
| CVarint (z : Z)
| CVdec (bs : list N)
| CSer (v : value).

Definition show_value (v : value) : string :=
  match v with
  | VNull => "n"
  | VBool b => "b:" ++ show_bool b
  | VInt z => "i:" ++ showZ z | VBigInt z => "I:" ++ showZ z
  | VUInt z => "u:" ++ showZ z | VBigUInt z => "U:" ++ showZ z
  | VFloat b => "f:" ++ showN b | VDouble b => "d:" ++ showN b
  | VBlob d => "t:" ++ hex d
  end.

Definition show_cmp (c : option comparison) : string :=
  match c with Some Lt => "lt" | Some Eq => "eq" | Some Gt => "gt" | None => "none" end.

Definition list_eqb (a b : list N) : bool :=
  (List.length a =? List.length b)%nat && forallb (fun p => (fst p =? snd p)%N) (combine a b).

Definition run_val_case (c : val_case) : string :=
  match c with
  | CPair a b =>
      "eq=" ++ show_bool (value_eqb a b) ++ " cmp=" ++ show_cmp (value_cmp a b)
      ++ " heq=" ++ show_bool (list_eqb (hash_key a) (hash_key b))
  | CCast v k => match cast v k with Some r => show_value r | None => "err" end
  | CVarint z =>
      let e := varint_encode z in
      "enc=" ++ hex e ++ " size=" ++ show_nat (List.length e) ++ " dec="
      ++ match varint_decode e with Some (v, n) => showZ v ++ ":" ++ show_nat n | None => "err" end
  | CVdec bs => match varint_decode bs with Some (v, n) => "ok:" ++ showZ v ++ ":" ++ show_nat n | None => "err" end
  | CSer v =>
      match serialize v with
      | None => "ser=err"
      | Some bs =>
        "ser=" ++ hex bs ++ " de="
        ++ match deserialize (kind_of v) (bs ++ [238; 238; 238]%N) with
           | Some (r, n) => show_value r ++ ":" ++ show_nat n
           | None => "err"
           end
      end
  end.
