(** Executable model of the pager's page cache (io/pager.rs read_page / cache_frame / allocate_page /
    flush, io/cache.rs insert / evict / clear): a bounded set of frames over a disk image, dirty
    frames written back on eviction, frames that somebody still references are not evictable.
    Which evictable frame the clock sweep picks is not observable; the model takes the first.
    No proofs in this file. *)
From Axv Require Import Base.Bytes.
Open Scope N_scope.

Definition assoc := list (N * N).
Fixpoint afind {V} (l : list (N * V)) (k : N) : option V :=
  match l with [] => None | (k', v) :: r => if k' =? k then Some v else afind r k end.
Fixpoint aset {V} (l : list (N * V)) (k : N) (v : V) : list (N * V) :=
  match l with [] => [(k, v)] | (k', v') :: r => if k' =? k then (k, v) :: r else (k', v') :: aset r k v end.
Definition dget (d : assoc) (p : N) : N := match afind d p with Some v => v | None => 0 end.

Record pst := { cap : nat; frames : list (N * (N * bool)); pins : list N; disk : assoc; nextp : N }.
Definition init_pst (capacity : nat) : pst := {| cap := capacity; frames := []; pins := []; disk := []; nextp := 1 |}.

Definition pinned (st : pst) (p : N) : bool := existsb (N.eqb p) (pins st).

(** Remove the first evictable frame; [None] when every frame is referenced. *)
Fixpoint take_victim (pinl : list N) (fs : list (N * (N * bool))) : option ((N * (N * bool)) * list (N * (N * bool))) :=
  match fs with
  | [] => None
  | f :: r => if existsb (N.eqb (fst f)) pinl
              then match take_victim pinl r with Some (v, r') => Some (v, f :: r') | None => None end
              else Some (f, r)
  end.

(** [PageCache::insert] on a full cache evicts one frame first; a dirty victim is written back. *)
Definition make_room (st : pst) : option pst :=
  if Nat.ltb (length (frames st)) (cap st) then Some st
  else match take_victim (pins st) (frames st) with
       | None => if Nat.eqb (length (frames st)) 0 then Some st else None
       | Some ((p, (v, dirty)), rest) =>
           Some {| cap := cap st; frames := rest; pins := pins st;
                   disk := if dirty then aset (disk st) p v else disk st; nextp := nextp st |}
       end.

(** [read_page]: a cached frame, or the block read from disk and cached. *)
Definition fetch (st : pst) (p : N) : option pst :=
  match afind (frames st) p with
  | Some _ => Some st
  | None => match make_room st with
            | None => None
            | Some st' => Some {| cap := cap st'; frames := frames st' ++ [(p, (dget (disk st') p, false))];
                                  pins := pins st'; disk := disk st'; nextp := nextp st' |}
            end
  end.

Inductive pop := PAlloc | PWrite (p v : N) | PRead (p : N) | PPin (p : N) | PUnpin (p : N) | PFlush.
Inductive pres := PId (p : N) | POk | PVal (v : N) | POom | PBad.

Fixpoint remove_one (x : N) (l : list N) : list N :=
  match l with [] => [] | y :: r => if y =? x then r else y :: remove_one x r end.

Definition pstep (st : pst) (o : pop) : pst * pres :=
  match o with
  | PAlloc =>
      (* the page counter in the header moves even if the new frame cannot be cached *)
      let id := nextp st in
      let st0 := {| cap := cap st; frames := frames st; pins := pins st; disk := disk st; nextp := id + 1 |} in
      match make_room st0 with
      | None => (st0, POom)
      | Some st' => ({| cap := cap st'; frames := frames st' ++ [(id, (0, true))]; pins := pins st'; disk := disk st'; nextp := nextp st' |}, PId id)
      end
  | PWrite p v =>
      if negb ((1 <=? p) && (p <? nextp st)) then (st, PBad)
      else match fetch st p with
           | None => (st, POom)
           | Some st' => ({| cap := cap st'; frames := aset (frames st') p (v, true); pins := pins st'; disk := disk st'; nextp := nextp st' |}, POk)
           end
  | PRead p =>
      if negb ((1 <=? p) && (p <? nextp st)) then (st, PBad)
      else match fetch st p with
           | None => (st, POom)
           | Some st' => (st', PVal (match afind (frames st') p with Some (v, _) => v | None => 0 end))
           end
  | PPin p =>
      if negb ((1 <=? p) && (p <? nextp st)) then (st, PBad)
      else match fetch st p with
           | None => (st, POom)
           | Some st' => ({| cap := cap st'; frames := frames st'; pins := p :: pins st'; disk := disk st'; nextp := nextp st' |}, POk)
           end
  | PUnpin p => ({| cap := cap st; frames := frames st; pins := remove_one p (pins st); disk := disk st; nextp := nextp st |}, POk)
  | PFlush =>
      (* every dirty frame is written, the cache is emptied (its capacity stays) *)
      ({| cap := cap st; frames := [];
          pins := pins st;
          disk := fold_left (fun (d : assoc) (f : N * (N * bool)) => if snd (snd f) then aset d (fst f) (fst (snd f)) else d) (frames st) (disk st);
          nextp := nextp st |}, POk)
  end.
