(** Case runner for the coordinator model (harness mode [coord]). *)
From Axv Require Import Base.Bytes Base.Show Model.Values Model.Tuple Model.Coord.
Open Scope string_scope.

Inductive crun := RBegin | RCommit (id : N) | RAbort (id : N) | RWrite (id t r : N) | RVac | RQuery (k : nat) (n : N).

Fixpoint vis_bits (s : snap) (fuel : nat) (i : N) : string :=
  match fuel with
  | O => ""
  | S f => (if committed_before s i then "1" else "0") ++ vis_bits s f (i + 1)
  end.

Fixpoint run_coord (c : coord) (snaps : list snap) (ops : list crun) : list string :=
  match ops with
  | [] => []
  | o :: r =>
    match o with
    | RBegin => let '(c', id, s) := begin c in
                ("b" ++ showN id ++ ":" ++ showN (s_xmin s) ++ ":" ++ match s_xmax s with Some x => showN x | None => "-" end)
                :: run_coord c' (List.app snaps [s]) r
    | RCommit id => let '(c', res) := commit c id in
                    (match res with COk => "cok" | CConflict => "cerr:conflict" | COther => "cerr:other" end) :: run_coord c' snaps r
    | RAbort id => let '(c', ok) := abort c id in (if ok then "aok" else "aerr") :: run_coord c' snaps r
    | RWrite id t k => let '(c', ok) := record_write c id (t, k) in (if ok then "wok" else "werr") :: run_coord c' snaps r
    | RVac => run_coord (vacuum_txs c) snaps r
    | RQuery k n =>
        match nth_error snaps k with
        | Some s => ("vis:" ++ vis_bits s (N.to_nat n) 0) :: run_coord c snaps r
        | None => "vis:?" :: run_coord c snaps r
        end
    end
  end.

Definition run_coord_case (ops : list crun) : string :=
  match run_coord init_coord [] ops with [] => "-" | evs => join " " evs end.
