(** Page ownership (C11): the checker run on every dump.  No proofs in this file. *)
From Axv Require Import Base.Bytes.
Open Scope N_scope.

Definition countN (x : N) (l : list N) : nat := count_occ N.eq_dec l x.

(** [total] pages in the file, page 0 is the header.  Every other page must occur exactly once
    among the tree nodes, the overflow-chain links and the free list; nothing else may occur. *)
Definition ownedb (total : N) (tree ovf free : list N) : bool :=
  let all := tree ++ ovf ++ free in
  forallb (fun i => Nat.eqb (countN i all) 1) (map N.of_nat (seq 1 (N.to_nat total - 1)))
  && forallb (fun x => (1 <=? x) && (x <? total)) all.

(** The free list as linked from the header: head and tail recorded there must be its ends. *)
Definition free_list_okb (head tail : option N) (free : list N) : bool :=
  match free with
  | [] => match head, tail with None, None => true | _, _ => false end
  | x :: _ => match head, tail with
              | Some h, Some t => (h =? x) && (t =? last free 0)
              | _, _ => false
              end
  end.

Definition check_pages (total : N) (tree ovf free : list N) (head tail : option N) : bool :=
  ownedb total tree ovf free && free_list_okb head tail free.
