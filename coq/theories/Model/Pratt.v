(** Executable model of the Pratt expression parser (sql/parser/mod.rs: parse_expr_bp, parse_prefix,
    parse_infix) for the core fragment: number literals, identifiers, parentheses, the infix
    operators of Model.PrattOps and prefix NOT.  Parametric in the binding-power table (the
    instance used for the code is the regenerated Gen.GenPratt table).  No proofs here. *)
From Coq Require Import NArith List Bool.
From Axv Require Import Model.PrattOps.
Import ListNotations.
Open Scope N_scope.

Inductive ptok := TNum (n : N) | TId (k : N) | TLP | TRP | TBin (o : pbinop) | TNot.
Inductive pexpr := PNum (n : N) | PId (k : N) | PBin (o : pbinop) (a b : pexpr) | PNot (a : pexpr).

Section Pratt.
  Variable bp : pbinop -> N * N.     (* (left, right) binding power *)
  Variable pnot : N.                 (* minimum power for the operand of prefix NOT *)

  (** [parse_expr_bp min_bp]: prefix, then the infix loop that stops at the first operator whose left
      power is below [min_bp].  Returns the expression and the unconsumed tokens. *)
  Fixpoint parse_bp (fuel : nat) (m : N) (ts : list ptok) {struct fuel} : option (pexpr * list ptok) :=
    match fuel with
    | O => None
    | S f =>
      match ts with
      | TNum n :: r => loop f m (PNum n) r
      | TId k :: r => loop f m (PId k) r
      | TLP :: r => match parse_bp f 0 r with
                    | Some (e, TRP :: r') => loop f m e r'
                    | _ => None
                    end
      | TNot :: r => match parse_bp f pnot r with
                     | Some (e, r') => loop f m (PNot e) r'
                     | None => None
                     end
      | _ => None
      end
    end
  with loop (fuel : nat) (m : N) (lhs : pexpr) (ts : list ptok) {struct fuel} : option (pexpr * list ptok) :=
    match fuel with
    | O => None
    | S f =>
      match ts with
      | TBin o :: r =>
          let '(l, rb) := bp o in
          if l <? m then Some (lhs, ts)
          else match parse_bp f rb r with
               | Some (rhs, r') => loop f m (PBin o lhs rhs) r'
               | None => None
               end
      | _ => Some (lhs, ts)
      end
    end.

  (** Printer with minimal parentheses for this table: [m] = minimum power required by the context,
      [rt] = largest left power of an operator that may follow. *)
  Definition paren (b : bool) (ts : list ptok) : list ptok := if b then TLP :: ts ++ [TRP] else ts.

  Fixpoint pr (m rt : N) (e : pexpr) : list ptok :=
    match e with
    | PNum n => [TNum n]
    | PId k => [TId k]
    | PBin o a b =>
        let '(l, r) := bp o in
        let need := (l <? m) || (r <=? rt) in
        let m' := if need then 0 else m in
        let rt' := if need then 0 else rt in
        paren need (pr m' l a ++ TBin o :: pr r rt' b)
    | PNot a =>
        let need := pnot <=? rt in
        let rt' := if need then 0 else rt in
        paren need (TNot :: pr pnot rt' a)
    end.

  (** Entry point: enough fuel for any token list (every step consumes a token or returns). *)
  Definition parse (ts : list ptok) : option (pexpr * list ptok) := parse_bp (2 * length ts + 2) 0 ts.
End Pratt.
