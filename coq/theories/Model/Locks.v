(** Lock model for C14: threads are sequences of acquisitions and releases of reader/writer locks (object 0 is the
    pager lock, every other number one page-latch instance, as the lock tap reports them).  Two read semantics:
    - [recursive]: a read succeeds when no thread holds the lock exclusively, and at once when the thread already
      holds it shared (parking_lot read_recursive: the engine's read latches after fix 82c0144);
    - [fair]: a read also queues behind a waiting writer (parking_lot read: the engine before the fix).
    No proofs in this file. *)
From Coq Require Import List NArith Bool Lia.
Import ListNotations.
Open Scope N_scope.

Inductive mode := MR | MW.
Inductive act := Acq (m : mode) (o : N) | Rel (o : N).
Record thread := { rest : list act; held : list (N * mode) }.
Definition sys := list thread.

Definition is_w (m : mode) : bool := match m with MW => true | MR => false end.
Definition holds_l (hd : list (N * mode)) (o : N) : bool := existsb (fun h => fst h =? o) hd.
Definition holds_w_l (hd : list (N * mode)) (o : N) : bool := existsb (fun h => (fst h =? o) && is_w (snd h)) hd.
Definition holds_r_l (hd : list (N * mode)) (o : N) : bool := existsb (fun h => (fst h =? o) && negb (is_w (snd h))) hd.
Definition holds (t : thread) (o : N) : bool := holds_l (held t) o.
Definition holds_w (t : thread) (o : N) : bool := holds_w_l (held t) o.
Definition holds_r (t : thread) (o : N) : bool := holds_r_l (held t) o.
Definition waits_w (t : thread) (o : N) : bool :=
  match rest t with Acq MW o' :: _ => o' =? o | _ => false end.

Definition enabled (fair : bool) (s : sys) (t : thread) : bool :=
  match rest t with
  | [] => false
  | Rel _ :: _ => true
  | Acq MW o :: _ => negb (existsb (fun u => holds u o) s)
  | Acq MR o :: _ =>
      if fair then negb (existsb (fun u => holds_w u o) s) && negb (existsb (fun u => waits_w u o) s)
      else holds_r t o || negb (existsb (fun u => holds_w u o) s)
  end.

Fixpoint remove_first (o : N) (l : list (N * mode)) : list (N * mode) :=
  match l with
  | [] => []
  | h :: r => if fst h =? o then r else h :: remove_first o r
  end.

Definition step_thread (t : thread) : thread :=
  match rest t with
  | [] => t
  | Acq m o :: r => {| rest := r; held := (o, m) :: held t |}
  | Rel o :: r => {| rest := r; held := remove_first o (held t) |}
  end.

Fixpoint replace_nth (i : nat) (t : thread) (s : sys) : sys :=
  match s, i with
  | [], _ => []
  | _ :: r, O => t :: r
  | x :: r, S j => x :: replace_nth j t r
  end.

Definition step_at (fair : bool) (s : sys) (i : nat) : sys :=
  match nth_error s i with
  | Some t => if enabled fair s t then replace_nth i (step_thread t) s else s
  | None => s
  end.

Definition run_schedule (fair : bool) (s : sys) (sched : list nat) : sys := fold_left (step_at fair) sched s.

Definition unfinished (t : thread) : bool := match rest t with [] => false | _ => true end.
Definition stuck (fair : bool) (s : sys) : bool :=
  existsb unfinished s && negb (existsb (enabled fair s) s).

(** The discipline, relative to a certificate: a class [cls o] for every object and, for some classes, a gate
    object.  A lock is requested only when it is not held and, for every lock held, either the held lock's class is
    smaller, or both are in the same class, that class has a gate, and the thread holds the gate exclusively
    (inside a region guarded by an exclusively held gate any order is allowed; two locks of one region are never
    held together without it).  A shared lock already held shared may always be requested again.  A release is of a
    held lock, and a thread ends holding nothing. *)
Definition acq_ok (cls : N -> N) (gate : N -> option N) (hd : list (N * mode)) (m : mode) (o : N) : bool :=
  (match m with MR => holds_r_l hd o | MW => false end)
  || forallb (fun h => negb (fst h =? o) &&
                       ((cls (fst h) <? cls o)
                        || ((cls (fst h) =? cls o) && match gate (cls o) with Some g => holds_w_l hd g | None => false end)))
             hd.

Fixpoint disciplined (cls : N -> N) (gate : N -> option N) (hd : list (N * mode)) (p : list act) : bool :=
  match p with
  | [] => match hd with [] => true | _ => false end
  | Acq m o :: r => acq_ok cls gate hd m o && disciplined cls gate ((o, m) :: hd) r
  | Rel o :: r => holds_l hd o && disciplined cls gate (remove_first o hd) r
  end.

Definition thread_ok cls gate (t : thread) : bool := disciplined cls gate (held t) (rest t).
Definition start (p : list act) : thread := {| rest := p; held := [] |}.

Fixpoint rank_of (l : list (N * N)) (o : N) : N :=
  match l with [] => 0 | (k, v) :: r => if k =? o then v else rank_of r o end.
Fixpoint gate_of (l : list (N * N)) (c : N) : option N :=
  match l with [] => None | (k, v) :: r => if k =? c then Some v else gate_of r c end.
