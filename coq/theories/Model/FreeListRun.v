(** Case runner for the page-allocator model (harness mode [fl]). *)
From Axv Require Import Base.Bytes Base.Show Model.FreeList.
Open Scope string_scope.

Definition show_opt (o : option N) : string := match o with Some x => showN x | None => "-" end.
Definition show_fstate (s : fstate) : string :=
  "[" ++ showN (total s) ++ ";" ++ show_opt (first s) ++ ";" ++ show_opt (last s) ++ ";" ++ join ">" (map showN (free_list s)) ++ "]".
Definition show_fres (r : fres) : string :=
  match r with FId p => "id" ++ showN p | FOk => "ok" | FRejected => "rejected" end.
Fixpoint frun_show (s : fstate) (ops : list fop) : list string :=
  match ops with
  | [] => []
  | o :: r => let '(s1, a) := fstep s o in (show_fres a ++ show_fstate s1) :: frun_show s1 r
  end.
Definition run_fl_case (ops : list fop) : string := join " " (frun_show finit ops).
