(** Executable model of the transaction coordinator (multithreading/coordinator.rs): begin with its
    snapshot, commit with write-set validation, abort, record_write, vacuum_transactions.
    No proofs in this file. *)
From Axv Require Import Base.Bytes Model.Values Model.Tuple.
Open Scope N_scope.

Inductive tstate := Active | Committing | Committed | Aborted.
Definition tstate_eqb (a b : tstate) : bool :=
  match a, b with
  | Active, Active | Committing, Committing | Committed, Committed | Aborted, Aborted => true
  | _, _ => false
  end.

Record tx := { x_state : tstate; x_start : N; x_wset : list (N * N) }.

Record coord := {
  c_txs : list (N * tx);                 (* the transaction table *)
  c_last_created : N;                    (* page-zero header *)
  c_last_committed : N;                  (* page-zero header *)
  c_counter : N;                         (* commit timestamp counter *)
  c_tuple_commits : list ((N * N) * N)   (* last commit timestamp per tuple *)
}.

Definition init_coord : coord :=
  {| c_txs := []; c_last_created := 0; c_last_committed := 0; c_counter := 1; c_tuple_commits := [] |}.

Fixpoint find_tx (id : N) (l : list (N * tx)) : option tx :=
  match l with
  | [] => None
  | (i, x) :: r => if i =? id then Some x else find_tx id r
  end.

Fixpoint set_tx (id : N) (x : tx) (l : list (N * tx)) : list (N * tx) :=
  match l with
  | [] => []
  | (i, y) :: r => if i =? id then (i, x) :: r else (i, y) :: set_tx id x r
  end.

Definition ids_in_state (st : tstate) (l : list (N * tx)) : list N :=
  map fst (filter (fun p => tstate_eqb (x_state (snd p)) st) l).

Definition minN (l : list N) (d : N) : N :=
  match l with [] => d | x :: r => fold_left N.min r x end.

(** [TransactionCoordinator::snapshot] *)
Definition snapshot_of (c : coord) (txid : N) : snap :=
  let active := ids_in_state Active (c_txs c) in
  {| s_xid := txid; s_xmin := minN active txid; s_xmax := Some (c_last_committed c);
     s_active := active; s_aborted := ids_in_state Aborted (c_txs c) |}.

(** [begin]: the id is the current [last_created]; the snapshot is taken before the new
    transaction is entered into the table. *)
Definition begin (c : coord) : coord * N * snap :=
  let id := c_last_created c in
  let c1 := {| c_txs := c_txs c; c_last_created := id + 1; c_last_committed := c_last_committed c;
               c_counter := c_counter c; c_tuple_commits := c_tuple_commits c |} in
  let s := snapshot_of c1 id in
  ({| c_txs := c_txs c1 ++ [(id, {| x_state := Active; x_start := c_counter c; x_wset := [] |})];
      c_last_created := c_last_created c1; c_last_committed := c_last_committed c1;
      c_counter := c_counter c1; c_tuple_commits := c_tuple_commits c1 |}, id, s).

Definition key_eqb (a b : N * N) : bool := (fst a =? fst b) && (snd a =? snd b).
Fixpoint find_commit (k : N * N) (l : list ((N * N) * N)) : option N :=
  match l with
  | [] => None
  | (k', ts) :: r => if key_eqb k k' then Some ts else find_commit k r
  end.
Definition set_commit (k : N * N) (ts : N) (l : list ((N * N) * N)) : list ((N * N) * N) :=
  (k, ts) :: filter (fun p => negb (key_eqb k (fst p))) l.

Inductive cres := COk | CConflict | COther.

Definition with_txs (c : coord) (txs : list (N * tx)) : coord :=
  {| c_txs := txs; c_last_created := c_last_created c; c_last_committed := c_last_committed c;
     c_counter := c_counter c; c_tuple_commits := c_tuple_commits c |}.

(** [commit] = [validate_write_set] (Active -> Committing, first-committer-wins check against
    [tuple_commits], commit timestamp) then Committed and [last_committed := max]. *)
Definition commit (c : coord) (id : N) : coord * cres :=
  match find_tx id (c_txs c) with
  | None => (c, COther)
  | Some x =>
    match x_state x with
    | Active =>
      let conflict := existsb (fun k => match find_commit k (c_tuple_commits c) with
                                        | Some ts => x_start x <=? ts | None => false end) (x_wset x) in
      if conflict then
        (with_txs c (set_tx id {| x_state := Aborted; x_start := x_start x; x_wset := x_wset x |} (c_txs c)), CConflict)
      else
        let ts := c_counter c in
        ({| c_txs := set_tx id {| x_state := Committed; x_start := x_start x; x_wset := x_wset x |} (c_txs c);
            c_last_created := c_last_created c;
            c_last_committed := if c_last_committed c <? id then id else c_last_committed c;
            c_counter := ts + 1;
            c_tuple_commits := fold_left (fun acc k => set_commit k ts acc) (x_wset x) (c_tuple_commits c) |}, COk)
    | _ => (c, COther)
    end
  end.

(** [abort]: marks the entry Aborted whatever its state. *)
Definition abort (c : coord) (id : N) : coord * bool :=
  match find_tx id (c_txs c) with
  | None => (c, false)
  | Some x => (with_txs c (set_tx id {| x_state := Aborted; x_start := x_start x; x_wset := x_wset x |} (c_txs c)), true)
  end.

Definition record_write (c : coord) (id : N) (k : N * N) : coord * bool :=
  match find_tx id (c_txs c) with
  | None => (c, false)
  | Some x =>
    match x_state x with
    | Active =>
      let ws := if existsb (key_eqb k) (x_wset x) then x_wset x else x_wset x ++ [k] in
      (with_txs c (set_tx id {| x_state := Active; x_start := x_start x; x_wset := ws |} (c_txs c)), true)
    | _ => (c, false)
    end
  end.

(** [vacuum_transactions]: forget finished transactions below the last committed id, and tuple
    commit timestamps below the oldest active start. *)
Definition vacuum_txs (c : coord) : coord :=
  let keep := filter (fun p => tstate_eqb (x_state (snd p)) Active || (c_last_committed c <=? fst p)) (c_txs c) in
  let starts := map (fun p => x_start (snd p)) (filter (fun p => tstate_eqb (x_state (snd p)) Active) (c_txs c)) in
  let min_start := minN starts (c_counter c) in
  {| c_txs := keep; c_last_created := c_last_created c; c_last_committed := c_last_committed c;
     c_counter := c_counter c;
     c_tuple_commits := filter (fun p => min_start <=? snd p) (c_tuple_commits c) |}.

Inductive cop := CBegin | CCommit (id : N) | CAbort (id : N) | CWrite (id t r : N) | CVacuum.
