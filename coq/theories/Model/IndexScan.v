(** Index scan versus table scan (runtime/ops/index_scan.rs, seq_scan.rs, dml.rs index maintenance),
    at the level of sets of rows.  A row is (row id, (key or NULL, payload)); an index entry is
    (key, row id); rows whose key is NULL have no entry.  No proofs in this file. *)
From Axv Require Import Base.Bytes.
Open Scope N_scope.

Definition row := (N * (option N * N))%type.
Definition tbl := list row.
Definition idx := list (N * N).

Definition in_range (lo hi : option N) (k : N) : bool :=
  (match lo with Some l => l <=? k | None => true end) && (match hi with Some h => k <=? h | None => true end).

Definition find_row (t : tbl) (r : N) : option row := find (fun x => fst x =? r) t.

(** Sequential scan with the whole predicate: the key is in range (a NULL key never is) and the residual holds. *)
Definition seq_scan (t : tbl) (lo hi : option N) (resid : row -> bool) : list row :=
  filter (fun x => match fst (snd x) with Some k => in_range lo hi k | None => false end && resid x) t.

(** Index scan: entries in range, rows fetched by row id, residual predicate on the fetched row. *)
Definition index_scan (i : idx) (t : tbl) (lo hi : option N) (resid : row -> bool) : list row :=
  flat_map (fun e => match find_row t (snd e) with
                     | Some x => if resid x then [x] else []
                     | None => [] end)
           (filter (fun e => in_range lo hi (fst e)) i).

(** Maintenance as the engine does it for INSERT and DELETE, and for UPDATE of other columns. *)
Definition ins (i : idx) (t : tbl) (x : row) : idx * tbl :=
  (match fst (snd x) with Some k => (k, fst x) :: i | None => i end, x :: t).
Definition del (i : idx) (t : tbl) (r : N) : idx * tbl :=
  (filter (fun e => negb (snd e =? r)) i, filter (fun x => negb (fst x =? r)) t).
Definition upd_payload (t : tbl) (r p : N) : tbl :=
  map (fun x => if fst x =? r then (fst x, (fst (snd x), p)) else x) t.
(** UPDATE of the indexed column as the engine does it: the table changes, the index does not. *)
Definition upd_key_unmaintained (t : tbl) (r : N) (k : option N) : tbl :=
  map (fun x => if fst x =? r then (fst x, (k, snd (snd x))) else x) t.
