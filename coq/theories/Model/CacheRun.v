(** Case runner for the pager-cache model (harness mode [pgr]). *)
From Axv Require Import Base.Bytes Base.Show Model.Cache.
Open Scope string_scope.

Definition show_pres (o : pop) (r : pres) : string :=
  let pre := match o with PAlloc => "a" | PWrite _ _ => "w" | PRead _ => "r" | PPin _ => "p" | PUnpin _ => "u" | PFlush => "F" end in
  match r with
  | PId p => "a" ++ showN p
  | POk => match o with PFlush => "fok" | _ => pre ++ "ok" end
  | PVal v => "r=" ++ showN v
  | POom => pre ++ "err:oom"
  | PBad => pre ++ "err:other"
  end.

Fixpoint run_pops (st : pst) (ops : list pop) : list string :=
  match ops with
  | [] => []
  | o :: r => let '(st', res) := pstep st o in show_pres o res :: run_pops st' r
  end.
Definition run_pgr_case (p : nat * list pop) : string := join " " (run_pops (init_pst (fst p)) (snd p)).
