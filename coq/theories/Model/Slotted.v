(** The slotted B+tree page of storage/core/buffer.rs (impl BtreeOps for MemBlock<BtreePageHeader>):
    a slot array of cell offsets growing from the start of the data area, cells written downwards
    from the end, a free-space counter and a free-space pointer.  Operations: insert (with the
    defragmentation it triggers), remove, replace (both cases), defragment, drain(..).

    Offsets are relative to the data area, as in the code (`item_at_offset`, `slot_array_non_null`),
    except that `content_start_ptr` includes the page header size [phdr] (the code's over-estimate,
    kept).  A cell is its identity and the length of its padded payload; [chdr] is CELL_HEADER_SIZE.
    The page bytes are modelled as a list of written extents, newest first: a write destroys every
    extent it overlaps, a read at an offset finds the extent starting there or nothing (garbage).
    [bad] records that the code would have read garbage or underflowed an unsigned counter.
    No proofs in this file. *)
From Coq Require Export List NArith Bool Sorting.Mergesort Orders.
Export ListNotations.
Open Scope N_scope.

Record cell := mkCell { cid : N; plen : N }.
Definition cell_eqb (a b : cell) : bool := (cid a =? cid b) && (plen a =? plen b).

(** (offset, slot index) pairs ordered by descending offset: the order in which the BinaryHeap of
    `defragment` pops them. *)
Module DescOff <: TotalLeBool.
  Definition t := (N * nat)%type.
  Definition leb (x y : t) : bool := fst y <=? fst x.
  Theorem leb_total : forall x y, leb x y = true \/ leb y x = true.
  Proof. intros x y. unfold leb. destruct (N.leb_spec (fst y) (fst x)); [now left|right]. apply N.leb_le. apply N.lt_le_incl. assumption. Qed.
End DescOff.
Module DSort := Sort DescOff.

Inductive err := EInvalidInput | EStorageFull | EInvalidData.
Inductive res := ROk (i : nat) | RCell (c : cell) | RCells (l : list cell) | RUnit | RErr (e : err) | RPanic.
Inductive op := OInsert (i : nat) (c : cell) | ORemove (i : nat) | OReplace (i : nat) (c : cell) | ODefrag | ODrain.

Section Slotted.
Variables chdr phdr : N.

Definition total (c : cell) : N := chdr + plen c.
Definition storage (c : cell) : N := total c + 2.

Definition extent := (N * cell)%type.
Definition overlaps (o1 l1 o2 l2 : N) : bool := (o1 <? o2 + l2) && (o2 <? o1 + l1).
Definition write (m : list extent) (o : N) (c : cell) : list extent :=
  (o, c) :: filter (fun e => negb (overlaps (fst e) (total (snd e)) o (total c))) m.
Definition read (m : list extent) (o : N) : option cell :=
  match find (fun e => fst e =? o) m with Some e => Some (snd e) | None => None end.

Record page := mkPage { cap : N; slots : list N; fsp : N; fs : N; mem : list extent; bad : bool }.

Definition init (capacity : N) : page := mkPage capacity [] capacity capacity [] false.

Definition nslots (p : page) : N := N.of_nat (length (slots p)).
Definition content_start (p : page) : N := 2 * nslots p + phdr.
Definition effective_free (p : page) : N := fsp p - content_start p.        (* saturating_sub *)
Definition max_payload (capacity : N) : N := ((capacity - chdr - 2) / 8) * 8.

Definition dflt : cell := mkCell 0 0.
Definition cell_at (p : page) (o : N) : cell := match read (mem p) o with Some c => c | None => dflt end.
(** what the page holds, in slot order *)
Definition cells (p : page) : list cell := map (cell_at p) (slots p).

Fixpoint set_nth {A} (i : nat) (x : A) (l : list A) : list A :=
  match l, i with
  | [], _ => []
  | _ :: r, O => x :: r
  | y :: r, S j => y :: set_nth j x r
  end.
Fixpoint insert_at {A} (i : nat) (x : A) (l : list A) : list A :=
  match i, l with
  | O, _ => x :: l
  | S j, y :: r => y :: insert_at j x r
  | S _, [] => [x]
  end.
Fixpoint remove_at {A} (i : nat) (l : list A) : list A :=
  match l, i with
  | [], _ => []
  | _ :: r, O => r
  | y :: r, S j => y :: remove_at j r
  end.

(** one iteration of the `defragment` loop: copy the cell out, write it below the previous one,
    repoint its slot *)
Definition defrag_step (st : N * list extent * list N * bool) (oi : N * nat) : N * list extent * list N * bool :=
  let '(dest, m, sl, b) := st in
  match read m (fst oi) with
  | Some c => let d := dest - total c in (d, write m d c, set_nth (snd oi) d sl, b || (dest <? total c))
  | None => (dest, m, sl, true)
  end.
Definition defragment (p : page) : page :=
  let order := DSort.sort (combine (slots p) (seq 0 (length (slots p)))) in
  let '(dest, m, sl, b) := fold_left defrag_step order (cap p, mem p, slots p, bad p) in
  mkPage (cap p) sl dest (fs p) m b.

Definition insert (p : page) (i : nat) (c : cell) : page * res :=
  if max_payload (cap p) <? plen c then (p, RErr EInvalidInput)
  else if Nat.ltb (length (slots p)) i then (p, RErr EInvalidInput)
  else
    let p1 := if effective_free p <? storage c then defragment p else p in
    if (fsp p1 <? total c) || (fs p1 <? storage c) then (p1, RErr EStorageFull)
    else
      let off := fsp p1 - total c in
      if negb (total c mod 8 =? 0) || negb (off mod 8 =? 0) then (p1, RErr EInvalidData)
      else (mkPage (cap p1) (insert_at i off (slots p1)) off (fs p1 - storage c) (write (mem p1) off c) (bad p1), ROk i).

Definition remove (p : page) (i : nat) : page * res :=
  if Nat.ltb (length (slots p)) i then (p, RErr EInvalidInput)
  else match nth_error (slots p) i with
       | None => (p, RPanic)                       (* index == num_slots: slice index out of range *)
       | Some o =>
         match read (mem p) o with
         | None => (mkPage (cap p) (slots p) (fsp p) (fs p) (mem p) true, RPanic)
         | Some c => (mkPage (cap p) (remove_at i (slots p)) (fsp p) (fs p + storage c) (mem p) (bad p), RCell c)
         end
       end.

Definition replace (p : page) (i : nat) (c : cell) : page * res :=
  match nth_error (slots p) i with
  | None => (p, RPanic)
  | Some o =>
    match read (mem p) o with
    | None => (mkPage (cap p) (slots p) (fsp p) (fs p) (mem p) true, RPanic)
    | Some old =>
      if fs p + total old <? total c then (p, RErr EStorageFull)
      else if total c <=? total old then
        (mkPage (cap p) (slots p) (fsp p) (fs p + (total old - total c)) (write (mem p) o c) (bad p), RCell old)
      else
        let '(p1, _) := remove p i in
        match insert p1 i c with
        | (p2, ROk _) => (p2, RCell old)
        | (p2, r) => (p2, r)
        end
    end
  end.

(** drain(..) consumed to the end: hand out every cell, then account for the space *)
Definition drain (p : page) : page * res :=
  let cs := cells p in
  let sum_total := fold_right (fun c a => total c + a) 0 cs in
  let sum_storage := fold_right (fun c a => storage c + a) 0 cs in
  (mkPage (cap p) [] (fsp p + sum_total) (fs p + sum_storage) (mem p)
          (bad p || existsb (fun o => match read (mem p) o with None => true | Some _ => false end) (slots p)),
   RCells cs).

Definition step (p : page) (o : op) : page * res :=
  match o with
  | OInsert i c => insert p i c
  | ORemove i => remove p i
  | OReplace i c => replace p i c
  | ODefrag => (defragment p, RUnit)
  | ODrain => drain p
  end.

Fixpoint run (p : page) (ops : list op) : page * list res :=
  match ops with
  | [] => (p, [])
  | o :: r => let '(p1, a) := step p o in let '(p2, l) := run p1 r in (p2, a :: l)
  end.

(** The specification: a plain list of cells. *)
Definition spec_step (l : list cell) (o : op) (r : res) : list cell :=
  match o, r with
  | OInsert i c, ROk _ => insert_at i c l
  | ORemove i, RCell _ => remove_at i l
  | OReplace i c, RCell _ => set_nth i c l
  | ODrain, RCells _ => []
  | _, _ => l
  end.
Definition res_ok (l : list cell) (o : op) (r : res) : Prop :=
  match o, r with
  | OInsert i c, ROk j => j = i /\ (i <= length l)%nat
  | OInsert _ _, RErr _ => True
  | ORemove i, RCell c => nth_error l i = Some c
  | ORemove i, RErr EInvalidInput => (length l < i)%nat
  | ORemove i, RPanic => i = length l
  | OReplace i _, RCell c => nth_error l i = Some c
  | OReplace i _, RErr EStorageFull => (i < length l)%nat
  | OReplace i _, RPanic => (length l <= i)%nat
  | ODefrag, RUnit => True
  | ODrain, RCells cs => cs = l
  | _, _ => False
  end.
Fixpoint agree (p : page) (l : list cell) (ops : list op) : Prop :=
  match ops with
  | [] => True
  | o :: rest =>
    let '(p1, r) := step p o in
    res_ok l o r /\ cells p1 = spec_step l o r /\ bad p1 = false /\ agree p1 (spec_step l o r) rest
  end.

End Slotted.
