(** Executable model of the write-ahead log (io/wal.rs: push, rotate_block, perform_flush, truncate,
    open, WalReader).  Records are abstract except for their sizes; payload integrity is checked
    by the harness.  Sizes and header sizes come from Gen/GenWal.v.  No proofs here. *)
From Axv Require Import Base.Bytes Gen.GenWal.
Open Scope N_scope.

Record rec := { r_lsn : N; r_tid : N; r_kind : N; r_undo : N; r_redo : N }.   (* payload lengths *)

Section Wal.
  Variable B : N.            (* block size in bytes *)

  Definition roundup (n a : N) : N := ((n + a - 1) / a) * a.
  (** [OwnedRecord::new]: header + payload rounded up to the record alignment. *)
  Definition rsize (r : rec) : N := roundup (wal_record_header_size + r_undo r + r_redo r) wal_record_alignment.
  Definition used (b : list rec) : N := fold_right (fun r acc => rsize r + acc) 0 b.

  (** [available_space] subtracts the header twice ([usable_space (capacity ())]). *)
  Definition hdr_cap : N := B - 2 * wal_block_zero_header_size.
  Definition blk_cap : N := B - 2 * wal_block_header_size.
  Definition max_record : N := B - wal_block_header_size.

  Record disk := { d_hdr : option (list rec * N * option N); d_blocks : list (list rec) }.
  Record wal := { hdr : list rec; tot : N; cur : option (list rec); queue : list (list rec);
                  flushed : nat; glast : option N; dsk : disk }.

  Definition empty_disk : disk := {| d_hdr := None; d_blocks := [] |}.
  Definition create : wal :=
    {| hdr := []; tot := 1; cur := None; queue := []; flushed := 0%nat; glast := None; dsk := empty_disk |}.

  Inductive push_res := PushOk | PushTooLarge | PushFull.

  Definition push (w : wal) (r : rec) : wal * push_res :=
    let size := rsize r in
    if max_record <? size then (w, PushTooLarge)
    else
      (* header statistics (global_last_lsn) are updated before the record is placed *)
      let w := {| hdr := hdr w; tot := tot w; cur := cur w; queue := queue w; flushed := flushed w;
                  glast := Some (r_lsn r); dsk := dsk w |} in
      let to_block (w : wal) (blk : list rec) :=
        (* w has [cur = Some blk] conceptually; rotate when it does not fit *)
        let '(w1, blk1) :=
          if blk_cap - used blk <? size
          then ({| hdr := hdr w; tot := tot w + 1; cur := Some []; queue := queue w ++ [blk];
                   flushed := flushed w; glast := glast w; dsk := dsk w |}, [])
          else (w, blk) in
        if blk_cap - used blk1 <? size then
          ({| hdr := hdr w1; tot := tot w1; cur := Some blk1; queue := queue w1;
              flushed := flushed w1; glast := glast w1; dsk := dsk w1 |}, PushFull)
        else
          ({| hdr := hdr w1; tot := tot w1; cur := Some (blk1 ++ [r]); queue := queue w1;
              flushed := flushed w1; glast := glast w1; dsk := dsk w1 |}, PushOk) in
      match cur w with
      | None =>
        if Nat.eqb (flushed w) 0 && (size <=? hdr_cap - used (hdr w)) then
          ({| hdr := hdr w ++ [r]; tot := tot w; cur := None; queue := queue w;
              flushed := flushed w; glast := glast w; dsk := dsk w |}, PushOk)
        else to_block w []
      | Some blk => to_block w blk
      end.

  Definition write_at {A} (p : nat) (b : A) (l : list A) : list A := firstn p l ++ [b] ++ skipn (S p) l.

  (** [perform_flush]: queued blocks go after the blocks already final on disk, then the block being
      filled (which stays in memory and is rewritten in place by the next force), then block zero. *)
  Fixpoint write_seq {A} (p : nat) (bs : list A) (l : list A) : list A :=
    match bs with
    | [] => l
    | b :: bs' => write_seq (S p) bs' (write_at p b l)
    end.

  Definition flush (w : wal) : wal :=
    let blocks1 := write_seq (flushed w) (queue w) (d_blocks (dsk w)) in
    let fl := (flushed w + length (queue w))%nat in
    let '(blocks2, n) :=
      match cur w with
      | Some blk => if 0 <? used blk then (write_at fl blk blocks1, S fl) else (blocks1, fl)
      | None => (blocks1, fl)
      end in
    let total := N.of_nat (S n) in
    {| hdr := hdr w; tot := total; cur := cur w; queue := []; flushed := fl; glast := glast w;
       dsk := {| d_hdr := Some (hdr w, total, glast w); d_blocks := blocks2 |} |}.

  (** [truncate]: the file becomes empty, the in-memory state is reset (nothing is written). *)
  Definition truncate (w : wal) : wal :=
    {| hdr := []; tot := 1; cur := None; queue := []; flushed := 0%nat; glast := None; dsk := empty_disk |}.

  (** [open] after the process died (no [Drop]): state is rebuilt from block zero on disk; a file
      without block zero is an empty log, whose block zero is written at once. *)
  Definition open (d : disk) : option wal :=
    match d_hdr d with
    | None => Some (flush create)
    | Some (h, total, gl) =>
      Some {| hdr := h; tot := total; cur := None; queue := []; flushed := N.to_nat total - 1;
              glast := gl; dsk := d |}
    end.

  (** Reader: block zero from disk, then data blocks [1 .. total_blocks) with the in-memory count. *)
  Fixpoint read_blocks (n : nat) (bs : list (list rec)) : option (list rec) :=
    match n with
    | O => Some []
    | S n' =>
      match bs with
      | [] => None
      | b :: bs' => match read_blocks n' bs' with Some rs => Some (b ++ rs) | None => None end
      end
    end.

  Definition read_all (w : wal) : option (list rec) :=
    match d_hdr (dsk w) with
    | None => None
    | Some (h, _, _) =>
      match read_blocks (N.to_nat (tot w) - 1) (d_blocks (dsk w)) with
      | Some rs => Some (h ++ rs)
      | None => None
      end
    end.

  (** Operations of a log session. *)
  Inductive op := OPush (r : rec) | OFlush | OReopen | OCrash | OTruncFlush | OTrunc | ORead | OLast.
  Inductive event := EPushErr (lsn : N) | ERead (rs : list rec) | EReadErr | EOpErr | ELast (l : option N).

  (** [None] = the log could not be reopened (the session ends). *)
  Definition step (w : wal) (o : op) : option wal * list event :=
    match o with
    | OPush r => let '(w', res) := push w r in
                 (Some w', match res with PushOk => [] | _ => [EPushErr (r_lsn r)] end)
    | OFlush => (Some (flush w), [])
    | OReopen => let w' := flush w in       (* Drop flushes *)
                 match open (dsk w') with Some w'' => (Some w'', []) | None => (None, [EOpErr]) end
    | OCrash => match open (dsk w) with Some w' => (Some w', []) | None => (None, [EOpErr]) end
    | OTruncFlush => (Some (flush (truncate w)), [])
    | OTrunc => (Some (truncate w), [])
    | ORead => (Some w, [match read_all w with Some rs => ERead rs | None => EReadErr end])
    | OLast => (Some w, [ELast (glast w)])
    end.

  Fixpoint run (w : wal) (ops : list op) : list event :=
    match ops with
    | [] => []
    | o :: ops' =>
      match step w o with
      | (Some w', evs) => evs ++ run w' ops'
      | (None, evs) => evs
      end
    end.
End Wal.
