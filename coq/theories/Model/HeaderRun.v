(** Case runner for the header model (harness mode [hdr]). *)
From Axv Require Import Base.Bytes Base.Show Gen.GenHeader Model.Header.
Open Scope string_scope.

Inductive hop := HMark (x : N) | HClear (x : N) | HReload | HQuery (x : N) | HList.

Fixpoint run_hops (bm : bitmap) (ops : list hop) : list string :=
  match ops with
  | [] => []
  | HMark x :: r => run_hops (mark bm x) r
  | HClear x :: r => run_hops (clear_up_to bm x) r
  | HReload :: r => run_hops (reload bm) r
  | HQuery x :: r => ("a" ++ (if is_aborted bm x then "1" else "0")) :: run_hops bm r
  | HList :: r => ("list[" ++ join "," (map showN (aborted_list bm)) ++ "]") :: run_hops bm r
  end.

Definition run_hdr_case (ops : list hop) : string :=
  match run_hops empty_bitmap ops with [] => "-" | l => join " " l end.
