(** Printing model results as canonical ASCII lines (compared with the harness output). *)
From Coq Require Export String Ascii.
From Coq Require Import DecimalString.
From Axv Require Import Base.Bytes.
Open Scope N_scope.
Open Scope string_scope.

Definition hex_digit (d : N) : ascii :=
  match d with
  | 0 => "0" | 1 => "1" | 2 => "2" | 3 => "3" | 4 => "4" | 5 => "5" | 6 => "6" | 7 => "7"
  | 8 => "8" | 9 => "9" | 10 => "a" | 11 => "b" | 12 => "c" | 13 => "d" | 14 => "e" | _ => "f"
  end%char.

Fixpoint hex_body (bs : list N) : string :=
  match bs with
  | [] => ""
  | b :: r => String (hex_digit (b / 16)) (String (hex_digit (b mod 16)) (hex_body r))
  end.
(** Hex of a byte list; "-" for the empty list so that every field is a non-empty token. *)
Definition hex (bs : list N) : string := match bs with [] => "-" | _ => hex_body bs end.

Definition showN (n : N) : string := NilZero.string_of_uint (N.to_uint n).
Definition showZ (z : Z) : string :=
  match z with
  | Z0 => "0"
  | Zpos p => showN (Npos p)
  | Zneg p => "-" ++ showN (Npos p)
  end.
Definition show_nat (n : nat) : string := showN (N.of_nat n).
Definition show_bool (b : bool) : string := if b then "1" else "0".

Fixpoint join (sep : string) (l : list string) : string :=
  match l with
  | [] => ""
  | [x] => x
  | x :: r => x ++ sep ++ join sep r
  end.

Definition nl : string := String (ascii_of_nat 10) "".
Definition lines (l : list string) : string := join nl l.
