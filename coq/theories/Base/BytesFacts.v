From Axv Require Import Base.Bytes.
From Coq Require Import ZifyBool ZifyN ZifyNat.
Ltac Zify.zify_post_hook ::= Z.div_mod_to_equations.
Open Scope N_scope.

Lemma bytes_okb_spec bs : bytes_okb bs = true <-> bytes_ok bs.
Proof.
  unfold bytes_okb, bytes_ok. rewrite forallb_forall, Forall_forall.
  unfold byte_okb, byte_ok. split; intros H x Hx; specialize (H x Hx);
    [apply N.ltb_lt in H | apply N.ltb_lt]; exact H.
Qed.

Lemma le_enc_length n v : length (le_enc n v) = n.
Proof. revert v; induction n as [|n IH]; intros v; cbn [le_enc length]; [reflexivity|]. now rewrite IH. Qed.

Lemma le_enc_ok n v : bytes_ok (le_enc n v).
Proof.
  revert v; induction n as [|n IH]; intros v; cbn [le_enc]; constructor.
  - unfold byte_ok. apply N.mod_lt. discriminate.
  - apply IH.
Qed.

Lemma le_dec_enc n v : v < 256 ^ N.of_nat n -> le_dec (le_enc n v) = v.
Proof.
  revert v; induction n as [|n IH]; intros v Hv.
  - cbn [le_enc le_dec]. change (256 ^ N.of_nat 0) with 1 in Hv. lia.
  - cbn [le_enc le_dec]. rewrite IH.
    + pose proof (N.div_mod v 256). lia.
    + rewrite Nat2N.inj_succ, N.pow_succ_r' in Hv.
      apply N.div_lt_upper_bound; lia.
Qed.

Lemma le_dec_bound bs : bytes_ok bs -> le_dec bs < 256 ^ lenN bs.
Proof.
  unfold lenN. induction bs as [|b bs IH]; intros Hok.
  - cbn. lia.
  - inversion Hok as [|? ? Hb Hbs]; subst. specialize (IH Hbs).
    cbn [le_dec length]. rewrite Nat2N.inj_succ, N.pow_succ_r'. unfold byte_ok in Hb. lia.
Qed.

Lemma le_enc_dec bs : bytes_ok bs -> le_enc (length bs) (le_dec bs) = bs.
Proof.
  induction bs as [|b bs IH]; intros Hok; [reflexivity|].
  inversion Hok as [|? ? Hb Hbs]; subst. unfold byte_ok in Hb.
  cbn [le_dec length le_enc].
  replace ((b + 256 * le_dec bs) mod 256) with b by lia.
  replace ((b + 256 * le_dec bs) / 256) with (le_dec bs) by lia.
  now rewrite IH.
Qed.

Lemma bytes_ok_app a b : bytes_ok (a ++ b) <-> bytes_ok a /\ bytes_ok b.
Proof. unfold bytes_ok. apply Forall_app. Qed.

Lemma firstn_app_exact {A} (a b : list A) : firstn (length a) (a ++ b) = a.
Proof. rewrite firstn_app, Nat.sub_diag, firstn_all. cbn. apply app_nil_r. Qed.

Lemma skipn_app_exact {A} (a b : list A) : skipn (length a) (a ++ b) = b.
Proof. rewrite skipn_app, Nat.sub_diag, skipn_all. reflexivity. Qed.
