(** Bytes as [N] below 256, little-endian fixed-width integers. Stdlib style. *)
From Coq Require Export List NArith ZArith Lia Bool.
Export ListNotations.
Open Scope N_scope.

Arguments N.add : simpl never.
Arguments N.sub : simpl never.
Arguments N.mul : simpl never.
Arguments N.div : simpl never.
Arguments N.modulo : simpl never.
Arguments N.pow : simpl never.
Arguments N.eqb : simpl never.
Arguments N.ltb : simpl never.
Arguments N.leb : simpl never.

Definition byte_ok (b : N) : Prop := b < 256.
Definition bytes_ok (bs : list N) : Prop := Forall byte_ok bs.
Definition byte_okb (b : N) : bool := b <? 256.
Definition bytes_okb (bs : list N) : bool := forallb byte_okb bs.

(** [le_enc n v]: the [n] low-order bytes of [v], least significant first
    (Rust's [to_le_bytes] after an [as uN] truncation). *)
Fixpoint le_enc (n : nat) (v : N) : list N :=
  match n with
  | O => []
  | S n' => (v mod 256) :: le_enc n' (v / 256)
  end.

(** [le_dec bs]: value of a little-endian byte list ([from_le_bytes]). *)
Fixpoint le_dec (bs : list N) : N :=
  match bs with
  | [] => 0
  | b :: bs' => b + 256 * le_dec bs'
  end.

Definition lenN {A} (l : list A) : N := N.of_nat (length l).
