(** Case runner for RefDB (harness mode [sql]). *)
From Axv Require Import Base.Bytes Base.Show Model.Values Spec.RefDB.
Open Scope string_scope.

Definition show_sval (v : sval) : string :=
  match v with
  | SNull => "n"
  | SBool b => "b" ++ show_bool b
  | SInt z => showZ z
  | SDbl b => "d" ++ showN b
  | SText s => "t" ++ hex s
  end.

Definition show_rows (sorted : bool) (n : nat) (rows : list (list sval)) : string :=
  "rows" ++ (if sorted then "!" else "") ++ ":" ++ show_nat n ++ "["
  ++ join ";" (map (fun r => join "," (map show_sval r)) rows) ++ "]".

Definition show_result (sorted : bool) (r : result) : string :=
  match r with
  | RRows n rows => show_rows sorted n rows
  | RCount n => "count:" ++ showN n
  | RDdl => "ddl"
  | RErr => "err"
  end.

Definition show_aresult (sorted : bool) (r : aresult) : string :=
  match r with
  | AR x => show_result sorted x
  | AOk => "ok"
  | ANoSession => "nosession"
  | ABatchOk rs => "batch[" ++ join "/" (map (show_result true) rs) ++ "]"
  end.

Fixpoint run_actions (st : state) (acts : list (action * bool)) : list string :=
  match acts with
  | [] => []
  | (a, sorted) :: r => let '(res, st') := step st a in show_aresult sorted res :: run_actions st' r
  end.

Definition run_sql_case (acts : list (action * bool)) : string := join " | " (run_actions init_state acts).

(** Constructors with short names for generated case files. *)
Definition I (z : Z) : expr := ELit (SInt z).
Definition Tx (s : list N) : expr := ELit (SText s).
Definition Bo (b : bool) : expr := ELit (SBool b).
Definition Nu : expr := ELit SNull.
Definition C (i : nat) : expr := ECol i.
Definition Col (k : skind) (nn : bool) (d : option sval) : col := {| c_kind := k; c_notnull := nn; c_default := d |}.
Definition Q (distinct : bool) (items : list sitem) (f : option from) (w : option expr) (g : list expr)
             (h : option (aggf * option expr * binop * sval)) (o : list (nat * bool)) (lim off : option nat) : select :=
  {| q_distinct := distinct; q_items := items; q_from := f; q_where := w; q_group := g; q_having := h;
     q_order := o; q_limit := lim; q_offset := off |}.

(** * Crash cases (harness mode [crash]): after every action, the contents the committed transactions define.
    A reopened crash image must show the dump of the last acknowledged action (or, when a commit was in
    progress, that of the action in progress). *)
Definition dump_db (d : db) (tids : list N) : string :=
  join "," (map (fun tid => "t" ++ showN tid ++ "=" ++
                   match get_table d tid with
                   | Some t => show_rows true (List.length (t_cols t)) (map snd (t_rows t))
                   | None => "absent"
                   end) tids).

Fixpoint run_crash_actions (st : state) (tids : list N) (acts : list (action * bool)) : list string :=
  match acts with
  | [] => []
  | (a, sorted) :: r =>
      let '(res, st') := step st a in
      (show_aresult sorted res ++ "~" ++ dump_db (committed st') tids) :: run_crash_actions st' tids r
  end.

Definition run_crash_case (tids : list N) (acts : list (action * bool)) : string :=
  join " | " (run_crash_actions init_state tids acts).
