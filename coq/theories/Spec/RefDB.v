(** RefDB — the reference (specification) database: what SQL semantics prescribes for the supported
    fragment.  Purely logical: three-valued logic, bag semantics, joins, grouping, ordering,
    limit/offset, DML with constraints, snapshot-isolated sessions with first-committer-wins.
    It does not mirror the engine; it is what the engine is compared with.  No proofs here. *)
From Axv Require Import Base.Bytes Model.Values.
Open Scope Z_scope.

(** * Values of the SQL level (all integer column types are mathematical integers) *)
Inductive sval := SNull | SBool (b : bool) | SInt (z : Z) | SDbl (bits : N) | SText (s : list N).
Inductive skind := TInt | TBigInt | TUInt | TBigUInt | TDouble | TText | TBool.

Inductive res (A : Type) := Ok (a : A) | Err.
Arguments Ok {A} a.
Arguments Err {A}.
Definition bind {A B} (r : res A) (f : A -> res B) : res B := match r with Ok a => f a | Err => Err end.
Notation "'do' x <- r ;; k" := (bind r (fun x => k)) (at level 200, x name, r at level 100, k at level 200).

Fixpoint mapM {A B} (f : A -> res B) (l : list A) : res (list B) :=
  match l with
  | [] => Ok []
  | x :: r => do y <- f x;; do ys <- mapM f r;; Ok (y :: ys)
  end.

(** * Comparison *)
Definition cmp_vals (a b : sval) : res (option comparison) :=      (* None = unknown (a NULL) *)
  match a, b with
  | SNull, _ | _, SNull => Ok None
  | SInt x, SInt y => Ok (Some (x ?= y))
  | SBool x, SBool y => Ok (Some (bool_cmp x y))
  | SText x, SText y => Ok (Some (lex_cmp x y))
  | SDbl x, SDbl y => Ok (f64_cmp x y)
  | SInt x, SDbl y => Ok (f64_cmp (f64_of_Z x) y)
  | SDbl x, SInt y => Ok (f64_cmp x (f64_of_Z y))
  | _, _ => Err
  end.

Definition tv := option bool.       (* three-valued truth: None = UNKNOWN *)
Definition tv_and (a b : tv) : tv :=
  match a, b with
  | Some false, _ | _, Some false => Some false
  | Some true, Some true => Some true
  | _, _ => None
  end.
Definition tv_or (a b : tv) : tv :=
  match a, b with
  | Some true, _ | _, Some true => Some true
  | Some false, Some false => Some false
  | _, _ => None
  end.
Definition tv_not (a : tv) : tv := option_map negb a.
Definition tv_val (a : tv) : sval := match a with Some b => SBool b | None => SNull end.
Definition val_tv (v : sval) : res tv :=
  match v with SBool b => Ok (Some b) | SNull => Ok None | _ => Err end.

(** * LIKE: [%] any sequence, [_] any one byte, [\] escapes the next byte *)
Fixpoint like_fuel (fuel : nat) (s p : list N) : bool :=
  match fuel with
  | O => false
  | S f =>
    match p with
    | [] => match s with [] => true | _ => false end
    | 37%N :: p' =>                                        (* % *)
        like_fuel f s p' || match s with [] => false | _ :: s' => like_fuel f s' p end
    | 95%N :: p' => match s with [] => false | _ :: s' => like_fuel f s' p' end   (* _ *)
    | 92%N :: c :: p' => match s with [] => false | x :: s' => (x =? c)%N && like_fuel f s' p' end  (* \c *)
    | c :: p' => match s with [] => false | x :: s' => (x =? c)%N && like_fuel f s' p' end
    end
  end.
Definition like (s p : list N) : bool := like_fuel (2 * (length s + length p) + 2) s p.

(** * Expressions (column references are positions in the source row) *)
Inductive binop := OAdd | OSub | OMul | ODiv | OMod | OEq | ONe | OLt | OLe | OGt | OGe
                 | OAnd | OOr | OConcat | OLike | ONotLike.
Inductive expr :=
| ELit (v : sval) | ECol (i : nat)
| EBin (op : binop) (a b : expr) | ENot (a : expr) | ENeg (a : expr)
| EIsNull (a : expr) (negated : bool)
| EBetween (a lo hi : expr) (negated : bool)
| EInList (a : expr) (l : list expr) (negated : bool).

Definition cmp_tv (op : binop) (c : option comparison) : tv :=
  match c with
  | None => None
  | Some c =>
    Some match op, c with
         | OEq, Eq | ONe, Lt | ONe, Gt | OLt, Lt | OLe, Lt | OLe, Eq | OGt, Gt | OGe, Gt | OGe, Eq => true
         | _, _ => false
         end
  end.

Fixpoint eval (row : list sval) (e : expr) {struct e} : res sval :=
  match e with
  | ELit v => Ok v
  | ECol i => match nth_error row i with Some v => Ok v | None => Err end
  | ENot a => do v <- eval row a;; do t <- val_tv v;; Ok (tv_val (tv_not t))
  | ENeg a => do v <- eval row a;; match v with SNull => Ok SNull | SInt z => Ok (SInt (- z)) | _ => Err end
  | EIsNull a neg => do v <- eval row a;;
                     Ok (SBool (xorb neg match v with SNull => true | _ => false end))
  | EBetween a lo hi neg =>
      do v <- eval row a;; do l <- eval row lo;; do h <- eval row hi;;
      do c1 <- cmp_vals v l;; do c2 <- cmp_vals v h;;
      let t := tv_and (cmp_tv OGe c1) (cmp_tv OLe c2) in
      Ok (tv_val (if neg then tv_not t else t))
  | EInList a l neg =>
      do v <- eval row a;;
      do vs <- (fix go (l : list expr) : res (list sval) :=
                  match l with [] => Ok [] | x :: r => do y <- eval row x;; do ys <- go r;; Ok (y :: ys) end) l;;
      do t <- fold_left (fun acc x => do a0 <- acc;; do c <- cmp_vals v x;; Ok (tv_or a0 (cmp_tv OEq c)))
                        vs (Ok (Some false));;
      Ok (tv_val (if neg then tv_not t else t))
  | EBin op a b =>
      do x <- eval row a;; do y <- eval row b;;
      match op with
      | OAnd => do p <- val_tv x;; do q <- val_tv y;; Ok (tv_val (tv_and p q))
      | OOr => do p <- val_tv x;; do q <- val_tv y;; Ok (tv_val (tv_or p q))
      | OEq | ONe | OLt | OLe | OGt | OGe => do c <- cmp_vals x y;; Ok (tv_val (cmp_tv op c))
      | OAdd | OSub | OMul | ODiv | OMod =>
          match x, y with
          | SNull, _ | _, SNull => Ok SNull
          | SInt p, SInt q =>
              match op with
              | OAdd => Ok (SInt (p + q)) | OSub => Ok (SInt (p - q)) | OMul => Ok (SInt (p * q))
              | ODiv => if q =? 0 then Err else Ok (SInt (Z.quot p q))
              | _ => if q =? 0 then Err else Ok (SInt (Z.rem p q))
              end
          | _, _ => Err
          end
      | OConcat => match x, y with
                   | SNull, _ | _, SNull => Ok SNull
                   | SText p, SText q => Ok (SText (p ++ q))
                   | _, _ => Err
                   end
      | OLike | ONotLike =>
          match x, y with
          | SNull, _ | _, SNull => Ok SNull
          | SText s, SText p => Ok (SBool (xorb (match op with ONotLike => true | _ => false end) (like s p)))
          | _, _ => Err
          end
      end
  end.

Definition is_true (v : sval) : bool := match v with SBool true => true | _ => false end.

(** * Tables and databases *)
Record col := { c_kind : skind; c_notnull : bool; c_default : option sval }.
Record table := { t_cols : list col; t_uniq : list (list nat); t_rows : list (N * list sval) }.
Definition db := list (N * table).

Fixpoint get_table (d : db) (tid : N) : option table :=
  match d with [] => None | (i, t) :: r => if (i =? tid)%N then Some t else get_table r tid end.
Fixpoint set_table (d : db) (tid : N) (t : table) : db :=
  match d with
  | [] => [(tid, t)]
  | (i, x) :: r => if (i =? tid)%N then (i, t) :: r else (i, x) :: set_table r tid t
  end.
Definition del_table (d : db) (tid : N) : db := filter (fun p => negb (fst p =? tid)%N) d.

Definition in_kind (k : skind) (v : sval) : bool :=
  match v, k with
  | SNull, _ => true
  | SInt z, TInt => (- 2 ^ 31 <=? z) && (z <? 2 ^ 31)
  | SInt z, TBigInt => (- 2 ^ 63 <=? z) && (z <? 2 ^ 63)
  | SInt z, TUInt => (0 <=? z) && (z <? 2 ^ 32)
  | SInt z, TBigUInt => (0 <=? z) && (z <? 2 ^ 64)
  | SDbl _, TDouble => true
  | SText _, TText => true
  | SBool _, TBool => true
  | _, _ => false
  end.

Definition sval_eqb (a b : sval) : bool :=
  match cmp_vals a b with Ok (Some Eq) => true | _ => false end.

(** Two rows collide on a unique column set iff all those columns are non-NULL and equal. *)
Definition key_of (cols : list nat) (row : list sval) : option (list sval) :=
  fold_right (fun i acc => match acc, nth_error row i with
                           | Some l, Some SNull => None
                           | Some l, Some v => Some (v :: l)
                           | _, _ => None end) (Some []) cols.
Definition keys_collide (cols : list nat) (r1 r2 : list sval) : bool :=
  match key_of cols r1, key_of cols r2 with
  | Some k1, Some k2 => forallb (fun p => sval_eqb (fst p) (snd p)) (combine k1 k2)
  | _, _ => false
  end.
Fixpoint no_dups (cols : list nat) (rows : list (list sval)) : bool :=
  match rows with
  | [] => true
  | r :: rest => negb (existsb (keys_collide cols r) rest) && no_dups cols rest
  end.

Definition row_ok (t : table) (row : list sval) : bool :=
  Nat.eqb (length row) (length (t_cols t))
  && forallb (fun p => in_kind (c_kind (fst p)) (snd p)
                       && negb (c_notnull (fst p) && match snd p with SNull => true | _ => false end))
             (combine (t_cols t) row).
Definition table_ok (t : table) : bool :=
  forallb (fun r => row_ok t (snd r)) (t_rows t)
  && forallb (fun u => no_dups u (map snd (t_rows t))) (t_uniq t).

(** * Queries *)
Inductive jtype := JInner | JLeft | JRight | JFull | JCross.
Inductive from :=
| FTable (tid : N)
| FJoin (jt : jtype) (l r : from) (on : option expr).

Inductive aggf := ACount | ASum | AMin | AMax | AAvg.
Inductive sitem :=
| IExpr (e : expr)                      (* over the source row (or over the group's first row when grouping) *)
| IAgg (f : aggf) (arg : option expr).  (* [None] = COUNT star *)

Record select := {
  q_distinct : bool; q_items : list sitem; q_from : option from; q_where : option expr;
  q_group : list expr; q_having : option (aggf * option expr * binop * sval);
  q_order : list (nat * bool);   (* output column position, ascending? *)
  q_limit : option nat; q_offset : option nat }.

Fixpoint width (d : db) (f : from) : nat :=
  match f with
  | FTable tid => match get_table d tid with Some t => length (t_cols t) | None => 0 end
  | FJoin _ l r _ => width d l + width d r
  end.

Fixpoint from_rows (d : db) (f : from) : res (list (list sval)) :=
  match f with
  | FTable tid => match get_table d tid with Some t => Ok (map snd (t_rows t)) | None => Err end
  | FJoin jt l r on =>
      do lr <- from_rows d l;; do rr <- from_rows d r;;
      let wl := width d l in let wr := width d r in
      let cond (a b : list sval) : res bool :=
        match on with None => Ok true | Some e => do v <- eval (a ++ b) e;; Ok (is_true v) end in
      do pairs <- mapM (fun a => do ms <- mapM (fun b => do c <- cond a b;; Ok (b, c)) rr;; Ok (a, ms)) lr;;
      let inner := flat_map (fun p => map (fun m => fst p ++ fst m) (filter snd (snd p))) pairs in
      let left_un := flat_map (fun p => if existsb snd (snd p) then [] else [fst p ++ repeat SNull wr]) pairs in
      let right_un :=
        flat_map (fun ib => if existsb (fun p => match nth_error (snd p) (fst ib) with
                                                 | Some m => snd m | None => false end) pairs
                            then [] else [repeat SNull wl ++ snd ib])
                 (combine (seq 0 (length rr)) rr) in
      Ok match jt with
         | JInner | JCross => inner
         | JLeft => inner ++ left_un
         | JRight => inner ++ right_un
         | JFull => inner ++ left_un ++ right_un
         end
  end.

(** Integer sum as the engine reports it: a DOUBLE. *)
Definition dbl_of_int (z : Z) : sval := SDbl (f64_of_Z z).

(** Correctly rounded quotient of two integers as a double (n / d, d > 0), round to nearest even. *)
Definition f64_of_quot (n : Z) (d : Z) : N :=
  if n =? 0 then 0%N else
  let neg := n <? 0 in
  let a := Z.abs n in
  (* scale so that the quotient has at least 64 significant bits *)
  let sh := 64 + Z.log2 d in
  let q := (a * 2 ^ sh) / d in
  let sticky := negb ((a * 2 ^ sh) mod d =? 0) in
  let nb := Z.log2 q in                          (* q in [2^nb, 2^(nb+1)) *)
  let drop := nb - 52 in                         (* keep 53 bits *)
  let keep := q / 2 ^ drop in
  let rem := q mod 2 ^ drop in
  let half := 2 ^ (drop - 1) in
  let up := (half <? rem) || ((rem =? half) && (sticky || Z.odd keep)) in
  let m := if up then keep + 1 else keep in
  let '(m, e) := if m =? 2 ^ 53 then (2 ^ 52, nb + 1 - sh) else (m, nb - sh) in
  (* value = m * 2^(e - 52); biased exponent e + 1023 (normal range assumed) *)
  ((if neg then 2 ^ 63 else 0) + Z.to_N ((e + 1023) * 2 ^ 52 + (m - 2 ^ 52)))%N.

Definition min_val (a b : sval) : sval := match cmp_vals a b with Ok (Some Gt) => b | _ => a end.
Definition max_val (a b : sval) : sval := match cmp_vals a b with Ok (Some Lt) => b | _ => a end.

Definition agg (f : aggf) (arg : option expr) (rows : list (list sval)) : res sval :=
  match arg with
  | None => Ok (SInt (Z.of_nat (length rows)))        (* COUNT star *)
  | Some e =>
    do vs <- mapM (fun r => eval r e) rows;;
    let nn := filter (fun v => match v with SNull => false | _ => true end) vs in
    match f with
    | ACount => Ok (SInt (Z.of_nat (length nn)))
    | AMin => Ok match nn with [] => SNull | x :: r => fold_left min_val r x end
    | AMax => Ok match nn with [] => SNull | x :: r => fold_left max_val r x end
    | ASum | AAvg =>
        do ints <- mapM (fun v => match v with SInt z => Ok z | _ => Err end) nn;;
        match nn with
        | [] => Ok SNull
        | _ => let s := fold_left Z.add ints 0 in
               match f with
               | ASum => Ok (dbl_of_int s)
               | _ => Ok (SDbl (f64_of_quot s (Z.of_nat (length nn))))
               end
        end
    end
  end.

(** Grouping: rows with equal group keys (NULLs group together), in order of first appearance. *)
Definition key_eqb (a b : list sval) : bool :=
  Nat.eqb (length a) (length b)
  && forallb (fun p => match fst p, snd p with
                       | SNull, SNull => true
                       | x, y => sval_eqb x y end) (combine a b).

Fixpoint group_rows (keyed : list (list sval * list sval)) (fuel : nat) : list (list sval * list (list sval)) :=
  match fuel with
  | O => []
  | S f =>
    match keyed with
    | [] => []
    | (k, r) :: rest =>
      let same := filter (fun p => key_eqb k (fst p)) rest in
      let other := filter (fun p => negb (key_eqb k (fst p))) rest in
      (k, r :: map snd same) :: group_rows other f
    end
  end.

(** ORDER BY: NULLs sort as the largest value (last ascending, first descending). *)
Definition ord_cmp (a b : sval) : comparison :=
  match a, b with
  | SNull, SNull => Eq
  | SNull, _ => Gt
  | _, SNull => Lt
  | _, _ => match cmp_vals a b with Ok (Some c) => c | _ => Eq end
  end.
Fixpoint row_cmp (keys : list (nat * bool)) (a b : list sval) : comparison :=
  match keys with
  | [] => Eq
  | (i, asc) :: r =>
    let c := ord_cmp (nth i a SNull) (nth i b SNull) in
    match (if asc then c else CompOpp c) with Eq => row_cmp r a b | o => o end
  end.
Fixpoint insert_sorted (keys : list (nat * bool)) (x : list sval) (l : list (list sval)) : list (list sval) :=
  match l with
  | [] => [x]
  | y :: r => match row_cmp keys x y with Lt => x :: l | _ => y :: insert_sorted keys x r end
  end.
Definition sort_rows (keys : list (nat * bool)) (l : list (list sval)) : list (list sval) :=
  fold_left (fun acc x => insert_sorted keys x acc) l [].     (* stable insertion sort *)

Fixpoint dedup (l : list (list sval)) (fuel : nat) : list (list sval) :=
  match fuel with
  | O => []
  | S f => match l with
           | [] => []
           | x :: r => x :: dedup (filter (fun y => negb (key_eqb x y)) r) f
           end
  end.

Definition has_agg (items : list sitem) : bool := existsb (fun i => match i with IAgg _ _ => true | _ => false end) items.

Definition run_select (d : db) (q : select) : res (nat * list (list sval)) :=
  do src <- match q_from q with Some f => from_rows d f | None => Ok [[]] end;;
  do kept <- match q_where q with
             | None => Ok src
             | Some w => do fl <- mapM (fun r => do v <- eval r w;; Ok (r, is_true v)) src;;
                         Ok (map fst (filter snd fl))
             end;;
  let ncols := length (q_items q) in
  do out <-
    (if has_agg (q_items q) || negb (match q_group q with [] => true | _ => false end) then
       do keyed <- mapM (fun r => do k <- mapM (eval r) (q_group q);; Ok (k, r)) kept;;
       let groups := match q_group q with
                     | [] => [([], kept)]                      (* one group, even when empty *)
                     | _ => group_rows keyed (S (length keyed))
                     end in
       do groups' <- match q_having q with
                     | None => Ok groups
                     | Some (f, arg, op, lit) =>
                       do fl <- mapM (fun g => do a <- agg f arg (snd g);; do c <- cmp_vals a lit;;
                                               Ok (g, match cmp_tv op c with Some true => true | _ => false end)) groups;;
                       Ok (map fst (filter snd fl))
                     end;;
       mapM (fun g => mapM (fun it => match it with
                                      | IAgg f arg => agg f arg (snd g)
                                      | IExpr e => match snd g with r :: _ => eval r e | [] => Ok SNull end
                                      end) (q_items q)) groups'
     else
       mapM (fun r => mapM (fun it => match it with IExpr e => eval r e | IAgg _ _ => Err end) (q_items q)) kept);;
  let out := if q_distinct q then dedup out (S (length out)) else out in
  let out := match q_order q with [] => out | ks => sort_rows ks out end in
  let out := match q_offset q with Some n => skipn n out | None => out end in
  let out := match q_limit q with Some n => firstn n out | None => out end in
  Ok (ncols, out).

(** * Statements *)
Inductive stmt :=
| SCreate (tid : N) (cols : list col) (uniq : list (list nat))
| SDrop (tid : N)
| SInsert (tid : N) (cols : option (list nat)) (rows : list (list expr))
| SUpdate (tid : N) (sets : list (nat * expr)) (where_ : option expr)
| SDelete (tid : N) (where_ : option expr)
| SSelect (q : select)
| SAddColumn (tid : N) (c : col)
| SDropColumn (tid : N) (i : nat)
| SCreateUnique (tid : N) (cols : list nat).

Inductive result := RRows (ncols : nat) (rows : list (list sval)) | RCount (n : N) | RDdl | RErr.

(** Row ids come from a counter that is never rolled back (they are not observable in results). *)
Definition exec (d : db) (next : N) (s : stmt) : result * db * N :=
  match s with
  | SCreate tid cols uniq =>
      match get_table d tid with
      | Some _ => (RErr, d, next)
      | None => (RDdl, set_table d tid {| t_cols := cols; t_uniq := uniq; t_rows := [] |}, next)
      end
  | SDrop tid =>
      match get_table d tid with
      | None => (RErr, d, next)
      | Some _ => (RDdl, del_table d tid, next)
      end
  | SSelect q =>
      match run_select d q with Ok (n, rows) => (RRows n rows, d, next) | Err => (RErr, d, next) end
  | SInsert tid cols rows =>
      match get_table d tid with
      | None => (RErr, d, next)
      | Some t =>
        let n := length (t_cols t) in
        let build (vals : list sval) : res (list sval) :=
          match cols with
          | None => if Nat.eqb (length vals) n then Ok vals else Err
          | Some cs =>
            if negb (Nat.eqb (length vals) (length cs)) then Err
            else Ok (map (fun i => match find (fun p => Nat.eqb (fst p) i) (combine cs vals) with
                                   | Some p => snd p
                                   | None => match nth_error (t_cols t) i with
                                             | Some c => match c_default c with Some v => v | None => SNull end
                                             | None => SNull end
                                   end) (seq 0 n))
          end in
        match mapM (fun r => do vs <- mapM (eval []) r;; build vs) rows with
        | Err => (RErr, d, next)
        | Ok new_rows =>
          let ids := map (fun i => (next + N.of_nat i)%N) (seq 0 (length new_rows)) in
          let t' := {| t_cols := t_cols t; t_uniq := t_uniq t; t_rows := t_rows t ++ combine ids new_rows |} in
          if table_ok t' then (RCount (N.of_nat (length new_rows)), set_table d tid t', (next + N.of_nat (length new_rows))%N)
          else (RErr, d, next)
        end
      end
  | SUpdate tid sets w =>
      match get_table d tid with
      | None => (RErr, d, next)
      | Some t =>
        let upd (r : N * list sval) : res (bool * (N * list sval)) :=
          do hit <- match w with None => Ok true | Some e => do v <- eval (snd r) e;; Ok (is_true v) end;;
          if hit then
            do nv <- mapM (fun s => do v <- eval (snd r) (snd s);; Ok (fst s, v)) sets;;
            Ok (true, (fst r, map (fun iv => match find (fun p => Nat.eqb (fst p) (fst iv)) nv with
                                             | Some p => snd p | None => snd iv end)
                                  (combine (seq 0 (length (snd r))) (snd r))))
          else Ok (false, r) in
        match mapM upd (t_rows t) with
        | Err => (RErr, d, next)
        | Ok rs =>
          let t' := {| t_cols := t_cols t; t_uniq := t_uniq t; t_rows := map snd rs |} in
          if table_ok t' then (RCount (N.of_nat (length (filter fst rs))), set_table d tid t', next)
          else (RErr, d, next)
        end
      end
  | SDelete tid w =>
      match get_table d tid with
      | None => (RErr, d, next)
      | Some t =>
        match mapM (fun r => match w with None => Ok (r, true)
                                     | Some e => do v <- eval (snd r) e;; Ok (r, is_true v) end) (t_rows t) with
        | Err => (RErr, d, next)
        | Ok fl =>
          let t' := {| t_cols := t_cols t; t_uniq := t_uniq t; t_rows := map fst (filter (fun p => negb (snd p)) fl) |} in
          (RCount (N.of_nat (length (filter snd fl))), set_table d tid t', next)
        end
      end
  | SAddColumn tid c =>
      match get_table d tid with
      | None => (RErr, d, next)
      | Some t =>
        let fillv := match c_default c with Some v => v | None => SNull end in
        let t' := {| t_cols := t_cols t ++ [c]; t_uniq := t_uniq t;
                     t_rows := map (fun r => (fst r, snd r ++ [fillv])) (t_rows t) |} in
        if table_ok t' then (RDdl, set_table d tid t', next) else (RErr, d, next)
      end
  | SDropColumn tid i =>
      match get_table d tid with
      | None => (RErr, d, next)
      | Some t =>
        if (length (t_cols t) <=? i)%nat || existsb (existsb (Nat.eqb i)) (t_uniq t) then (RErr, d, next)
        else
          let cut {A} (l : list A) := firstn i l ++ skipn (S i) l in
          let t' := {| t_cols := cut (t_cols t);
                       t_uniq := map (map (fun j => if (i <? j)%nat then pred j else j)) (t_uniq t);
                       t_rows := map (fun r => (fst r, cut (snd r))) (t_rows t) |} in
          (RDdl, set_table d tid t', next)
      end
  | SCreateUnique tid cols =>
      match get_table d tid with
      | None => (RErr, d, next)
      | Some t =>
        let t' := {| t_cols := t_cols t; t_uniq := t_uniq t ++ [cols]; t_rows := t_rows t |} in
        if table_ok t' then (RDdl, set_table d tid t', next) else (RErr, d, next)
      end
  end.

(** * Sessions: snapshot isolation with first-committer-wins *)
Record sess := { ss_view : db; ss_base : db }.
Record state := { committed : db; nextid : N; sessions : list (N * sess) }.
Definition init_state : state := {| committed := []; nextid := 1; sessions := [] |}.

Fixpoint get_sess (l : list (N * sess)) (k : N) : option sess :=
  match l with [] => None | (i, s) :: r => if (i =? k)%N then Some s else get_sess r k end.
Definition del_sess (l : list (N * sess)) (k : N) := filter (fun p => negb (fst p =? k)%N) l.
Definition set_sess (l : list (N * sess)) (k : N) (s : sess) := (k, s) :: del_sess l k.

Definition find_row (rows : list (N * list sval)) (id : N) : option (list sval) :=
  match find (fun r => (fst r =? id)%N) rows with Some r => Some (snd r) | None => None end.
Definition row_eqb (a b : option (list sval)) : bool :=
  match a, b with
  | None, None => true
  | Some x, Some y => key_eqb x y
  | _, _ => false
  end.

Definition uniq_eqb (a b : list (list nat)) : bool :=
  Nat.eqb (length a) (length b) && forallb (fun p => Nat.eqb (length (fst p)) (length (snd p)) && forallb (fun q => Nat.eqb (fst q) (snd q)) (combine (fst p) (snd p))) (combine a b).
(** The session's view of the table is what it saw when it began: same shape, same constraints, same rows. *)
Definition table_unchanged (b v : table) : bool :=
  Nat.eqb (length (t_cols b)) (length (t_cols v)) && uniq_eqb (t_uniq b) (t_uniq v)
  && Nat.eqb (length (t_rows b)) (length (t_rows v))
  && forallb (fun p => (fst (fst p) =? fst (snd p))%N && key_eqb (snd (fst p)) (snd (snd p))) (combine (t_rows b) (t_rows v)).

(** Merge one table of a finishing session into the committed state.
    Conflict: a row this session updated or deleted was changed by someone else since the session
    began (first committer wins), or the table itself was altered/dropped meanwhile. *)
Definition merge_table (cur : option table) (base view : option table) : res (option table) :=
  match base, view with
  | None, None => Ok cur
  | None, Some v => match cur with None => Ok (Some v) | Some _ => Err end            (* created here *)
  | Some b, None =>                                                                  (* dropped here *)
      match cur with Some c => if key_eqb (map (fun _ => SNull) (t_cols c)) (map (fun _ => SNull) (t_cols b))
                                  && forallb (fun r => row_eqb (find_row (t_rows c) (fst r)) (Some (snd r))) (t_rows b)
                                  && Nat.eqb (length (t_rows c)) (length (t_rows b))
                               then Ok None else Err
                   | None => Err end
  | Some b, Some v =>
      if table_unchanged b v then Ok cur else        (* the session did not touch this table *)
      match cur with
      | None => Err
      | Some c =>
        let same_shape := Nat.eqb (length (t_cols b)) (length (t_cols v)) in
        if negb same_shape then
          (* schema change inside the session: only allowed if nobody touched the table meanwhile *)
          if Nat.eqb (length (t_rows c)) (length (t_rows b))
             && forallb (fun r => row_eqb (find_row (t_rows c) (fst r)) (Some (snd r))) (t_rows b)
             && Nat.eqb (length (t_cols c)) (length (t_cols b))
          then Ok (Some v) else Err
        else if negb (Nat.eqb (length (t_cols c)) (length (t_cols b))) then Err
        else
          let touched := filter (fun r => negb (row_eqb (find_row (t_rows v) (fst r)) (Some (snd r)))) (t_rows b) in
          if existsb (fun r => negb (row_eqb (find_row (t_rows c) (fst r)) (Some (snd r)))) touched then Err
          else
            let kept := flat_map (fun r => match find_row (t_rows b) (fst r) with
                                           | Some _ => match find_row (t_rows v) (fst r) with
                                                       | Some nv => [(fst r, nv)]      (* possibly updated *)
                                                       | None => [] end                (* deleted here *)
                                           | None => [r] end) (t_rows c) in            (* inserted by others *)
            let added := filter (fun r => match find_row (t_rows b) (fst r) with None => true | Some _ => false end) (t_rows v) in
            (* constraints added meanwhile by others stay, unless the session changed them itself *)
            let uq := if uniq_eqb (t_uniq b) (t_uniq v) then t_uniq c else t_uniq v in
            let t' := {| t_cols := t_cols v; t_uniq := uq; t_rows := kept ++ added |} in
            if table_ok t' then Ok (Some t') else Err
      end
  end.

Definition table_ids (d : db) : list N := map fst d.
Definition nodupN (l : list N) : list N := fold_right (fun x acc => if existsb (N.eqb x) acc then acc else x :: acc) [] l.

Definition merge (cur base view : db) : res db :=
  let ids := nodupN (table_ids cur ++ table_ids base ++ table_ids view) in
  fold_left (fun acc tid =>
               do d <- acc;;
               do t <- merge_table (get_table cur tid) (get_table base tid) (get_table view tid);;
               Ok match t with Some t' => set_table d tid t' | None => del_table d tid end)
            ids (Ok cur).

Inductive action :=
| AExec (s : stmt)                         (* autocommit *)
| ABegin (k : N) | AStmt (k : N) (s : stmt) | ACommit (k : N) | ARollback (k : N)
| ABatch (ss : list stmt)
| AVacuum | AFlush | AReopen | AAnalyze.

Inductive aresult := AR (r : result) | AOk | ANoSession | ABatchOk (rs : list result).

Definition step (st : state) (a : action) : aresult * state :=
  match a with
  | AExec s =>
      let '(r, d', n') := exec (committed st) (nextid st) s in
      (* a single statement on the latest committed state cannot conflict with itself *)
      match r with
      | RErr => (AR RErr, {| committed := committed st; nextid := n'; sessions := sessions st |})
      | _ => (AR r, {| committed := d'; nextid := n'; sessions := sessions st |})
      end
  | ABegin k =>
      (AOk, {| committed := committed st; nextid := nextid st;
               sessions := set_sess (sessions st) k {| ss_view := committed st; ss_base := committed st |} |})
  | AStmt k s =>
      match get_sess (sessions st) k with
      | None => (ANoSession, st)
      | Some ss =>
        let '(r, d', n') := exec (ss_view ss) (nextid st) s in
        match r with
        | RErr => (AR RErr, {| committed := committed st; nextid := n'; sessions := sessions st |})
        | _ => (AR r, {| committed := committed st; nextid := n';
                         sessions := set_sess (sessions st) k {| ss_view := d'; ss_base := ss_base ss |} |})
        end
      end
  | ACommit k =>
      match get_sess (sessions st) k with
      | None => (ANoSession, st)
      | Some ss =>
        match merge (committed st) (ss_base ss) (ss_view ss) with
        | Ok d' => (AOk, {| committed := d'; nextid := nextid st; sessions := del_sess (sessions st) k |})
        | Err => (AR RErr, {| committed := committed st; nextid := nextid st; sessions := del_sess (sessions st) k |})
        end
      end
  | ARollback k =>
      match get_sess (sessions st) k with
      | None => (ANoSession, st)
      | Some _ => (AOk, {| committed := committed st; nextid := nextid st; sessions := del_sess (sessions st) k |})
      end
  | ABatch ss =>
      let '(rs, d', n', ok) :=
        fold_left (fun (acc : list result * db * N * bool) s => let '(rs, d, n, ok) := acc in
                                if ok then let '(r, d2, n2) := exec d n s in
                                           match r with RErr => (rs, d, n2, false) | _ => (rs ++ [r], d2, n2, true) end
                                else acc)
                  ss (([] : list result), committed st, nextid st, true) in
      if ok then (ABatchOk rs, {| committed := d'; nextid := n'; sessions := sessions st |})
      else (AR RErr, {| committed := committed st; nextid := n'; sessions := sessions st |})
  | AVacuum | AFlush | AReopen | AAnalyze => (AOk, st)
  end.
