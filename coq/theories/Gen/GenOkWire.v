(** Side conditions on the regenerated wire tables, re-proved on every run. *)
From Axv Require Import Base.Bytes Model.WireTags Gen.GenWire Model.Wire Proofs.WireProofs.
Open Scope N_scope.

Lemma req_ops_ok_holds : req_ops_ok.
Proof. intros t; destruct t; vm_compute; reflexivity. Qed.

Lemma status_ok_holds : status_ok.
Proof. split; intros t; destruct t; vm_compute; reflexivity. Qed.

Lemma max_message_fits : max_message_size < 2 ^ 32.
Proof. vm_compute. reflexivity. Qed.
