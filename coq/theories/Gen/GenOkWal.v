(** Side conditions on the regenerated WAL layout constants, re-proved on every run. *)
From Axv Require Import Base.Bytes Gen.GenWal Model.Wal Proofs.WalProofs.
Open Scope N_scope.
Lemma layout_ok_holds : layout_ok.
Proof. unfold layout_ok. repeat split; vm_compute; congruence. Qed.
