(** Side conditions on the regenerated binding-power table, re-proved on every run. *)
From Coq Require Import NArith List Bool Lia.
From Axv Require Import Model.PrattOps Model.Pratt Gen.GenPratt.
Import ListNotations.
Open Scope N_scope.

Lemma bp_pos_holds : forall o, 1 <= snd (infix_bp o).
Proof. intros o; destruct o; vm_compute; discriminate. Qed.
Lemma pnot_pos_holds : 1 <= pnot.
Proof. vm_compute; discriminate. Qed.

(** The table orders the operator classes as SQL does:
    OR < AND < NOT < comparison/LIKE < additive/|| < multiplicative, every infix operator is
    left-associative, and NOT's operand takes comparisons but stops at AND and OR.
    (A finite check over the operator set, evaluated on the regenerated table.) *)
Definition cmp_ops : list pbinop := [BEq; BNeq; BLt; BGt; BLe; BGe; BLike].
Definition add_ops : list pbinop := [BPlus; BMinus; BConcat].
Definition mul_ops : list pbinop := [BMul; BDiv; BMod].
Definition l (o : pbinop) := fst (infix_bp o).
Definition r (o : pbinop) := snd (infix_bp o).
Definition sql_order_check : bool :=
  forallb (fun o => r o =? l o + 1) all_pbinops                        (* left associativity *)
  && (r BOr <=? l BAnd)                                                (* AND above OR *)
  && (l BAnd <? pnot) && (l BOr <? pnot)                               (* NOT's operand stops at AND, OR *)
  && forallb (fun c => (pnot <=? l c) && (r BAnd <=? l c)) cmp_ops     (* NOT takes comparisons; they are above AND *)
  && forallb (fun c => forallb (fun a => r c <=? l a) add_ops) cmp_ops (* additive above comparison *)
  && forallb (fun a => forallb (fun m => r a <=? l m) mul_ops) add_ops (* multiplicative above additive *).
Definition sql_order_ok : Prop := sql_order_check = true.
Lemma sql_order_ok_holds : sql_order_ok.
Proof. vm_compute. reflexivity. Qed.
