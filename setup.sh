#!/bin/bash
# Builds the framework from files on disk only (offline): Rust harness, regenerated tables, Coq development (full .vo build).
set -e
cd "$(dirname "$0")"
export CARGO_NET_OFFLINE=true
cd harness
cp /repo/Cargo.lock Cargo.lock
cp /repo/rust-toolchain.toml rust-toolchain.toml
CARGO_TARGET_DIR=/verif/.build/target cargo build --offline 2>&1 | tail -3
cd ..
python3 tools/gen_tables.py
cd coq
coq_makefile -f _CoqProject -o Makefile $(find theories -name '*.v' | sort) > /dev/null
timeout 3000 make -j16
echo setup done
