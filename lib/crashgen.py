"""Crash histories (harness mode `crash`) shared by C01, C02 and C08: a generated SQL history runs with the I/O tap on,
the image at crash points is rebuilt and reopened, and what it shows is compared with the contents RefDB (evaluated
inside Coq) assigns to the acknowledged transactions."""
import re
from lib.runner import Case
from lib import sqlgen as G
from props.c05 import canon as sql_canon
from props.c03 import Gen, mk_table, select_all

CACHES = ["cache=10000", "cache=64", "cache=24", "cache=16"]


def gen_history(rng, profile):
    """profile: set of features
       rollback   sessions may end by ROLLBACK / drop, statements and batches may fail
       open       sessions may stay open until the crash
       ckpt       explicit flush() between units
       vacuum     VACUUM between units
       ddl        tables are created and dropped later in the history (autocommit and inside sessions)
       bulk       a run of many small autocommit inserts (the log leaves its first block)
       steal      small cache sizes
       update     sessions that do not commit may contain UPDATE (recorded finding: unstamped UPDATE)"""
    g = Gen(rng, set())
    g.h.cfg = rng.choice(CACHES) if "steal" in profile else "cache=10000"
    if "big" in profile:
        g.h.cfg = rng.choice(["cache=6", "cache=8", "cache=12"])
    used = {}
    nt = rng.choice([1, 2])
    for i in range(nt):
        t = mk_table(rng, i + 1, constrained=(rng.random() < 0.6))
        g.tables.append(t)
        g.h.x(t.create_sql(), t.create_coq())
        used[t.tid] = []
    all_tables = list(g.tables)
    open_sessions = []
    nrounds = rng.choice([3, 4, 6])
    for round_ in range(nrounds):
        if not g.tables:
            break
        t = rng.choice(g.tables)
        modes = ["auto", "auto", "session", "session", "batch"]
        if "ckpt" in profile:
            modes.append("ckpt")
        if "vacuum" in profile:
            modes.append("vacuum")
        if "ddl" in profile:
            modes += ["ddl"]
        if "bulk" in profile and round_ == 1:
            modes = ["bulk"]
        if "big" in profile and round_ == 1:
            modes = ["big"]
        if "rollback" in profile:
            modes += ["auto-fail", "session-rb", "session-rb"]
        if "open" in profile:
            modes.append("session-open")
        mode = rng.choice(modes)
        if mode == "auto":
            for _ in range(rng.choice([1, 2, 3])):
                sql, coq, kind = g.stmt(t, used[t.tid], allow_fail=False)
                g.h.x(sql, coq, sorted_=True)
        elif mode == "auto-fail":
            sql, coq, kind = g.stmt(t, list(used[t.tid]), allow_fail=True)
            g.h.x(sql, coq, sorted_=True)
            if not kind.startswith("insert-fail") and kind != "unknown-table":
                used[t.tid] = list(range(1, g.next_id))
        elif mode in ("session", "session-rb", "session-open"):
            k = round_ + 1
            g.h.begin(k)
            lu = list(used[t.tid])
            commits = mode == "session"
            created = []
            for _ in range(rng.choice([1, 2, 3, 4])):
                if "ddl" in profile and rng.random() < 0.3:
                    # a table created (and filled) inside the session
                    nt_ = mk_table(rng, g.next_tid, constrained=(rng.random() < 0.5))
                    nt_.name = "t%d" % g.next_tid
                    g.next_tid += 1
                    created.append(nt_)
                    all_tables.append(nt_)
                    g.h.q(k, nt_.create_sql(), nt_.create_coq())
                    rows = [g.row(nt_, i) for i in g.fresh_ids(2)]
                    g.h.q(k, G.insert_sql(nt_, rows), G.insert_coq(nt_, rows), sorted_=True)
                    continue
                t2 = rng.choice(g.tables)
                lu2 = lu if t2 is t else list(used[t2.tid])
                sql, coq, kind = g.stmt(t2, lu2, allow_fail=False)
                while kind == "update" and not commits and "update" not in profile:
                    sql, coq, kind = g.stmt(t2, lu2, allow_fail=False)
                if kind == "update" and not commits:
                    g.classes.add("update-in-aborted-transaction")
                g.h.q(k, sql, coq, sorted_=True)
            # another unit may run (and commit) while this one is open
            if rng.random() < 0.4:
                others = [x for x in g.tables if x is not t]
                if others:
                    t3 = rng.choice(others)
                    rows = [g.row(t3, i) for i in g.fresh_ids(rng.choice([1, 2]))]
                    g.h.x(G.insert_sql(t3, rows), G.insert_coq(t3, rows), sorted_=True)
            if mode == "session":
                g.h.commit(k)
                for x in created:
                    g.tables.append(x)
                    used[x.tid] = []
            elif mode == "session-rb":
                g.h.rollback(k, drop=rng.random() < 0.3)
            else:
                open_sessions.append(k)
            for tt in g.tables:
                used[tt.tid] = list(range(1, g.next_id))
        elif mode == "batch":
            stmts = []
            lu = list(used[t.tid])
            n = rng.choice([2, 3])
            failpos = rng.randrange(n) if ("rollback" in profile and rng.random() < 0.4) else -1
            for j in range(n):
                sql, coq, kind = g.stmt(t, lu, allow_fail=False)
                while kind == "update" and failpos > j and "update" not in profile:
                    sql, coq, kind = g.stmt(t, lu, allow_fail=False)
                if kind == "update" and failpos > j:
                    g.classes.add("update-in-aborted-transaction")
                if j == failpos:
                    sql, coq = "INSERT INTO nosuch VALUES (1)", "SInsert 99 None [[I 1]]"
                stmts.append((sql, coq))
            g.h.batch(stmts)
            used[t.tid] = list(range(1, g.next_id))
        elif mode == "ckpt":
            if open_sessions:
                g.classes.add("checkpoint-with-open-transaction")
            g.h.simple("F", "AFlush")
        elif mode == "vacuum":
            if open_sessions:
                g.classes.add("checkpoint-with-open-transaction")
            g.h.simple("V", "AVacuum")
        elif mode == "bulk":
            n = rng.choice([40, 70, 110])
            for _ in range(n):
                rows = [g.row(t, i) for i in g.fresh_ids(1)]
                g.h.x(G.insert_sql(t, rows), G.insert_coq(t, rows), sorted_=True)
            used[t.tid] = list(range(1, g.next_id))
        elif mode == "big":
            # enough rows to outgrow a very small cache: dirty pages are evicted (written) between checkpoints.  No table
            # gets more than ~150 rows (the catalog row of a table takes one version per inserted row and a row holds at
            # most 255 versions)
            for bt in list(g.tables):
                for _ in range(rng.choice([3, 5])):
                    rows = [[G.lit_int(i), G.lit_int(i % 7), G.lit_int(-i), G.lit_text(b"abcdefghij")] + ([G.lit_int(i * 3)] if len(bt.cols) == 5 else [])
                            for i in g.fresh_ids(25)]
                    g.h.x(G.insert_sql(bt, rows), G.insert_coq(bt, rows), sorted_=True)
                used[bt.tid] = list(range(1, g.next_id))
        elif mode == "ddl":
            if rng.random() < 0.6 or len(g.tables) < 2:
                nt_ = mk_table(rng, g.next_tid, constrained=(rng.random() < 0.5))
                nt_.name = "t%d" % g.next_tid
                g.next_tid += 1
                g.tables.append(nt_)
                all_tables.append(nt_)
                used[nt_.tid] = []
                g.h.x(nt_.create_sql(), nt_.create_coq())
                rows = [g.row(nt_, i) for i in g.fresh_ids(2)]
                g.h.x(G.insert_sql(nt_, rows), G.insert_coq(nt_, rows), sorted_=True)
                used[nt_.tid] = list(range(1, g.next_id))
            else:
                d_ = rng.choice(g.tables)
                g.tables.remove(d_)
                g.h.x("DROP TABLE %s" % d_.name, "SDrop %d" % d_.tid)
    return g, all_tables


def gen_abort_ckpt_history(rng):
    """units that end in a failure or a rollback after having written rows (a multi-row INSERT whose last row violates a
    constraint, a batch whose last statement fails, a session that is rolled back or dropped), each followed by a checkpoint
    or VACUUM while nothing is open, then more committed work: what was rolled back must stay invisible across the
    checkpoint and a later crash"""
    g = Gen(rng, set())
    g.h.cfg = "cache=10000"
    used = {}
    t = mk_table(rng, 1, constrained=True)
    g.tables.append(t)
    g.h.x(t.create_sql(), t.create_coq())
    used[t.tid] = []
    rows = [g.row(t, i) for i in g.fresh_ids(2)]
    g.h.x(G.insert_sql(t, rows), G.insert_coq(t, rows), sorted_=True)
    used[t.tid] = list(range(1, g.next_id))
    for round_ in range(rng.choice([2, 3, 4])):
        mode = rng.choice(["stmt", "batch", "rollback", "drop"])
        if mode == "stmt":
            ids = g.fresh_ids(3)
            rows = [g.row(t, i) for i in ids]
            rows[2][0] = G.lit_int(rng.choice(used[t.tid]))          # duplicate key in the last row
            g.h.x(G.insert_sql(t, rows), G.insert_coq(t, rows), sorted_=True)
        elif mode == "batch":
            stmts = []
            for _ in range(2):
                rows = [g.row(t, i) for i in g.fresh_ids(rng.choice([1, 2]))]
                stmts.append((G.insert_sql(t, rows), G.insert_coq(t, rows)))
            stmts.append(("INSERT INTO nosuch VALUES (1)", "SInsert 99 None [[I 1]]"))
            g.h.batch(stmts)
        else:
            k = 20 + round_
            g.h.begin(k)
            for _ in range(rng.choice([1, 2])):
                rows = [g.row(t, i) for i in g.fresh_ids(rng.choice([1, 2]))]
                g.h.q(k, G.insert_sql(t, rows), G.insert_coq(t, rows), sorted_=True)
            g.h.rollback(k, drop=(mode == "drop"))
        if rng.random() < 0.8:
            if rng.random() < 0.7:
                g.h.simple("F", "AFlush")
            else:
                g.h.simple("V", "AVacuum")
        rows = [g.row(t, i) for i in g.fresh_ids(rng.choice([1, 2]))]
        g.h.x(G.insert_sql(t, rows), G.insert_coq(t, rows), sorted_=True)
        used[t.tid] = list(range(1, g.next_id))
    return g, [t]


def gen_case(rng, profile, points, nested="0", kind="history"):
    g, tables = gen_abort_ckpt_history(rng) if "abort-ckpt" in profile else gen_history(rng, profile)
    post = ";;".join("%s=INSERT INTO %s VALUES (%d, 1, 1, 'p'%s)" % (t.name, t.name, 900000 + t.tid, ", 1" if len(t.cols) == 5 else "")
                     for t in tables)
    rust = "crash %s %s %s %s P%s | %s" % (g.h.cfg, ",".join(t.name for t in tables), points, nested,
                                          post.encode().hex(), " | ".join(g.h.rust))
    coq = "[%s] [%s]" % ("; ".join("%d" % t.tid for t in tables), "; ".join(g.h.coq))
    meta = dict(g.classes.meta(), profile=sorted(profile), tables=[t.name for t in tables])
    return Case(rust, coq, kind, meta)


_REC = re.compile(r"^(\d+)-(\d+)@(\d+)@([01])@([01])@(.*)@([^@]*)$")


def parse_records(raw):
    """-> (answers, [(k1, k2, j, f, dump, flags)]) or None"""
    if " || " not in raw:
        return None
    ans, recs = raw.split(" || ", 1)
    out = []
    for r in recs.split(" ;; "):
        m = _REC.match(r.strip())
        if not m:
            return None
        out.append((int(m.group(1)), int(m.group(2)), int(m.group(3)), m.group(4) == "1", m.group(5) == "1", sql_canon(m.group(6)), m.group(7)))
    return ans.split(" | "), out


def make_canon(check_flags=False, check_contents=True, check_reopen=False):
    """canonical form of the implementation's answer: one segment per action, `<answer>~<dump>` as the model prints it
    when every crash point attributed to the action shows an allowed dump, else `<answer>~CRASH@k ...`.
    A crash point with j completed actions is attributed to the action in progress (index j) when one is, else to the
    last completed one."""
    def canon_case(case, raw):
        p = parse_records(raw)
        if p is None:
            return raw
        answers, recs = p
        answers = sql_canon(" | ".join(answers)).split(" | ")
        model = case.meta.get("model")
        if model is None:
            return raw
        msegs = model.split(" | ")
        dumps = [s.split("~", 1)[1] if "~" in s else "?" for s in msegs]
        # The crash properties speak about what was acknowledged.  A history whose live answers differ from the
        # reference (a defect that belongs to the SQL-level properties: C03, C05, C07, C10 ...) acknowledges
        # something else than RefDB does; it is not judged here.
        if [s.split("~", 1)[0] for s in msegs] != answers:
            case.meta["live_divergence"] = True
            return model
        d0 = ",".join("%s=absent" % t for t in case.meta["tables"])
        n = len(answers)
        bad = {}
        for (k1, k2, j, f, w, dump, flags) in recs:
            allowed = [d0 if j == 0 else (dumps[j - 1] if j - 1 < len(dumps) else "?")]
            if f and j < len(dumps):
                allowed.append(dumps[j])
            why, window = None, w
            if w and dump == "skipped":
                continue          # images inside a recorded window are not opened (see harness/src/crash.rs)
            if dump.startswith("openerr"):
                why = dump
            elif check_contents and dump not in allowed:
                why = "got " + dump
            elif (check_reopen and not check_flags and any(x.startswith("reopen(") for x in flags.split("+"))
                  and "err:overflowframe" not in flags):
                # (not when the probe has hit the recorded catalog defect in that process: C08-catalog-large-cells)
                # the recovered database was closed cleanly and opened again: what it showed is gone (durability, not only C08)
                why = "flags " + "+".join(x for x in flags.split("+") if x.startswith("reopen("))
            elif check_flags and flags != "ok":
                strict = [x for x in flags.split("+") if not x.startswith("nestedw%")]
                if strict and not w:
                    why = "flags " + "+".join(strict)
                else:
                    why, window = "flags " + flags, True
            if why:
                idx = j if (f or j == 0) else j - 1
                idx = min(idx, n - 1)
                msg = "%s@%d%s j=%d %s" % ("CRASHW" if window else "CRASH", k1, "(in-flight)" if f else "", j, why)
                # a failure outside the windows takes precedence: only pure window failures fall in the recorded class
                if idx not in bad or (bad[idx].startswith("CRASHW") and not window):
                    bad[idx] = msg
        out = []
        for i in range(n):
            d = dumps[i] if i < len(dumps) else "?"
            out.append("%s~%s" % (answers[i], bad.get(i, d)))
        return " | ".join(out)
    return canon_case


def model_canon(line):
    return sql_canon(line.replace("~", " | ~")).replace(" | ~", "~")


# ---------------------------------------------------------------------------------------------
# model-independent oracle: insert-only histories whose committed ids are tracked here
# ---------------------------------------------------------------------------------------------
def gen_longlog_case(rng, points, nested="0"):
    """the log grows past block zero and at least one full data block between checkpoints (multi-row inserts of 80-byte
    texts into five tables, at most 150 rows each); ids are tracked here"""
    names = ["t1", "t2", "t3", "t4", "t5"]
    acts, ids_after = [], []
    committed = {n: [] for n in names}
    created = set()
    nxt = [1]
    text = "abcdefghij" * 8

    def snap():
        ids_after.append({n: (sorted(v) if n in created else None) for n, v in committed.items()})

    for n in names:
        acts.append("X CREATE TABLE %s (id INT, k INT, s TEXT)" % n); created.add(n); snap()
    count = {n: 0 for n in names}
    for r in range(rng.choice([24, 28])):
        n = rng.choice([x for x in names if count[x] <= 125] or names[:1])
        if count[n] > 125:
            break
        ids = list(range(nxt[0], nxt[0] + 25)); nxt[0] += 25; count[n] += 25
        acts.append("X INSERT INTO %s VALUES %s" % (n, ", ".join("(%d, %d, '%s')" % (i, i % 7, text) for i in ids)))
        committed[n] += ids; snap()
        if rng.random() < 0.4:
            ids = [nxt[0]]; nxt[0] += 1; count[n] += 1
            acts.append("X INSERT INTO %s VALUES (%d, 0, 'y')" % (n, ids[0])); committed[n] += ids; snap()
        if rng.random() < 0.08:
            acts.append("F"); snap()
    rust = "crash cache=10000 %s %s %s | %s" % (",".join(names), points, nested, " | ".join(acts))
    return Case(rust, None, "longlog", {"ids": ids_after, "tables": names, "classes": [], "class_pos": {}})


def gen_simple_case(rng, points, nested="0"):
    """inserts only (autocommit, sessions that commit / roll back / stay open, batches), flushes while nothing is open;
    the ids each table must hold after every action are computed here, without RefDB"""
    names = ["t1", "t2"][:rng.choice([1, 2])]
    acts, coq, ids_after = [], [], []
    committed = {n: [] for n in names}
    nxt = [1]

    def fresh(n):
        r = list(range(nxt[0], nxt[0] + n)); nxt[0] += n
        return r

    def ins(name, ids):
        return "INSERT INTO %s VALUES %s" % (name, ", ".join("(%d, %d, 'x')" % (i, i * 3 % 11) for i in ids))

    created = set()

    def snap():
        ids_after.append({n: (sorted(v) if n in created else None) for n, v in committed.items()})

    for n in names:
        acts.append("X CREATE TABLE %s (id INT, k INT, s TEXT)" % n); created.add(n); snap()
    open_sessions = 0
    for r in range(rng.choice([4, 6, 9])):
        mode = rng.choice(["auto", "auto", "commit", "rollback", "open", "flush", "batch"])
        name = rng.choice(names)
        if mode == "auto":
            ids = fresh(rng.choice([1, 2, 3]))
            acts.append("X " + ins(name, ids)); committed[name] += ids; snap()
        elif mode in ("commit", "rollback", "open"):
            k = 10 + r
            acts.append("B %d" % k); snap()
            mine = {}
            for _ in range(rng.choice([1, 2, 3])):
                nm = rng.choice(names)
                ids = fresh(rng.choice([1, 2]))
                acts.append("Q %d %s" % (k, ins(nm, ids))); snap()
                mine.setdefault(nm, []).extend(ids)
            if rng.random() < 0.4:
                ids = fresh(1)
                acts.append("X " + ins(name, ids)); committed[name] += ids; snap()
            if mode == "commit":
                for nm, ids in mine.items():
                    committed[nm] += ids
                acts.append("C %d" % k); snap()
            elif mode == "rollback":
                acts.append(rng.choice(["R %d", "D %d"]) % k); snap()
            else:
                open_sessions += 1
        elif mode == "flush":
            if open_sessions == 0:
                acts.append("F"); snap()
        else:
            a, b = fresh(1), fresh(2)
            acts.append("T %s ;; %s" % (ins(name, a), ins(name, b))); committed[name] += a + b; snap()
    rust = "crash cache=10000 %s %s %s | %s" % (",".join(names), points, nested, " | ".join(acts))
    return Case(rust, None, "simple", {"ids": ids_after, "tables": names, "classes": [], "class_pos": {}})


_IDS = re.compile(r"(?:^|;)(-?\d+),")


def simple_oracle(case, il):
    """acknowledged inserts are there, nothing else is (ids only), at every crash point outside the recorded windows"""
    ids_after = case.meta.get("ids")
    if ids_after is None:
        return None
    p = parse_records(case.meta.get("impl_raw", ""))
    if p is None:
        return ("unreadable harness answer: %s" % case.meta.get("impl_raw", "")[:200], 0)
    answers, recs = p
    if any(a.startswith("err") or a in ("hang",) for a in answers):
        return None     # the live run itself failed: not a crash question
    names = case.meta["tables"]
    for (k1, k2, j, f, w, dump, flags) in recs:
        if w:
            continue
        if dump.startswith("openerr"):
            return ("crash point %d (%d actions acknowledged): the database does not open: %s" % (k1, j, dump), max(j - 1, 0))
        got = {}
        for part in re.split(r",(?=t\d+=)", dump):
            n, _, v = part.partition("=")
            if v.startswith("rows!:"):
                body = v[v.index("[") + 1:-1]
                got[n] = sorted(int(x.split(",")[0]) for x in body.split(";")) if body else []
            else:
                got[n] = None
        allowed = [{n: None for n in names} if j == 0 else ids_after[j - 1]]
        if f and j < len(ids_after):
            allowed.append(ids_after[j])
        if not any(all(got.get(n) == a.get(n) for n in names) for a in allowed):
            return ("crash point %d (%d actions acknowledged%s): tables hold ids %s, acknowledged commits define %s" % (
                k1, j, ", one in progress" if f else "", got, allowed[0]), max(j - 1, 0) if not f else j)
    return None


# ---------------------------------------------------------------------------------------------
# protocol stream: the crash model (Model/Crash.v, key/value instance) against the engine
# ---------------------------------------------------------------------------------------------
def gen_protocol_case(rng):
    """one table t (id INT, v INT); every action is rendered as harness SQL and as the model's events.  Transaction ids
    are the engine's: one per autocommit statement and per session, from 0."""
    acts, evs = [], []
    tid = [0]
    committed = {}          # id -> v as committed
    locked = set()          # ids written by open sessions
    nxt = [1]
    sessions = {}           # k -> (tid, local inserted ids)

    def begin():
        t = tid[0]; tid[0] += 1
        evs.append("EBegin")
        return t

    t0 = begin()
    acts.append("X CREATE TABLE t (id INT, v INT)")
    evs += ["EOp %d OCreate" % t0, "ECommit %d" % t0, "EEnd %d" % t0]
    for r in range(rng.choice([4, 7, 10])):
        mode = rng.choice(["ins", "ins", "upd", "del", "session", "session", "flush", "noop"])
        if mode == "ins":
            t = begin()
            ids = list(range(nxt[0], nxt[0] + rng.choice([1, 2]))); nxt[0] += len(ids)
            acts.append("X INSERT INTO t VALUES " + ", ".join("(%d, %d)" % (i, i + 10) for i in ids))
            for i in ids:
                evs.append("EOp %d (OIns %d (%d)%%Z)" % (t, i, i + 10)); committed[i] = i + 10
            evs += ["ECommit %d" % t, "EEnd %d" % t]
        elif mode in ("upd", "del", "noop"):
            free = [i for i in committed if i not in locked]
            t = begin()
            if mode == "noop" or not free:
                acts.append("X UPDATE t SET v = 0 WHERE id = 99999")
            else:
                i = rng.choice(free)
                if mode == "upd":
                    v = rng.randrange(-5, 50)
                    acts.append("X UPDATE t SET v = %d WHERE id = %d" % (v, i))
                    evs.append("EOp %d (OUpd %d (%d)%%Z)" % (t, i, v)); committed[i] = v
                else:
                    acts.append("X DELETE FROM t WHERE id = %d" % i)
                    evs.append("EOp %d (ODel %d)" % (t, i)); del committed[i]
            evs += ["ECommit %d" % t, "EEnd %d" % t]
        elif mode == "session":
            k = 10 + r
            t = begin()
            acts.append("B %d" % k)
            mine = []
            for _ in range(rng.choice([1, 2])):
                i = nxt[0]; nxt[0] += 1
                acts.append("Q %d INSERT INTO t VALUES (%d, %d)" % (k, i, i + 10))
                evs.append("EOp %d (OIns %d (%d)%%Z)" % (t, i, i + 10)); mine.append(i)
            # an autocommit statement while the session is open
            if rng.random() < 0.5:
                t2 = begin()
                i = nxt[0]; nxt[0] += 1
                acts.append("X INSERT INTO t VALUES (%d, %d)" % (i, i + 10))
                evs += ["EOp %d (OIns %d (%d)%%Z)" % (t2, i, i + 10), "ECommit %d" % t2, "EEnd %d" % t2]; committed[i] = i + 10
            end = rng.choice(["commit", "commit", "rollback", "drop", "open", "flush-open"])
            if end == "flush-open":
                acts.append("F"); evs += ["EForce", "ECheckpoint"]
                end = rng.choice(["commit", "rollback", "open"])
            if end == "commit":
                acts.append("C %d" % k); evs += ["ECommit %d" % t, "EEnd %d" % t]
                for i in mine:
                    committed[i] = i + 10
            elif end in ("rollback", "drop"):
                acts.append(("R %d" if end == "rollback" else "D %d") % k); evs += ["EAbort %d" % t, "EEnd %d" % t]
            else:
                locked.update(mine)
        else:
            acts.append("F"); evs += ["EForce", "ECheckpoint"]
    rust = "crash cache=10000 t all 0 P L | " + " | ".join(acts)
    return Case(rust, "[%s]" % "; ".join(evs), "protocol", {"classes": [], "class_pos": {}})


def protocol_canon_model(line):
    return " | ".join(sql_canon(s) for s in line.split(" | "))


def protocol_canon_case(case, raw):
    """the distinct on-disk situations (log records # recovered contents) the history went through, in order, at the
    crash points where the data file is a completed checkpoint image"""
    p = parse_records(raw)
    if p is None:
        return raw
    answers, recs = p
    if any(a.startswith("err") for a in answers):
        return "live-error " + " | ".join(answers)
    out = []
    for (k1, k2, j, f, w, dump, flags) in recs:
        if w:
            continue
        if not out or out[-1] != dump:
            out.append(dump)
    return " | ".join(out)


def measure(case, raw):
    """crash points actually reopened (ranges in the answer are sampled points merged when they answered alike), how many of
    them lie in a recorded window, nested recoveries flagged, acknowledged actions"""
    p = parse_records(raw)
    if p is None:
        return {"unreadable_cases": 1}
    answers, recs = p
    return {"actions": len(answers), "distinct_crash_situations": len(recs),
            "crash_points_spanned": sum(k2 - k1 + 1 for (k1, k2, j, f, w, d, fl) in recs),
            "situations_in_window": sum(1 for r in recs if r[4]),
            "situations_not_opening": sum(1 for r in recs if r[5].startswith("openerr") or "#openerr" in r[5]),
            "file_mutation_events": recs[-1][1] if recs else 0}
