"""SQL generation: every generated object renders to SQL text (minimal parentheses for SQL precedence)
and to a Gallina term of Spec/RefDB.v.  All random choices come from the rng passed in."""

# ---------------------------------------------------------------------------------------------
# values and expressions
# ---------------------------------------------------------------------------------------------
LEVEL = {"or": 1, "and": 2, "not": 3, "cmp": 4, "add": 5, "mul": 6, "unary": 7, "atom": 8}
BINOPS = {
    "+": ("OAdd", "add"), "-": ("OSub", "add"), "*": ("OMul", "mul"), "/": ("ODiv", "mul"), "%": ("OMod", "mul"),
    "=": ("OEq", "cmp"), "<>": ("ONe", "cmp"), "<": ("OLt", "cmp"), "<=": ("OLe", "cmp"), ">": ("OGt", "cmp"), ">=": ("OGe", "cmp"),
    "AND": ("OAnd", "and"), "OR": ("OOr", "or"), "||": ("OConcat", "add"), "LIKE": ("OLike", "cmp"), "NOT LIKE": ("ONotLike", "cmp"),
}


def lit_int(z):
    return ("lit", ("int", z))


def lit_text(b):
    return ("lit", ("text", bytes(b)))


def lit_bool(b):
    return ("lit", ("bool", bool(b)))


LIT_NULL = ("lit", ("null",))


def sql_text_literal(b):
    s = b.decode("latin-1")
    assert "'" not in s      # a backslash is an ordinary character of a string literal (sql/parser/lexer.rs read_string)
    return "'" + s + "'"


def val_sql(v):
    if v[0] == "null":
        return "NULL"
    if v[0] == "int":
        return str(v[1])
    if v[0] == "bool":
        return "TRUE" if v[1] else "FALSE"
    if v[0] == "text":
        return sql_text_literal(v[1])
    raise ValueError(v)


def val_coq(v):
    if v[0] == "null":
        return "SNull"
    if v[0] == "int":
        return "(SInt (%d)%%Z)" % v[1]
    if v[0] == "bool":
        return "(SBool %s)" % ("true" if v[1] else "false")
    if v[0] == "text":
        return "(SText [%s])" % ";".join(str(x) for x in v[1])
    raise ValueError(v)


def val_show(v):
    """the canonical rendering used by harness and model"""
    if v[0] == "null":
        return "n"
    if v[0] == "int":
        return str(v[1])
    if v[0] == "bool":
        return "b1" if v[1] else "b0"
    if v[0] == "text":
        return "t" + (v[1].hex() or "-")
    raise ValueError(v)


def level(e):
    k = e[0]
    if k in ("lit", "col"):
        if k == "lit" and e[1][0] == "int" and e[1][1] < 0:
            return LEVEL["unary"]
        return LEVEL["atom"]
    if k == "bin":
        return LEVEL[BINOPS[e[1]][1]]
    if k == "not":
        return LEVEL["not"]
    if k == "neg":
        return LEVEL["unary"]
    if k in ("isnull", "between", "in"):
        return LEVEL["cmp"]
    raise ValueError(e)


def paren(e, need, names):
    s = expr_sql(e, names)
    return "(" + s + ")" if level(e) < need else s


def expr_sql(e, names):
    k = e[0]
    if k == "lit":
        return val_sql(e[1])
    if k == "col":
        return names[e[1]]
    if k == "bin":
        op = e[1]
        lv = level(e)
        if BINOPS[op][1] == "cmp":
            return "%s %s %s" % (paren(e[2], lv + 1, names), op, paren(e[3], lv + 1, names))
        return "%s %s %s" % (paren(e[2], lv, names), op, paren(e[3], lv + 1, names))
    if k == "not":
        return "NOT " + paren(e[1], LEVEL["not"], names)
    if k == "neg":
        return "-" + paren(e[1], LEVEL["atom"], names)
    if k == "isnull":
        return "%s IS %sNULL" % (paren(e[1], LEVEL["cmp"] + 1, names), "NOT " if e[2] else "")
    if k == "between":
        return "%s %sBETWEEN %s AND %s" % (paren(e[1], LEVEL["cmp"] + 1, names), "NOT " if e[4] else "",
                                            paren(e[2], LEVEL["cmp"] + 1, names), paren(e[3], LEVEL["cmp"] + 1, names))
    if k == "in":
        return "%s %sIN (%s)" % (paren(e[1], LEVEL["cmp"] + 1, names), "NOT " if e[3] else "",
                                 ", ".join(expr_sql(x, names) for x in e[2]))
    raise ValueError(e)


def expr_coq(e):
    k = e[0]
    if k == "lit":
        return "(ELit %s)" % val_coq(e[1])
    if k == "col":
        return "(ECol %d)" % e[1]
    if k == "bin":
        return "(EBin %s %s %s)" % (BINOPS[e[1]][0], expr_coq(e[2]), expr_coq(e[3]))
    if k == "not":
        return "(ENot %s)" % expr_coq(e[1])
    if k == "neg":
        return "(ENeg %s)" % expr_coq(e[1])
    if k == "isnull":
        return "(EIsNull %s %s)" % (expr_coq(e[1]), "true" if e[2] else "false")
    if k == "between":
        return "(EBetween %s %s %s %s)" % (expr_coq(e[1]), expr_coq(e[2]), expr_coq(e[3]), "true" if e[4] else "false")
    if k == "in":
        return "(EInList %s [%s] %s)" % (expr_coq(e[1]), "; ".join(expr_coq(x) for x in e[2]), "true" if e[3] else "false")
    raise ValueError(e)


def opt(x, f=lambda y: y):
    return "None" if x is None else "(Some %s)" % f(x)


# ---------------------------------------------------------------------------------------------
# schemas
# ---------------------------------------------------------------------------------------------
KINDS = {"INT": "TInt", "BIGINT": "TBigInt", "TEXT": "TText", "BOOLEAN": "TBool"}


class Table:
    def __init__(self, tid, name, cols, uniq=(), pk=None):
        """cols: list of (name, kind, notnull, default-value-or-None); uniq: list of column index lists."""
        self.tid, self.name, self.cols, self.uniq, self.pk = tid, name, list(cols), [list(u) for u in uniq], pk

    def create_sql(self):
        parts = []
        for (n, k, nn, d) in self.cols:
            s = "%s %s" % (n, k)
            if nn:
                s += " NOT NULL"
            if d is not None:
                s += " DEFAULT " + val_sql(d)
            parts.append(s)
        if self.pk is not None:
            parts.append("PRIMARY KEY (%s)" % ", ".join(self.cols[i][0] for i in self.pk))
        for u in self.uniq:
            parts.append("UNIQUE (%s)" % ", ".join(self.cols[i][0] for i in u))
        return "CREATE TABLE %s (%s)" % (self.name, ", ".join(parts))

    def create_coq(self):
        cols = []
        for i, (n, k, nn, d) in enumerate(self.cols):
            nn2 = nn or (self.pk is not None and i in self.pk)
            cols.append("Col %s %s %s" % (KINDS[k], "true" if nn2 else "false", opt(d, val_coq)))
        uniq = ([self.pk] if self.pk is not None else []) + self.uniq
        return "SCreate %d [%s] [%s]" % (self.tid, "; ".join(cols), "; ".join("[%s]" % "; ".join("%d%%nat" % i for i in u) for u in uniq))

    def names(self, qualify=False):
        return [("%s.%s" % (self.name, c[0])) if qualify else c[0] for c in self.cols]


# ---------------------------------------------------------------------------------------------
# random typed expressions
# ---------------------------------------------------------------------------------------------
SMALL_TEXTS = [b"", b"a", b"ab", b"abc", b"b", b"ba", b"zz", b"a%", b"abcdefghij"]


def rand_lit(rng, kind, nulls=0.1):
    if rng.random() < nulls:
        return LIT_NULL
    if kind in ("INT", "BIGINT"):
        return lit_int(rng.choice([0, 1, 2, 3, 5, 7, 10, -1, -3, 100, rng.randint(-20, 20)]))
    if kind == "TEXT":
        return lit_text(rng.choice(SMALL_TEXTS))
    return lit_bool(rng.random() < 0.5)


def rand_expr(rng, kind, cols, depth, feats):
    """cols: list of (index, kind). feats: set of feature names that may be used."""
    typed = [c for c in cols if (c[1] == kind or (kind in ("INT", "BIGINT") and c[1] in ("INT", "BIGINT")))]
    if depth <= 0 or rng.random() < 0.25:
        if typed and rng.random() < 0.7:
            return ("col", rng.choice(typed)[0])
        return rand_lit(rng, kind, nulls=0.08 if "null-literals" in feats else 0.0)
    if kind in ("INT", "BIGINT"):
        r = rng.random()
        if r < 0.75:
            op = rng.choice(["+", "-", "*"] + (["/", "%"] if "division" in feats else []))
            a = rand_expr(rng, kind, cols, depth - 1, feats)
            if op in ("/", "%"):
                b = lit_int(rng.choice([1, 2, 3, 7, -2]))     # never a zero divisor in differential runs
            else:
                b = rand_expr(rng, kind, cols, depth - 1, feats)
            return ("bin", op, a, b)
        if r < 0.85 and "negation" in feats:
            a = rand_expr(rng, kind, cols, depth - 1, feats)
            if a[0] == "lit":
                return a
            return ("neg", a)
        return rand_expr(rng, kind, cols, 0, feats)
    if kind == "TEXT":
        if rng.random() < 0.5 and "concat" in feats:
            return ("bin", "||", rand_expr(rng, "TEXT", cols, depth - 1, feats), rand_expr(rng, "TEXT", cols, depth - 1, feats))
        return rand_expr(rng, kind, cols, 0, feats)
    # BOOLEAN
    r = rng.random()
    if r < 0.30:
        k2 = rng.choice(["INT", "INT", "TEXT"])
        op = rng.choice(["=", "<>", "<", "<=", ">", ">="])
        return ("bin", op, rand_expr(rng, k2, cols, depth - 1, feats), rand_expr(rng, k2, cols, depth - 1, feats))
    if r < 0.50:
        return ("bin", rng.choice(["AND", "OR"]), rand_expr(rng, "BOOLEAN", cols, depth - 1, feats), rand_expr(rng, "BOOLEAN", cols, depth - 1, feats))
    if r < 0.58 and "not" in feats:
        return ("not", rand_expr(rng, "BOOLEAN", cols, depth - 1, feats))
    if r < 0.68 and "isnull" in feats:
        k2 = rng.choice(["INT", "TEXT", "BOOLEAN"])
        return ("isnull", rand_expr(rng, k2, cols, depth - 1, feats), rng.random() < 0.5 and "negated-forms" in feats)
    if r < 0.78 and "between" in feats:
        return ("between", rand_expr(rng, "INT", cols, depth - 1, feats), rand_expr(rng, "INT", cols, 0, feats),
                rand_expr(rng, "INT", cols, 0, feats), rng.random() < 0.4 and "negated-forms" in feats)
    if r < 0.88 and "inlist" in feats:
        k2 = rng.choice(["INT", "TEXT"])
        return ("in", rand_expr(rng, k2, cols, depth - 1, feats), [rand_lit(rng, k2, nulls=0.0) for _ in range(rng.randint(1, 4))],
                rng.random() < 0.4 and "negated-forms" in feats)
    if r < 0.95 and "like" in feats:
        pat = rng.choice([b"a%", b"%b", b"%", b"a_", b"_b%", b"abc", b"%bc%", b""])
        return ("bin", "NOT LIKE" if (rng.random() < 0.3 and "negated-forms" in feats) else "LIKE",
                rand_expr(rng, "TEXT", cols, 0, feats), lit_text(pat))
    bools = [c for c in cols if c[1] == "BOOLEAN"]
    if bools:
        return ("col", rng.choice(bools)[0])
    return ("bin", "=", rand_expr(rng, "INT", cols, 0, feats), rand_expr(rng, "INT", cols, 0, feats))


# ---------------------------------------------------------------------------------------------
# statements
# ---------------------------------------------------------------------------------------------
AGG_COQ = {"COUNT": "ACount", "SUM": "ASum", "MIN": "AMin", "MAX": "AMax", "AVG": "AAvg"}
JT_SQL = {"inner": "JOIN", "left": "LEFT JOIN", "right": "RIGHT JOIN", "full": "FULL JOIN", "cross": "CROSS JOIN"}
JT_COQ = {"inner": "JInner", "left": "JLeft", "right": "JRight", "full": "JFull", "cross": "JCross"}


def item_sql(it, names):
    if it[0] == "expr":
        return expr_sql(it[1], names)
    return "%s(%s)" % (it[1], "*" if it[2] is None else expr_sql(it[2], names))


def item_coq(it):
    if it[0] == "expr":
        return "IExpr %s" % expr_coq(it[1])
    return "IAgg %s %s" % (AGG_COQ[it[1]], opt(it[2], expr_coq))


class Select:
    def __init__(self, items, frm, where=None, group=(), having=None, order=(), limit=None, offset=None, distinct=False):
        self.items, self.frm, self.where, self.group, self.having = items, frm, where, list(group), having
        self.order, self.limit, self.offset, self.distinct = list(order), limit, offset, distinct

    def names(self):
        f = self.frm
        if f is None:
            return []
        if f[0] == "table":
            return f[1].names()
        return f[2].names(True) + f[3].names(True)

    def sql(self):
        names = self.names()
        s = "SELECT " + ("DISTINCT " if self.distinct else "") + ", ".join(item_sql(i, names) for i in self.items)
        f = self.frm
        if f is not None:
            if f[0] == "table":
                s += " FROM " + f[1].name
            else:
                s += " FROM %s %s %s" % (f[2].name, JT_SQL[f[1]], f[3].name)
                if f[4] is not None:
                    s += " ON " + expr_sql(f[4], names)
        if self.where is not None:
            s += " WHERE " + expr_sql(self.where, names)
        if self.group:
            s += " GROUP BY " + ", ".join(expr_sql(g, names) for g in self.group)
        if self.having is not None:
            fn, arg, op, lit = self.having
            s += " HAVING %s(%s) %s %s" % (fn, "*" if arg is None else expr_sql(arg, names), op, val_sql(lit))
        if self.order:
            s += " ORDER BY " + ", ".join(item_sql(self.items[i], names) + ("" if asc else " DESC") for i, asc in self.order)
        if self.limit is not None:
            s += " LIMIT %d" % self.limit
        if self.offset is not None:
            s += " OFFSET %d" % self.offset
        return s

    def coq(self):
        f = self.frm
        if f is None:
            fc = "None"
        elif f[0] == "table":
            fc = "(Some (FTable %d))" % f[1].tid
        else:
            fc = "(Some (FJoin %s (FTable %d) (FTable %d) %s))" % (JT_COQ[f[1]], f[2].tid, f[3].tid, opt(f[4], expr_coq))
        hv = "None"
        if self.having is not None:
            fn, arg, op, lit = self.having
            hv = "(Some (%s, %s, %s, %s))" % (AGG_COQ[fn], opt(arg, expr_coq), BINOPS[op][0], val_coq(lit))
        return "SSelect (Q %s [%s] %s %s [%s] %s [%s] %s %s)" % (
            "true" if self.distinct else "false", "; ".join(item_coq(i) for i in self.items), fc, opt(self.where, expr_coq),
            "; ".join(expr_coq(g) for g in self.group), hv,
            "; ".join("(%d%%nat, %s)" % (i, "true" if a else "false") for i, a in self.order),
            opt(self.limit, lambda n: "%d%%nat" % n), opt(self.offset, lambda n: "%d%%nat" % n))

    def ordered(self):
        """is the row order of the answer fully determined?"""
        return bool(self.order) and len({i for i, _ in self.order}) == len(self.items)


def insert_sql(t, rows, cols=None):
    names = t.names()
    s = "INSERT INTO %s" % t.name
    if cols is not None:
        s += " (%s)" % ", ".join(names[i] for i in cols)
    return s + " VALUES " + ", ".join("(%s)" % ", ".join(expr_sql(e, names) for e in r) for r in rows)


def insert_coq(t, rows, cols=None):
    return "SInsert %d %s [%s]" % (t.tid, opt(cols, lambda c: "[%s]" % "; ".join("%d%%nat" % i for i in c)),
                                   "; ".join("[%s]" % "; ".join(expr_coq(e) for e in r) for r in rows))


def update_sql(t, sets, where):
    names = t.names()
    s = "UPDATE %s SET %s" % (t.name, ", ".join("%s = %s" % (names[i], expr_sql(e, names)) for i, e in sets))
    if where is not None:
        s += " WHERE " + expr_sql(where, names)
    return s


def update_coq(t, sets, where):
    return "SUpdate %d [%s] %s" % (t.tid, "; ".join("(%d%%nat, %s)" % (i, expr_coq(e)) for i, e in sets), opt(where, expr_coq))


def delete_sql(t, where):
    return "DELETE FROM %s" % t.name + ("" if where is None else " WHERE " + expr_sql(where, t.names()))


def delete_coq(t, where):
    return "SDelete %d %s" % (t.tid, opt(where, expr_coq))


class History:
    """Accumulates actions: harness text and Gallina action list."""
    def __init__(self, cfg="cache=10000"):
        self.cfg, self.rust, self.coq, self.tags = cfg, [], [], []

    def x(self, sql, coq_stmt, sorted_=False, tag=None):
        self.rust.append(("X! " if sorted_ else "X ") + sql)
        self.coq.append("(AExec (%s), %s)" % (coq_stmt, "true" if sorted_ else "false"))
        self.tags.append(tag)

    def begin(self, k):
        self.rust.append("B %d" % k); self.coq.append("(ABegin %d, false)" % k); self.tags.append(None)

    def q(self, k, sql, coq_stmt, sorted_=False, tag=None):
        self.rust.append(("Q! %d " if sorted_ else "Q %d ") % k + sql)
        self.coq.append("(AStmt %d (%s), %s)" % (k, coq_stmt, "true" if sorted_ else "false"))
        self.tags.append(tag)

    def commit(self, k):
        self.rust.append("C %d" % k); self.coq.append("(ACommit %d, false)" % k); self.tags.append(None)

    def rollback(self, k, drop=False):
        self.rust.append(("D %d" if drop else "R %d") % k); self.coq.append("(ARollback %d, false)" % k); self.tags.append(None)

    def batch(self, stmts):
        self.rust.append("T " + " ;; ".join(s for s, _ in stmts))
        self.coq.append("(ABatch [%s], false)" % "; ".join(c for _, c in stmts)); self.tags.append(None)

    def simple(self, op, coq, arg=""):
        self.rust.append((op + " " + arg).strip()); self.coq.append("(%s, false)" % coq); self.tags.append(None)

    def render(self):
        return "sql %s | %s" % (self.cfg, " | ".join(self.rust)), "[%s]" % "; ".join(self.coq)


# ---------------------------------------------------------------------------------------------
# syntactic classes shared by several properties
# ---------------------------------------------------------------------------------------------
class ClassSet:
    """Names of recorded-finding classes a generated history falls into, each with the index of the first action from
    which the recorded defect can show; a divergence before that index is not excused by the finding."""
    def __init__(self, history):
        self.h, self.pos = history, {}

    def add(self, name, at=None):
        self.pos.setdefault(name, len(self.h.rust) if at is None else at)

    def __iter__(self):
        return iter(sorted(self.pos))

    def __contains__(self, name):
        return name in self.pos

    def meta(self):
        return {"classes": sorted(self.pos), "class_pos": dict(self.pos)}


def aborted_key_reuse(rust):
    """True when a session that does not commit deletes from a table with a unique index and later inserts into it,
    or drops a table and later creates one of the same name: the single index entry per key (per name in the catalog)
    is overwritten by the re-insert and is lost when the transaction rolls back
    (recorded finding *-key-reuse-in-aborted-transaction)."""
    acts = rust.split(" | ")[1:]
    indexed = set()
    sess = {}
    for a in acts:
        if a.startswith("X CREATE TABLE ") or a.startswith("Q "):
            body = a.split(" ", 2)[2] if a.startswith("Q ") else a[2:]
            if body.startswith("CREATE TABLE ") and ("PRIMARY KEY" in body or "UNIQUE" in body):
                indexed.add(body.split()[2])
        if "CREATE UNIQUE INDEX" in a:
            indexed.add(a.split(" ON ")[1].split("(")[0].strip())
    first = None
    for idx, a in enumerate(acts):
        op = a.split(" ", 1)[0]
        if op == "B":
            sess[a.split()[1]] = []
        elif op in ("Q", "Q!"):
            _, k, sql = a.split(" ", 2)
            sess.setdefault(k, []).append((idx, sql))
        elif op in ("R", "D"):
            k = a.split()[1]
            deleted, dropped = set(), set()
            for i, sql in sess.pop(k, []):
                w = sql.split()
                if sql.startswith("DELETE FROM "):
                    deleted.add(w[2])
                elif sql.startswith("INSERT INTO ") and w[2] in deleted and w[2] in indexed:
                    first = i if first is None else min(first, i)
                elif sql.startswith("DROP TABLE "):
                    dropped.add(w[2])
                elif sql.startswith("CREATE TABLE ") and w[2] in dropped:
                    first = i if first is None else min(first, i)
        elif op == "C":
            sess.pop(a.split()[1], None)
    return first


def tag_key_reuse(case):
    at = aborted_key_reuse(case.rust)
    if at is not None:
        case.meta.setdefault("classes", [])
        if "key-reuse-in-aborted-transaction" not in case.meta["classes"]:
            case.meta["classes"] = sorted(case.meta["classes"] + ["key-reuse-in-aborted-transaction"])
        case.meta.setdefault("class_pos", {})["key-reuse-in-aborted-transaction"] = at
    return case
