"""Shared machinery of ./check: Coq build, harness build, case running, comparison, evidence."""
import json, os, re, threading, subprocess, sys, time, hashlib, shutil, resource, random
from concurrent.futures import ThreadPoolExecutor

VERIF = os.path.dirname(os.path.dirname(os.path.abspath(__file__)))
REPO = os.environ.get("AXV_REPO", "/repo")
COQ = os.path.join(VERIF, "coq")
BUILD = os.path.join(VERIF, ".build")
TARGET = os.path.join(BUILD, "target")
HARNESS = os.path.join(VERIF, "harness")
NCPU = 16

FORBIDDEN = re.compile(r"\b(Admitted|admit|Axiom|Axioms|Parameter|Parameters|Conjecture|Hypothesis|Variable)\b|Unset Guard|bypass_check|type-in-type|impredicative-set|Admit Obligations|native_compute")
ALLOWED_ASSUMPTIONS = {
    # standard-library axioms that may appear (each is named in the evidence trusted_base when it does)
    "functional_extensionality_dep", "FunctionalExtensionality.functional_extensionality_dep",
    "proof_irrelevance", "ProofIrrelevance.proof_irrelevance", "JMeq_eq", "JMeq.JMeq_eq",
    "Eqdep.Eq_rect_eq.eq_rect_eq", "eq_rect_eq", "classic", "Classical_Prop.classic",
}


def log(*a):
    print(*a, flush=True)


def sh(cmd, cwd=None, timeout=None, env=None, capture=True):
    e = dict(os.environ)
    e.update({"CARGO_NET_OFFLINE": "true"})
    if env:
        e.update(env)
    p = subprocess.run(cmd, cwd=cwd, shell=isinstance(cmd, str), timeout=timeout, env=e,
                       stdout=subprocess.PIPE if capture else None,
                       stderr=subprocess.STDOUT if capture else None, text=True)
    return p.returncode, (p.stdout or "")


# ------------------------------------------------------------------------------------------
# Coq
# ------------------------------------------------------------------------------------------
def all_v_files():
    out = []
    for root, _, files in os.walk(os.path.join(COQ, "theories")):
        for f in files:
            if f.endswith(".v"):
                out.append(os.path.relpath(os.path.join(root, f), COQ))
    return sorted(out)


def regen_tables(names=None):
    """Runs the translator. Returns (ok, log)."""
    cmd = [sys.executable, os.path.join(VERIF, "tools", "gen_tables.py")] + (names or [])
    rc, out = sh(cmd, cwd=VERIF, timeout=120, env={"AXV_REPO": REPO})
    return rc == 0, out


def coq_makefile():
    files = all_v_files()
    rc, out = sh(["coq_makefile", "-f", "_CoqProject", "-o", "Makefile"] + files, cwd=COQ, timeout=60)
    if rc != 0:
        raise RuntimeError("coq_makefile failed: " + out)


def coq_make(targets, timeout=1500):
    """Full .vo build of the given targets (relative .vo paths). Returns (ok, log)."""
    coq_makefile()
    rc, out = sh(["timeout", str(timeout), "make", "-j%d" % NCPU] + targets, cwd=COQ, timeout=timeout + 30)
    return rc == 0, out


def coq_cone(vfile):
    """Source files (relative to coq/) that vfile transitively depends on, itself included."""
    rc, out = sh(["coqdep", "-Q", "theories", "Axv"] + all_v_files(), cwd=COQ, timeout=60)
    deps = {}
    for line in out.splitlines():
        if ":" not in line:
            continue
        lhs, rhs = line.split(":", 1)
        tgt = [t for t in lhs.split() if t.endswith(".vo")]
        if not tgt:
            continue
        src = tgt[0][:-1]
        deps[src] = [d[:-1] for d in rhs.split() if d.endswith(".vo") and d.startswith("theories/")]
    seen, todo = set(), [vfile]
    while todo:
        f = todo.pop()
        if f in seen:
            continue
        seen.add(f)
        todo.extend(deps.get(f, []))
    return sorted(seen)


STMT = re.compile(r"^\s*(Theorem|Lemma|Example|Corollary|Proposition|Fact|Remark)\s+(\w+)", re.M)


def count_obligations(files):
    n, names = 0, []
    for f in files:
        with open(os.path.join(COQ, f)) as fh:
            src = fh.read()
        for m in STMT.finditer(src):
            n += 1
            names.append(m.group(2))
    return n, names


def forbidden_scan():
    """Greps the whole development for forbidden vernacular. Returns list of hits."""
    hits = []
    for f in all_v_files():
        with open(os.path.join(COQ, f)) as fh:
            src = fh.read()
        src_nc = strip_comments(src)
        in_section = 0
        for ln, line in enumerate(src_nc.splitlines(), 1):
            if re.match(r"\s*Section\b", line):
                in_section += 1
            if re.match(r"\s*End\b", line) and in_section:
                in_section -= 1
            for m in FORBIDDEN.finditer(line):
                w = m.group(0)
                if w in ("Variable", "Hypothesis") and in_section:
                    continue
                hits.append(f"{f}:{ln}: {w}")
    return hits


def strip_comments(src):
    out, depth, i = [], 0, 0
    while i < len(src):
        if src.startswith("(*", i):
            depth += 1
            i += 2
        elif src.startswith("*)", i) and depth:
            depth -= 1
            i += 2
        else:
            if depth == 0 or src[i] == "\n":
                out.append(src[i])
            i += 1
    return "".join(out)


def print_assumptions(module, theorems):
    """Returns {theorem: [assumption lines]} by compiling a scratch file (so it works on cached .vo)."""
    os.makedirs(BUILD, exist_ok=True)
    path = os.path.join(BUILD, "assume_%s.v" % module.replace(".", "_"))
    with open(path, "w") as f:
        f.write("From Axv Require Import %s.\n" % module)
        for t in theorems:
            f.write('Goal True. idtac "@@%s". exact I. Qed.\nPrint Assumptions %s.\n' % (t, t))
    rc, out = sh(["coqc", "-Q", os.path.join(COQ, "theories"), "Axv", "-w", "none", path], cwd=BUILD, timeout=300)
    res, cur = {}, None
    if rc != 0:
        return None, out
    for line in out.splitlines():
        if line.startswith("@@"):
            cur = line[2:].strip()
            res[cur] = []
        elif cur is not None and line.strip():
            res[cur].append(line.strip())
    return res, out


def assumptions_ok(res):
    """Every theorem is closed under the global context or depends only on allow-listed stdlib axioms."""
    bad, used = [], set()
    for t, lines in res.items():
        txt = " ".join(lines)
        if "Closed under the global context" in txt:
            continue
        for l in lines:
            if l.startswith("Axioms:") or not l:
                continue
            m = re.match(r"([\w\.']+)\s*:", l)
            if m:
                name = m.group(1)
                if name in ALLOWED_ASSUMPTIONS or name.split(".")[-1] in ALLOWED_ASSUMPTIONS:
                    used.add(name)
                else:
                    bad.append(f"{t}: {name}")
    return bad, sorted(used)


def run_model_cases(imports, runner, terms, tag, shard=400, scope="N_scope", mem_gb_per_mb=6.5):
    """Evaluates `runner term` inside Coq (vm_compute) for every term, sharded over coqc processes.
    runner : Gallina function from one case to a string (one line).
    Returns list of result lines (same order as terms)."""
    d = os.path.join(BUILD, "cases", tag)
    os.makedirs(d, exist_ok=True)
    for fn in os.listdir(d):
        if fn.startswith("cases_"):
            os.remove(os.path.join(d, fn))
    nsh = max(1, min(NCPU * 4, (len(terms) + shard - 1) // shard))
    nsh = max(nsh, min(NCPU, (len(terms) + 49) // 50))
    bounds = [(k * len(terms) // nsh, (k + 1) * len(terms) // nsh) for k in range(nsh)]
    paths = []
    for k, (lo, hi) in enumerate(bounds):
        p = os.path.join(d, "cases_%03d.v" % k)
        with open(p, "w") as f:
            f.write("From Coq Require Import String List NArith ZArith.\nImport ListNotations.\n")
            f.write("From Axv Require Import %s.\n" % " ".join(imports))
            f.write("Set Printing Depth 100000000.\nSet Printing Width 1000000000.\n")
            f.write("Open Scope string_scope.\nOpen Scope %s.\n" % scope)
            for t in terms[lo:hi]:
                f.write("Eval vm_compute in (%s %s).\n" % (runner, t))
        paths.append(p)

    def pre():
        try:
            resource.setrlimit(resource.RLIMIT_STACK, (resource.RLIM_INFINITY, resource.RLIM_INFINITY))
        except Exception:
            pass

    def one(p):
        for attempt in range(3):
            pr = subprocess.run(["coqc", "-noglob", "-Q", os.path.join(COQ, "theories"), "Axv", "-w", "none", p],
                                cwd=d, timeout=3600, preexec_fn=pre, stdout=subprocess.PIPE, stderr=subprocess.STDOUT, text=True)
            if pr.returncode >= 0:
                break
            # killed by a signal (the kernel's out-of-memory killer when other jobs share the machine): not a verdict
            # about the model or the code - evaluate the shard again once the pressure is gone
            time.sleep(30 * (attempt + 1))
        out = pr.stdout
        if pr.returncode != 0:
            raise RuntimeError("model evaluation failed for %s:\n%s" % (p, out[-3000:]))
        res = []
        for chunk in out.split("\n     : string\n"):
            i = chunk.find('= "')
            if i < 0:
                if chunk.strip():
                    raise RuntimeError("cannot parse model output of %s:\n%s" % (p, chunk[:1000]))
                continue
            body = chunk[i + 3:]
            if not body.endswith('"'):
                raise RuntimeError("cannot parse model output of %s:\n%s" % (p, chunk[:1000]))
            res.append(body[:-1].replace("\n", " "))
        return res

    # coqc needs roughly 6.5 GB per MB of case literals (large page dumps in the thorough tiers): admit evaluations so that
    # the estimated total stays below the budget, whatever the number of cores
    budget = int(float(os.environ.get("VERIF_COQ_MEM_GB", "40")) * 1000)      # in MB (integers: no rounding residue)
    cond = threading.Condition()
    in_use = [0]

    def admitted(p):
        need = min(budget, 500 + int(mem_gb_per_mb * os.path.getsize(p) / 1000))
        with cond:
            while in_use[0] > 0 and in_use[0] + need > budget:
                cond.wait()
            in_use[0] += need
        try:
            return one(p)
        finally:
            with cond:
                in_use[0] -= need
                cond.notify_all()

    with ThreadPoolExecutor(max_workers=NCPU) as ex:
        results = list(ex.map(admitted, paths))
    lines = []
    for k, r in enumerate(results):
        lo, hi = bounds[k]
        if len(r) != hi - lo:
            raise RuntimeError("model shard %d returned %d lines for %d cases" % (k, len(r), hi - lo))
        lines.extend(r)
    return lines


# ------------------------------------------------------------------------------------------
# Rust harness
# ------------------------------------------------------------------------------------------
def build_harness(release=False):
    os.makedirs(BUILD, exist_ok=True)
    shutil.copy(os.path.join(REPO, "Cargo.lock"), os.path.join(HARNESS, "Cargo.lock"))
    shutil.copy(os.path.join(REPO, "rust-toolchain.toml"), os.path.join(HARNESS, "rust-toolchain.toml"))
    cmd = ["cargo", "build", "--offline"] + (["--release"] if release else [])
    rc, out = sh(cmd, cwd=HARNESS, timeout=1800, env={"CARGO_TARGET_DIR": TARGET})
    if rc != 0:
        return None, out
    return os.path.join(TARGET, "release" if release else "debug", "axv"), out


def run_harness(binary, mode, case_lines, tag, as_limit_gb=None, shards=1, timeout=1800):
    """Runs the harness on the case lines; restarts after a process abort (the aborted case gets the
    line 'abort <signal/exit>'). Returns list of result lines."""
    d = os.path.join(BUILD, "cases", tag)
    os.makedirs(d, exist_ok=True)
    n = len(case_lines)
    bounds = [(k * n // shards, (k + 1) * n // shards) for k in range(shards)]

    def one(k):
        lo, hi = bounds[k]
        cpath = os.path.join(d, "rust_%03d.cases" % k)
        opath = os.path.join(d, "rust_%03d.out" % k)
        with open(cpath, "w") as f:
            f.write("\n".join(case_lines[lo:hi]) + ("\n" if hi > lo else ""))
        if os.path.exists(opath):
            os.remove(opath)
        open(opath, "w").close()
        start = 0
        total = hi - lo
        while start < total:
            def pre():
                if as_limit_gb:
                    lim = int(as_limit_gb * (1 << 30))
                    resource.setrlimit(resource.RLIMIT_AS, (lim, lim))
                resource.setrlimit(resource.RLIMIT_CORE, (0, 0))
            p = subprocess.run([binary, mode, cpath, opath, str(start)], preexec_fn=pre, timeout=timeout,
                               stdout=subprocess.PIPE, stderr=subprocess.STDOUT, text=True,
                               env=dict(os.environ, AXV_SCRATCH=os.path.join(BUILD, "scratch"),
                                        # a crash case reopens hundreds of images (and, nested, recoveries of them): its
                                        # watchdog must not fire under machine load; mt cases carry their own 20 s watchdog
                                        AXV_CASE_TIMEOUT=os.environ.get("AXV_CASE_TIMEOUT", {"crash": "600", "mt": "90"}.get(mode, "30"))))
            with open(opath) as f:
                done = len(f.read().splitlines())
            if done >= total:
                break
            if p.returncode == 3:
                # watchdog: the line "hang" for the stuck case is already written
                start = done
            else:
                # the process died while running case index `done`
                with open(opath, "a") as f:
                    f.write("abort rc=%d\n" % p.returncode)
                start = done + 1
        with open(opath) as f:
            res = f.read().splitlines()
        return res

    with ThreadPoolExecutor(max_workers=min(shards, NCPU)) as ex:
        parts = list(ex.map(one, range(shards)))
    out = []
    for p in parts:
        out.extend(p)
    if len(out) != n:
        raise RuntimeError("harness returned %d lines for %d cases" % (len(out), n))
    return out


# ------------------------------------------------------------------------------------------
# Known findings, evidence, verdict
# ------------------------------------------------------------------------------------------
def load_known():
    p = os.path.join(VERIF, "known_findings.json")
    if not os.path.exists(p):
        return []
    with open(p) as f:
        return json.load(f)


def write_replay(prop, name, obj):
    d = os.path.join(VERIF, "replays")
    os.makedirs(d, exist_ok=True)
    path = os.path.join(d, "%s_%s.json" % (prop, name))
    with open(path, "w") as f:
        json.dump(obj, f, indent=1)
    return os.path.relpath(path, VERIF)


def write_evidence(prop, tier, seed, coverage, assumptions, wall, violations):
    d = os.path.join(VERIF, "evidence")
    os.makedirs(d, exist_ok=True)
    ev = {"property_id": prop, "tier": tier, "seed": seed, "level": "proof", "coverage": coverage,
          "assumptions": assumptions, "wall_s": round(wall, 2), "violations": violations}
    with open(os.path.join(d, prop + ".json"), "w") as f:
        json.dump(ev, f, indent=1)


def repo_state():
    rc, head = sh(["git", "-C", REPO, "rev-parse", "HEAD"])
    rc2, st = sh(["git", "-C", REPO, "status", "--porcelain"])
    return head.strip(), bool(st.strip())
