"""Generic flow of one property check (DESIGN.md section 4)."""
import os, random, sys, time, json, random, traceback
from . import core
from .core import log


class Case:
    __slots__ = ("rust", "coq", "kind", "meta")

    def __init__(self, rust, coq, kind, meta=None):
        self.rust, self.coq, self.kind, self.meta = rust, coq, kind, meta or {}


class Spec:
    id = None
    design_ref = ""
    gen_tables = []          # names handled by tools/gen_tables.py
    model_targets = []       # .vo files needed to evaluate the model (no proofs)
    prop_vo = None           # theories/Props/Cxx.vo
    prop_module = None       # Props.Cxx
    theorems = []            # theorem names whose assumptions are checked
    streams = []             # list of Stream objects (mode, imports, runner, generator)
    trusted_extra = []
    release = False

    def known_class(self, finding, case):  # is this case inside the finding's syntactic class?
        return False


class Stream:
    """One correspondence stream: cases run by harness mode `mode` and by Gallina function `runner`."""
    def __init__(self, name, mode, imports, runner, gen, oracle=None, nontrivial=None, as_limit_gb=None,
                 shard=400, rust_shards=1, scope="N_scope", canon=None, reference=False,
                 canon_case=None, post=None, post_runner=None, measure=None, mem_gb_per_mb=6.5):
        self.mem_gb_per_mb = mem_gb_per_mb      # memory coqc needs per MB of case file (admission control in core)
        # measure(case, raw_impl_line) -> dict of counters summed into the evidence (what a case actually covered)
        self.measure = measure
        # canon_case(case, line): canonicalisation that needs the case (e.g. keys -> ranks)
        # post(case, raw_impl_line) -> list of Gallina terms (or None entries) handed to post_runner, a verified checker
        # evaluated inside Coq on what the implementation produced; every answer must be "ok"
        self.canon_case, self.post, self.post_runner = canon_case, post, post_runner
        # reference=True: the Gallina side is the specification the property is stated against (RefDB), so
        # an answer that differs from it is itself an input on which the implementation breaks the property
        self.reference = reference
        self.name, self.mode, self.imports, self.runner, self.gen = name, mode, imports, runner, gen
        self.oracle, self.nontrivial, self.as_limit_gb = oracle, nontrivial, as_limit_gb
        self.shard, self.rust_shards, self.scope, self.canon = shard, rust_shards, scope, canon


def corpus_cases(spec, stream):
    """Minimised disagreements / witnesses kept from earlier runs: always run first."""
    d = os.path.join(core.VERIF, "corpus", spec.id)
    out = []
    if os.path.isdir(d):
        for fn in sorted(os.listdir(d)):
            if fn.endswith(".json"):
                with open(os.path.join(d, fn)) as f:
                    c = json.load(f)
                if c.get("stream") == stream.name:
                    out.append(Case(c["rust"], c["coq"], c.get("kind", "corpus"), {"corpus": fn}))
    return out


def run_property(spec, tier, seed):
    t0 = time.time()
    pid = spec.id
    notes, violations, known_lines = [], [], []
    broken = []   # names of proof obligations / ties that no longer check
    rng = random.Random(seed * 1000003 + sum(map(ord, pid)))

    # 0. the implementation side is built first: the translator reads compiler-determined layout
    #    constants from the harness binary compiled against the current tree
    binary, hout = core.build_harness(release=spec.release)
    if binary is None:
        log(hout[-6000:])
        log("ERROR: harness does not build against the current /repo tree")
        print("VIOLATION property=%s replay=%s no-failing-input-found" % (
            pid, core.write_replay(pid, "harness_build", {"broken": "harness build", "log": hout[-4000:]})))
        finish(spec, tier, seed, t0, {}, 1, 0, [], [], 1, notes)
        return 1

    # 1. tie, part one: regenerate tables from the current source
    if spec.gen_tables:
        ok, out = core.regen_tables(spec.gen_tables)
        log(out.strip())
        if not ok:
            broken.append("translator: " + out.strip().splitlines()[-1])

    # 2. forbidden vernacular anywhere in the development
    hits = core.forbidden_scan()
    if hits:
        log("FORBIDDEN tokens in the development:\n  " + "\n  ".join(hits))
        broken.append("forbidden vernacular: " + "; ".join(hits[:5]))

    # 3. build the executable model, then the proofs
    ok, out = core.coq_make(spec.model_targets)
    if not ok:
        log(out[-4000:])
        log("ERROR: the executable model does not compile; cannot run the correspondence check")
        model_ok = False
        broken.append("model build: " + last_error(out))
    else:
        model_ok = True
    ok, out = core.coq_make([spec.prop_vo])
    proofs_ok = ok
    if not ok:
        log(out[-4000:])
        broken.append("proof obligation: " + last_error(out))
    assumptions_used = []
    if proofs_ok:
        res, out = core.print_assumptions(spec.prop_module, spec.theorems)
        if res is None or set(res) != set(spec.theorems):
            broken.append("Print Assumptions failed: " + (out or "")[-500:])
            proofs_ok = False
        else:
            bad, used = core.assumptions_ok(res)
            assumptions_used = used
            if bad:
                broken.append("unexpected assumptions: " + "; ".join(bad))
                proofs_ok = False
    cone = core.coq_cone(spec.prop_vo[:-1])
    n_obl, obl_names = core.count_obligations(cone)

    known = [k for k in core.load_known() if k["property"] == pid]
    open_known = [k for k in known if k.get("status") == "open"]

    stats = {"evaluations": 0, "distinct_nontrivial": 0, "streams": {}, "samples": [], "validated": 0}
    disagreements, oracle_fail = [], []
    seen_nontrivial = set()
    for st in spec.streams:
        cases = corpus_cases(spec, st) + st.gen(rng, tier)
        if not cases:
            continue
        t_h = time.time()
        impl = core.run_harness(binary, st.mode, [c.rust for c in cases], "%s_%s" % (pid, st.name),
                                as_limit_gb=st.as_limit_gb, shards=st.rust_shards)
        t_h = time.time() - t_h
        t_m = time.time()
        model = None
        if model_ok and st.runner:
            try:
                model = core.run_model_cases(st.imports, st.runner, [c.coq for c in cases],
                                             "%s_%s" % (pid, st.name), shard=st.shard, scope=st.scope, mem_gb_per_mb=st.mem_gb_per_mb)
            except Exception as e:
                log("model evaluation error: %s" % e)
                broken.append("model evaluation (%s): %s" % (st.name, str(e)[:300]))
        log("stream %s: %d cases, implementation %.1fs, model %.1fs" % (st.name, len(cases), t_h, time.time() - t_m))
        kinds = {}
        for i, c in enumerate(cases):
            kinds[c.kind] = kinds.get(c.kind, 0) + 1
            ml = None if model is None else (st.canon(model[i]) if st.canon else model[i])
            c.meta["model"] = ml           # canon_case may read the reference answer (crash streams)
            il = st.canon(impl[i]) if (st.canon and not st.canon_case) else (st.canon_case(c, impl[i]) if st.canon_case else impl[i])
            c.meta["impl"] = il            # known_class may look at what the implementation answered
            c.meta["impl_raw"] = impl[i]
            if st.nontrivial is None or st.nontrivial(c, il):
                seen_nontrivial.add((st.name, c.rust))
            if st.oracle:
                why = st.oracle(c, il)
                if why:
                    oracle_fail.append((st, c, il, ml, why))
            if ml is not None:
                stats["validated"] += 1
                if il != ml:
                    disagreements.append((st, c, il, ml))
        if st.post and model_ok:
            terms, owners = [], []
            for i, c in enumerate(cases):
                for j, t in enumerate(st.post(c, impl[i]) or []):
                    if t is None:
                        oracle_fail.append((st, c, c.meta.get("impl", ""), None, "dump %d is not a finite tree the checker can read" % j))
                    else:
                        terms.append(t); owners.append((c, j))
            if terms:
                try:
                    verdicts = core.run_model_cases(st.imports, st.post_runner, terms, "%s_%s_post" % (pid, st.name), shard=st.shard * 4, scope=st.scope, mem_gb_per_mb=st.mem_gb_per_mb)
                    for (c, j), v in zip(owners, verdicts):
                        if v != "ok":
                            oracle_fail.append((st, c, c.meta.get("impl", ""), None, "verified checker %s rejects dump %d: %s" % (st.post_runner, j, v)))
                    stats["post_checked"] = stats.get("post_checked", 0) + len(terms)
                except Exception as e:
                    log("checker evaluation error: %s" % e)
                    broken.append("checker evaluation (%s): %s" % (st.name, str(e)[:300]))
        stats["evaluations"] += len(cases)
        stats["streams"][st.name] = {"cases": len(cases), "kinds": kinds}
        if st.measure:
            tot = {}
            for i, c in enumerate(cases):
                for k, v in (st.measure(c, impl[i]) or {}).items():
                    tot[k] = tot.get(k, 0) + v
            stats["streams"][st.name]["measured"] = tot
        for c in cases[:2] + cases[-1:]:
            stats["samples"].append({"stream": st.name, "case": c.rust[:300]})
    stats["distinct_nontrivial"] = len(seen_nontrivial)

    with open(os.path.join(core.BUILD, "last_%s.json" % pid), "w") as f:
        json.dump({"disagreements": [{"stream": st.name, "case": c.rust, "impl": il, "model": ml, "classes": c.meta.get("classes"), "class_pos": c.meta.get("class_pos")} for (st, c, il, ml) in disagreements[:200]],
                   "oracle": [{"stream": st.name, "case": c.rust, "impl": il, "why": (why[0] if isinstance(why, tuple) else why)} for (st, c, il, ml, why) in oracle_fail[:200]]}, f, indent=1)

    # 5. classification
    def classify(st, c, first_div=None):
        """the open finding that excuses this case, if any: the case lies in the finding's class and the divergence does
        not start before the point of the history from which the recorded defect can show"""
        for k in open_known:
            if k.get("class") == "catalog-large-cells" and st.mode == "sql":
                # recorded B+tree defect that strikes the catalog unpredictably (its rows are large cells): the engine answers
                # a statement with the distinct error `err:overflowframe`.  Excused only when that answer is where the case
                # first leaves the reference (or lies before the action the oracle complains about).
                segs = c.meta.get("impl", "").split(" | ")
                hits = [i for i, x in enumerate(segs) if x == "err:overflowframe"]
                if hits and first_div is not None and hits[0] <= first_div:
                    return k
                continue
            if spec.known_class(k, c):
                pos = c.meta.get("class_pos", {}).get(k.get("class"))
                if pos is not None and first_div is not None and first_div < pos:
                    continue
                return k
        return None

    def first_difference(il, ml):
        a, b = il.split(" | "), (ml or "").split(" | ")
        return next((i for i, (x, y) in enumerate(zip(a, b)) if x != y), min(len(a), len(b)))

    reported_known = set()
    new_oracle = []
    for (st, c, il, ml, why) in oracle_fail:
        at = why[1] if isinstance(why, tuple) else None
        why = why[0] if isinstance(why, tuple) else why
        if at is not None and ml is not None and st.reference and il != ml:
            at = min(at, first_difference(il, ml))
        k = classify(st, c, at)
        if k and not st.reference and ml is not None and il != ml:
            k = None      # inside a recorded class, but not the recorded behaviour (the faithful model answers differently)
        if k:
            reported_known.add(k["id"])
        else:
            new_oracle.append((st, c, il, ml, why))
    new_dis = []
    for (st, c, il, ml) in disagreements:
        # a faithful model already behaves in the recorded defective way, so a difference between it and the
        # code is never excused by a finding; only answers that differ from a *reference* (RefDB) can be
        k = classify(st, c, first_difference(il, ml)) if st.reference else None
        if k:
            reported_known.add(k["id"])
        else:
            new_dis.append((st, c, il, ml))

    # witnesses of open findings are replayed on the implementation on every run
    for k in open_known:
        w = k.get("witness")
        if not w:
            continue
        try:
            out = core.run_harness(binary, w["mode"], [w["rust"]], "%s_witness_%s" % (pid, k["id"]),
                                   as_limit_gb=w.get("as_limit_gb"))[0]
            for st in spec.streams:
                if st.mode == w["mode"] and st.canon:
                    out = st.canon(out)
                    break
        except Exception as e:
            out = "harness-error %s" % e
        if match_expect(out, w.get("defect")):
            known_lines.append("KNOWN-FINDING: property=%s %s [%s]" % (pid, k["what_fails"], k["id"]))
        elif match_expect(out, w.get("correct")):
            log("KNOWN-FINDING-GONE: property=%s %s no longer reproduces (witness now gives the correct result)" % (pid, k["id"]))
        else:
            new_dis.append((None, Case(w["rust"], "", "witness"), out, "defect=%r correct=%r" % (w.get("defect"), w.get("correct"))))
    for kid in reported_known:
        k = [x for x in open_known if x["id"] == kid][0]
        line = "KNOWN-FINDING: property=%s %s [%s]" % (pid, k["what_fails"], k["id"])
        if line not in known_lines:
            known_lines.append(line)

    # A proof, the tie or the correspondence broke but no generated input contradicts the property yet:
    # search the implementation alone, with the model-independent oracles, on a larger generated set.
    searched = 0
    if (new_dis or broken) and not new_oracle and os.environ.get("VERIF_NO_SEARCH") != "1":
        srng = random.Random(seed * 7919 + 13)
        for st in spec.streams:
            if not st.oracle or new_oracle:
                continue
            try:
                cases = st.gen(srng, "search")
                impl = core.run_harness(binary, st.mode, [c.rust for c in cases], "%s_%s_search" % (pid, st.name),
                                        as_limit_gb=st.as_limit_gb, shards=max(st.rust_shards, 8))
            except Exception as e:
                log("search on stream %s failed: %s" % (st.name, e))
                continue
            searched += len(cases)
            for c, raw in zip(cases, impl):
                il = st.canon(raw) if st.canon else (st.canon_case(c, raw) if st.canon_case else raw)
                c.meta["impl"], c.meta["impl_raw"] = il, raw
                why = st.oracle(c, il)
                at = why[1] if isinstance(why, tuple) else None
                why = why[0] if isinstance(why, tuple) else why
                if why and not classify(st, c, at):
                    new_oracle.append((st, c, il, None, why))
                    break
        log("search: %d further cases on the implementation, %s" % (searched, "failing input found" if new_oracle else "no failing input"))

    rc = 0
    if new_oracle:
        st, c, il, ml, why = new_oracle[0]
        path = core.write_replay(pid, "failing_input", {
            "property": pid, "kind": "implementation violates the property on this input",
            "stream": st.name, "harness_mode": st.mode, "case": c.rust, "implementation": il, "model": ml,
            "why": why, "count": len(new_oracle), "seed": seed,
            "replay": "%s/debug/axv %s <file with the case line> /dev/stdout" % (core.TARGET, st.mode)})
        print("VIOLATION property=%s replay=%s" % (pid, path))
        rc = 1
    elif new_dis and new_dis[0][0] is not None and new_dis[0][0].reference:
        st, c, il, ml = new_dis[0]
        seg_i, seg_m = il.split(" | "), (ml or "").split(" | ")
        first = next((i for i, (a, b) in enumerate(zip(seg_i, seg_m)) if a != b), min(len(seg_i), len(seg_m)))
        acts = c.rust.split(" | ")[1:]
        path = core.write_replay(pid, "failing_input", {
            "property": pid, "kind": "implementation answers differently from the reference semantics on this history",
            "stream": st.name, "harness_mode": st.mode, "case": c.rust, "implementation": il, "reference": ml,
            "first_difference": {"action_index": first, "action": acts[first] if first < len(acts) else None,
                                 "implementation": seg_i[first] if first < len(seg_i) else None,
                                 "reference": seg_m[first] if first < len(seg_m) else None},
            "count": len(new_dis), "seed": seed,
            "replay": "%s/debug/axv %s <file with the case line> /dev/stdout" % (core.TARGET, st.mode)})
        print("VIOLATION property=%s replay=%s" % (pid, path))
        rc = 1
    elif new_dis:
        st, c, il, ml = new_dis[0]
        path = core.write_replay(pid, "disagreement", {
            "property": pid,
            "kind": "correspondence between model and implementation no longer checks",
            "broken": "correspondence stream %s (model %s)" % (st.name if st else "witness", st.runner if st else "-"),
            "case": c.rust, "implementation": il, "model": ml, "count": len(new_dis), "seed": seed,
            "note": "no input was found on which the implementation contradicts the property oracle"})
        print("VIOLATION property=%s replay=%s no-failing-input-found" % (pid, path))
        rc = 1
    elif broken:
        path = core.write_replay(pid, "broken_obligation", {
            "property": pid, "kind": "proof obligation or tie no longer checks", "broken": broken, "seed": seed,
            "note": "searched %d generated cases on the implementation with the property oracle; none failed" % stats["evaluations"]})
        print("VIOLATION property=%s replay=%s no-failing-input-found" % (pid, path))
        rc = 1
    for l in known_lines:
        print(l)
    nviol = len(new_oracle) + len(new_dis) + (1 if broken and not (new_oracle or new_dis) else 0)
    discharged = n_obl if (proofs_ok and not broken) else 0
    finish(spec, tier, seed, t0, stats, n_obl, discharged, cone, assumptions_used, nviol, notes, known_lines)
    log("%s %s: %d cases, %d model/impl disagreements, %d oracle failures, %d obligations %s, %.1fs" % (
        pid, "OK" if rc == 0 else "FAILED", stats["evaluations"], len(disagreements), len(oracle_fail), n_obl,
        "discharged" if discharged else "NOT discharged", time.time() - t0))
    return rc


def match_expect(out, exp):
    if exp is None:
        return False
    if isinstance(exp, dict) and "prefix" in exp:
        return out.startswith(exp["prefix"])
    if isinstance(exp, dict) and "contains" in exp:
        return exp["contains"] in out
    if isinstance(exp, dict) and "not_contains" in exp:
        return all(x not in out for x in ([exp["not_contains"]] if isinstance(exp["not_contains"], str) else exp["not_contains"]))
    return out == exp


def last_error(out):
    lines = [l for l in out.splitlines() if l.strip()]
    for i, l in enumerate(lines):
        if l.startswith("File ") and i + 1 < len(lines):
            return (l + " " + " ".join(lines[i + 1:i + 4]))[:600]
    return " ".join(lines[-3:])[:600]


def finish(spec, tier, seed, t0, stats, n_obl, discharged, cone, assumptions_used, nviol, notes, known_lines=()):
    head, dirty = core.repo_state()
    cov = {
        "obligations": max(n_obl, 1), "discharged": discharged,
        "checker_cmd": "cd /verif/coq && coq_makefile -f _CoqProject -o Makefile <all .v> && make -j16 %s  (full .vo build, coqc 8.16.1) ; Print Assumptions %s" % (spec.prop_vo, " ".join(spec.theorems)),
        "trusted_base": [
            "Coq 8.16.1 kernel incl. vm_compute (no native_compute)",
            "axioms reported by Print Assumptions: " + (", ".join(assumptions_used) if assumptions_used else "none (closed under the global context)"),
            "translator tools/gen_tables.py (tables: %s)" % (", ".join(spec.gen_tables) or "none"),
            "correspondence check: Rust harness /verif/harness (modes %s) vs in-Coq vm_compute of the model; python case generators emit both encodings of each case" % ", ".join(sorted({s.mode for s in spec.streams})),
            "no extraction is used",
        ] + list(spec.trusted_extra),
        "evaluations": stats.get("evaluations", 0),
        "distinct_nontrivial": stats.get("distinct_nontrivial", 0),
        "rule": getattr(spec, "rule", "cases generated from one PRNG seeded by VERIF_SEED; distinct = distinct case lines; non-trivial per stream predicate"),
        "samples": stats.get("samples", [])[:12] or [{"note": "no cases ran"}],
        "traces_validated_against_impl": stats.get("validated", 0),
        "streams": stats.get("streams", {}),
        "proof_files": cone,
        "repo_head": head, "repo_dirty": dirty,
        "known_findings_reported": list(known_lines),
    }
    core.write_evidence(spec.id, tier, seed, cov,
                        ["see DESIGN.md section 6 (trusted base) and section %s" % spec.design_ref] + notes,
                        time.time() - t0, nviol)
