#!/usr/bin/env python3
"""install_seed.py <ID> : copy /tmp/seed/<ID>/OUT into seeded/<ID>/m<next> (patch.diff, demo, meta.json with what was run)"""
import json, os, shutil, sys, glob
pid = sys.argv[1]
src = "/tmp/seed/%s/OUT" % pid
n = 1
while os.path.exists("/verif/seeded/%s/m%d" % (pid, n)):
    n += 1
dst = "/verif/seeded/%s/m%d" % (pid, n)
os.makedirs(dst)
for f in os.listdir(src):
    if "foreign" in f.lower():
        continue
    shutil.copy(os.path.join(src, f), dst)
meta = json.load(open(os.path.join(dst, "meta.json")))
log = open("/tmp/seed/%s/VERIFY.log" % pid).read()
meta["confirmed"] = {"how": "scratch worktree: demonstration run with the change (fails) and with the change reverse-applied (passes); pinned suite run with the change (only the new demonstration tests fail)",
                     "log": [l for l in log.splitlines() if l.startswith(("==", "exit=", "demo_cmd")) or "Summary" in l or "test result" in l]}
meta["result"] = {"caught_by": [], "missed_by": [], "note": "round 3"}
json.dump(meta, open(os.path.join(dst, "meta.json"), "w"), indent=1)
print(dst)
