#!/usr/bin/env python3
"""Translator: regenerates Gallina tables (coq/theories/Gen/*.v) from /repo's current sources.

Fail-closed: every matcher asserts the exact shape it expects; when the source no longer has that
shape the translator raises TranslatorError (reported by ./check as a broken tie), it never
silently skips a table.  Only tables and constants are translated; the control structure around
them is hand-modelled and tied to the code by the correspondence check.
"""
import os, re, sys, hashlib

REPO = os.environ.get("AXV_REPO", "/repo")
SRC = os.path.join(REPO, "crates/axmos-db/src")
OUT = os.path.join(os.path.dirname(os.path.abspath(__file__)), "..", "coq", "theories", "Gen")


class TranslatorError(Exception):
    pass


def need(cond, msg):
    if not cond:
        raise TranslatorError(msg)


def read(rel):
    with open(os.path.join(SRC, rel)) as f:
        return f.read()


def fn_body(src, header_re, what):
    """Text of the brace-balanced block that follows the first match of header_re."""
    m = re.search(header_re, src)
    need(m, f"{what}: header not found ({header_re})")
    i = src.index("{", m.end() - 1)
    depth, j = 0, i
    while j < len(src):
        c = src[j]
        if c == "{":
            depth += 1
        elif c == "}":
            depth -= 1
            if depth == 0:
                return src[i:j + 1]
        j += 1
    raise TranslatorError(f"{what}: unbalanced braces")


def write_if_changed(path, text):
    os.makedirs(os.path.dirname(path), exist_ok=True)
    old = None
    if os.path.exists(path):
        with open(path) as f:
            old = f.read()
    if old != text:
        with open(path, "w") as f:
            f.write(text)
        return True
    return False


# ------------------------------------------------------------------------------------------
# tcp/mod.rs  ->  Gen/GenWire.v
# ------------------------------------------------------------------------------------------
REQ_TAGS = {"Create": "TCreate", "Open": "TOpen", "Sql": "TSql", "Begin": "TBegin",
            "Rollback": "TRollback", "Commit": "TCommit", "Explain": "TExplain",
            "Analyze": "TAnalyze", "Vacuum": "TVacuum", "Close": "TClose", "Ping": "TPing",
            "Shutdown": "TShutdown"}
STATUS = {"Ok": "SOk", "Error": "SError", "Rows": "SRows", "RowsAffected": "SRowsAffected",
          "Ddl": "SDdl", "Explain": "SExplain", "Pong": "SPong", "Goodbye": "SGoodbye",
          "ShuttingDown": "SShuttingDown", "VacuumComplete": "SVacuumComplete",
          "Begin": "SBegin", "End": "SEnd"}
RESP_TAGS = {"Ok": "PTOk", "Error": "PTError", "Rows": "PTRows",
             "SessionStarted": "PTSessionStarted", "SessionEnd": "PTSessionEnd",
             "RowsAffected": "PTRowsAffected", "Ddl": "PTDdl", "Explain": "PTExplain",
             "VacuumComplete": "PTVacuumComplete", "Pong": "PTPong", "Goodbye": "PTGoodbye",
             "ShuttingDown": "PTShuttingDown"}


def num(s):
    s = s.replace("_", "")
    return int(s, 16) if s.lower().startswith("0x") else int(s)


def const_expr(src, name):
    m = re.search(r"pub const %s: \w+ = ([^;]+);" % name, src)
    need(m, f"const {name} not found")
    e = m.group(1).strip()
    need(re.fullmatch(r"[0-9x_A-Fa-f \*\+\(\)]+", e), f"const {name}: unexpected expression {e!r}")
    return int(eval(e.replace("_", ""), {"__builtins__": {}}))


def gen_wire():
    src = read("tcp/mod.rs")
    version = const_expr(src, "PROTOCOL_VERSION")
    maxmsg = const_expr(src, "MAX_MESSAGE_SIZE")

    impl_req = fn_body(src, r"impl Request \{", "impl Request")
    enc = fn_body(impl_req, r"pub fn to_bytes\(&self\) -> Vec<u8> \{", "Request::to_bytes")
    # each arm: Self::Name ... => { buf.push(0xNN);
    arms = re.findall(r"Self::(\w+)\s*(?:\([^)]*\)|\{[^}]*\})?\s*=>\s*\{\s*buf\.push\((0x[0-9A-Fa-f]+|\d+)\);", enc)
    need(len(arms) == len(REQ_TAGS) and {a for a, _ in arms} == set(REQ_TAGS),
         f"Request::to_bytes: expected one opcode arm per variant, got {arms}")
    req_enc = {a: num(v) for a, v in arms}

    dec = fn_body(impl_req, r"pub fn from_bytes\(data: &\[u8\]\) -> Result<Self, TcpError> \{", "Request::from_bytes")
    match = fn_body(dec, r"match cmd \{", "Request::from_bytes match")
    # arms "0xNN => { ... Ok(Self::Name" or "0xNN => Ok(Self::Name"
    darms = re.findall(r"(0x[0-9A-Fa-f]+|\d+)\s*=>\s*(?:\{(?:[^{}]|\{[^{}]*\})*?Ok\(Self::(\w+)|Ok\(Self::(\w+))", match)
    req_dec = {}
    for v, a, b in darms:
        req_dec[num(v)] = a or b
    need(len(req_dec) == len(REQ_TAGS) and set(req_dec.values()) == set(REQ_TAGS),
         f"Request::from_bytes: expected one arm per variant, got {req_dec}")
    need(re.search(r"_\s*=>\s*Err\(TcpError::UnknownCommand\(cmd\)\)", match), "Request::from_bytes: default arm")

    enum = fn_body(src, r"pub enum StatusCode \{", "enum StatusCode")
    svals = re.findall(r"(\w+)\s*=\s*(0x[0-9A-Fa-f]+|\d+)\s*,", enum)
    need(len(svals) == len(STATUS) and {a for a, _ in svals} == set(STATUS), f"StatusCode: {svals}")
    st_enc = {a: num(v) for a, v in svals}
    tf = fn_body(src, r"fn try_from\(value: u8\) -> Result<StatusCode, TcpError> \{", "StatusCode::try_from")
    tarms = re.findall(r"(0x[0-9A-Fa-f]+|\d+)\s*=>\s*Ok\(Self::(\w+)\)", tf)
    st_dec = {num(v): a for v, a in tarms}
    need(len(tarms) == len(STATUS) and set(st_dec.values()) == set(STATUS), f"StatusCode::try_from: {tarms}")

    impl_resp = fn_body(src, r"impl Response \{", "impl Response")
    renc = fn_body(impl_resp, r"pub fn to_bytes\(&self\) -> Vec<u8> \{", "Response::to_bytes")
    rarms = re.findall(r"Self::(\w+)\s*(?:\([^)]*\)|\{[^}]*\})?\s*=>\s*\{\s*buf\.push\(StatusCode::(\w+) as u8\);", renc)
    need(len(rarms) == len(RESP_TAGS) and {a for a, _ in rarms} == set(RESP_TAGS), f"Response::to_bytes: {rarms}")
    resp_enc = dict(rarms)
    rdec = fn_body(impl_resp, r"pub fn from_bytes\(data: &\[u8\]\) -> Result<Self, TcpError> \{", "Response::from_bytes")
    rmatch = fn_body(rdec, r"match status \{", "Response::from_bytes match")
    rd = re.findall(r"StatusCode::(\w+)\s*=>\s*(?:\{(?:[^{}]|\{(?:[^{}]|\{[^{}]*\})*\})*?Ok\(Self::(\w+)|Ok\(Self::(\w+))", rmatch)
    resp_dec = {s: (a or b) for s, a, b in rd}
    need(len(rd) == len(STATUS) and set(resp_dec) == set(STATUS) and set(resp_dec.values()) == set(RESP_TAGS),
         f"Response::from_bytes: {rd}")

    L = []
    L.append("(* GENERATED by tools/gen_tables.py from crates/axmos-db/src/tcp/mod.rs -- do not edit *)")
    L.append("From Coq Require Import NArith List. Import ListNotations.")
    L.append("From Axv Require Import Model.WireTags.")
    L.append("Open Scope N_scope.")
    L.append(f"Definition protocol_version : N := {version}.")
    L.append(f"Definition max_message_size : N := {maxmsg}.")
    L.append("Definition req_enc_op (t : req_tag) : N :=\n  match t with")
    for a, t in REQ_TAGS.items():
        L.append(f"  | {t} => {req_enc[a]}")
    L.append("  end.")
    L.append("Definition req_dec_op (c : N) : option req_tag :=")
    L.append("  " + " else ".join(f"if c =? {c} then Some {REQ_TAGS[a]}" for c, a in sorted(req_dec.items())) + " else None.")
    L.append("Definition status_enc (s : status) : N :=\n  match s with")
    for a, t in STATUS.items():
        L.append(f"  | {t} => {st_enc[a]}")
    L.append("  end.")
    L.append("Definition status_dec (c : N) : option status :=")
    L.append("  " + " else ".join(f"if c =? {c} then Some {STATUS[a]}" for c, a in sorted(st_dec.items())) + " else None.")
    L.append("Definition resp_status (t : resp_tag) : status :=\n  match t with")
    for a, t in RESP_TAGS.items():
        L.append(f"  | {t} => {STATUS[resp_enc[a]]}")
    L.append("  end.")
    L.append("Definition status_resp (s : status) : resp_tag :=\n  match s with")
    for a, t in STATUS.items():
        L.append(f"  | {t} => {RESP_TAGS[resp_dec[a]]}")
    L.append("  end.")
    return "\n".join(L) + "\n"


# ------------------------------------------------------------------------------------------
# compiler-determined layout (printed by the harness built against the current tree) -> Gen/GenWal.v
# ------------------------------------------------------------------------------------------
def harness_consts():
    import subprocess
    binary = os.path.join(os.path.dirname(os.path.abspath(__file__)), "..", ".build", "target", "debug", "axv")
    need(os.path.exists(binary), "harness binary not built (run ./setup.sh)")
    out = subprocess.run([binary, "consts"], capture_output=True, text=True, timeout=60)
    need(out.returncode == 0, "axv consts failed")
    return {k: int(v) for k, v in (l.split() for l in out.stdout.splitlines() if l.strip())}


def gen_wal():
    c = harness_consts()
    src = read("storage/wal.rs")
    enum = fn_body(src, r"pub enum RecordType \{", "enum RecordType")
    tags = re.findall(r"(\w+)\s*=\s*(0x[0-9A-Fa-f]+)\s*,", enum)
    want = ["Begin", "Commit", "Abort", "End", "Update", "Delete", "Insert", "Create", "Drop", "Alter"]
    need([a for a, _ in tags] == want, f"RecordType variants changed: {tags}")
    L = ["(* GENERATED by tools/gen_tables.py from storage/wal.rs and `axv consts` -- do not edit *)",
         "From Coq Require Import NArith.", "Open Scope N_scope."]
    for k in ["wal_block_header_size", "wal_block_zero_header_size", "wal_record_header_size", "wal_record_alignment", "wal_block_size"]:
        need(k in c, f"axv consts lacks {k}")
        L.append(f"Definition {k} : N := {c[k]}.")
    for a, v in tags:
        L.append(f"Definition rt_{a.lower()} : N := {num(v)}.")
    return "\n".join(L) + "\n"


def gen_header():
    """storage/page.rs -> Gen/GenHeader.v: size of the persisted aborted-transaction bitmap and the shape of its three operations"""
    c = harness_consts()
    src = read("storage/page.rs")
    for k in ["aborted_bitmap_size", "max_tracked_aborted_txs"]:
        need(k in c, f"axv consts lacks {k}")
    mark = fn_body(src, r"pub\(crate\) fn mark_transaction_aborted\(&mut self, txid: TransactionId\) \{", "mark_transaction_aborted")
    need(re.search(r"if txid < MAX_TRACKED_ABORTED_TXS as u64 \{", mark), "mark_transaction_aborted: bound test")
    need(re.search(r"byte_idx = \(txid / 8\) as usize", mark) and re.search(r"bit_idx = \(txid % 8\) as u8", mark)
         and re.search(r"aborted_txs_bitmap\[byte_idx\] \|= 1 << bit_idx", mark), "mark_transaction_aborted: bit arithmetic")
    isab = fn_body(src, r"pub\(crate\) fn is_transaction_aborted\(&self, txid: TransactionId\) -> bool \{", "is_transaction_aborted")
    need(re.search(r"if txid >= MAX_TRACKED_ABORTED_TXS as u64 \{\s*return false;", isab)
         and re.search(r"\(self\.aborted_txs_bitmap\[byte_idx\] & \(1 << bit_idx\)\) != 0", isab), "is_transaction_aborted: shape")
    clr = fn_body(src, r"pub\(crate\) fn clear_aborted_up_to\(&mut self, max_txid: TransactionId\) \{", "clear_aborted_up_to")
    need(re.search(r"for txid in 0\.\.=max_txid\.min\(MAX_TRACKED_ABORTED_TXS as u64 - 1\)", clr)
         and re.search(r"aborted_txs_bitmap\[byte_idx\] &= !\(1 << bit_idx\)", clr), "clear_aborted_up_to: shape")
    L = ["(* GENERATED by tools/gen_tables.py from storage/page.rs and `axv consts` -- do not edit *)",
         "From Coq Require Import NArith.", "Open Scope N_scope.",
         f"Definition aborted_bitmap_size : N := {c['aborted_bitmap_size']}.",
         f"Definition max_tracked_aborted_txs : N := {c['max_tracked_aborted_txs']}."]
    return "\n".join(L) + "\n"


# ------------------------------------------------------------------------------------------
# sql/parser/mod.rs -> Gen/GenPratt.v  (binding powers of the Pratt expression parser)
# ------------------------------------------------------------------------------------------
PRATT_OPS = {"Or": "BOr", "And": "BAnd", "Eq": "BEq", "Neq": "BNeq", "Lt": "BLt", "Gt": "BGt", "Le": "BLe", "Ge": "BGe",
             "Like": "BLike", "Plus": "BPlus", "Minus": "BMinus", "Star": "BMul", "Slash": "BDiv",
             "Percent": "BMod", "Concat": "BConcat"}


def gen_pratt():
    src = read("sql/parser/mod.rs")
    body = fn_body(src, r"fn infix_binding_power\(&mut self\) -> Option<\(u8, u8\)> \{", "infix_binding_power")
    need(re.search(r"Token::Not\s*=>\s*\{\s*let next = self\.__peek_token\(\);", body), "infix_binding_power: NOT look-ahead arm")
    not_arm = fn_body(body, r"Token::Not\s*=>\s*\{", "infix_binding_power NOT arm")
    inner = re.findall(r"((?:Token::\w+\s*\|?\s*)+)=>\s*Some\(\((\d+),\s*(\d+)\)\)", not_arm)
    need(len(inner) == 1 and set(re.findall(r"Token::(\w+)", inner[0][0])) == {"In", "Between", "Like"},
         f"infix_binding_power: NOT look-ahead covers {inner}")
    body = body.replace(not_arm, "{}")
    arms = re.findall(r"((?:Token::\w+\s*\|?\s*)+)=>\s*Some\(\((\d+),\s*(\d+)\)\)", body)
    table = {}
    for toks, l, r in arms:
        for t in re.findall(r"Token::(\w+)", toks):
            need(t not in table, f"infix_binding_power: token {t} listed twice")
            table[t] = (int(l), int(r))
    for t in PRATT_OPS:
        need(t in table, f"infix_binding_power: no arm for Token::{t}")
    known = set(PRATT_OPS) | {"In", "Between", "Is"}
    need(set(table) <= known, f"infix_binding_power: unexpected tokens {set(table) - known}")
    need((int(inner[0][1]), int(inner[0][2])) == table["In"] == table["Between"] == table["Like"],
         "infix_binding_power: NOT IN/BETWEEN/LIKE power differs from IN/BETWEEN/LIKE")
    prefix = fn_body(src, r"fn parse_prefix\(&mut self\) -> ParseResult<Expr> \{", "parse_prefix")
    m = re.search(r"Token::Not\s*=>\s*\{\s*self\.next_token\(\);\s*let expr = self\.parse_expr_bp\((\d+)\)\?;", prefix)
    need(m, "parse_prefix: NOT arm")
    pnot = int(m.group(1))
    mm = re.findall(r"let expr = self\.parse_expr_bp\((\d+)\)\?;\s*(?://[^\n]*\n\s*)*Ok\(Expr::UnaryOp\s*\{\s*op: UnaryOperator::(Plus|Minus)", prefix)
    need({x[1] for x in mm} == {"Plus", "Minus"}, f"parse_prefix: unary +/- arms: {mm}")
    # parse_expr_bp is the depth-bounded wrapper of parse_expr_bp_bounded, which holds the prefix + infix loop
    wrapper = fn_body(src, r"fn parse_expr_bp\(&mut self, min_bp: u8\) -> ParseResult<Expr> \{", "parse_expr_bp")
    need(re.search(r"let result = self\.parse_expr_bp_bounded\(min_bp\);", wrapper) and re.search(r"\n\s*result\s*$", wrapper.rstrip("}").rstrip()),
         "parse_expr_bp: is not a plain wrapper of parse_expr_bp_bounded")
    loop = fn_body(src, r"fn parse_expr_bp_bounded\(&mut self, min_bp: u8\) -> ParseResult<Expr> \{", "parse_expr_bp_bounded")
    need(re.search(r"let mut lhs = self\.parse_prefix\(\)\?;", loop), "parse_expr_bp_bounded: prefix step")
    need(re.search(r"if l_bp < min_bp \{\s*break;", loop), "parse_expr_bp_bounded: stop condition is not `l_bp < min_bp`")
    need(re.search(r"lhs = self\.parse_infix\(lhs, r_bp\)\?;", loop), "parse_expr_bp_bounded: infix step")
    L = ["(* GENERATED by tools/gen_tables.py from sql/parser/mod.rs -- do not edit *)",
         "From Coq Require Import NArith.", "From Axv Require Import Model.PrattOps.", "Open Scope N_scope.",
         "Definition infix_bp (o : pbinop) : N * N :=\n  match o with"]
    for t, c in PRATT_OPS.items():
        L.append(f"  | {c} => ({table[t][0]}, {table[t][1]})")
    L.append("  end.")
    L.append(f"Definition pnot : N := {pnot}.")
    L.append(f"Definition pneg : N := {mm[0][0]}.")
    L.append(f"Definition bp_in : N * N := ({table['In'][0]}, {table['In'][1]}).")
    L.append(f"Definition bp_between : N * N := ({table['Between'][0]}, {table['Between'][1]}).")
    return "\n".join(L) + "\n"


GENERATORS = {"GenWire.v": gen_wire, "GenWal.v": gen_wal, "GenPratt.v": gen_pratt, "GenHeader.v": gen_header}


def main(argv):
    only = argv[1:] or list(GENERATORS)
    rc = 0
    for name in only:
        try:
            text = GENERATORS[name]()
        except TranslatorError as e:
            print(f"TRANSLATOR-ERROR {name}: {e}")
            rc = 2
            continue
        ch = write_if_changed(os.path.join(OUT, name), text)
        print(f"{name}: {'updated' if ch else 'unchanged'} sha={hashlib.sha256(text.encode()).hexdigest()[:12]}")
    return rc


if __name__ == "__main__":
    sys.exit(main(sys.argv))
