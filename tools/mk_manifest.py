#!/usr/bin/env python3
"""Writes /verif/MANIFEST.json from the table below (kept valid at all times)."""
import json, os, subprocess
V = os.path.dirname(os.path.dirname(os.path.abspath(__file__)))
PROPS = ["C%02d" % i for i in range(1, 21)]

CLAIMED = {
 "C20": dict(
   text="Theorem C20_holds (Props/C20.v): request/response round-trip for every well-formed message, frame round-trip and "
        "rejection above the 16 MiB cap, decoders never panic on any byte list, and vector slots requested by Response decoding "
        "never exceed the input length; proved for all inputs over an executable model whose opcode tables are regenerated from "
        "tcp/mod.rs on every run and which is run against the real codec on generated values and malformed bytes.",
   note="Trusted: Coq kernel + vm_compute; translator for opcode/status tables; harness+python generators; allocation observed "
        "through a 3 GiB address-space limit; ragged Rows (rows whose length differs from the column count) are outside the "
        "round-trip hypothesis (the server never builds them).",
   technique="Coq proof over executable model + regenerated tables + differential correspondence (vm_compute vs Rust codec)",
   design="7 (C20)"),
 "C19": dict(
   text="Theorems in Props/C19.v, for all values: chunked text comparison = lexicographic total order (C19_blob_order); varint "
        "decode(encode v)=v for every i64 with the code's shifts and masks (C19_varint_roundtrip); equality is an equivalence, agrees "
        "with the hashed bytes and with the ordering, integers up to 2^53 compare by mathematical value, store/load and same-kind "
        "cast are the identity (C19_outside_known); the full-strength law is refuted on the faithful model (C19_refuted: NaN, "
        "signed zeros, integers above 2^53 - recorded known findings whose witnesses are replayed on the real code every run).",
   note="Trusted: Coq kernel; IEEE-754 conversions/comparisons are modelled on bit patterns and compared with the hardware on a "
        "boundary grid (full cross product) plus random values; SipHash collisions ignored; int/double -> FLOAT rounding casts not "
        "modelled; mixed integer/float comparison is covered by the exact-arithmetic oracle on the grid, not by a theorem.",
   technique="Coq proof (refutation + theorem outside syntactic known classes) over executable model + differential correspondence",
   design="7 (C19)"),
 "C17": dict(
   text="Theorem C17_holds (Props/C17.v): for every block size and every sequence of appends of any sizes, forces, reopens, "
        "crashes, truncations and reads, a read that follows a force/reopen/crash returns exactly the forced prefix of the records "
        "appended since the last truncation, in order, and nothing else (refinement of the block/queue/file mechanism to a list, by "
        "an invariant over operation lists). Layout constants are regenerated from the compiled crate on every run; the model is "
        "run against the real WriteAheadLog/WalReader on generated operation sequences with sizes aimed at block boundaries.",
   note="Trusted: Coq kernel; record byte layout and payload integrity are checked by the harness, not the theorem; the reader's "
        "read-ahead queue is modelled as a sequential read (runs use read-ahead 1,2,4,7); file-system semantics (whole-block "
        "writes, set_len(0)); block size 40960 (fs block 4096).",
   technique="Coq refinement proof (invariant by induction over operation lists) + regenerated layout constants + differential correspondence",
   design="7 (C17)"),
 "C18": dict(
   text="Props/C18.v: the full-strength statement (every snapshot decodes exactly the version it is entitled to, for any chain of "
        "updates/deletes/trims by any transactions) is refuted on the faithful model (C18_refuted: updates are not stamped with the "
        "updater - recorded known finding, pinned by a repository test); C18_outside_known proves it for all schemas, rows, chains and "
        "snapshots when every update is made by the row's creator, plus history integrity of the reverse deltas (apply_delta inverts "
        "add_version) and correctness of the latest version; C18_vacuum_preserves: trimming with any horizon never changes what any "
        "snapshot or the latest-version reader decodes, for every row the engine can build.",
   note="Trusted: Coq kernel; the model is logical (values, NULL bitmaps, deltas) - byte offsets and alignment of the layout are "
        "exercised through build/add_version/decode on all column types and compared value by value with the model and with an "
        "independent list-of-versions oracle (this found and fixed three byte-level/visibility defects); snapshots are explicit values.",
   technique="Coq proof (refutation + theorem outside a syntactic known class, invariant over event lists) + differential correspondence",
   design="7 (C18)"),
 "C04": dict(
   text="Props/C04.v, mechanism level: for every history of begin/commit/abort/record_write the snapshot handed out by begin answers "
        "'committed before me' with exactly the transactions committed at that instant and never with its own or a later id "
        "(C04_snapshot_sound, invariant over operation lists; snapshots are values, hence repeatable); two successful committers "
        "of a common tuple were never concurrent (C04_first_committer_wins, ghost commit timestamps). The coordinator model is run "
        "against the real TransactionCoordinator/Snapshot on random histories and exhaustively on all begin/commit/abort histories "
        "of up to 3-4 transactions with the full visibility matrix. SQL-level interleavings are compared with the reference "
        "database by the sql streams (C03/C05 machinery).",
   note="Trusted: Coq kernel; coordinator operations are atomic in the model (its RwLock-protected table is not modelled "
        "concurrently); vacuum_transactions is excluded from the soundness theorem (its effect on later snapshots belongs to C13); the "
        "SQL layer never records write sets, so first-committer-wins is a statement about the coordinator only.",
   technique="Coq invariant proofs over operation lists + exhaustive small-history differential correspondence",
   design="7 (C04)"),
 "C05": dict(
   text="Props/C05.v: with the binding powers regenerated from the parser source, the Pratt parser is the exact inverse of the "
        "minimal-parentheses printer for expression trees of any depth (C05_parse_print, parametric proof instantiated on the "
        "regenerated table) and the table orders the operators as SQL documents (C05_sql_precedence, re-proved on every run); the "
        "evaluator's AND/OR/NOT/BETWEEN/IN/IS NULL/LIKE forms are SQL three-valued logic for all inputs (C05_eval_3vl). Joins, "
        "aggregates, GROUP BY, DISTINCT, ORDER BY, LIMIT/OFFSET and DML counts are decided by running the engine against RefDB "
        "(Spec/RefDB.v, evaluated inside Coq) on generated populations and queries; 13 defects were found this way and fixed, four "
        "remain as known findings (ORDER BY expression, ORDER BY/HAVING with aggregates, SELECT without FROM).",
   note="Trusted: Coq kernel; translator for the binding-power table; RefDB is a hand-written specification (reviewed, not derived); "
        "lexer, binder, Cascades search and Volcano operators are tied to the spec only by the correspondence stream; the Pratt "
        "theorem covers the core fragment (literals, identifiers, infix operators, NOT, parentheses).",
   technique="Coq proof (parser inverse theorem parametric in regenerated table; 3VL laws) + RefDB differential correspondence in vm_compute",
   design="7 (C05)"),
 "C03": dict(
   text="Props/C03.v, for all histories: in the reference semantics a session that never commits (ROLLBACK, dropped, left open) can "
        "be erased from the history - the committed state, every other session and every answer given to anybody else are identical "
        "(C03_erasure, C03_erasure_chained); a statement, batch or commit that reports an error leaves the state untouched (C03_failure); "
        "at mechanism level, in every reachable coordinator state a snapshot taken after an abort reads none of the aborted "
        "transaction's inserts and ignores its deletes (C03_mechanism).  The UPDATE half is refuted on the faithful model "
        "(C03_update_refuted) and is a recorded finding pinned by a test of the suite.  The engine is tied to the reference on every "
        "run by generated histories with rollbacks, dropped sessions, failing statements and failing batches, with a model-independent "
        "before/after oracle; two defects found this way were fixed (delete after a rolled-back delete, rolled-back DROP TABLE).",
   note="Trusted: Coq kernel; RefDB as specification; Session/TransactionHandle plumbing and storage effects are tied only by the "
        "correspondence stream; row ids are made explicit in the erasure theorem (they are unobservable).",
   technique="Coq proof (history-erasure simulation over RefDB; abort invisibility over coordinator/tuple models) + differential correspondence with before/after oracle",
   design="7 (C03)"),
 "C07": dict(
   text="Props/C07.v, for all histories (any interleaving of any number of sessions, batches, vacuum, reopen; constraints declared at "
        "CREATE TABLE, by ADD COLUMN or by CREATE UNIQUE INDEX): every table of every committed state of the reference satisfies "
        "its NOT NULL, UNIQUE and PRIMARY KEY declarations (C07_holds, invariant by induction over the history, including the "
        "first-committer-wins merge); a rejected statement, batch or commit changes nothing (C07_rejected_as_a_whole); rows of "
        "sessions that never commit cannot influence acceptance (C07_rolled_back_rows_do_not_block).  The engine is tied to the "
        "reference on every run by generated histories with colliding keys, and checked by a model-independent oracle on every "
        "committed state read back.  Seven defects found this way were fixed; update-of-indexed-column (pinned by a suite test), "
        "two concurrent writers of one key and a refused CREATE UNIQUE INDEX remain as known findings.",
   note="Trusted: Coq kernel; RefDB as specification; validator / index maintenance tied by correspondence only. DROP COLUMN excluded "
        "from the invariant theorem (C15).",
   technique="Coq invariant proof over RefDB histories + differential correspondence + independent constraint oracle on observed states",
   design="7 (C07)"),
 "C13": dict(
   text="Props/C13.v: for every tree of stored rows (any stamps, any version chains), every aborted set and horizon, the VACUUM pass "
        "(remove rows of aborted creators and rows with a non-aborted deleter, erase rolled-back deletes, trim versions) yields a "
        "tree from which any later snapshot reads exactly the rows, values and order the vacuum-time snapshot read, and never adds "
        "rows or lengthens a chain (C13_pass); the two snapshot conditions are derived from the coordinator model for every "
        "reachable state (C13_snapshots: judgement when no transaction is active, and reading after vacuum_transactions has "
        "forgotten finished transactions); in the reference VACUUM is the identity at any position of any history (C13_reference). "
        "The engine is tied to this on every run by histories with VACUUM at random points (reads before = reads after, oracle "
        "independent of the model), by update/vacuum cycles with the file size sampled, and by the C18 tuple stream. Five defects "
        "found this way were fixed (rolled-back delete removed by VACUUM, rolled-back DROP, cache capacity zero after a checkpoint, "
        "free-space pointer after shrinking a cell, delete after aborted delete).",
   note="Trusted: Coq kernel; vac_tuple is hand-modelled from vacuum_btree and tied by SQL histories only; page reuse is C11.",
   technique="Coq proof (store-level simulation through the vacuum pass; coordinator snapshot lemmas) + differential correspondence with before/after and file-size oracles",
   design="7 (C13)"),
 "C09": dict(
   text="Props/C09.v: the persisted set of aborted transactions, after any history of aborts and VACUUM clean-ups, is read back at "
        "open as exactly the ids aborted and not cleaned up - for ids below the bitmap bound regenerated from the source "
        "(C09_outside_known, bit-level model of mark / is / clear proved to be a set), the list handed to the coordinator is that "
        "set, and a snapshot listing a transaction as aborted reads none of its inserts and ignores its deletes; the full-strength "
        "statement is refuted with the witness 'abort transaction 8192' (C09_aborted_set_refuted, recorded finding, replayed on "
        "the code every run).  In the reference, flush and reopen are the identity anywhere in any history (C09_reference).  The "
        "engine is tied on every run by histories with close/reopen under changing configurations (reads before = reads after; "
        "fresh ids do not collide), overflow rows, VACUUM, more than 8192 transactions, and by the header facade stream.",
   note="Trusted: Coq kernel; translator for bitmap constants and operation shapes; free list / catalog / counters only through SQL answers.",
   technique="Coq proof (bit-level bitmap = set; refutation witness) + regenerated constants + differential correspondence (SQL reopen histories, header facade)",
   design="7 (C09)"),
 "C15": dict(
   text="Props/C15.v: in the reference, DDL is transactional (a session that does not commit can be erased from any history "
        "whatever it created, dropped or altered; a failing DDL statement changes nothing - C15_transactional) and the catalog is "
        "coherent (C15_catalog): no statement disturbs another table (frame theorem over every statement kind), CREATE succeeds "
        "exactly on a free name with the declared shape, DROP exactly on an existing one and frees the name for any new shape, "
        "ADD COLUMN keeps rows and reads default/NULL, DROP COLUMN removes exactly that position.  The engine is tied on every run "
        "by histories over reused table names with DDL and DML in committed and rolled-back sessions and reopen, with a "
        "model-independent before/after oracle.  ADD COLUMN, DROP COLUMN, schema changes in rolled-back transactions and "
        "drop-then-recreate in a rolled-back transaction are recorded findings; ignored DEFAULTs were fixed.",
   note="Trusted: Coq kernel; RefDB as specification; DdlExecutor / catalog tied by correspondence only.",
   technique="Coq proof (frame and per-statement catalog laws, history erasure) + differential correspondence with before/after oracle",
   design="7 (C15)"),
 "C10": dict(
   text="Props/C10.v: the structural checker run on every dumped tree is sound for trees of any height and fan-out - what it accepts "
        "has strictly increasing keys across its leaves, separators that bound their subtrees, and a descent procedure that finds "
        "exactly the stored keys (C10_checker_sound); the abstract map every tree is compared with is a finite map along any "
        "operation sequence (C10_map_refinement: lookups return the latest payload, scans list present keys once, in order).  On "
        "every run real trees built through the facade (four key types, page/min-keys/siblings settings, random/ascending/"
        "descending/zigzag orders, growing and shrinking updates, delete-all-then-reinsert, heights up to 3) are dumped page by "
        "page; each dump goes through the verified checker inside Coq and through independent python checks (depth, sibling "
        "links, contents), and every answer is compared with the abstract map.  Rows larger than a twentieth of the page break "
        "the tree (recorded finding with witness; two of its causes were fixed), as do integer keys beyond 2^53 (C19 finding).  "
        "Below the tree, the slotted page of storage/core/buffer.rs is modelled operation by operation (Model/Slotted.v: slot "
        "array, cell bytes as written extents, free-space counter and pointer; insert with the defragmentation it triggers - "
        "cells slid to the end in descending offset order -, remove, both cases of replace, drain) and proved to refine a plain "
        "list of cells for every capacity and every operation sequence, valid or not (C10_page_refines_list: an invariant - "
        "live cells pairwise disjoint, inside [free-space pointer, capacity), clear of the slot array, counter = capacity - 2*slots "
        "- cell bytes, everything 8-aligned - is preserved by every step; results are those of the list; a replace that removes "
        "first never fails half-way), with no spurious refusal (C10_page_insert_complete: StorageFull only when the cell does "
        "not fit the bytes the list leaves free).  The model is run against the real page through the facade on random operation "
        "sequences (pages that fill up, fragment, defragment, drain), comparing every result and the full page state (offsets, "
        "pointer, counter, contents) after every operation, next to a model-independent python oracle.",
   note="Trusted: Coq kernel; dump produced by the facade from live pages; key order of each type = python order of the generator "
        "(comparison functions are C19); the balancing algorithm itself (which cells go to which sibling) is not modelled, its "
        "results are judged; the slotted-page model covers drain(..) as the callers use it (whole range, consumed to the end), "
        "cell sizes that are multiples of CELL_ALIGNMENT (what every OwnedCell constructor produces) and treats the u16 slot "
        "entries as unbounded (offsets stay below the capacity, at most 65456, by the invariant).",
   technique="Coq proof (checker soundness by induction over trees; map refinement; slotted-page refinement by invariant over operation lists) + verified checker evaluated on implementation dumps + differential correspondence (trees, slotted page)",
   design="7 (C10)"),
 "C11": dict(
   text="Props/C11.v: the ownership checker run on every dump is sound - if it accepts, every page of the file other than page zero "
        "is exactly one of a tree node, an overflow-chain link or a free-list member, no collection lists a page twice (acyclic "
        "free list, no shared or repeated chain page), nobody owns a page outside the file and the recorded head/tail are the "
        "ends of the free list (C11_checker_sound).  On every run the trees of C10 plus reuse scenarios (build, delete everything, "
        "rebuild with a dump after every insert) are dumped with their overflow chains and free list; each dump goes through the "
        "verified checker inside Coq and through independent python checks (exactly one owner per page, one leaf cell per chain, "
        "pages return to the free list, the file does not grow while untouched free pages exist).  Rows larger than a twentieth "
        "of the page lose pages or alias chains (recorded finding with witness).  The allocator itself is modelled operation by "
        "operation (Model/FreeList.v: allocate_page pops the head of the free list or extends the file, dealloc_page appends at "
        "the tail through the `next` field of the freed pages, head and tail recorded in page zero; a freed B+tree page gets a "
        "fresh header, a freed overflow page keeps its chain link) and proved, for every sequence of allocations, link writes, "
        "B+tree page releases and front-to-back chain releases, to keep the free list acyclic with the recorded ends, every page "
        "owned exactly once, nothing handed out twice (C11_free_list) and to reuse freed pages before the file grows "
        "(C11_free_pages_reused); the restriction to whole chains is necessary (C11_single_link_release_refuted: releasing the "
        "first link alone hands out the second while in use - not reachable through the engine, replayed on the pager).  The model "
        "runs against the real pager after every operation, next to a python queue oracle; SQL histories that drop or empty a "
        "multi-page table right before VACUUM, reuse the pages and VACUUM again are compared with RefDB.",
   note="Trusted: Coq kernel; dump produced by the facade; the allocator model covers the pointer surgery of allocate_page / "
        "dealloc_page and the header reset of MemFrame::dealloc / reinit_as, not the cache traffic around them (C12); that the "
        "engine releases overflow chains front to back (CellDeallocator) is read from the code and checked by the tree dumps, not "
        "proved; SQL-level DROP/VACUUM page reuse is observed through answers (sql-reuse) and file sizes (C13), not page dumps.",
   technique="Coq proof (ownership checker soundness; allocator invariant by induction over operation lists, refutation witness) + verified checker evaluated on implementation dumps + differential correspondence (pager allocator, SQL reuse histories) + independent python oracles",
   design="7 (C11)"),
 "C12": dict(
   text="Props/C12.v: for every cache capacity, every sequence of page allocations, writes, reads, pins, unpins and checkpoints and "
        "every eviction order, the pager answers as a plain memory - a read returns the last value written - or with the explicit "
        "out-of-memory error, after which nothing has changed (C12_cache, refinement proved over an executable model of "
        "read_page / cache_frame / evict / flush); two capacities give equal answers wherever neither is out of memory "
        "(C12_capacity_independent); the reference semantics has no configuration input and a checkpoint is the identity "
        "(C12_reference).  On every run the same SQL workloads execute under four random configurations (page, cache, pool, "
        "minimum keys, siblings) and must agree answer by answer (oracle independent of the model) and with RefDB; pager "
        "operation sequences with 1-6 frames are compared with the cache model and with a python oracle.  Four defects found "
        "this way were fixed (cache capacity reset by a checkpoint, eviction sweep not wrapping, VACUUM reading padding as a "
        "version header, free-space pointer after shrinking a cell).",
   note="Trusted: Coq kernel; cache model hand-written (victim choice abstracted); pool size / page size / balancing parameters "
        "only through the SQL workloads; rows above a twentieth of the page are the recorded B+tree finding.",
   technique="Coq refinement proof (pager cache = plain memory up to explicit OOM) + differential correspondence (pager facade) + cross-configuration agreement oracle on SQL workloads",
   design="7 (C12)"),
 "C06": dict(
   text="Props/C06.v: for every table, every index agreeing with it, every range and residual predicate, the index scan returns "
        "exactly the rows of the sequential scan, each once; the agreement holds initially and is preserved by INSERT (NULL keys "
        "have no entry), DELETE and UPDATE of other columns (C06_index_scan), so along every such history every index agrees with "
        "its table.  UPDATE of the indexed column as the engine performs it is proved NOT to preserve it, with a witness that is "
        "replayed on the code on every run (C06_update_key_refuted, finding pinned by a suite test).  The reference has no planner "
        "and ANALYZE is the identity (C06_reference).  On every run plan-variant pairs (index vs wrapped predicate, before vs after "
        "ANALYZE, both join orders, WHERE vs ON) must return identical rows (oracle independent of the model) and the reference's "
        "answer, with EXPLAIN confirming that different plans ran.  A defect found this way was fixed (statistics deserialised "
        "from an unaligned buffer made every statement after ANALYZE panic).",
   note="Trusted: Coq kernel; set-level index model hand-written; join order / push-down / costing only through variant pairs.",
   technique="Coq proof (index scan = table scan under an agreement invariant preserved by DML; refutation for key updates) + plan-variant differential correspondence",
   design="7 (C06)"),
 "C16": dict(
   text="Props/C16.v: with the binding powers regenerated from the parser source, the expression parser terminates on every token "
        "sequence - fuel 2*tokens+2 is never exhausted, so every rejection is a genuine one and the running time is linear in the "
        "input (C16_parser_terminates, via a mirror that separates 'out of fuel' from 'rejected' and is proved to erase to the "
        "model); the reference is total and a statement answered with an error changes neither the committed state nor any session "
        "(C16_reference_total).  On every run garbage, token soups, truncated / mutated / deeply nested statements and 60 "
        "well-formed statements that must fail are executed in autocommit and inside sessions under a watchdog; no statement may "
        "panic, hang or kill the process, an error must leave the tables unchanged, and the database must keep accepting "
        "statements.  Four defects found this way were fixed (division by zero and negation overflow, process abort on deep "
        "nesting, unreachable!/todo! in the evaluator for sub-queries and misplaced aggregates); integer overflow panics remain as "
        "a known finding.",
   note="Trusted: Coq kernel; translator for the binding-power table; the statement parser, lexer, binder and executor are covered "
        "by the fuzz stream only; hang = no answer within the harness watchdog.",
   technique="Coq termination proof for the Pratt parser on the regenerated table + fuzz correspondence with no-panic / no-hang / no-effect-on-error oracles",
   design="7 (C16)"),
 "C01": dict(
   text="Props/C01.v, for the commit/checkpoint/crash/recovery protocol model (Model/Crash.v: BEGIN/operation/COMMIT/ABORT/END "
        "records, log force at END, checkpoint = force + data file + header + truncate, analysis, id-ordered redo under a recovery "
        "transaction, losers marked aborted) with an arbitrary logical database: for every interleaving of any number of "
        "transactions and every crash point (every prefix of the event list), crash + recovery yields exactly the versions written "
        "by the transactions whose COMMIT record is durable, in the order written, and every transaction whose commit call returned "
        "is durable (C01_durable, by an invariant over all reachable engine states; C01_recover is the disk-level theorem). "
        "Hypotheses: checkpoints happen while no transaction is open (otherwise refuted, C02) and reordered winners commute. "
        "The model is run against the engine at every crash point: with the I/O tap on, a history runs, the image at each prefix of "
        "the file mutations is rebuilt and reopened; forced log records and recovered contents are compared with the model, the "
        "contents also with RefDB (SQL histories with DDL, sessions, batches, checkpoints, VACUUM, long logs, tiny caches) and "
        "with a model-independent id oracle.  Nine engine defects found this way were fixed; crash points at which the data file "
        "is ahead of the last completed checkpoint (inside a checkpoint, after an eviction) are a recorded finding.",
   note="Trusted: Coq kernel + vm_compute; the I/O tap and image rebuild (writes reach the device in issue order, single writes "
        "atomic); RefDB as reference; python generators.  Page stealing and the non-atomic part of a checkpoint are outside the "
        "model (recorded finding); B+tree/pager code that re-executes logged operations is covered by correspondence only.",
   technique="Coq invariant proof over a protocol state machine + differential correspondence at every crash point (I/O-tap crash images vs model and RefDB evaluated by vm_compute)",
   design="7 (C01)"),
 "C02": dict(
   text="Props/C02.v: same model; crash + recovery yields exactly the durable transactions' versions (no transaction in part), and a "
        "transaction that is open or was rolled back (ROLLBACK, dropped session, failed statement or batch) is never durable "
        "(C02_exact); the analysis pass puts a transaction in the redo set iff its COMMIT record is in the log (C02_analysis). "
        "Without the quiescent-checkpoint hypothesis the statement is refuted on the faithful model (C02_checkpoint_open_refuted): a "
        "transaction open at a checkpoint that logs nothing afterwards becomes visible after recovery - reproduced on the engine "
        "and recorded.  Crash-image correspondence as C01 on histories that mix committed, rolled-back, failed and open "
        "transactions over cache sizes 6-10000.",
   note="As C01.  The unstamped-UPDATE finding of C03 makes live answers diverge from RefDB; such histories are not judged here.",
   technique="Coq invariant proof + refutation witness replayed on the engine + crash-image correspondence",
   design="7 (C02)"),
 "C08": dict(
   text="Props/C08.v: recovery of the model is total; a recovery interrupted after any number of its own log records reached the "
        "disk, interrupted again, then completed yields the contents of a single uninterrupted recovery (C08_restartable, any "
        "reachable image, depth two and by the same lemma any depth); recovery leaves an empty log and reopening changes nothing "
        "(C08_reopen); opening a clean image shows exactly what its header says (C08_clean); inside a checkpoint (pages and header written, log "
        "not truncated) the statement is refuted for a non-idempotent CREATE (C08_window_refuted, the recorded finding).  On the engine every crash image is "
        "reopened, probed (DDL + DML on new and existing tables), closed and reopened, and the recovery that ran is itself crashed "
        "at every prefix of its own file mutations and recovered again.",
   note="As C01; additionally the recorded finding C08-catalog-large-cells (CREATE TABLE failing after some recoveries, the B+tree "
        "large-cell defect of C10/C11).",
   technique="Coq proof (restartability from the disk-level recovery theorem) + nested crash-image correspondence",
   design="7 (C08)"),
 "C14": dict(
   text="Props/C14.v, for a lock model of threads that acquire and release reader/writer locks (pager lock and page latches): if every "
        "thread's sequence follows the discipline for one certificate (locks are requested in increasing class, or inside a class "
        "while its gate - a tree's root latch - is held exclusively; a shared latch already held may be re-requested), then for "
        "EVERY schedule no reachable state is deadlocked and every step consumes one action, so "
        "all statements finish (C14_no_deadlock, C14_completion); with parking_lot's fair read the statement is refuted "
        "(C14_fair_read_refuted), and the gate clause cannot be dropped (C14_coupling_rejected) - the fair-read deadlock was reproduced on the engine (one SELECT and one INSERT from two threads hang) and "
        "fixed.  On every run 150 multi-threaded histories (2-6 client threads, pools of 2-8 workers, seeded yield injection at "
        "every lock acquisition) execute; the lock tap's per-thread sequences are checked against the discipline inside Coq for a "
        "certificate computed outside, which extends the no-deadlock conclusion from the observed schedule to all schedules of those sequences; "
        "completion, absence of internal errors, final contents (= effects of the acknowledged transactions) and every read "
        "(whole transactions, a prefix of each writer's commits) are checked by a model-independent oracle.  Lost inserts of two "
        "concurrent writers of one table are a recorded finding.",
   note="Partial where the truth is in the runtime: the theorem covers all schedules of the recorded lock sequences; races that change "
        "the sequences, memory-model effects (Arc::strong_count pinning), locks outside the tap (coordinator tables, pool channels) "
        "and wall-clock bounds are covered by the seeded stress runs only.",
   technique="Coq proof of deadlock freedom for a lock discipline + verified checker evaluated on lock-tap sequences of real multi-threaded runs + serial-order oracle",
   design="7 (C14)"),
}
NOT_YET = "not claimed yet: model and proofs under construction in this session (see DESIGN.md section 10, build order)"

def main():
    commits = subprocess.run(["git", "-C", "/repo", "log", "--format=%h %s", "546821f..HEAD"], capture_output=True, text=True).stdout.splitlines()
    hooks = [c.split()[0] for c in commits if c.split(" ", 1)[1].startswith("verif:")]
    m = {
     "version": 1,
     "setup_cmd": "./setup.sh",
     "hooks": {"guard": "cargo feature `verif` of crate axmosdb (crates/axmos-db/Cargo.toml)",
               "enable": "the harness crate /verif/harness depends on axmosdb with features=[\"verif\"] (path dependency on /repo/crates/axmos-db)",
               "baseline_off_cmd": "cd /repo && cargo nextest run --workspace --no-fail-fast --offline --test-threads 8",
               "source_commits": hooks, "add_only": True},
     "engines": [{"name": "axcheck", "path": "check", "serves_properties": sorted(CLAIMED),
                  "kind_free_text": "Coq 8.16.1 development (coq/theories) + translator (tools/gen_tables.py) + Rust harness (harness/) + python orchestrator (check, lib/, props/)"}],
     "checks": [], "not_applicable": [],
     "notes": "All checks: ./check <id> [--tier quick|thorough]; VERIF_SEED and VERIF_TIER honoured. Fixed defects and open findings: known_findings.json.",
    }
    for p in PROPS:
        if p in CLAIMED:
            c = CLAIMED[p]
            m["checks"].append({
              "property_id": p, "quick_cmd": "./check %s --tier quick" % p, "thorough_cmd": "./check %s --tier thorough" % p,
              "evidence_file": "evidence/%s.json" % p, "engine": "axcheck",
              "replay_cmd_template": "cat {path}",
              "level_claimed": {"category": "proof", "text": c["text"], "design_ref": "DESIGN.md section " + c["design"]},
              "level_note": c["note"], "technique": c["technique"]})
        else:
            m["not_applicable"].append({"property_id": p, "reason": NOT_YET})
    with open(os.path.join(V, "MANIFEST.json"), "w") as f:
        json.dump(m, f, indent=1)

main()
