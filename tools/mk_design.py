#!/usr/bin/env python3
"""Rewrites the generated parts of DESIGN.md (between <!-- BEGIN:x --> and <!-- END:x --> markers) from the sources of truth:
tools/mk_manifest.py (what is claimed), props/*.py (theorems, streams), known_findings.json, seeded/*/meta.json."""
import importlib, json, os, re, sys

V = os.path.dirname(os.path.dirname(os.path.abspath(__file__)))
sys.path.insert(0, V)


def claimed():
    src = open(os.path.join(V, "tools", "mk_manifest.py")).read()
    ns = {}
    exec(src[src.index("CLAIMED = {"):src.index("NOT_YET")], ns)
    return ns["CLAIMED"]


def props():
    return [json.loads(l) for l in open(os.path.join(V, "properties.jsonl"))]


def per_property():
    C = claimed()
    kf = json.load(open(os.path.join(V, "known_findings.json")))
    out = []
    for p in props():
        pid = p["id"]
        sp = importlib.import_module("props." + pid.lower()).SPEC
        out.append("### %s — %s\n" % (pid, p["title"]))
        c = C[pid]
        out.append("**Theorems and what they say.** " + c["text"] + "\n")
        out.append("**Theorem names** (`coq/theories/%s`): %s. **Model files needed to run the correspondence:** %s.\n" % (
            sp.prop_vo.replace("theories/", "")[:-1], ", ".join("`%s`" % t for t in sp.theorems),
            ", ".join("`%s`" % m.replace("theories/", "")[:-1] for m in sp.model_targets)))
        st = []
        for s in sp.streams:
            kind = ("reference stream (Gallina side = specification; a different answer is itself a failing input)" if s.reference
                    else ("oracle-only stream (no model; model-independent oracle)" if not s.runner else "model stream (faithful model vs code)"))
            extra = ""
            if s.post_runner:
                extra = "; what the code produced is also handed to the verified checker `%s` evaluated inside Coq" % s.post_runner
            st.append("`%s` (harness mode `%s`, %s%s%s)" % (s.name, s.mode, kind, ", runner `%s`" % s.runner if s.runner else "", extra))
        out.append("**Tie to the code.** " + "; ".join(st) + ("; regenerated tables: %s" % ", ".join(sp.gen_tables) if sp.gen_tables else "") + ".\n")
        out.append("**Trusted / not covered.** " + c["note"] + "\n")
        op = [k for k in kf if k["property"] == pid and k["status"] == "open"]
        fx = [k for k in kf if k["property"] == pid and k["status"] == "fixed"]
        if op:
            out.append("**Open findings** (each with a witness replayed on every run): " + "; ".join("`%s`" % k["id"] for k in op) + ".\n")
        if fx:
            out.append("**Defects repaired** (`fix:` commits): " + "; ".join("`%s` (%s)" % (k["id"], k.get("commit", "?")) for k in fx) + ".\n")
    return "\n".join(out)


def findings():
    kf = json.load(open(os.path.join(V, "known_findings.json")))
    out = ["Open (the check prints a `KNOWN-FINDING:` line and exits 0; anything outside the class is still a violation):\n",
           "| property | id | class | what fails |", "|---|---|---|---|"]
    for k in kf:
        if k["status"] == "open":
            out.append("| %s | `%s` | %s | %s |" % (k["property"], k["id"], k.get("class", ""), k["what_fails"].replace("|", "/")[:420]))
    out += ["", "Fixed (nothing is suppressed for these; the witness, where there is one, documents the input):\n",
            "| property | id | commit | what failed |", "|---|---|---|---|"]
    for k in kf:
        if k["status"] == "fixed":
            out.append("| %s | `%s` | %s | %s |" % (k["property"], k["id"], k.get("commit", ""), k.get("what_failed", "").replace("|", "/")[:420]))
    return "\n".join(out)


def seeds():
    root = os.path.join(V, "seeded")
    out = ["| seeded for | change | summary | caught by | missed by | note |", "|---|---|---|---|---|---|"]
    for pid in sorted(os.listdir(root)):
        for m in sorted(os.listdir(os.path.join(root, pid))):
            mp = os.path.join(root, pid, m, "meta.json")
            if not os.path.exists(mp):
                continue
            d = json.load(open(mp))
            r = d.get("result") or {}
            out.append("| %s | %s | %s | %s | %s | %s |" % (
                pid, m, (d.get("summary") or "see demonstration.md").replace("|", "/")[:260],
                ", ".join(r.get("caught_by", [])) or "-", ", ".join(r.get("missed_by", [])) or "-", r.get("note", "").replace("|", "/")))
    return "\n".join(out)


def main():
    path = os.path.join(V, "DESIGN.md")
    s = open(path).read()
    for name, fn in (("per-property", per_property), ("findings", findings), ("seeds", seeds)):
        a, b = "<!-- BEGIN:%s -->" % name, "<!-- END:%s -->" % name
        i, j = s.index(a) + len(a), s.index(b)
        s = s[:i] + "\n" + fn() + "\n" + s[j:]
    open(path, "w").write(s)


main()
