#!/bin/bash
# usage: try_seed.sh <patch.diff> <check ids...> : apply a seeded change to /repo, run the checks, undo
P=$1; shift
cd /repo && git apply "$P" || { echo "APPLY FAILED"; exit 2; }
for id in "$@"; do
  (cd /verif && ./check $id 2>&1 | grep -E "^VIOLATION|OK:|FAILED:" | head -3)
done
cd /repo && git checkout -- . && git status --short | head -3
