#!/bin/bash
# usage: goal.sh file.v LINE  -- prints the goal right before LINE (inserts "Show." there) 
f=$1; n=$2
tmp=$(mktemp /tmp/goalXXXX.v)
head -n $((n-1)) "$f" > $tmp
echo "Show." >> $tmp
cd /verif/coq && timeout 120 coqc -Q theories Axv -w none $tmp 2>&1 | tail -${3:-40}
rm -f $tmp ${tmp%.v}.vo ${tmp%.v}.glob ${tmp%.v}.vok ${tmp%.v}.vos /tmp/.goal*.aux
