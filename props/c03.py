"""C03 — ROLLBACK, a failed statement or a failed batch leaves no effects (SQL histories vs RefDB)."""
from lib.runner import Spec, Stream, Case
from lib import sqlgen as G
from props.c05 import canon


def mk_table(rng, tid, constrained):
    # k sits between the indexed id and the updatable columns: an UPDATE of the column right after an
    # indexed one fails in the engine (known finding C07-update-next-to-indexed-column)
    cols = [("id", "INT", constrained, None), ("k", "INT", False, None), ("v", "INT", False, None), ("s", "TEXT", False, None)]
    if rng.random() < 0.4:
        cols.append(("w", "BIGINT", False, None))
    return G.Table(tid, "t%d" % tid, cols, pk=[0] if constrained else None)


def select_all(t):
    return G.Select([("expr", ("col", j)) for j in range(len(t.cols))], ("table", t))


class Gen:
    def __init__(self, rng, feats):
        self.rng, self.feats = rng, feats
        self.h = G.History()
        self.tables = []
        self.next_id = 1
        self.next_tid = 10
        self.ghosts = []     # tables created or dropped inside sessions: read back by name after the session ends
        self.classes = G.ClassSet(self.h)

    def fresh_ids(self, n):
        ids = list(range(self.next_id, self.next_id + n))
        self.next_id += n
        return ids

    def row(self, t, idv):
        rng = self.rng
        r = [G.lit_int(idv), G.rand_lit(rng, "INT", 0.15), G.rand_lit(rng, "INT", 0.15), G.rand_lit(rng, "TEXT", 0.15)]
        if len(t.cols) == 5:
            r.append(G.rand_lit(rng, "BIGINT", 0.15))
        return r

    def stmt(self, t, used_ids, allow_fail, in_session=False):
        """returns (sql, coq, kind)"""
        rng = self.rng
        r = rng.random()
        cols = [(i, c[1]) for i, c in enumerate(t.cols)]
        if r < 0.45:
            n = rng.choice([1, 1, 2, 3])
            ids = self.fresh_ids(n)
            rows = [self.row(t, i) for i in ids]
            kind = "insert"
            if allow_fail and rng.random() < 0.35:
                mode = rng.choice(["dup", "null", "type", "arity"] if t.pk else ["type", "arity"])
                pos = rng.randrange(n)
                if mode == "dup" and used_ids:
                    rows[pos][0] = G.lit_int(rng.choice(used_ids))
                elif mode == "null":
                    rows[pos][0] = G.LIT_NULL
                elif mode == "type":
                    rows[pos][2] = G.lit_text(b"zz")
                else:
                    rows[pos] = rows[pos][:-1]
                kind = "insert-fail:%s:%d/%d" % (mode, pos, n)
                if pos > 0 and in_session:
                    self.classes.add("partial-statement-in-session")
            else:
                used_ids.extend(ids)
            return G.insert_sql(t, rows), G.insert_coq(t, rows), kind
        if r < 0.70:
            i = rng.choice([2, 3])
            if "update-next-to-indexed" in self.feats and t.pk and rng.random() < 0.5:
                i = 1
                self.classes.add("update-next-to-indexed")
            sets = [(i, G.rand_expr(rng, t.cols[i][1], cols, 1, set()))]
            where = G.rand_expr(rng, "BOOLEAN", cols, 1, {"isnull"}) if rng.random() < 0.8 else None
            return G.update_sql(t, sets, where), G.update_coq(t, sets, where), "update"
        if r < 0.88:
            where = G.rand_expr(rng, "BOOLEAN", cols, 1, {"isnull"}) if rng.random() < 0.85 else None
            return G.delete_sql(t, where), G.delete_coq(t, where), "delete"
        if allow_fail:
            return "INSERT INTO nosuch VALUES (1)", "SInsert 99 None [[I 1]]", "unknown-table"
        q = select_all(t)
        return q.sql(), q.coq(), "select"

    def observe(self):
        """appends one full-table read per table in a fresh transaction; returns the action indices"""
        idx = []
        for t in self.tables + [g for g in self.ghosts if g not in self.tables]:
            q = select_all(t)
            idx.append(len(self.h.rust))
            self.h.x(q.sql(), q.coq(), sorted_=True, tag="observe")
        return idx


def gen_case(rng, feats):
    g = Gen(rng, feats)
    nt = rng.choice([1, 2])
    used = {}
    for i in range(nt):
        t = mk_table(rng, i + 1, constrained=(rng.random() < 0.7))
        g.tables.append(t)
        g.h.x(t.create_sql(), t.create_coq())
        used[t.tid] = []
        for _ in range(rng.choice([0, 1, 2])):
            sql, coq, kind = g.stmt(t, used[t.tid], allow_fail=False)
            g.h.x(sql, coq, sorted_=True)
    before = g.observe()
    checks = []   # (condition, before indices, after indices): the reads must agree when the condition holds
    for round_ in range(rng.choice([2, 3, 5])):
        cond = None
        if not g.tables:
            nt_ = mk_table(rng, g.next_tid, constrained=True)
            nt_.name = "t%d" % g.next_tid
            g.next_tid += 1
            g.tables.append(nt_)
            used[nt_.tid] = []
            g.h.x(nt_.create_sql(), nt_.create_coq())
            before = g.observe()
        mode = rng.choice(["session", "session", "auto-fail", "batch", "overlap", "rb-delete-then-dup"])
        t = rng.choice(g.tables)
        if mode == "overlap":
            # an older transaction stays open while a younger unit runs on another table (or the older one only
            # reads); the two end differently
            ka, kb = 300 + round_, 400 + round_
            others = [x for x in g.tables if x is not t]
            g.h.begin(ka)
            if others and rng.random() < 0.6:
                ta = rng.choice(others)
                rows = [g.row(ta, i) for i in g.fresh_ids(rng.choice([1, 2]))]
                g.h.q(ka, G.insert_sql(ta, rows), G.insert_coq(ta, rows), sorted_=True)
            elif rng.random() < 0.7:
                q = select_all(t)
                g.h.q(ka, q.sql(), q.coq(), sorted_=True)
            b_commits = rng.random() < 0.5
            cols = [(i, c[1]) for i, c in enumerate(t.cols)]
            def younger():
                r = rng.random()
                if r < 0.5:
                    where = G.rand_expr(rng, "BOOLEAN", cols, 1, {"isnull"}) if rng.random() < 0.7 else None
                    return G.delete_sql(t, where), G.delete_coq(t, where)
                rows = [g.row(t, i) for i in g.fresh_ids(rng.choice([1, 2]))]
                return G.insert_sql(t, rows), G.insert_coq(t, rows)
            if rng.random() < 0.4:
                sql, coq = younger()
                g.h.x(sql, coq, sorted_=True)            # autocommit while the older transaction is open
                b_commits = True
            else:
                g.h.begin(kb)
                for _ in range(rng.choice([1, 2])):
                    sql, coq = younger()
                    g.h.q(kb, sql, coq, sorted_=True)
                if b_commits:
                    g.h.commit(kb)
                else:
                    g.h.rollback(kb, drop=rng.random() < 0.3)
            mid = g.observe()
            if b_commits:
                g.h.rollback(ka, drop=rng.random() < 0.3)
            else:
                g.h.commit(ka)
            for tt in g.tables:
                used[tt.tid] = list(range(1, g.next_id))
        elif mode == "rb-delete-then-dup":
            # a key whose DELETE was rolled back is still taken
            if t.pk is not None and used[t.tid]:
                key = rng.choice(used[t.tid])
                k = 500 + round_
                g.h.begin(k)
                where = ("bin", "=", ("col", 0), G.lit_int(key))
                g.h.q(k, G.delete_sql(t, where), G.delete_coq(t, where), sorted_=True)
                g.h.rollback(k, drop=rng.random() < 0.3)
                rows = [g.row(t, key)]
                cond = ("if-err", len(g.h.rust))
                g.h.x(G.insert_sql(t, rows), G.insert_coq(t, rows), sorted_=True)
        elif mode == "session":
            k = round_ + 1
            g.h.begin(k)
            local_used = list(used[t.tid])
            n = rng.choice([1, 2, 3, 4])
            had_update = False
            created, dropped = [], []
            for j in range(n):
                if "session-ddl" in feats and rng.random() < 0.35:
                    live = [x for x in g.tables + created if x not in dropped]
                    if rng.random() < 0.5 or not live:
                        nt_ = mk_table(rng, g.next_tid, constrained=(rng.random() < 0.5))
                        nt_.name = "t%d" % g.next_tid
                        g.next_tid += 1
                        created.append(nt_)
                        g.ghosts.append(nt_)
                        g.h.q(k, nt_.create_sql(), nt_.create_coq())
                        rows = [g.row(nt_, i) for i in g.fresh_ids(2)]
                        g.h.q(k, G.insert_sql(nt_, rows), G.insert_coq(nt_, rows), sorted_=True)
                    else:
                        d_ = rng.choice(live)
                        dropped.append(d_)
                        if d_ not in g.ghosts:
                            g.ghosts.append(d_)
                        g.h.q(k, "DROP TABLE %s" % d_.name, "SDrop %d" % d_.tid)
                    continue
                t2 = rng.choice([x for x in g.tables + created if x not in dropped] or g.tables)
                lu = local_used if t2 is t else list(used.get(t2.tid, []))
                sql, coq, kind = g.stmt(t2, lu, allow_fail=("session-fail" in feats and rng.random() < 0.3), in_session=True)
                while kind == "update" and "aborted-update" not in feats:
                    sql, coq, kind = g.stmt(t2, lu, allow_fail=False)
                had_update = had_update or kind == "update"
                g.h.q(k, sql, coq, sorted_=True)
                if rng.random() < 0.3:
                    q = select_all(t2)
                    g.h.q(k, q.sql(), q.coq(), sorted_=True)
            end = rng.choice(["commit", "rollback", "rollback", "drop"])
            if end != "commit" and [d_ for d_ in dropped if d_ in g.tables]:
                pass
            if end == "commit":
                g.tables = [x for x in g.tables + created if x not in dropped]
                for x in created:
                    used.setdefault(x.tid, [])
                g.h.commit(k)
                # ids inserted are now used (recompute conservatively: mark all fresh ids used)
                for tt in g.tables:
                    used[tt.tid] = list(range(1, g.next_id))
            else:
                g.h.rollback(k, drop=(end == "drop"))
                cond = ("always", 0)
                if had_update:
                    g.classes.add("update-in-aborted-transaction")
        elif mode == "auto-fail":
            sql, coq, kind = g.stmt(t, list(used[t.tid]), allow_fail=True)
            cond = ("if-err", len(g.h.rust))
            g.h.x(sql, coq, sorted_=True)
            if not kind.startswith("insert-fail") and kind != "unknown-table":
                used[t.tid] = list(range(1, g.next_id))
        else:
            stmts = []
            lu = list(used[t.tid])
            n = rng.choice([2, 3, 4])
            failpos = rng.randrange(n) if rng.random() < 0.6 else -1
            for j in range(n):
                sql, coq, kind = g.stmt(t, lu, allow_fail=False)
                while kind == "update" and "aborted-update" not in feats:
                    sql, coq, kind = g.stmt(t, lu, allow_fail=False)
                if j == failpos:
                    sql, coq, kind = "INSERT INTO nosuch VALUES (1)", "SInsert 99 None [[I 1]]", "unknown-table"
                stmts.append((sql, coq))
                if kind == "update" and failpos > j:
                    g.classes.add("update-in-aborted-transaction")
            cond = ("if-err", len(g.h.rust))
            g.h.batch(stmts)
            if failpos < 0:
                used[t.tid] = list(range(1, g.next_id))
        after = g.observe()
        if cond:
            checks.append((cond[0], cond[1], before, after))
        before = after
    if rng.random() < 0.35:
        # what was rolled back stays rolled back for every later transaction, also once VACUUM has forgotten the aborted ids
        g.h.simple("V", "AVacuum")
        after = g.observe()
        checks.append(("always", 0, before, after))
    rust, coq = g.h.render()
    return Case(rust, coq, "history", dict(g.classes.meta(), checks=checks))


def oracle(case, il):
    """independent of the model: reads taken in fresh transactions before and after a rolled-back session,
    a failed statement or a failed batch must agree"""
    segs = il.split(" | ")
    for cond, j, before, after in case.meta.get("checks", []):
        if max(after) >= len(segs):
            return "output truncated (%d segments)" % len(segs)
        if cond == "if-err" and not segs[j].startswith("err"):
            continue
        for b, a in zip(before, after):
            if segs[b] != segs[a]:
                return ("state changed across an aborted unit: read %d gave %s, read %d gave %s" % (b, segs[b][:200], a, segs[a][:200]), a)
    return None


def gen_cases(rng, tier):
    out = []
    n = 200 if tier == "quick" else 4000
    for i in range(n):
        feats = set()
        if i % 4 == 1:
            feats |= {"aborted-update"}
        if i % 4 == 2:
            feats |= {"session-fail"}
        if i % 4 == 3:
            feats |= {"session-ddl"}
        out.append(gen_case(rng, feats))
    return [G.tag_key_reuse(c) for c in out]


class C03(Spec):
    id = "C03"
    design_ref = "7 (C03)"
    model_targets = ["theories/Spec/RefDBRun.vo", "theories/Proofs/RefDBProofs.vo", "theories/Proofs/AbortProofs.vo"]
    prop_vo = "theories/Props/C03.vo"
    prop_module = "Props.C03"
    theorems = ["C03_erasure", "C03_erasure_chained", "C03_failure", "C03_mechanism", "C03_update_refuted"]
    rule = ("histories: 1-2 tables (4-5 columns, with or without NOT NULL PRIMARY KEY), then 2-5 rounds, each an explicit session "
            "(1-4 statements from multi-row INSERT / UPDATE / DELETE / CREATE TABLE / DROP TABLE / SELECT, some failing: duplicate key, "
            "NULL into NOT NULL, type error, arity, unknown table; ended by COMMIT, ROLLBACK or dropping the session object), a failing "
            "autocommit statement, or execute_batch with a failing statement at a random position; after every round every table "
            "(including tables created or dropped inside sessions) is read in a fresh transaction; a third of the histories end with "
            "VACUUM and another read of every table.  Oracle independent of the model: "
            "the reads before and after a rolled-back session, a failed statement or a failed batch must be identical.  Every answer is "
            "also compared with RefDB evaluated inside Coq.  distinct = distinct histories; non-trivial = history contains a rollback, "
            "a dropped session or an error")
    trusted_extra = ["RefDB (Spec/RefDB.v) is the reference the erasure theorem is proved about; the engine is tied to it by the sql "
                     "correspondence stream (every answer of every history) and to the mechanism models (Coord, Tuple) by the C04/C18 streams",
                     "modelled, not verified: Session/TransactionHandle plumbing, WAL logging of aborts, B+tree and pager effects of "
                     "aborted writes (space is not reclaimed until VACUUM) - observable only through the answers compared here"]
    streams = [Stream("histories", "sql", ["Base.Bytes", "Model.Values", "Spec.RefDB", "Spec.RefDBRun"], "run_sql_case", gen_cases,
                      oracle=oracle, canon=canon, rust_shards=8, shard=40, reference=True, nontrivial=lambda c, il: " R " in c.rust or " D " in c.rust or "err" in il)]

    def known_class(self, k, case):
        return k.get("class") in case.meta.get("classes", [])


SPEC = C03()
