"""C13 — VACUUM frees space without changing what anyone can see (SQL histories vs RefDB)."""
from lib.runner import Spec, Stream, Case
from lib import sqlgen as G
from props.c05 import canon
from props.c03 import select_all, mk_table


def gen_history(rng, feats):
    h = G.History()
    tables, used, checks = [], {}, []
    classes = G.ClassSet(h)
    next_id = [1]
    next_tid = [1]

    def new_table():
        t = mk_table(rng, next_tid[0], constrained=(rng.random() < 0.5))
        t.name = "t%d" % next_tid[0]
        next_tid[0] += 1
        tables.append(t)
        h.x(t.create_sql(), t.create_coq())
        return t

    def row(t):
        i = next_id[0]
        next_id[0] += 1
        r = [G.lit_int(i), G.rand_lit(rng, "INT", 0.15), G.rand_lit(rng, "INT", 0.15), G.rand_lit(rng, "TEXT", 0.15)]
        if len(t.cols) == 5:
            r.append(G.rand_lit(rng, "BIGINT", 0.15))
        return r

    def stmt(t, allow_update=True):
        cols = [(i, c[1]) for i, c in enumerate(t.cols)]
        r = rng.random()
        if r < 0.4:
            rows = [row(t) for _ in range(rng.choice([1, 2, 3]))]
            return G.insert_sql(t, rows), G.insert_coq(t, rows), "insert"
        if r < 0.7 and allow_update:
            i = rng.choice([2, 3])
            sets = [(i, G.rand_expr(rng, t.cols[i][1], cols, 1, set()))]
            where = G.rand_expr(rng, "BOOLEAN", cols, 1, {"isnull"}) if rng.random() < 0.6 else None
            return G.update_sql(t, sets, where), G.update_coq(t, sets, where), "update"
        where = G.rand_expr(rng, "BOOLEAN", cols, 1, {"isnull"}) if rng.random() < 0.8 else None
        return G.delete_sql(t, where), G.delete_coq(t, where), "delete"

    def observe():
        idx = []
        for t in tables:
            q = select_all(t)
            idx.append(len(h.rust))
            h.x(q.sql(), q.coq(), sorted_=True)
        return idx

    for _ in range(rng.choice([1, 2])):
        new_table()
    for round_ in range(rng.choice([3, 5, 7])):
        mode = rng.choice(["auto", "auto", "session", "session", "ddl", "vacuum", "vacuum"])
        if not tables:
            new_table()
        t = rng.choice(tables)
        if mode == "auto":
            for _ in range(rng.choice([1, 2, 3])):
                sql, coq, kind = stmt(t)
                h.x(sql, coq, sorted_=True)
        elif mode == "session":
            k = round_ + 1
            commit = rng.random() < 0.5
            h.begin(k)
            for _ in range(rng.choice([1, 2, 3])):
                sql, coq, kind = stmt(rng.choice(tables), allow_update=(commit or "aborted-update" in feats))
                if kind == "update" and not commit:
                    classes.add("update-in-aborted-transaction")
                h.q(k, sql, coq, sorted_=True)
            if commit:
                h.commit(k)
            else:
                h.rollback(k, drop=rng.random() < 0.3)
        elif mode == "ddl":
            if len(tables) > 1 and rng.random() < 0.6:
                d = tables.pop(rng.randrange(len(tables)))
                if rng.random() < 0.3:
                    k = 50 + round_
                    h.begin(k); h.q(k, "DROP TABLE %s" % d.name, "SDrop %d" % d.tid); h.rollback(k)
                    tables.append(d)
                else:
                    h.x("DROP TABLE %s" % d.name, "SDrop %d" % d.tid)
            else:
                new_table()
        else:
            before = observe()
            h.simple("V", "AVacuum")
            if rng.random() < 0.25:
                h.simple("O", "AReopen", "cache=10000")
            after = observe()
            checks.append((before, after))
            # usable afterwards
            if tables:
                sql, coq, kind = stmt(rng.choice(tables))
                h.x(sql, coq, sorted_=True)
    before = observe()
    h.simple("V", "AVacuum")
    after = observe()
    checks.append((before, after))
    rust, coq = h.render()
    return Case(rust, coq, "history", dict(classes.meta(), checks=checks))


def gen_cycles(rng, n_rows, cycles):
    """repeated update + vacuum on one table: the file must stop growing"""
    h = G.History()
    t = G.Table(1, "t1", [("id", "INT", False, None), ("v", "INT", False, None), ("s", "TEXT", False, None)])
    h.x(t.create_sql(), t.create_coq())
    rows = [[G.lit_int(i), G.lit_int(0), G.lit_text(b"abcdefghij")] for i in range(1, n_rows + 1)]
    h.x(G.insert_sql(t, rows), G.insert_coq(t, rows), sorted_=True)
    sizes = []
    for c in range(cycles):
        sets = [(1, ("bin", "+", ("col", 1), G.lit_int(1)))]
        h.x(G.update_sql(t, sets, None), G.update_coq(t, sets, None), sorted_=True)
        h.simple("V", "AVacuum")
        sizes.append(len(h.rust))
        h.simple("S", "AFlush")
    q = select_all(t)
    h.x(q.sql(), q.coq(), sorted_=True)
    rust, coq = h.render()
    return Case(rust, coq, "cycles", {"classes": [], "checks": [], "sizes": sizes})


def gen_drop_reuse(rng):
    """pages released by VACUUM after a DROP TABLE are reused by new tables, then VACUUM runs again: nothing may be released
    twice (the DROP is the last commit before the first VACUUM, so its catalog rows are the youngest dead versions)"""
    h = G.History()
    pad = b"abcdefghijklmnopqrstuvwxyz0123456789" * 3
    nid = [1]

    def table(tid):
        t = G.Table(tid, "t%d" % tid, [("id", "INT", False, None), ("v", "INT", False, None), ("s", "TEXT", False, None)])
        h.x(t.create_sql(), t.create_coq())
        return t

    def fill(t, n):
        while n > 0:
            k = min(n, 40)
            rows = []
            for _ in range(k):
                rows.append([G.lit_int(nid[0]), G.lit_int(rng.randint(0, 9)), G.lit_text(pad[:rng.choice([20, 60, 100])])])
                nid[0] += 1
            h.x(G.insert_sql(t, rows), G.insert_coq(t, rows), sorted_=True)
            n -= k

    def read(ts):
        for t in ts:
            q = select_all(t)
            h.x(q.sql(), q.coq(), sorted_=True)

    t1 = table(1); fill(t1, rng.choice([80, 120, 150]))
    t2 = table(2); fill(t2, rng.choice([5, 30]))
    if rng.random() < 0.3:
        h.simple("V", "AVacuum")
    if rng.random() < 0.7:
        h.x("DROP TABLE t1", "SDrop 1")
        live = [t2]
    else:
        h.x(G.delete_sql(t1, None), G.delete_coq(t1, None), sorted_=True)
        live = [t1, t2]
    h.simple("V", "AVacuum")
    t3 = table(3); fill(t3, rng.choice([40, 80]))
    t4 = table(4); fill(t4, rng.choice([10, 40, 80]))
    live += [t3, t4]
    read(live)
    h.simple("V", "AVacuum")
    read(live)
    fill(rng.choice([t3, t4]), 10)
    if rng.random() < 0.5:
        h.simple("O", "AReopen", "cache=10000")
    read(live)
    h.simple("V", "AVacuum")
    read(live)
    rust, coq = h.render()
    return Case(rust, coq, "drop-reuse", {"classes": [], "checks": []})


def gen_open_vacuum(rng):
    """VACUUM while another session holds an open transaction with uncommitted deletes and inserts: the engine aborts that
    transaction before it vacuums (the reference rolls it back explicitly at that point), so nothing it wrote may be treated
    as committed - neither its deletes removed for good nor its inserts kept"""
    h = G.History()
    t = G.Table(1, "t1", [("id", "INT", False, None), ("v", "INT", False, None)])
    h.x(t.create_sql(), t.create_coq())
    n = rng.choice([3, 5, 8])
    rows = [[G.lit_int(i), G.lit_int(i * 10)] for i in range(1, n + 1)]
    h.x(G.insert_sql(t, rows), G.insert_coq(t, rows), sorted_=True)
    q = select_all(t)
    h.begin(1)
    for _ in range(rng.choice([1, 2])):
        w = ("bin", "=", ("col", 0), G.lit_int(rng.randint(1, n)))
        h.q(1, G.delete_sql(t, w), G.delete_coq(t, w), sorted_=True)
    if rng.random() < 0.7:
        r1 = [[G.lit_int(n + 1), G.lit_int(-1)]]
        h.q(1, G.insert_sql(t, r1), G.insert_coq(t, r1), sorted_=True)
    r2 = [[G.lit_int(n + 2), G.lit_int(-2)]]
    h.x(G.insert_sql(t, r2), G.insert_coq(t, r2), sorted_=True)          # another client commits
    h.rust.append("V"); h.coq.append("(ARollback 1, false)"); h.tags.append(None)
    h.rust.append("D 1"); h.coq.append("(AVacuum, false)"); h.tags.append(None)      # the session object is dropped; its transaction is gone already
    h.x(q.sql(), q.coq(), sorted_=True)
    h.simple("V", "AVacuum")
    h.x(q.sql(), q.coq(), sorted_=True)
    if rng.random() < 0.5:
        h.simple("O", "AReopen", "cache=10000")
        h.x(q.sql(), q.coq(), sorted_=True)
    rust, coq = h.render()
    return Case(rust, coq, "open-vacuum", {"classes": [], "checks": []})


def oracle(case, il):
    """independent of the model: reads before and after VACUUM agree; update/vacuum cycles do not grow the file"""
    segs = il.split(" | ")
    for before, after in case.meta.get("checks", []):
        for b, a in zip(before, after):
            if a >= len(segs):
                return "output truncated"
            if segs[b] != segs[a]:
                return ("VACUUM changed a table: read %d gave %s, read %d gave %s" % (b, segs[b][:200], a, segs[a][:200]), a)
    if case.meta.get("sizes"):
        raw = case.meta.get("impl_raw", "").split(" | ")
        sz = []
        for i in case.meta["sizes"]:
            if i >= len(raw) or not raw[i].startswith("size:"):
                return "file size not reported at %d" % i
            sz.append(int(raw[i][5:]))
        half = len(sz) // 2
        if sz[-1] > sz[half]:
            return "file keeps growing over update/vacuum cycles: sizes %s" % sz
    return None


def gen_cases(rng, tier):
    out = []
    n = 160 if tier == "quick" else 3000
    for i in range(n):
        feats = {"aborted-update"} if i % 5 == 1 else set()
        out.append(gen_history(rng, feats))
    for n_rows, cycles in ([(5, 10), (40, 12)] if tier == "quick" else [(5, 10), (40, 12), (200, 20), (3, 40)]):
        out.append(gen_cycles(rng, n_rows, cycles))
    for _ in range(6 if tier == "quick" else 60):
        out.append(gen_drop_reuse(rng))
    for _ in range(8 if tier == "quick" else 80):
        out.append(gen_open_vacuum(rng))
    return [G.tag_key_reuse(c) for c in out]


class C13(Spec):
    id = "C13"
    design_ref = "7 (C13)"
    model_targets = ["theories/Spec/RefDBRun.vo", "theories/Proofs/VacuumProofs.vo", "theories/Model/TupleRun.vo"]
    prop_vo = "theories/Props/C13.vo"
    prop_module = "Props.C13"
    theorems = ["C13_pass", "C13_snapshots", "C13_reference"]
    rule = ("histories: 1-2 tables, 3-7 rounds of autocommit DML, sessions that commit or roll back (inserts, deletes, updates), "
            "CREATE / DROP TABLE (committed and rolled back), and VACUUM at random points, sometimes followed by close/reopen; every "
            "table is read immediately before and after each VACUUM and a statement is executed after it (usability).  Oracle "
            "independent of the model: the reads around each VACUUM are identical.  cycles: UPDATE of every row followed by VACUUM, "
            "10-40 times on 3-200 rows, with the file size sampled after each cycle; oracle: the size at the end does not exceed the "
            "size half-way.  drop-reuse: a multi-page table is dropped (or emptied) as the last commit before a VACUUM, new tables "
            "reuse the released pages, VACUUM runs again (twice), with full reads in between and after a reopen.  open-vacuum: VACUUM runs while a session holds uncommitted deletes and inserts and another "
            "client has committed since; the session is rolled back afterwards; full reads, a second VACUUM, a reopen.  Every answer is also compared with RefDB (where VACUUM is the identity).  non-trivial = history has a "
            "rolled-back or dropped session")
    trusted_extra = ["vac_tuple / vac_store (Proofs/VacuumProofs.v) are written by hand from Catalog::vacuum_btree (schema/catalog.rs) and "
                     "Database::vacuum (lib.rs); they are tied to the code by the SQL histories of this check and, for the row-level "
                     "operations they use (vacuum, undelete, delete, decode_for), by the C18 tuple stream",
                     "VACUUM aborts open transactions in the engine while the reference keeps sessions open: the random histories close "
                     "every session before VACUUM; the open-vacuum histories run VACUUM with an open writer and tell the reference "
                     "to roll that session back at that point",
                     "page-level space reuse (free list) belongs to C11; here only the file size over update/vacuum cycles is observed"]
    streams = [Stream("histories", "sql", ["Base.Bytes", "Model.Values", "Spec.RefDB", "Spec.RefDBRun"], "run_sql_case", gen_cases,
                      oracle=oracle, canon=canon, rust_shards=8, shard=40, reference=True,
                      nontrivial=lambda c, il: " R " in c.rust or " D " in c.rust)]

    def known_class(self, k, case):
        return k.get("class") in case.meta.get("classes", [])


SPEC = C13()
