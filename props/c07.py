"""C07 — UNIQUE, PRIMARY KEY and NOT NULL always hold in committed data (SQL histories vs RefDB)."""
from lib.runner import Spec, Stream, Case
from lib import sqlgen as G
from props.c05 import canon
from props.c03 import select_all

TEXTS = [b"x", b"y", b"z"]


class Gen:
    def __init__(self, rng, feats):
        self.rng, self.feats, self.h = rng, feats, G.History()
        self.classes = G.ClassSet(self.h)
        self.checks = []

    def make_table(self):
        rng = self.rng
        nn_d = rng.random() < 0.5
        cols = [("a", "INT", True, None), ("b", "INT", False, None), ("c", "TEXT", False, None), ("d", "INT", nn_d, None)]
        shape = rng.choice(["pk", "pk+ub", "pk+ubc", "ub", "pk+ix", "ix"])
        pk = [0] if shape.startswith("pk") else None
        uniq = [[1]] if shape.endswith("+ub") or shape == "ub" else ([[1, 2]] if shape.endswith("ubc") else [])
        self.t = G.Table(1, "t1", cols, uniq=uniq, pk=pk)
        self.late_index = [1] if shape.endswith("ix") else None
        self.keycols = set(pk or []) | {i for u in uniq for i in u}
        self.h.x(self.t.create_sql(), self.t.create_coq())

    def val(self, i, allow_null=True):
        rng = self.rng
        if i == 0:
            return G.lit_int(rng.randint(1, 6)) if not (allow_null and rng.random() < 0.06) else G.LIT_NULL
        if i == 1:
            return G.LIT_NULL if rng.random() < 0.2 else G.lit_int(rng.randint(1, 5))
        if i == 2:
            return G.LIT_NULL if rng.random() < 0.15 else G.lit_text(rng.choice(TEXTS))
        return G.LIT_NULL if rng.random() < 0.15 else G.lit_int(rng.randint(0, 3))

    def stmt(self, in_session=False):
        rng, t = self.rng, self.t
        r = rng.random()
        cols = [(i, c[1]) for i, c in enumerate(t.cols)]
        if r < 0.5:
            nrows = rng.choice([1, 1, 2, 3])
            if in_session and nrows > 1:
                if "session-multirow" in self.feats:
                    self.classes.add("partial-statement-in-session")
                else:
                    nrows = 1
            rows = [[self.val(i) for i in range(4)] for _ in range(nrows)]
            return G.insert_sql(t, rows), G.insert_coq(t, rows), "insert"
        if r < 0.75:
            i = rng.choice([0, 1, 2, 3])
            if i in self.keycols and "update-key" not in self.feats:
                i = 3
            if i in self.keycols or (self.index_live and i == 1):
                self.classes.add("update-of-indexed-column")
            e = self.val(i) if rng.random() < 0.7 or t.cols[i][1] != "INT" else ("bin", "+", ("col", i), G.lit_int(1))
            where = ("bin", "=", ("col", 0), G.lit_int(rng.randint(1, 6))) if rng.random() < 0.7 else None
            sets = [(i, e)]
            return G.update_sql(t, sets, where), G.update_coq(t, sets, where), "update"
        where = ("bin", rng.choice(["=", "<", ">="]), ("col", rng.choice([0, 1])), G.lit_int(rng.randint(1, 6))) if rng.random() < 0.85 else None
        return G.delete_sql(t, where), G.delete_coq(t, where), "delete"

    def observe(self):
        q = select_all(self.t)
        self.checks.append(len(self.h.rust))
        self.h.x(q.sql(), q.coq(), sorted_=True)


def gen_case(rng, feats):
    g = Gen(rng, feats)
    g.make_table()
    g.index_live = False
    h = g.h
    for round_ in range(rng.choice([3, 5, 8])):
        if g.late_index and not g.index_live and round_ >= 1 and rng.random() < 0.5:
            h.x("CREATE UNIQUE INDEX ix1 ON t1(b)", "SCreateUnique 1 [1%nat]")
            g.index_live = True
            g.keycols.add(1)
        mode = rng.choice(["auto", "auto", "auto", "session", "vacuum", "rb-delete"] + (["two-sessions"] if "concurrent" in feats else []))
        if mode == "rb-delete":
            # a key whose DELETE was rolled back is still taken; a key whose DELETE committed is free again
            key = rng.randint(1, 6)
            k = 300 + round_
            commits = rng.random() < 0.3
            h.begin(k)
            where = ("bin", "=", ("col", 0), G.lit_int(key))
            h.q(k, G.delete_sql(g.t, where), G.delete_coq(g.t, where), sorted_=True)
            if commits:
                h.commit(k)
            else:
                h.rollback(k, drop=rng.random() < 0.3)
            rows = [[G.lit_int(key)] + [g.val(i) for i in (1, 2, 3)]]
            h.x(G.insert_sql(g.t, rows), G.insert_coq(g.t, rows), sorted_=True)
        elif mode == "auto":
            for _ in range(rng.choice([1, 2, 3])):
                sql, coq, kind = g.stmt()
                h.x(sql, coq, sorted_=True)
        elif mode == "session":
            k = round_ + 1
            h.begin(k)
            had_update = False
            for _ in range(rng.choice([1, 2, 3])):
                sql, coq, kind = g.stmt(True)
                while kind == "update" and "aborted-update" not in feats:
                    sql, coq, kind = g.stmt(True)
                had_update = had_update or kind == "update"
                h.q(k, sql, coq, sorted_=True)
            if rng.random() < 0.5:
                h.commit(k)
            else:
                h.rollback(k, drop=rng.random() < 0.3)
                if had_update:
                    g.classes.add("update-in-aborted-transaction")
        elif mode == "two-sessions":
            g.classes.add("concurrent-writers")
            k1, k2 = 100 + round_, 200 + round_
            h.begin(k1); h.begin(k2)
            key = rng.randint(1, 6)
            for k in (k1, k2):
                rows = [[G.lit_int(key)] + [g.val(i) for i in (1, 2, 3)]]
                h.q(k, G.insert_sql(g.t, rows), G.insert_coq(g.t, rows), sorted_=True)
            order = [k1, k2] if rng.random() < 0.5 else [k2, k1]
            for k in order:
                if rng.random() < 0.8:
                    h.commit(k)
                else:
                    h.rollback(k)
        else:
            h.simple("V", "AVacuum")
        g.observe()
    rust, coq = h.render()
    t = g.t
    uniq = ([t.pk] if t.pk is not None else []) + t.uniq
    meta = {**g.classes.meta(), "checks": g.checks, "uniq": uniq,
            "late": g.late_index, "notnull": [i for i, c in enumerate(t.cols) if c[2] or (t.pk and i in t.pk)]}
    return Case(rust, coq, "history", meta)


def parse_rows(seg):
    body = seg[seg.index("[") + 1:-1]
    return [r.split(",") for r in body.split(";")] if body else []


def oracle(case, il):
    """independent of the model: every committed state read back has no two rows agreeing on a declared key
    (NULLs excepted) and no NULL in a NOT NULL column"""
    segs = il.split(" | ")
    acts = case.rust.split(" | ")[1:]
    uniq = [list(u) for u in case.meta["uniq"]]
    for pos in case.meta["checks"]:
        if pos >= len(segs) or not segs[pos].startswith("rows"):
            return ("committed state cannot be read back: %s" % (segs[pos][:100] if pos < len(segs) else "truncated"), pos)
        us = list(uniq)
        if case.meta["late"] and any(a.startswith("X CREATE UNIQUE INDEX") and s == "ddl" for a, s in zip(acts[:pos], segs[:pos])):
            us.append(case.meta["late"])
        rows = parse_rows(segs[pos])
        for r in rows:
            for i in case.meta["notnull"]:
                if r[i] == "n":
                    return ("NULL in NOT NULL column %d in committed row %s (read %d)" % (i, r, pos), pos)
        for u in us:
            seen = set()
            for r in rows:
                k = tuple(r[i] for i in u)
                if "n" in k:
                    continue
                if k in seen:
                    return ("two committed rows agree on key columns %s: %s (read %d)" % (u, k, pos), pos)
                seen.add(k)
    return None


def gen_cases(rng, tier):
    out = []
    n = 240 if tier == "quick" else 5000
    for i in range(n):
        feats = set()
        if i % 6 == 1:
            feats |= {"update-key"}
        if i % 6 == 2:
            feats |= {"aborted-update"}
        if i % 6 == 3:
            feats |= {"concurrent"}
        if i % 6 == 4:
            feats |= {"session-multirow"}
        out.append(gen_case(rng, feats))
    return [G.tag_key_reuse(c) for c in out]


class C07(Spec):
    id = "C07"
    design_ref = "7 (C07)"
    model_targets = ["theories/Spec/RefDBRun.vo", "theories/Proofs/RefDBProofs.vo", "theories/Proofs/ConstraintProofs.vo"]
    prop_vo = "theories/Props/C07.vo"
    prop_module = "Props.C07"
    theorems = ["C07_holds", "C07_rejected_as_a_whole", "C07_rolled_back_rows_do_not_block"]
    rule = ("histories on one table (a INT NOT NULL, b INT, c TEXT, d INT [NOT NULL]) with PRIMARY KEY (a) / UNIQUE (b) / UNIQUE (b, c) "
            "declared at CREATE TABLE or by CREATE UNIQUE INDEX after data exists; 3-8 rounds of autocommit statements, explicit sessions "
            "(commit / rollback / drop), two overlapping sessions inserting the same key, VACUUM; key values from a pool of 6 so that "
            "inserts collide, NULLs in nullable key columns, updates to and away from key values, NOT NULL violations by INSERT and "
            "UPDATE, delete and re-insert.  After every round the table is read back.  Oracle independent of the model: no two "
            "committed rows agree on a declared key (NULLs excepted), no NULL in a NOT NULL column, and the table is readable.  Every "
            "answer (acceptance, rejection, counts, rows) is also compared with RefDB evaluated inside Coq.  non-trivial = some statement "
            "was rejected")
    trusted_extra = ["RefDB (Spec/RefDB.v) is the reference the invariant theorem is proved about; the engine's validator, index "
                     "maintenance and MVCC visibility of index entries are tied to it only by the correspondence stream and the oracle",
                     "ALTER TABLE ... ADD CONSTRAINT is not generated (the parser rejects a constraint name); FOREIGN KEY is out of scope of C07"]
    streams = [Stream("histories", "sql", ["Base.Bytes", "Model.Values", "Spec.RefDB", "Spec.RefDBRun"], "run_sql_case", gen_cases,
                      oracle=oracle, canon=canon, rust_shards=8, shard=40, reference=True,
                      nontrivial=lambda c, il: "err" in il)]

    def known_class(self, k, case):
        if k.get("class") == "failed-create-unique-index":
            # the CREATE UNIQUE INDEX of the history was refused (the data has duplicates)
            acts = case.rust.split(" | ")[1:]
            outs = case.meta.get("impl", "").split(" | ")
            return any(a.startswith("X CREATE UNIQUE INDEX") and o.startswith("err") for a, o in zip(acts, outs))
        return k.get("class") in case.meta.get("classes", [])


SPEC = C07()
