"""C14 — statements issued from several threads all finish and stay correct."""
import re
from lib.runner import Spec, Stream, Case
from props.c05 import canon as sql_canon


def ins(table, rows):
    return "INSERT INTO %s VALUES %s" % (table, ", ".join("(%d, %d)" % r for r in rows))


def gen_case(rng, tier, same_table=False):
    """2-6 client threads on one database: at most one writer thread per table (autocommit inserts and sessions that
    commit or roll back), any number of readers of any table.  Everything the oracle needs is computed here."""
    ntab = rng.choice([1, 2, 3])
    tables = ["t%d" % (i + 1) for i in range(ntab)]
    initial = {t: [(i + 1, 0) for i in range(rng.choice([0, 3, 6]))] for t in tables}
    setup = []
    for t in tables:
        setup.append("X CREATE TABLE %s (id INT, v INT)" % t)
        if initial[t]:
            setup.append("X " + ins(t, initial[t]))
    scripts, meta_threads = [], []
    nid = [1000]
    writers = list(tables) if not same_table else [tables[0], tables[0]]
    rng.shuffle(writers)
    for t in writers[:rng.choice([1, 2, 3]) if not same_table else 2]:
        acts, units, own_reads = [], [], []      # units: list of (rows, committed?) in order
        for _ in range(rng.choice([3, 6, 10])):
            kind = rng.choice(["auto", "auto", "auto", "session", "rollback"])
            n = rng.choice([1, 1, 2])
            rows = [(nid[0] + i, rng.randrange(100)) for i in range(n)]
            nid[0] += n
            if kind == "auto":
                acts.append("X " + ins(t, rows)); units.append((rows, True))
            else:
                acts.append("B")
                rows2 = [(nid[0], 7)]; nid[0] += 1
                acts.append("Q " + ins(t, rows)); acts.append("Q " + ins(t, rows2))
                if kind == "session":
                    acts.append("C"); units.append((rows + rows2, True))
                else:
                    acts.append("R"); units.append((rows + rows2, False))
            if rng.random() < 0.3:
                acts.append("P %d" % rng.randrange(300))
            if rng.random() < 0.5:
                acts.append("X! SELECT * FROM %s" % t)
                own_reads.append((len([a for a in acts if not a.startswith("P ")]) - 1, len(units)))
        scripts.append(" | ".join(acts))
        meta_threads.append({"role": "writer", "table": t, "units": units, "own_reads": own_reads})
    for _ in range(rng.choice([1, 2, 3])):
        acts = []
        for _ in range(rng.choice([4, 8, 12])):
            acts.append("X! SELECT * FROM %s" % rng.choice(tables))
            if rng.random() < 0.3:
                acts.append("P %d" % rng.randrange(300))
        scripts.append(" | ".join(acts))
        meta_threads.append({"role": "reader"})
    order = list(range(len(scripts)))
    rng.shuffle(order)
    scripts = [scripts[i] for i in order]
    meta_threads = [meta_threads[i] for i in order]
    seed = rng.randrange(1, 2 ** 40) if rng.random() < 0.8 else 0
    cfg = "cache=10000,pool=%d" % rng.choice([2, 4, 8])
    rust = "mt %s %s %d 20000 | %s || %s" % (cfg, ",".join(tables), seed, " | ".join(setup), " || ".join(scripts))
    classes = ["concurrent-writers-same-table"] if same_table else []
    return Case(rust, None, "same-table" if same_table else "threads",
                {"tables": tables, "initial": initial, "threads": meta_threads, "classes": classes, "class_pos": {}})


def gen_big_case(rng, tier):
    """multi-page tables (125-150 initial rows with a 20-byte text, primary key on half of them): writers insert 10 rows
    per statement so that leaves split while readers scan.  Below a tree's root, writers take latches in both directions under
    the root's write latch: the gate clause of the discipline."""
    tables = ["t1", "t2"]
    initial, setup = {}, []
    nid = [1]
    for t in tables:
        pk = rng.random() < 0.5
        setup.append("X CREATE TABLE %s (id INT%s, v INT, s TEXT%s)" % (t, " NOT NULL" if pk else "", ", PRIMARY KEY (id)" if pk else ""))
        rows = []
        for _ in range(rng.choice([5, 6])):
            chunk = [(nid[0] + i, (nid[0] + i) % 7) for i in range(25)]
            nid[0] += 25
            setup.append("X INSERT INTO %s VALUES %s" % (t, ", ".join("(%d, %d, 'abcdefghijabcdefghij')" % r for r in chunk)))
            rows += chunk
        initial[t] = rows
    scripts, meta_threads = [], []
    for t in tables[:rng.choice([1, 2])]:
        acts, units = [], []
        for _ in range(rng.choice([3, 5])):
            rows = [(nid[0] + i, rng.randrange(7)) for i in range(10)]
            nid[0] += 10
            acts.append("X INSERT INTO %s VALUES %s" % (t, ", ".join("(%d, %d, 'abcdefghijabcdefghij')" % r for r in rows)))
            units.append((rows, True))
        scripts.append(" | ".join(acts))
        meta_threads.append({"role": "writer", "table": t, "units": units})
    for _ in range(rng.choice([2, 3])):
        acts = ["X! SELECT id, v FROM %s" % rng.choice(tables) for _ in range(rng.choice([4, 8]))]
        scripts.append(" | ".join(acts))
        meta_threads.append({"role": "reader"})
    order = list(range(len(scripts)))
    rng.shuffle(order)
    scripts = [scripts[i] for i in order]
    meta_threads = [meta_threads[i] for i in order]
    rust = "mt cache=10000,pool=%d %s %d 20000 | %s || %s" % (rng.choice([2, 4, 8]), ",".join(tables), rng.randrange(1, 2 ** 40),
                                                             " | ".join(setup), " || ".join(scripts))
    return Case(rust, None, "big", {"tables": tables, "initial": initial, "threads": meta_threads, "classes": [], "class_pos": {}})


def gen_cases(rng, tier):
    n = {"quick": 150, "search": 400}.get(tier, 2500)
    out = [gen_case(rng, tier) for _ in range(n)]
    out += [gen_case(rng, tier, same_table=True) for _ in range(4 if tier == "quick" else 40)]
    out += [gen_big_case(rng, tier) for _ in range(12 if tier == "quick" else 150)]
    return out


_ROW = re.compile(r"(-?\d+),(-?\d+)")


def rows_of(ans):
    """rows!:2[1,0;2,0] -> set of (id, v)"""
    if not ans.startswith("rows"):
        return None
    body = ans[ans.index("[") + 1:ans.rindex("]")]
    return set((int(a), int(b)) for a, b in _ROW.findall(body)) if body else set()


def parse(raw):
    secs = raw.split(" || ")
    if len(secs) < 3 or not secs[-1].startswith("locks") or not secs[-2].startswith("final "):
        return None
    return secs[0].split(" | "), [s.split(" | ") for s in secs[1:-2]], secs[-2][6:], secs[-1][6:]


def oracle(case, il):
    raw = case.meta.get("impl_raw", il)
    if raw.startswith("hang") or raw.startswith("panic"):
        return ("the whole case did not return: %s" % raw[:200], 0)
    p = parse(raw)
    if p is None:
        return ("unreadable answer %s" % raw[:200], 0)
    setup, threads, final, locks = p
    m = case.meta
    for i, t in enumerate(threads):
        if t == ["hang"]:
            return ("client thread %d never returned (deadlock or lost worker)" % i, 0)
        for a in t:
            if a.startswith("err") or a in ("clientpanic", "nosession"):
                return ("client thread %d: a statement failed for an internal reason: %s" % (i, a), 0)
    # contents every serial order defines: initial rows plus the rows of every committed unit
    writer_of = {}
    for tm in m["threads"]:
        if tm["role"] == "writer":
            writer_of.setdefault(tm["table"], []).append(tm)
    expect = {}
    for t in m["tables"]:
        rows = set(m["initial"][t])
        for tm in writer_of.get(t, []):
            for unit, committed in tm["units"]:
                if committed:
                    rows |= set(unit)
        expect[t] = rows
    got = {}
    for part in re.split(r",(?=t\d+=)", final):
        n, _, v = part.partition("=")
        got[n] = rows_of(v)
    for t in m["tables"]:
        if got.get(t) != expect[t]:
            missing = sorted(expect[t] - (got.get(t) or set()))[:6]
            extra = sorted((got.get(t) or set()) - expect[t])[:6]
            return ("final contents of %s are not those of any serial order of the acknowledged transactions: missing %s, unexpected %s"
                    % (t, missing, extra), 0)
    # every read sees, per writer, the units of a prefix of its committed units, whole
    for i, (tm, answers) in enumerate(zip(m["threads"], threads)):
        script = case.rust.split(" || ")[1 + i].split(" | ")
        acts = [a for a in script if not a.startswith("P ")]
        own = dict(tm.get("own_reads", [])) if tm.get("role") == "writer" else {}
        for ai, (a, ans) in enumerate(zip(acts, answers)):
            if not (a.startswith("X! SELECT * FROM ") or a.startswith("X! SELECT id, v FROM ")):
                continue
            t = a.split()[-1]
            seen = rows_of(ans)
            if ai in own and seen is not None and t == tm.get("table") and len(writer_of.get(t, [])) == 1:
                # the only writer of a table reads it after its own acknowledged commits: every serial order that respects
                # the thread's own program order shows exactly those
                must = set(m["initial"][t])
                for unit, committed in tm["units"][:own[ai]]:
                    if committed:
                        must |= set(unit)
                if seen != must:
                    return ("client thread %d: after its own acknowledged commits its read of %s misses %s and shows unexpected %s"
                            % (i, t, sorted(must - seen)[:6], sorted(seen - must)[:6]), 0)
            if seen is None:
                return ("client thread %d: read of %s answered %s" % (i, t, ans[:80]), 0)
            if not set(m["initial"][t]) <= seen:
                return ("client thread %d: a read of %s misses initial rows" % (i, t), 0)
            rest = seen - set(m["initial"][t])
            for w in writer_of.get(t, []):
                ended = False
                for unit, committed in w["units"]:
                    part = rest & set(unit)
                    if not committed:
                        if part:
                            return ("client thread %d: a read of %s shows rows of a rolled-back transaction: %s" % (i, t, sorted(part)), 0)
                        continue
                    if part and part != set(unit):
                        return ("client thread %d: a read of %s shows a transaction in part: %s of %s" % (i, t, sorted(part), unit), 0)
                    if part and ended:
                        return ("client thread %d: a read of %s shows a later transaction of a writer without an earlier one" % (i, t), 0)
                    if not part:
                        ended = True
                    rest -= part
            if rest and len(writer_of.get(t, [])) <= 1:
                return ("client thread %d: a read of %s shows rows nobody committed: %s" % (i, t, sorted(rest)[:6]), 0)
    return None


def measure(case, raw):
    p = parse(raw)
    if p is None:
        return {"unreadable_cases": 1}
    setup, threads, final, locks = p
    progs = lock_programs(locks)
    return {"client_threads": len(threads), "statements": sum(len(t) for t in threads), "tapped_threads": len(progs),
            "lock_events": sum(len(x) for x in progs),
            "latch_held_while_requesting": sum(1 for x in progs for i, e in enumerate(x) if e[0] == "a" and _held_before(x, i))}


def _held_before(seq, i):
    held = 0
    for k, o, m in seq[:i]:
        held += 1 if k == "a" else -1
    return held > 0


def lock_programs(locks):
    """-> list of per-thread programs [(kind, obj, mode)]"""
    progs = []
    for part in locks.split(" ; "):
        if ": " not in part:
            continue
        seq = []
        for e in part.split(": ", 1)[1].split():
            if e[0] == "a":
                seq.append(("a", int(e[1:-1]), e[-1]))
            else:
                seq.append(("r", int(e[1:]), ""))
        progs.append(seq)
    return progs


def certificate(progs):
    """classes and gates under which the recorded sequences follow the discipline of Props/C14.v, if there are any: the
    strongly connected components of the observed held->requested edges are the classes (numbered along a topological
    order of the condensation), and a component with more than one lock gets as gate a lock that was held exclusively
    at every acquisition inside it.  Computed here, checked inside Coq - not trusted."""
    occ, objs = [], set()
    for seq in progs:
        held = []
        for k, o, m in seq:
            objs.add(o)
            if k == "a":
                if not (m == "r" and (o, "r") in held):
                    ws = frozenset(h for h, hm in held if hm == "w")
                    for h, _ in held:
                        occ.append((h, o, ws))
                held.append((o, m))
            else:
                for i in range(len(held) - 1, -1, -1):
                    if held[i][0] == o:
                        del held[i]
                        break
    succ = {o: set() for o in objs}
    for h, o, ws in occ:
        if h != o:
            succ[h].add(o)
    index, low, onst, st, comp_of, comps = {}, {}, set(), [], {}, []
    counter = 0
    for root in sorted(objs):                      # Tarjan, iterative
        if root in index:
            continue
        index[root] = low[root] = counter; counter += 1; st.append(root); onst.add(root)
        work = [(root, iter(sorted(succ[root])))]
        while work:
            v, it = work[-1]
            advanced = False
            for w in it:
                if w not in index:
                    index[w] = low[w] = counter; counter += 1; st.append(w); onst.add(w)
                    work.append((w, iter(sorted(succ[w])))); advanced = True
                    break
                elif w in onst:
                    low[v] = min(low[v], index[w])
            if advanced:
                continue
            work.pop()
            if work:
                low[work[-1][0]] = min(low[work[-1][0]], low[v])
            if low[v] == index[v]:
                comp = []
                while True:
                    w = st.pop(); onst.discard(w); comp.append(w)
                    if w == v:
                        break
                for w in comp:
                    comp_of[w] = len(comps)
                comps.append(comp)
    ncomp = len(comps)                             # components come out in reverse topological order
    cls = {o: ncomp - comp_of[o] for o in objs}
    cand = {}
    for h, o, ws in occ:
        if h != o and comp_of[h] == comp_of[o]:
            c = cls[o]
            cand[c] = ws if c not in cand else (cand[c] & ws)
    gate = {c: min(ws) for c, ws in cand.items() if ws}
    return cls, gate


def post(case, raw):
    p = parse(raw)
    if p is None:
        return []
    progs = [s for s in lock_programs(p[3]) if s]
    if not progs:
        return []
    cls, gate = certificate(progs)
    classes = "[%s]" % "; ".join("(%d, %d)" % (o, c) for o, c in sorted(cls.items()))
    gates = "[%s]" % "; ".join("(%d, %d)" % (c, g) for c, g in sorted(gate.items()))
    terms = "[%s]" % "; ".join("[%s]" % "; ".join(("%s %d" % ({"aw": "aw", "ar": "ar"}[k + m], o)) if k == "a" else "rl %d" % o
                                                    for k, o, m in seq) for seq in progs)
    return ["%s %s %s" % (classes, gates, terms)]


class C14(Spec):
    id = "C14"
    design_ref = "7 (C14)"
    model_targets = ["theories/Model/LocksRun.vo"]
    prop_vo = "theories/Props/C14.vo"
    prop_module = "Props.C14"
    theorems = ["C14_no_deadlock", "C14_completion", "C14_fair_read_refuted", "C14_coupling_rejected"]
    rule = ("one case = one multi-threaded run: 2-6 client threads (at most one writer per table: autocommit inserts, sessions that "
            "commit or roll back; readers of any table), pool of 2/4/8 workers, seeded yield injection at every lock and latch "
            "acquisition, random pauses.  Oracle independent of any model: every statement returns (20 s watchdog), none fails, the "
            "final contents are the initial rows plus the rows of every committed transaction, every read shows whole transactions "
            "and a prefix of each writer's commits.  Verified checker: the lock sequences recorded by the lock tap follow the "
            "discipline of Props/C14.v for a rank certificate, so no schedule of those sequences deadlocks.  distinct = distinct "
            "case lines (each run is also a distinct schedule); non-trivial = every case")
    trusted_extra = ["the lock tap (feature verif: multithreading/frames.rs ReadLatch/WriteLatch, macros/make_shared.rs SharedPager) reports "
                     "every acquisition and release of page latches and of the pager lock; other locks (coordinator tables, pool channels) "
                     "are short critical sections that are not nested with those and are not in the model",
                     "the theorem quantifies over all schedules of the recorded sequences; which sequences a run produces depends on the "
                     "schedule, so races that change the sequences themselves, memory-model effects (Arc::strong_count pinning in "
                     "Frame::is_free) and wall-clock bounds are observed by the stress runs only",
                     "certificates (classes, gates) are computed in python and only checked (inside Coq) - they are not trusted"]
    streams = [Stream("threads", "mt", ["Model.Locks", "Model.LocksRun"], None, gen_cases, oracle=oracle, rust_shards=4,
                      post=post, post_runner="check_locks_case", shard=10, measure=measure, mem_gb_per_mb=0.4)]

    def known_class(self, k, case):
        return k.get("class") in case.meta.get("classes", [])


SPEC = C14()
