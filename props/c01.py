"""C01 — acknowledged commits survive a crash at any later instant (crash images rebuilt from the I/O tap)."""
from lib.runner import Spec, Stream, Case
from lib import crashgen as CG

RULE = ("crash points = prefixes of the sequence of file mutations (create, write, truncate, sync) reported by the I/O tap in "
        "DBFile while a generated SQL history runs; the image at each point is rebuilt in a scratch directory and opened with "
        "Database::open, every table is read.  distinct = distinct (history, crash point) pairs are counted as evaluations of one "
        "case line; non-trivial = every case (each has acknowledged commits before some crash point)")

TRUSTED = ["the I/O tap (feature verif, io/disk/mod.rs) reports every mutation the engine issues through DBFile; the image of a "
           "prefix is what a process death at that instant leaves, assuming writes reach the device in issue order (O_DIRECT) - "
           "device-level reordering or tearing of a single write is not exhibited",
           "RefDB (Spec/RefDB.v) evaluated inside Coq assigns the contents to the acknowledged transactions; Model/Crash.v is the "
           "protocol model the theorems are about, tied to the engine by the protocol stream (forced log records and recovered "
           "contents at every crash point outside the recorded windows)",
           "modelled, not verified: byte layout of log and pages (C17, C10, C11, C18), page stealing and the non-atomic part of a "
           "checkpoint (recorded finding *-crash-inside-checkpoint), the B+tree code that re-executes the logged operations"]


def first_diff_segment(case):
    il, ml = case.meta.get("impl", ""), case.meta.get("model") or ""
    a, b = il.split(" | "), ml.split(" | ")
    for x, y in zip(a, b):
        if x != y:
            return x
    return ""


def known_class(k, case):
    cls = k.get("class")
    seg = first_diff_segment(case)
    if cls == "crash-inside-checkpoint":
        return "~CRASHW@" in seg
    if cls == "checkpoint-with-open-transaction":
        return cls in case.meta.get("classes", []) and "~CRASH@" in seg and " got " in seg
    if cls == "catalog-large-cells":
        return "probe(CREATE=>err:overflowframe)" in seg
    return False


def images(profiles, quick_n, thorough_n, nested="0", points="all", big=0):
    def gen(rng, tier):
        n = quick_n if tier == "quick" else thorough_n
        out = []
        for i in range(n):
            prof = set(profiles[i % len(profiles)])
            pts = points
            if "bulk" in prof and tier == "quick":
                pts = "b2"
            out.append(CG.gen_case(rng, prof, pts, nested))
        for i in range(big if tier == "quick" else big * 4):
            out.append(CG.gen_case(rng, set(profiles[0]) | {"steal", "big"}, "s%d:%d" % (23 if tier == "quick" else 7, i), nested, kind="steal"))
        return out
    return gen


def simple(quick_n, thorough_n, nested="0"):
    def gen(rng, tier):
        n = {"quick": quick_n, "search": thorough_n}.get(tier, thorough_n)
        # (CG.gen_longlog_case is not used: more than ~300 inserted rows make the catalog rows outgrow what the B+tree
        #  handles - recorded finding C10-large-cells - so logs beyond one data block are exercised at WAL level by C17)
        return [CG.gen_simple_case(rng, "all", nested) for _ in range(n)]
    return gen


def protocol(quick_n, thorough_n):
    def gen(rng, tier):
        return [CG.gen_protocol_case(rng) for _ in range(quick_n if tier == "quick" else thorough_n)]
    return gen


REFDB = ["Base.Bytes", "Model.Values", "Spec.RefDB", "Spec.RefDBRun"]
CRASH = ["Base.Bytes", "Model.Crash", "Model.CrashRun"]


class C01(Spec):
    id = "C01"
    design_ref = "7 (C01)"
    model_targets = ["theories/Spec/RefDBRun.vo", "theories/Model/CrashRun.vo"]
    prop_vo = "theories/Props/C01.vo"
    prop_module = "Props.C01"
    theorems = ["C01_durable", "C01_recover"]
    rule = RULE
    trusted_extra = TRUSTED
    streams = [
        Stream("images", "crash", REFDB, "run_crash_case",
               images([[], ["ddl"], ["ckpt"], ["bulk"], ["ckpt", "ddl", "vacuum"], ["bulk", "ckpt"]], 90, 600, big=3),
               canon=CG.model_canon, canon_case=CG.make_canon(check_flags=False, check_reopen=True), rust_shards=16, shard=3, reference=True, measure=CG.measure),
        Stream("simple", "crash", [], None, simple(60, 600), oracle=CG.simple_oracle, rust_shards=16, measure=CG.measure),
        Stream("protocol", "crash", CRASH, "run_protocol_case", protocol(60, 800),
               canon=CG.protocol_canon_model, canon_case=CG.protocol_canon_case, rust_shards=16, shard=20, measure=CG.measure),
    ]

    def known_class(self, k, case):
        return known_class(k, case)


SPEC = C01()
