"""C11 — every page has exactly one owner; freed pages are reused, never lost (tree facade dumps + verified checker)."""
from lib.runner import Spec, Stream, Case
from props.c05 import canon as sql_canon
from props import c10


def pages_of(d):
    """tree node ids, overflow links (per chain) and free list of one parsed dump"""
    tree = sorted(d["pages"])
    chains = {}
    bad = None
    for owner, first, chain in d["chains"]:
        if chain is None:
            bad = "overflow chain starting at page %d (cell on page %d) does not end" % (first, owner)
            continue
        # interior cells are copies of leaf cells and point at the same chain: a chain is owned by the leaf cell
        if d["pages"][owner]["leaf"]:
            chains.setdefault(first, []).append(chain)
        else:
            chains.setdefault(first, chains.get(first, []))
    return tree, chains, bad


def ownership_errors(d):
    if d["free"] is None:
        return "free list cannot be walked"
    tree, chains, bad = pages_of(d)
    if bad:
        return bad
    owner = {}
    for p in tree:
        owner.setdefault(p, []).append("tree")
    for first, cs in chains.items():
        if len(cs) > 1:
            return "overflow chain starting at page %d is referenced by %d leaf cells" % (first, len(cs))
        if len(cs) == 0:
            return "overflow chain starting at page %d is referenced only by a separator, no leaf cell owns it" % first
        for p in cs[0]:
            owner.setdefault(p, []).append("overflow")
    fl = d["free"]["list"]
    for p in fl:
        owner.setdefault(p, []).append("free")
    total = d["free"]["total"]
    for p in range(1, total):
        o = owner.get(p, [])
        if len(o) != 1:
            return "page %d of %d has owners %s" % (p, total, o or "none (lost)")
    for p in owner:
        if not 1 <= p < total:
            return "page %d is owned by %s but the file has %d pages" % (p, owner[p], total)
    if (fl and (d["free"]["head"] != fl[0] or d["free"]["tail"] != fl[-1])) or (not fl and (d["free"]["head"] is not None or d["free"]["tail"] is not None)):
        return "free list %s does not match its recorded head %s / tail %s" % (fl[:6], d["free"]["head"], d["free"]["tail"])
    return None


def gen_reuse(rng, idx):
    """insert, remove everything, insert the same again: the second build must fit in the pages freed by the first"""
    kind = "biguint"
    page = rng.choice([4096, 8192])
    cfg = "%d,2000,%d,%d" % (page, rng.choice([3, 4]), rng.choice([1, 2]))
    n = rng.choice([60, 150, 300])
    keys = sorted(rng.sample(range(0, 10 ** 6), n))
    rank = {k: i for i, k in enumerate(keys)}
    order = list(keys); rng.shuffle(order)
    pay = {k: (rng.choice([0, 5, 20, 60, 120]), rng.randrange(256)) for k in keys}
    rust, coq, expect, dumps = [], [], [], []
    model = {}

    def ins():
        for k in order:
            l, s = pay[k]
            rust.append("i:U:%d:%d:%d" % (k, l, s)); coq.append("TIns %d %d %d" % (rank[k], l, c10.payload_sum(l, s)))
            model[k] = (l, c10.payload_sum(l, s)); expect.append("iok")

    def dump():
        dumps.append((len(rust), dict(model))); rust.append("D")

    ins(); dump()
    rem = list(keys); rng.shuffle(rem)
    for k in rem:
        rust.append("r:U:%d" % k); coq.append("TRem %d" % rank[k]); del model[k]; expect.append("rok")
    dump()
    # rebuild with a dump after every operation: the file may only grow when the free list has been used up
    for k in order:
        l, s = pay[k]
        rust.append("i:U:%d:%d:%d" % (k, l, s)); coq.append("TIns %d %d %d" % (rank[k], l, c10.payload_sum(l, s)))
        model[k] = (l, c10.payload_sum(l, s)); expect.append("iok")
        dump()
    line = "tree %s %s %s" % (cfg, kind, " ".join(rust))
    return Case(line, "[%s]" % "; ".join(coq), "reuse",
                {"kind": kind, "keys": keys, "rank": {c10.key_tok(kind, k): i for k, i in rank.items()}, "expect": expect, "dumps": dumps,
                 "classes": [], "cfg": cfg, "reuse": True})


def gen_dealloc(rng, idx):
    """build a tree of two or three levels, release it as DROP TABLE + VACUUM do: every page must be on the free list"""
    page = rng.choice([4096, 8192])
    cfg = "%d,2000,%d,%d" % (page, rng.choice([3, 4]), rng.choice([1, 2]))
    n = rng.choice([40, 300, 1500])
    keys = sorted(rng.sample(range(0, 10 ** 6), n))
    rank = {k: i for i, k in enumerate(keys)}
    order = list(keys); rng.shuffle(order)
    rust, coq, expect = [], [], []
    for k in order:
        l, s = rng.choice([0, 5, 20, 60, 120, 170]), rng.randrange(256)
        rust.append("i:U:%d:%d:%d" % (k, l, s)); coq.append("TIns %d %d %d" % (rank[k], l, c10.payload_sum(l, s))); expect.append("iok")
    rust += ["D", "X", "Z"]
    line = "tree %s biguint %s" % (cfg, " ".join(rust))
    return Case(line, "[%s]" % "; ".join(coq), "dealloc",
                {"kind": "biguint", "keys": keys, "rank": {c10.key_tok("biguint", k): i for k, i in rank.items()}, "expect": expect,
                 "dumps": [(len(rust) - 3, None)], "classes": [], "cfg": cfg, "dealloc": True})


def gen_cases(rng, tier):
    out = [c10.gen_case(rng, tier, i) for i in range(40 if tier == "quick" else 600)]
    out += [gen_reuse(rng, i) for i in range(6 if tier == "quick" else 60)]
    out += [gen_dealloc(rng, i) for i in range(8 if tier == "quick" else 80)]
    return out


def oracle(case, il):
    """independent of the models: every page of every dump has exactly one owner; rebuilding after delete-all does not grow the file"""
    segs = c10.split_out(case.meta.get("impl_raw", ""))
    ops = case.rust.split(" ")[3:]
    if any(x.endswith(":oom") for x in segs):
        return None
    if len(segs) != len(ops):
        return "%d answers for %d operations: %s" % (len(segs), len(ops), segs[-1][:100] if segs else "-")
    totals = []
    prev = None
    if case.meta.get("dealloc"):
        # ... D X Z : after releasing the tree every page of the file (but page zero) is on the free list, once
        d = c10.parse_dump(segs[-3])
        z = segs[-1]
        if segs[-2] != "xok" or not z.startswith("free[") or z == "free[!]":
            return ("releasing the tree failed: %s %s" % (segs[-2], z[:80]), len(segs) - 2)
        f = z[5:-1].split(":")
        total, lst = int(f[0]), [int(x) for x in f[3].split(">")] if f[3] else []
        if sorted(lst) != list(range(1, total)):
            missing = sorted(set(range(1, total)) - set(lst))
            return ("after releasing the tree %d of %d pages are not on the free list (lost): %s%s" % (len(missing), total - 1, missing[:8],
                    "" if len(set(lst)) == len(lst) else "; some pages are listed twice"), len(segs) - 1)
        if d is None:
            return ("tree cannot be dumped before its release: %s" % segs[-3][:100], len(segs) - 3)
        e = ownership_errors(d)
        return (e, len(segs) - 3) if e else None
    for i, (op, seg) in enumerate(zip(ops, segs)):
        if op != "D":
            continue
        d = c10.parse_dump(seg)
        if d is None:
            return ("tree cannot be dumped after operation %d: %s" % (i, seg[:120]), i)
        e = ownership_errors(d)
        if e:
            return ("after operation %d: %s" % (i, e), i)
        totals.append((i, d["free"]["total"], len(d["free"]["list"])))
        if case.meta.get("reuse") and prev is not None and i - prev[0] == 2:
            # exactly one operation between the two dumps: allocation pops the head of the free list, so the file
            # cannot have grown while the old free list is still there, untouched, at the front of the new one
            old, new = prev[1]["free"], d["free"]
            if old["list"] and new["total"] > old["total"] and new["list"][:len(old["list"])] == old["list"]:
                return ("operation %d grew the file from %d to %d pages although %d free pages were available and were left untouched"
                        % (i - 1, old["total"], new["total"], len(old["list"])), i)
        prev = (i, d)
    if case.meta.get("reuse") and len(totals) >= 2:
        (_, t1, f1), (i2, t2, f2) = totals[0], totals[1]
        if f2 == 0 and t1 > 3:
            return ("removing every key returned no page to the free list (%d pages in the file)" % t2, i2)
    return None


def post(case, raw):
    segs = c10.split_out(raw)
    ops = case.rust.split(" ")[3:]
    terms = []
    if len(segs) != len(ops) or any(x.endswith(":oom") for x in segs):
        return terms
    o = lambda x: "None" if x is None else "(Some %d)" % x
    for op, seg in zip(ops, segs):
        if op == "Z" and seg.startswith("free[") and seg != "free[!]":
            f = seg[5:-1].split(":")
            lst = [int(x) for x in f[3].split(">")] if f[3] else []
            terms.append("(%s, [], [], [%s], %s, %s)" % (f[0], "; ".join(map(str, lst)), o(None if f[1] == "-" else int(f[1])), o(None if f[2] == "-" else int(f[2]))))
            continue
        if op != "D":
            continue
        d = c10.parse_dump(seg)
        if d is None or d["free"] is None:
            terms.append(None); continue
        tree, chains, bad = pages_of(d)
        if bad:
            terms.append(None); continue
        ovf = [p for first, cs in chains.items() for c in cs for p in c]
        terms.append("(%d, [%s], [%s], [%s], %s, %s)" % (d["free"]["total"], "; ".join(map(str, tree)), "; ".join(map(str, ovf)),
                                                          "; ".join(map(str, d["free"]["list"])), o(d["free"]["head"]), o(d["free"]["tail"])))
    return terms


def gen_alloc(rng, tier):
    """engine-shaped operation sequences on the pager's allocator: overflow / B+tree page allocation, chains of 1-5 links built
    with next-link writes, release of B+tree pages and of whole chains front to back; plus the single-link release hazard"""
    out = [Case("fl 4096,64 a a l:1:2 O:1 a a", "[FAlloc; FAlloc; FLink 1 2; FDeallocO 1; FAlloc; FAlloc]", "hazard", {"classes": [], "hazard": True})]
    for k in range(120 if tier == "quick" else 3000):
        rust, coq = [], []
        total, free = 1, []
        btree, chains, loose = [], [], []      # pages in use: B+tree pages, linked chains (lists), unlinked overflow pages

        def alloc(kind):
            nonlocal total
            if free:
                p = free.pop(0)
            else:
                p = total; total += 1
            rust.append("b" if kind == "b" else "a"); coq.append("FAlloc")
            return p

        btree.append(alloc("b"))                    # never an empty case
        for _ in range(rng.choice([10, 30, 80])):
            r = rng.random()
            if r < 0.25:
                btree.append(alloc("b"))
            elif r < 0.5:
                n = rng.choice([1, 1, 2, 3, 5])
                ps = [alloc("a") for _ in range(n)]
                if rng.random() < 0.3:
                    rng.shuffle(ps)                 # chains need not be in page order
                for x, y in zip(ps, ps[1:]):
                    rust.append("l:%d:%d" % (x, y)); coq.append("FLink %d %d" % (x, y))
                chains.append(ps)
            elif r < 0.7 and btree:
                p = btree.pop(rng.randrange(len(btree)))
                rust.append("B:%d" % p); coq.append("FDeallocB %d" % p); free.append(p)
            elif r < 0.95 and chains:
                ps = chains.pop(rng.randrange(len(chains)))
                rust.append("C:" + "+".join(map(str, ps))); coq.append("FDeallocChain [%s]" % "; ".join(map(str, ps))); free.extend(ps)
        out.append(Case("fl %d,%d %s" % (rng.choice([4096, 8192]), rng.choice([8, 64]), " ".join(rust)), "[%s]" % "; ".join(coq), "alloc", {"classes": []}))
    return out


def oracle_alloc(case, il):
    """independent of the model: a python queue - release appends, allocation pops the head before the file grows; after every
    operation the list linked from the recorded head is that queue and head / tail / total are its ends and the page count"""
    if case.meta.get("hazard"):
        return None
    ops = case.rust.split(" ")[2:]
    toks = il.split(" ")
    if len(ops) != len(toks):
        return "%d answers for %d operations" % (len(toks), len(ops))
    total, free, used = 1, [], set()
    for k, (op, t) in enumerate(zip(ops, toks)):
        res, _, st = t.partition("[")
        f = op.split(":")
        if f[0] in ("a", "b"):
            if free:
                p = free.pop(0)
            else:
                p = total; total += 1
            if res != "id%d" % p:
                return ("operation %d %s answered %s, expected page %d (free list %s)" % (k, op, res, p, free[:6]), k)
            if p in used:
                return ("operation %d handed out page %d which is in use" % (k, p), k)
            used.add(p)
        elif res != "ok":
            return ("operation %d %s answered %s" % (k, op, res), k)
        elif f[0] == "B":
            free.append(int(f[1])); used.discard(int(f[1]))
        elif f[0] == "C":
            for x in f[1].split("+"):
                free.append(int(x)); used.discard(int(x))
        want = "%d;%s;%s;%s]" % (total, free[0] if free else "-", free[-1] if free else "-", ">".join(map(str, free)))
        if st != want:
            return ("after operation %d %s the allocator state is [%s, expected [%s" % (k, op, st[:120], want[:120]), k)
    return None


def gen_sql_reuse(rng, tier):
    """SQL level: pages released by VACUUM after DROP TABLE / DELETE are reused by new tables and VACUUM runs again; a page that
    ends up with two owners (a tree and the free list) shows as a failing or wrong read"""
    from props.c13 import gen_drop_reuse
    from lib import sqlgen as G
    return [G.tag_key_reuse(gen_drop_reuse(rng)) for _ in range(8 if tier == "quick" else 80)]


def oracle_sql(case, il):
    """independent of the model: no statement of a drop / vacuum / reuse history fails"""
    for i, s in enumerate(il.split(" | ")):
        if s.startswith("err:") or s == "hang":
            return ("action %d failed: %s" % (i, s[:160]), i)
    return None


class C11(Spec):
    id = "C11"
    design_ref = "7 (C11)"
    model_targets = ["theories/Model/BtreeRun.vo", "theories/Proofs/PagesProofs.vo", "theories/Spec/RefDBRun.vo", "theories/Model/FreeListRun.vo", "theories/Proofs/FreeListProofs.vo"]
    prop_vo = "theories/Props/C11.vo"
    prop_module = "Props.C11"
    theorems = ["C11_checker_sound", "C11_free_list", "C11_free_pages_reused", "C11_single_link_release_refuted"]
    rule = ("the trees of C10 (four key types, all page / minimum-keys / siblings settings, insert / upsert / update / remove in all "
            "orders, delete-all-then-reinsert, payloads with overflow chains in the recorded class) plus reuse cases: 150-900 keys "
            "inserted, all removed, the same keys inserted again.  Each dump lists the tree nodes reachable from the root, the "
            "overflow chain of every cell and the free list as linked from the header.  Oracle independent of the model: every page "
            "1..total-1 has exactly one owner, chains are owned by exactly one leaf cell, the free list matches its recorded head and "
            "tail, removing everything returns pages to the free list and rebuilding does not grow the file.  Every dump also goes "
            "through the ownership checker verified in Coq (check_pages).  allocator: 10-80 operations on the real pager - overflow and "
            "B+tree page allocation, chains of 1-5 links (also out of page order), release of B+tree pages and of whole chains - against "
            "the allocator model and a python queue (release appends, allocation pops the head before the file grows), the list linked "
            "from the recorded head, head, tail and page count compared after every operation; plus the single-link release hazard of "
            "C11_single_link_release_refuted replayed on the pager.  sql-reuse: SQL histories in which a multi-page table is dropped "
            "or emptied as the last commit before VACUUM, new tables reuse the released pages and VACUUM runs again, with full reads in "
            "between and after a reopen, against RefDB (a page with two owners shows as a failing or wrong read).  non-trivial = at least 30 keys")
    trusted_extra = ["the dump is produced by the facade: tree pages by following child pointers from the root, chains and the free list "
                     "by following next pointers; pages owned by other trees do not exist in these single-tree files",
                     "SQL-level histories (DROP TABLE, VACUUM, reopen) are observed for ownership only through answers (sql-reuse stream, "
                     "C09, C13) and file sizes, not through page dumps"]
    streams = [Stream("trees", "tree", ["Base.Bytes", "Model.Btree", "Model.BtreeRun"], "run_tree_case", gen_cases,
                      oracle=oracle, canon_case=c10.canon_case, rust_shards=16, shard=10, post=post, post_runner="check_pages_case",
                      reference=True, nontrivial=lambda c, il: len(c.meta["keys"]) >= 30),
               Stream("allocator", "fl", ["Base.Bytes", "Model.FreeList", "Model.FreeListRun"], "run_fl_case", gen_alloc,
                      oracle=oracle_alloc, nontrivial=lambda c, il: "C:" in c.rust),
               Stream("sql-reuse", "sql", ["Base.Bytes", "Model.Values", "Spec.RefDB", "Spec.RefDBRun"], "run_sql_case", gen_sql_reuse,
                      oracle=oracle_sql, canon=sql_canon, rust_shards=8, shard=2, reference=True, nontrivial=lambda c, il: True)]

    def known_class(self, k, case):
        return k.get("class") in case.meta.get("classes", [])


SPEC = C11()
