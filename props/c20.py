"""C20 — wire protocol: case generators, oracle."""
import struct
from lib.runner import Spec, Stream, Case

ALPH = ["a", "Z", "0", " ", "'", "é", "ß", "€", "漢", "😀", "\n", "\x00", "\x7f", "߿", "ࠀ", "￿", "\U00010000", "\U0010ffff"]


def rstr(rng, maxlen=12):
    k = rng.choice([0, 0, 1, 2, 3, 5, 8, maxlen, rng.randint(0, maxlen)])
    if rng.random() < 0.03:
        k = rng.randint(200, 600)
    return "".join(rng.choice(ALPH) for _ in range(k)).encode("utf-8")


def hx(b):
    return b.hex() if b else "-"


def coq_bytes(b):
    return "[" + ";".join(str(x) for x in b) + "]"


def u64edge(rng):
    return rng.choice([0, 1, 255, 256, 2**32 - 1, 2**32, 2**63, 2**64 - 1, rng.getrandbits(64), rng.getrandbits(16)])


def gen_request(rng):
    t = rng.choice(["create", "open", "sql", "explain", "analyze", "begin", "rollback", "commit", "vacuum", "close", "ping", "shutdown"])
    if t in ("create", "open", "sql", "explain"):
        s = rstr(rng)
        con = {"create": "RCreate", "open": "ROpen", "sql": "RSql", "explain": "RExplain"}[t]
        return ("req %s %s" % (t, hx(s)), "(%s %s)" % (con, coq_bytes(s)), "%s:%s" % (t, hx(s)))
    if t == "analyze":
        rate = rng.choice([0, struct.unpack("<Q", struct.pack("<d", rng.random()))[0], 0x7ff8000000000000, 0x8000000000000000, u64edge(rng)])
        rows = u64edge(rng)
        return ("req analyze %d %d" % (rate, rows), "(RAnalyze %d %d)" % (rate, rows), "analyze:%d:%d" % (rate, rows))
    con = {"begin": "RBegin", "rollback": "RRollback", "commit": "RCommit", "vacuum": "RVacuum", "close": "RClose", "ping": "RPing", "shutdown": "RShutdown"}[t]
    return ("req " + t, con, t)


def show_row(r):
    return ",".join(hx(s) for s in r)


def gen_response(rng):
    t = rng.choice(["ok", "error", "ddl", "explainp", "rows", "rows", "rows", "rowsaffected", "vacuum", "sessionstarted", "sessionend", "pong", "goodbye", "shuttingdown"])
    if t in ("ok", "error", "ddl", "explainp"):
        s = rstr(rng, 40)
        con = {"ok": "POk", "error": "PError", "ddl": "PDdl", "explainp": "PExplain"}[t]
        return ("resp %s %s" % (t, hx(s)), "(%s %s)" % (con, coq_bytes(s)), "%s:%s" % (t, hx(s)))
    if t == "rows":
        nc = rng.choice([0, 1, 1, 2, 3, 5, 9])
        nr = 0 if nc == 0 else rng.choice([0, 1, 2, 3, 7, 20])
        cols = [rstr(rng, 6) for _ in range(nc)]
        data = [[rstr(rng, 6) for _ in range(nc)] for _ in range(nr)]
        rust = "resp rows %d %d %s" % (nc, nr, " ".join([hx(c) for c in cols] + [hx(v) for r in data for v in r]))
        coq = "(PRows [%s] [%s])" % (";".join(coq_bytes(c) for c in cols), ";".join("[" + ";".join(coq_bytes(v) for v in r) + "]" for r in data))
        exp = "rows:%d:%d:%s:%s" % (nc, nr, show_row(cols), ";".join(show_row(r) for r in data))
        return (rust.strip(), coq, exp)
    if t == "rowsaffected":
        n = u64edge(rng)
        return ("resp rowsaffected %d" % n, "(PRowsAffected %d)" % n, "rowsaffected:%d" % n)
    if t == "vacuum":
        a, b, c = u64edge(rng), u64edge(rng), u64edge(rng)
        return ("resp vacuum %d %d %d" % (a, b, c), "(PVacuumComplete %d %d %d)" % (a, b, c), "vacuum:%d:%d:%d" % (a, b, c))
    con = {"sessionstarted": "PSessionStarted", "sessionend": "PSessionEnd", "pong": "PPong", "goodbye": "PGoodbye", "shuttingdown": "PShuttingDown"}[t]
    return ("resp " + t, con, t)


def enc_str(s):
    return struct.pack("<I", len(s)) + s


def py_encode_response_rows(cols, data):
    b = bytes([1, 2]) + struct.pack("<I", len(cols)) + b"".join(enc_str(c) for c in cols)
    b += struct.pack("<I", len(data)) + b"".join(enc_str(v) for r in data for v in r)
    return b


def mutate(rng, b):
    b = bytearray(b)
    for _ in range(rng.choice([1, 1, 2, 3])):
        op = rng.choice(["flip", "trunc", "set", "ins", "del", "u32"])
        if not b:
            b = bytearray([rng.randrange(256)])
            continue
        if op == "flip":
            i = rng.randrange(len(b)); b[i] ^= 1 << rng.randrange(8)
        elif op == "trunc":
            del b[rng.randrange(len(b)):]
        elif op == "set":
            b[rng.randrange(len(b))] = rng.choice([0, 1, 2, 0x7f, 0x80, 0xc0, 0xe0, 0xf0, 0xff, rng.randrange(256)])
        elif op == "ins":
            b.insert(rng.randrange(len(b) + 1), rng.randrange(256))
        elif op == "del":
            del b[rng.randrange(len(b))]
        elif op == "u32" and len(b) >= 6:
            i = rng.randrange(2, len(b) - 3)
            b[i:i + 4] = struct.pack("<I", rng.choice([0, 1, 2, 3, 0xffffffff, 0x7fffffff, 0x80000000, 1 << 24, (1 << 24) + 1, len(b), len(b) // 4, rng.getrandbits(32)]))
    return bytes(b)


def gen_valid(rng, tier):
    n = 600 if tier == "quick" else 6000
    out = []
    for i in range(n):
        rust, coq, exp = gen_request(rng) if i % 2 == 0 else gen_response(rng)
        out.append(Case(rust, "(%s %s)" % ("CReq" if i % 2 == 0 else "CResp", coq), rust.split()[1], {"expect_dec": exp}))
    for nlen in [0, 1, 255, 65536, 16777215, 16777216, 16777217, 16777218, 20000000]:
        out.append(Case("wframe %d" % nlen, "(CWriteFrameLen %d)" % nlen, "wframe", {"wlen": nlen}))
    for nlen in [0, 1, 4095, 65536, 16777215, 16777216, 16777217]:
        out.append(Case("rtframe %d" % nlen, "(CFrameRoundTrip %d)" % nlen, "rtframe", {"rtlen": nlen}))
    return out


def gen_bytes(rng, tier):
    n = 1500 if tier == "quick" else 20000
    out = []
    # corner cases around count fields of Rows (the allocation hazard) always first
    fixed = [bytes([1, 2]) + struct.pack("<I", c) + rest for c in (0, 1, 0xffffffff, 0x7fffffff, 1 << 20)
             for rest in (b"", struct.pack("<I", 0), struct.pack("<I", 0xffffffff), struct.pack("<I", 0) + struct.pack("<I", 0xffffffff),
                          enc_str(b"a") + struct.pack("<I", 0xffffffff), enc_str(b"a") + struct.pack("<I", 1 << 28) + enc_str(b"x"))]
    fixed += [b"", b"\x01", b"\x02\x03", b"\x01\x63", bytes([1, 2, 0, 0, 0, 0, 3, 0, 0, 0])]
    for b in fixed:
        out.append(Case("bresp " + hx(b), "(CBytesResp %s)" % coq_bytes(b), "fixed"))
        out.append(Case("breq " + hx(b), "(CBytesReq %s)" % coq_bytes(b), "fixed"))
    for i in range(n):
        r = rng.random()
        if r < 0.25:
            b = bytes(rng.randrange(256) for _ in range(rng.choice([0, 1, 2, 3, 6, 10, 24, 40])))
            if rng.random() < 0.7 and b:
                b = bytes([1]) + b[1:]
            kind = "random"
        elif r < 0.6:
            nc = rng.choice([0, 1, 2, 3]); nr = rng.choice([0, 1, 2, 4])
            cols = [rstr(rng, 4) for _ in range(nc)]
            data = [[rstr(rng, 4) for _ in range(nc)] for _ in range(nr)]
            b = mutate(rng, py_encode_response_rows(cols, data))
            kind = "mut-rows"
        else:
            s = rstr(rng, 8)
            tag = rng.choice([0, 1, 2, 3, 4, 5, 6, 7, 9, 10, 11, 12, 255, rng.randrange(256)])
            body = rng.choice([enc_str(s), struct.pack("<Q", rng.getrandbits(64)) * rng.choice([1, 2, 3]), b""])
            b = bytes([1, tag]) + body
            if rng.random() < 0.5:
                b = mutate(rng, b)
            # invalid UTF-8 inside a well-formed string frame
            if rng.random() < 0.3:
                bad = bytes(rng.choice([0x80, 0xbf, 0xc0, 0xc2, 0xe0, 0xed, 0xf0, 0xf4, 0xf5, 0xff, 0x41, 0xa0, 0x9f, 0x90, 0x8f]) for _ in range(rng.randint(1, 6)))
                b = bytes([1, tag]) + enc_str(bad)
            kind = "mut-msg"
        if len(b) > 4000:
            b = b[:4000]
        if rng.random() < 0.5:
            out.append(Case("bresp " + hx(b), "(CBytesResp %s)" % coq_bytes(b), kind))
        else:
            out.append(Case("breq " + hx(b), "(CBytesReq %s)" % coq_bytes(b), kind))
    # frames
    for i in range(n // 5):
        body = bytes(rng.randrange(256) for _ in range(rng.choice([0, 1, 5, 17, 64])))
        ln = rng.choice([len(body), len(body), len(body) + 1, max(0, len(body) - 1), 16777216, 16777217, 0xffffffff, 0])
        stream = struct.pack("<I", ln) + body + bytes(rng.randrange(256) for _ in range(rng.choice([0, 0, 3])))
        if rng.random() < 0.1:
            stream = stream[:rng.randrange(0, 5)]
        out.append(Case("rframe " + hx(stream), "(CReadFrame %s)" % coq_bytes(stream), "frame"))
    return out


def oracle_valid(case, impl):
    """decode(encode m) == m, evaluated on the implementation's own output."""
    if "expect_dec" in case.meta:
        want = case.meta["expect_dec"]
        got = impl.split(" dec=", 1)[1] if " dec=" in impl else impl
        if got != want:
            return "decode(encode m) = %s but m = %s" % (got[:200], want[:200])
    if "rtlen" in case.meta:
        n = case.meta["rtlen"]
        want = "ok" if n <= 16 * 1024 * 1024 else "err:toolarge"
        if impl != want:
            return "a frame with a body of %d bytes written by write_message is read back as %s, expected %s" % (n, impl, want)
    if "wlen" in case.meta:
        n = case.meta["wlen"]
        want = ("hdr:" + struct.pack("<I", n).hex()) if n <= 16 * 1024 * 1024 else "err:toolarge"
        if impl != want:
            return "write_message on %d bytes gave %s, expected %s" % (n, impl, want)
    return None


def oracle_bytes(case, impl):
    if impl.startswith("panic") or impl.startswith("abort"):
        return "decoder did not answer with a value or a protocol error: " + impl[:200]
    return None


class C20(Spec):
    id = "C20"
    design_ref = "7 (C20)"
    gen_tables = ["GenWire.v"]
    model_targets = ["theories/Model/WireRun.vo"]
    prop_vo = "theories/Props/C20.vo"
    prop_module = "Props.C20"
    theorems = ["C20_holds"]
    rule = ("stream valid: random Request/Response values (all variants, empty / non-ASCII / long strings, boundary integers), "
            "each encoded and decoded by the implementation and by the model; stream bytes: random bytes, mutated encodings, "
            "count-field corner cases, frames; every case line is distinct-counted; non-trivial = not a parameterless variant")
    streams = [
        Stream("valid", "wire", ["Base.Bytes", "Model.Wire", "Model.WireRun"], "run_wire_case", gen_valid,
               oracle=oracle_valid, nontrivial=lambda c, il: len(c.rust.split()) > 2),
        Stream("bytes", "wire", ["Base.Bytes", "Model.Wire", "Model.WireRun"], "run_wire_case", gen_bytes,
               oracle=oracle_bytes, nontrivial=lambda c, il: len(c.rust) > 12, as_limit_gb=3),
    ]
    trusted_extra = ["modelled, not verified: Vec/String allocation behaviour of the Rust runtime (the allocation theorem counts "
                     "with_capacity slots; the harness observes it through an address-space limit of 3 GiB)",
                     "String::from_utf8_lossy is modelled by Model.Wire.lossy and compared on invalid UTF-8 inputs"]


SPEC = C20()
