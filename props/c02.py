"""C02 — a crash leaves no trace of unfinished or rolled-back transactions."""
from lib.runner import Spec, Stream
from lib import crashgen as CG
from props import c01


class C02(Spec):
    id = "C02"
    design_ref = "7 (C02)"
    model_targets = ["theories/Spec/RefDBRun.vo", "theories/Model/CrashRun.vo"]
    prop_vo = "theories/Props/C02.vo"
    prop_module = "Props.C02"
    theorems = ["C02_exact", "C02_analysis", "C02_checkpoint_open_refuted"]
    rule = c01.RULE + "; histories mix committed, explicitly rolled-back, dropped, failed and still-open transactions, cache sizes 10000/64/24/16"
    trusted_extra = c01.TRUSTED
    streams = [
        Stream("images", "crash", c01.REFDB, "run_crash_case",
               c01.images([["rollback", "open"], ["rollback", "open", "ddl"], ["rollback", "open", "ckpt"], ["rollback", "open", "steal"],
                           ["rollback", "open", "vacuum", "ddl"], ["rollback", "bulk"], ["abort-ckpt"]], 90, 600, big=3),
               canon=CG.model_canon, canon_case=CG.make_canon(check_flags=False, check_reopen=True), rust_shards=16, shard=3, reference=True, measure=CG.measure),
        Stream("simple", "crash", [], None, c01.simple(60, 600), oracle=CG.simple_oracle, rust_shards=16, measure=CG.measure),
        Stream("protocol", "crash", c01.CRASH, "run_protocol_case", c01.protocol(60, 800),
               canon=CG.protocol_canon_model, canon_case=CG.protocol_canon_case, rust_shards=16, shard=20, measure=CG.measure),
    ]

    def known_class(self, k, case):
        return c01.known_class(k, case)


SPEC = C02()
