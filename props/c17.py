"""C17 — the write-ahead log returns exactly what was appended: generators and oracle."""
from lib.runner import Spec, Stream, Case

B = 40960
HDR_CAP = B - 2 * 128
BLK_CAP = B - 2 * 64
MAXREC = B - 64
KINDS = [0, 1, 2, 3, 6, 7, 8, 9, 10, 11]


def rsize(u, r):
    return (80 + u + r + 7) // 8 * 8


def gen_ops(rng, n_ops, big):
    ops, lsn = [], 0
    fill = 0  # rough bytes in the current block, to aim records at block boundaries
    for _ in range(n_ops):
        x = rng.random()
        if x < 0.62:
            kind = rng.choice(KINDS)
            mode = rng.random()
            if kind < 6:
                u, r = 0, 0
            elif mode < 0.35:
                u, r = rng.choice([0, 0, 8, 100]), rng.choice([0, 1, 7, 8, 9, 64, 500, 3000])
            elif mode < 0.8 and big:
                # aim at the remaining space of a block: every residue around the boundary
                cap = rng.choice([HDR_CAP, BLK_CAP])
                rem = cap - (fill % cap)
                tot = max(80, rem + rng.choice([-16, -9, -8, -7, -1, 0, 1, 7, 8, 9, 16]))
                pay = max(0, tot - 80)
                u = rng.choice([0, pay // 3])
                r = pay - u
            elif big:
                tot = rng.choice([BLK_CAP, BLK_CAP - 8, BLK_CAP + 8, HDR_CAP, HDR_CAP + 8, MAXREC, MAXREC + 8, MAXREC - 8, 20000, 12000, 40000])
                pay = max(0, tot - 80 - rng.choice([0, 0, 1, 7]))
                u = rng.choice([0, pay // 2]); r = pay - u
            else:
                u, r = 0, rng.choice([10, 200, 1000])
            tid = rng.randint(1, 5)
            ops.append(("p", lsn, tid, kind, u, r))
            fill += rsize(u, r)
            lsn += 1
        elif x < 0.80:
            ops.append(("f",))
        elif x < 0.86:
            ops.append(("r",))
        elif x < 0.91:
            ops.append(("c",))
        elif x < 0.95:
            ops.append(("T",)); fill = 0
        elif x < 0.975:
            ops.append(("L",))
        else:
            ops.append(("f",)); ops.append(("R",))
    ops.append(rng.choice([("f",), ("r",), ("c",)]))
    ops.append(("R",))
    return ops


def render(ra, ops):
    rust = "wal %d " % ra + " ".join(":".join(str(x) for x in o) if o[0] == "p" else o[0] for o in ops)
    cq = []
    for o in ops:
        if o[0] == "p":
            cq.append("P %d %d %d %d %d" % o[1:])
        else:
            cq.append({"f": "OFlush", "r": "OReopen", "c": "OCrash", "T": "OTruncFlush", "t": "OTrunc", "R": "ORead", "L": "OLast"}[o[0]])
    coq = "(%d, [%s])" % (B, "; ".join(cq))
    return rust, coq


def spec_events(ops):
    """Independent oracle: a log is a list of records; returns expected events for *settled* reads
    (reads that directly follow a force / reopen / crash), None for the others."""
    L, F, out, settled = [], [], [], False
    last, flast = None, None       # last sequence number handed to the log (in memory / forced)
    for o in ops:
        if o[0] == "p":
            if rsize(o[4], o[5]) > MAXREC:
                out.append("perr:%d" % o[1])
            elif rsize(o[4], o[5]) > BLK_CAP:
                out.append("perr:%d" % o[1])     # passes the size check but fits no block: rejected with an error
                last = o[1]
            else:
                L.append(o); last = o[1]
            settled = False
        elif o[0] == "L":
            out.append("last:%s" % ("none" if last is None else last))
        elif o[0] in ("f", "r"):
            F = list(L); flast = last; settled = True
        elif o[0] == "c":
            L = list(F); last = flast; settled = True
        elif o[0] == "T":
            L, F, settled, last, flast = [], [], True, None, None
        elif o[0] == "R":
            out.append("read[%s]" % ",".join("%d:%d:%d:%d:%d:1" % x[1:] for x in F) if settled else None)
    return out


def gen_cases(rng, tier):
    out = []
    n = 260 if tier == "quick" else 4000
    for i in range(n):
        ra = rng.choice([1, 2, 4, 7])
        big = rng.random() < 0.75
        ops = gen_ops(rng, rng.choice([4, 8, 14, 25, 40]) if big else rng.choice([10, 30, 60]), big)
        rust, coq = render(ra, ops)
        out.append(Case(rust, coq, "big" if big else "small", {"ops": ops}))
    # exhaustive placement of forces between pushes of block-sized records (short sequences)
    k = 5 if tier == "quick" else 7
    recs = [("p", i, 1, 8, 0, 30000 + 1000 * (i % 3)) for i in range(k)]
    for mask in range(1 << k):
        ops = []
        for i, r in enumerate(recs):
            ops.append(r)
            if mask >> i & 1:
                ops.append(("f",))
        ops += [("c",), ("R",)]
        rust, coq = render(2, ops)
        out.append(Case(rust, coq, "exhaustive-forces", {"ops": ops}))
    return out


def oracle(case, impl):
    want = spec_events(case.meta["ops"])
    got = impl.split() if impl != "-" else []
    if "operr" in impl or any(g.startswith("panic") or g.startswith("abort") for g in got):
        return "operation failed: %s" % impl[:200]
    if len(got) != len(want):
        return "expected %d events, got %d: %s" % (len(want), len(got), impl[:200])
    for w, g in zip(want, got):
        if w is not None and w != g:
            return "log read back %s but the forced records are %s" % (g[:300], w[:300])
    return None


class C17(Spec):
    id = "C17"
    design_ref = "7 (C17)"
    gen_tables = ["GenWal.v"]
    model_targets = ["theories/Model/WalRun.vo"]
    prop_vo = "theories/Props/C17.vo"
    prop_module = "Props.C17"
    theorems = ["C17_holds"]
    rule = ("operation sequences on a fresh log: pushes with sizes aimed at every residue around block boundaries (header block and data "
            "blocks, maximal and over-maximal records, empty payloads), forces, reopen (drop+open), crash (forget+open), truncate+force, reads "
            "with read-ahead 1/2/4/7; plus every placement of forces between k block-sized pushes; distinct = distinct case lines; "
            "non-trivial = at least one block rotation (more than one block's worth of records)")
    streams = [Stream("ops", "wal", ["Base.Bytes", "Model.Wal", "Model.WalRun"], "run_wal_case", gen_cases, oracle=oracle,
                      nontrivial=lambda c, il: sum(rsize(o[4], o[5]) for o in c.meta["ops"] if o[0] == "p") > HDR_CAP,
                      rust_shards=8)]
    trusted_extra = ["modelled, not verified: record byte layout (payload integrity is checked by the harness against what it pushed), "
                     "the reader's read-ahead queue (modelled as a sequential read; runs use read-ahead 1,2,4,7), file-system semantics "
                     "(a write replaces the block at its offset; set_len(0) empties the file), fs block size 4096 (block size 40960)"]


SPEC = C17()
