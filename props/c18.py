"""C18 — row versions decode to the right values for every snapshot: generators and oracle."""
import struct, itertools
from lib.runner import Spec, Stream, Case

KCON = {"null": "KNull", "bool": "KBool", "int": "KInt", "bigint": "KBigInt", "uint": "KUInt", "biguint": "KBigUInt",
        "float": "KFloat", "double": "KDouble", "blob": "KBlob"}
KEY_KINDS = ["biguint", "bigint", "int", "uint", "blob", "double"]
VAL_KINDS = ["int", "bigint", "uint", "biguint", "float", "double", "blob", "bool"]


def dbits(x):
    return struct.unpack("<Q", struct.pack("<d", x))[0]


def fbits(x):
    return struct.unpack("<I", struct.pack("<f", x))[0]


def gen_value(rng, kind, allow_null=True):
    """returns (rust token, coq term)"""
    if allow_null and rng.random() < 0.22:
        return ("n", "VNull")
    if kind == "bool":
        b = rng.random() < 0.5
        return ("b:%d" % b, "(VBool %s)" % ("true" if b else "false"))
    if kind == "int":
        z = rng.choice([0, 1, -1, 2**31 - 1, -2**31, rng.randint(-1000, 1000)]); return ("i:%d" % z, "(VInt (%d)%%Z)" % z)
    if kind == "bigint":
        z = rng.choice([0, -1, 2**63 - 1, -2**63, rng.randint(-10**12, 10**12)]); return ("I:%d" % z, "(VBigInt (%d)%%Z)" % z)
    if kind == "uint":
        z = rng.choice([0, 1, 2**32 - 1, rng.randint(0, 10**6)]); return ("u:%d" % z, "(VUInt (%d)%%Z)" % z)
    if kind == "biguint":
        z = rng.choice([0, 1, 2**64 - 1, rng.randint(0, 10**15)]); return ("U:%d" % z, "(VBigUInt (%d)%%Z)" % z)
    if kind == "float":
        b = rng.choice([fbits(0.0), fbits(1.5), fbits(-2.25), 0x7f800000, fbits(float(rng.randint(-999, 999)))]); return ("f:%d" % b, "(VFloat %d)" % b)
    if kind == "double":
        b = rng.choice([dbits(0.0), dbits(-0.0), dbits(3.25), dbits(1e300), dbits(float(rng.randint(-10**6, 10**6)))]); return ("d:%d" % b, "(VDouble %d)" % b)
    n = rng.choice([0, 1, 2, 3, 7, 8, 9, 15, 16, 17, 31, 64, 130, 200])
    bs = bytes(rng.choice([97, 98, 122, 0, 255, rng.randrange(256)]) for _ in range(n))
    return ("t:%s" % (bs.hex() or "-"), "(VBlob [%s])" % ";".join(str(x) for x in bs))


def cb(s, t):
    xid, xmin, xmax, act, ab = s
    if xmax is not None and xmax < t:
        return False
    return not (t in act or t in ab)


def ideal_visible(versions, deleter, s):
    """versions: [(creator, values)] oldest first.  What the reader's snapshot entitles it to."""
    xid = s[0]
    if deleter is not None and (cb(s, deleter) or deleter == xid):
        return None
    for creator, vals in reversed(versions):
        if cb(s, creator) or creator == xid:
            return vals
    return None


def gen_snapshot(rng, involved):
    pool = sorted(set(involved))
    top = max(pool) + 3
    xid = rng.choice(pool + [top, top, max(pool) + 1])
    xmax = rng.choice([None] + pool + [top - 1, max(pool) + 1, min(pool) - 1])
    others = [x for x in pool if x != xid]
    act = [x for x in others if rng.random() < 0.3]
    ab = [x for x in others if x not in act and rng.random() < 0.2]
    xmin = min(act + [xid])
    return (xid, xmin, xmax, act, ab)


def snap_tokens(s):
    xid, xmin, xmax, act, ab = s
    rust = "S:%d:%d:%s:%s:%s" % (xid, xmin, "-" if xmax is None else xmax, ".".join(map(str, act)) or "-", ".".join(map(str, ab)) or "-")
    coq = "TSnap (Sn %d %d %s [%s] [%s])" % (xid, xmin, "None" if xmax is None else "(Some %d)" % xmax, ";".join(map(str, act)), ";".join(map(str, ab)))
    return rust, coq


def gen_case(rng, nvals_max, nupd_max, same_creator):
    nk = rng.choice([1, 1, 1, 2, 3])
    kk = [rng.choice(KEY_KINDS) for _ in range(nk)]
    nv = rng.randint(0, nvals_max)
    vk = [rng.choice(VAL_KINDS) for _ in range(nv)]
    creator = rng.randint(5, 20)
    keys = [gen_value(rng, k, allow_null=False) for k in kk]
    vals = [gen_value(rng, k) for k in vk]
    cur = [v for v in vals]
    versions = [(creator, [k[0] for k in keys] + [v[0] for v in cur])]
    ops_r, ops_c, expect = [], [], []
    involved = [creator]
    deleter = None
    vacuumed = False
    n_upd = rng.randint(0, nupd_max) if nv > 0 else 0
    plan = ["u"] * n_upd + rng.choice([[], [], ["d"], ["d", "d"], ["d", "n"]]) + rng.choice([[], [], ["v"]])
    rng.shuffle(plan)
    for kind in plan:
        if kind == "u":
            xid = creator if same_creator else rng.choice([creator, creator + rng.randint(1, 6), creator + rng.randint(1, 6)])
            idxs = sorted(rng.sample(range(nv), rng.randint(1, min(nv, 3))))
            mods = [(i, gen_value(rng, vk[i])) for i in idxs]
            ops_r.append("u:%d:%s" % (xid, "/".join("%d=%s" % (i, v[0]) for i, v in mods)))
            ops_c.append("TUpd %d [%s]" % (xid, ";".join("(%d%%nat, %s)" % (i, v[1]) for i, v in mods)))
            for i, v in mods:
                cur[i] = v
            versions.append((xid, [k[0] for k in keys] + [v[0] for v in cur]))
            deleter = None     # add_version clears xmax
            involved.append(xid)
        elif kind == "d":
            xid = rng.choice([creator, creator + rng.randint(1, 8)])
            ops_r.append("d:%d" % xid); ops_c.append("TDel %d" % xid)
            deleter = xid      # Tuple::delete overwrites an xmax already present
            involved.append(xid)
        elif kind == "n":
            ops_r.append("n"); ops_c.append("TUndel")
            deleter = None
        else:
            h = rng.choice([0, creator, creator + 1, creator + 4, 100])
            ops_r.append("v:%d" % h); ops_c.append("TVac %d" % h)
            vacuumed = True
        if rng.random() < 0.5:
            ops_r.append("L"); ops_c.append("TLast"); expect.append(("last", list(versions[-1][1])))
        if rng.random() < 0.3:
            ops_r.append("H"); ops_c.append("THdr"); expect.append(None)
    ops_r.append("L"); ops_c.append("TLast"); expect.append(("last", list(versions[-1][1])))
    for _ in range(rng.randint(2, 7)):
        s = gen_snapshot(rng, involved)
        r, c = snap_tokens(s)
        ops_r.append(r); ops_c.append(c)
        expect.append(("snap", ideal_visible(versions, deleter, s), s))
    row_r = ",".join([k[0] for k in keys] + [v[0] for v in vals])
    row_c = "[%s]" % ";".join([k[1] for k in keys] + [v[1] for v in vals])
    rust = "tup %s %s %s %d %s" % (",".join(kk), ",".join(vk) or "-", row_r, creator, " ".join(ops_r))
    coq = "([%s], [%s], %s, %d, [%s])" % (";".join(KCON[k] for k in kk), ";".join(KCON[k] for k in vk), row_c, creator, "; ".join(ops_c))
    foreign = any(c != creator for c, _ in versions[1:])
    return Case(rust, coq, "same-creator" if not foreign else "foreign-update",
                {"expect": expect, "foreign": foreign, "n_upd": n_upd, "vacuumed": vacuumed})


def gen_cases(rng, tier):
    out = []
    n = 900 if tier == "quick" else 20000
    for i in range(n):
        big = rng.random() < 0.25
        out.append(gen_case(rng, 12 if big else 3, 8 if big else 3, same_creator=(i % 2 == 0)))
    # own delete of an updated row; long same-creator chains with vacuum horizons at or below the creator (the walk is exercised)
    for i in range(60 if tier == "quick" else 600):
        c = rng.randint(5, 9)
        k = rng.randint(1, 6)
        ups = [rng.randint(0, 99) for _ in range(k)]
        ops_r = ["u:%d:0=i:%d/1=%s" % (c, u, "n" if u % 3 == 0 else "t:%s" % (bytes([97 + u % 26]) * (u % 23)).hex() or "-") for u in ups]
        ops_c = ["TUpd %d [(0%%nat, VInt (%d)%%Z); (1%%nat, %s)]" % (c, u, "VNull" if u % 3 == 0 else "(VBlob [%s])" % ";".join(str(97 + u % 26) for _ in range(u % 23))) for u in ups]
        ops_r = [o.replace("t: ", "t:-") if o.endswith("t:") else o for o in ops_r]
        ops_r = [o if not o.endswith("=t:") else o + "-" for o in ops_r]
        dl = c + rng.randint(0, 5)
        h = rng.choice([0, c - 1, c, c + 1])
        tail_r = ["v:%d" % h, "L", "d:%d" % dl, "S:%d:%d:%d:-:-" % (dl, min(c, dl), dl + 1), "S:%d:%d:%d:%d:-" % (dl + 2, c, dl + 3, dl), "S:%d:%d:%d:-:-" % (dl + 2, c, dl + 3)]
        tail_c = ["TVac %d" % h, "TLast", "TDel %d" % dl, "TSnap (Sn %d %d (Some %d) [] [])" % (dl, min(c, dl), dl + 1),
                  "TSnap (Sn %d %d (Some %d) [%d] [])" % (dl + 2, c, dl + 3, dl), "TSnap (Sn %d %d (Some %d) [] [])" % (dl + 2, c, dl + 3)]
        last_u = ups[-1]
        lastv = ["U:1", "i:%d" % last_u, "n" if last_u % 3 == 0 else "t:%s" % ((bytes([97 + last_u % 26]) * (last_u % 23)).hex() or "-")]
        vers = [(c, lastv)]
        s1, s2, s3 = (dl, min(c, dl), dl + 1, [], []), (dl + 2, c, dl + 3, [dl], []), (dl + 2, c, dl + 3, [], [])
        expect = [("last", lastv)] + [("snap", ideal_visible(vers, dl, sx), sx) for sx in (s1, s2, s3)]
        out.append(Case("tup biguint int,blob U:1,i:0,n %d %s %s" % (c, " ".join(ops_r), " ".join(tail_r)),
                        "([KBigUInt], [KInt; KBlob], [VBigUInt 1%%Z; VInt 0%%Z; VNull], %d, [%s])" % (c, "; ".join(ops_c + tail_c)),
                        "own-delete", {"expect": expect, "foreign": False, "n_upd": k, "vacuumed": False}))
    # 256 versions: the u8 version counter
    ops_r = " ".join("u:10:0=i:%d" % i for i in range(256))
    ops_c = "; ".join("TUpd 10 [(0%%nat, VInt (%d)%%Z)]" % i for i in range(256))
    out.append(Case("tup biguint int U:1,i:0 10 " + ops_r + " H", "([KBigUInt], [KInt], [VBigUInt 1%%Z; VInt 0%%Z], 10, [%s; THdr])" % ops_c,
                    "version-overflow", {"expect": None, "foreign": False, "n_upd": 256, "vacuumed": False, "overflow": True}))
    return out


def oracle(case, impl):
    m = case.meta
    if m.get("overflow"):
        return None if impl.startswith("panic") else None
    if impl.startswith("panic") or impl.startswith("abort") or "err" in impl.split():
        return "row version operation failed: %s" % impl[:160]
    got = impl.split()
    # events: uerr never expected here; align with expectations
    if len(got) != len(m["expect"]):
        return "expected %d events, got %d: %s" % (len(m["expect"]), len(got), impl[:160])
    for e, g in zip(m["expect"], got):
        if e is None:
            continue
        if e[0] == "last":
            want = "last[%s]" % ",".join(e[1])
            if g != want:
                return "latest version decodes to %s, expected %s" % (g[:200], want[:200])
        else:
            if m["vacuumed"]:
                continue     # what a snapshot needs after trimming is covered by the theorem + model comparison
            want = "none" if e[1] is None else "vis[%s]" % ",".join(e[1])
            if g != want:
                return "snapshot %s decodes %s, entitled to %s" % (e[2], g[:200], want[:200])
    return None


class C18(Spec):
    id = "C18"
    design_ref = "7 (C18)"
    model_targets = ["theories/Model/TupleRun.vo"]
    prop_vo = "theories/Props/C18.vo"
    prop_module = "Props.C18"
    theorems = ["C18_outside_known", "C18_refuted", "C18_vacuum_preserves"]
    rule = ("schemas with 1-3 key columns and 0-12 value columns of all types, rows with NULLs, chains of 0-8 updates touching 1-3 columns "
            "(value <-> NULL, growing/shrinking text), optional delete, optional vacuum at several horizons, decode of the latest version "
            "after every step and decode under 2-7 snapshots per case (owner = creator/updater/deleter/later id; active, aborted and "
            "not-yet-started assignments); half of the cases keep every update with the creator (outside the recorded class), half do not; "
            "plus the 256-version overflow; non-trivial = at least one update")
    streams = [Stream("chains", "tup", ["Base.Bytes", "Model.Values", "Model.Tuple", "Model.TupleRun"], "run_tup_case", gen_cases,
                      oracle=oracle, nontrivial=lambda c, il: c.meta["n_upd"] > 0, rust_shards=4,
                      canon=lambda l: "panic" if l.startswith("panic") else l)]
    trusted_extra = ["modelled, not verified: byte offsets/alignment of the tuple layout (exercised through build/add_version/decode on all "
                     "column types and compared value by value); the oracle is an independent list-of-versions reader in python"]

    def known_class(self, k, case):
        c = k.get("class")
        if c == "foreign-update":
            return bool(case.meta.get("foreign"))
        if c == "version-overflow":
            return bool(case.meta.get("overflow"))
        return False


SPEC = C18()
