"""C08 — the database always reopens after a crash, and recovery can be repeated."""
from lib.runner import Spec, Stream
from lib import crashgen as CG
from props import c01


class C08(Spec):
    id = "C08"
    design_ref = "7 (C08)"
    model_targets = ["theories/Spec/RefDBRun.vo", "theories/Model/CrashRun.vo"]
    prop_vo = "theories/Props/C08.vo"
    prop_module = "Props.C08"
    theorems = ["C08_restartable", "C08_reopen", "C08_clean", "C08_window_refuted"]
    rule = (c01.RULE + "; after every reopen: a probe (CREATE/INSERT/SELECT/DROP of a new table, one INSERT into every existing table), a "
            "clean close and second open (same contents), and crash points inside the recovery that just ran (every prefix of its own "
            "file mutations, reopened again and compared with the uninterrupted recovery)")
    trusted_extra = c01.TRUSTED
    streams = [
        Stream("images", "crash", c01.REFDB, "run_crash_case",
               c01.images([["rollback", "open"], ["rollback", "open", "ddl"], ["ckpt", "ddl"], ["rollback", "open", "vacuum"]], 50, 300, nested="n1", big=1),
               canon=CG.model_canon, canon_case=CG.make_canon(check_flags=True), rust_shards=16, shard=3, reference=True, measure=CG.measure),
        Stream("simple", "crash", [], None, c01.simple(40, 400), oracle=CG.simple_oracle, rust_shards=16, measure=CG.measure),
        Stream("protocol", "crash", c01.CRASH, "run_protocol_case", c01.protocol(40, 500),
               canon=CG.protocol_canon_model, canon_case=CG.protocol_canon_case, rust_shards=16, shard=20, measure=CG.measure),
    ]

    def known_class(self, k, case):
        return c01.known_class(k, case)


SPEC = C08()
