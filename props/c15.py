"""C15 — schema changes are transactional and the catalog stays coherent (SQL histories vs RefDB)."""
import copy
from lib.runner import Spec, Stream, Case
from lib import sqlgen as G
from props.c05 import canon
from props.c03 import select_all

NAMES = ["ta", "tb", "tc"]          # a small pool so that names are reused after DROP
KINDS = ["INT", "TEXT", "BIGINT", "BOOLEAN"]


class Gen:
    def __init__(self, rng, feats):
        self.rng, self.feats, self.h = rng, feats, G.History()
        self.live = {}            # name -> Table (committed)
        self.next_tid, self.next_id = 1, 1
        self.classes = G.ClassSet(self.h)
        self.ever = {}            # name -> last Table shape seen under that name (for reads of dropped names)

    def new_shape(self, name):
        rng = self.rng
        cols = [("id", "INT", rng.random() < 0.5, None)]
        for j in range(rng.choice([1, 2, 3])):
            k = rng.choice(KINDS)
            d = None
            if rng.random() < 0.4:
                d = G.rand_lit(rng, k, 0.0)[1]
            cols.append(("c%d" % j, k, False, d))
        pk = [0] if cols[0][2] and rng.random() < 0.6 else None
        t = G.Table(self.next_tid, name, cols, pk=pk)
        self.next_tid += 1
        return t

    def row(self, t, cols=None):
        rng = self.rng
        idx = list(range(len(t.cols))) if cols is None else cols
        r = []
        for i in idx:
            if i == 0:
                r.append(G.lit_int(self.next_id)); self.next_id += 1
            else:
                r.append(G.rand_lit(rng, t.cols[i][1], 0.15))
        return r

    def dml(self, t, in_session=False):
        rng = self.rng
        r = rng.random()
        cols = [(i, c[1]) for i, c in enumerate(t.cols)]
        if r < 0.55:
            cl = None
            if rng.random() < 0.4 and len(t.cols) > 2:
                cl = [0] + sorted(rng.sample(range(1, len(t.cols)), rng.randint(0, len(t.cols) - 2)))
                rng.shuffle(cl)
            rows = [self.row(t, cl) for _ in range(1 if in_session else rng.choice([1, 2]))]   # see C03-partial-statement-in-session
            return G.insert_sql(t, rows, cl), G.insert_coq(t, rows, cl), "insert"
        if r < 0.75 and len(t.cols) > 1 and "update" in self.feats:
            i = rng.randrange(1, len(t.cols))
            sets = [(i, G.rand_lit(rng, t.cols[i][1], 0.2))]
            where = ("bin", "<", ("col", 0), G.lit_int(rng.randint(1, self.next_id + 1))) if rng.random() < 0.7 else None
            if (t.name, t.cols[i][0]) in getattr(self, "unique_cols", set()):
                # UPDATE of a uniquely indexed column: the index is not maintained (recorded finding, pinned by a suite
                # test), so duplicates are accepted or the statement fails half-way and its rewritten rows stay
                self.classes.add("update-of-indexed-column")
            return G.update_sql(t, sets, where), G.update_coq(t, sets, where), "update"
        where = ("bin", rng.choice(["<", ">="]), ("col", 0), G.lit_int(rng.randint(1, self.next_id + 1))) if rng.random() < 0.8 else None
        return G.delete_sql(t, where), G.delete_coq(t, where), "delete"

    def action(self, view, in_session, commits=True):
        """one statement against the name->Table view (mutated in place); returns (sql, coq, sorted)"""
        rng = self.rng
        r = rng.random()
        if r < 0.22:
            name = rng.choice(NAMES)
            t = self.new_shape(name)
            if name not in view:
                view[name] = t
            self.ever[name] = view[name]
            return t.create_sql(), t.create_coq() if view[name] is t else "SCreate %d [] []" % view[name].tid, False
        if r < 0.34:
            name = rng.choice(NAMES)
            if name in view:
                t = view.pop(name)
                return "DROP TABLE %s" % name, "SDrop %d" % t.tid, False
            return "DROP TABLE %s" % name, "SDrop 999", False
        if not view:
            return self.action(view, in_session) if False else ("SELECT id FROM nosuch", "SDrop 999", False)
        t = view[rng.choice(sorted(view))]
        if in_session and not commits and r < 0.44 and "alter" in self.feats:
            self.classes.add("schema-update-in-aborted-transaction")
        if r < 0.40 and "alter" in self.feats:
            k = rng.choice(KINDS)
            nm = "n%d" % len(t.cols)
            self.classes.add("add-column")
            t2 = copy.deepcopy(t)
            t2.cols.append((nm, k, False, None))
            view[t.name] = t2
            self.ever[t.name] = t2
            return "ALTER TABLE %s ADD COLUMN %s %s" % (t.name, nm, k), "SAddColumn %d (Col %s false None)" % (t.tid, G.KINDS[k]), False
        if r < 0.44 and "alter" in self.feats and len(t.cols) > 2:
            i = rng.randrange(1, len(t.cols))
            self.classes.add("drop-column")
            t2 = copy.deepcopy(t)
            nm = t2.cols.pop(i)[0]
            view[t.name] = t2
            self.ever[t.name] = t2
            return "ALTER TABLE %s DROP COLUMN %s" % (t.name, nm), "SDropColumn %d %d%%nat" % (t.tid, i), False
        if r < 0.50 and len(t.cols) > 1 and "index" in self.feats:
            i = rng.randrange(1, len(t.cols))
            if in_session and not commits:
                self.classes.add("schema-update-in-aborted-transaction")
            self.next_ix = getattr(self, "next_ix", 0) + 1
            self.unique_cols = getattr(self, "unique_cols", set()) | {(t.name, t.cols[i][0])}
            return ("CREATE UNIQUE INDEX ix%d ON %s(%s)" % (self.next_ix, t.name, t.cols[i][0]),
                    "SCreateUnique %d [%d%%nat]" % (t.tid, i), False)
        sql, coq, kind = self.dml(t, in_session)
        if kind == "update" and in_session and not commits:
            self.classes.add("update-in-aborted-transaction")

        return sql, coq, True

    def observe(self):
        idx = []
        for name in NAMES:
            t = self.live.get(name) or self.ever.get(name)
            if t is None:
                continue
            q = select_all(t)
            idx.append(len(self.h.rust))
            # reads of a dropped name are expected to fail on both sides (the model looks the old id up)
            self.h.x(q.sql(), q.coq(), sorted_=True)
        return idx


def gen_case(rng, feats):
    g = Gen(rng, feats)
    h = g.h
    checks = []
    before = g.observe()
    for round_ in range(rng.choice([4, 6, 9])):
        mode = rng.choice(["auto", "auto", "session", "session", "reopen", "overlap-ddl"])
        cond = None
        if mode == "auto":
            for _ in range(rng.choice([1, 2, 3])):
                view = dict(g.live)
                sql, coq, srt = g.action(view, False)
                h.x(sql, coq, sorted_=srt)
                g.live = view         # if the statement fails on both sides nothing changed there either; the model decides
                g.sync_needed = True
        elif mode == "overlap-ddl":
            # an older, unrelated transaction stays open while DDL runs and commits in another one
            ka = 300 + round_
            h.begin(ka)
            if g.live and rng.random() < 0.5:
                t0 = g.live[rng.choice(sorted(g.live))]
                q = select_all(t0)
                h.q(ka, q.sql(), q.coq(), sorted_=True)
            name = rng.choice(NAMES)
            view = dict(g.live)
            if name in view and rng.random() < 0.6:
                t = view[name]
                if len(t.cols) > 1:
                    i = rng.randrange(1, len(t.cols))
                    g.next_ix = getattr(g, "next_ix", 0) + 1
                    g.unique_cols = getattr(g, "unique_cols", set()) | {(t.name, t.cols[i][0])}
                    h.x("CREATE UNIQUE INDEX ix%d ON %s(%s)" % (g.next_ix, t.name, t.cols[i][0]), "SCreateUnique %d [%d%%nat]" % (t.tid, i))
            else:
                if name in view:
                    t_old = view.pop(name)
                    h.x("DROP TABLE %s" % name, "SDrop %d" % t_old.tid)
                t = g.new_shape(name)
                view[name] = t
                g.ever[name] = t
                h.x(t.create_sql(), t.create_coq())
            g.live = view
            t = g.live[name]
            rows = [g.row(t)]
            h.x(G.insert_sql(t, rows), G.insert_coq(t, rows), sorted_=True)
            if rng.random() < 0.5:
                h.commit(ka)
            else:
                h.rollback(ka, drop=rng.random() < 0.3)
            rows = [g.row(t)]
            h.x(G.insert_sql(t, rows), G.insert_coq(t, rows), sorted_=True)
        elif mode == "session":
            k = round_ + 1
            view = dict(g.live)
            h.begin(k)
            commits = rng.random() < 0.5
            for _ in range(rng.choice([1, 2, 3, 4])):
                sql, coq, srt = g.action(view, True, commits)
                h.q(k, sql, coq, sorted_=srt)
            if commits:
                h.commit(k)
                g.live = view
            else:
                h.rollback(k, drop=rng.random() < 0.3)
                cond = True
        else:
            h.simple("O", "AReopen", "cache=10000")
            cond = True
        after = g.observe()
        if cond and len(after) == len(before):
            checks.append((before, after))
        before = after
    rust, coq = h.render()
    return Case(rust, coq, "history", dict(g.classes.meta(), checks=checks))


def oracle(case, il):
    """independent of the model: a rolled-back session or a reopen leaves every table (by name) reading as before"""
    segs = il.split(" | ")
    for before, after in case.meta.get("checks", []):
        for b, a in zip(before, after):
            if a >= len(segs):
                return "output truncated"
            if segs[b] != segs[a]:
                return ("a rolled-back session / reopen changed a table: read %d gave %s, read %d gave %s" % (b, segs[b][:160], a, segs[a][:160]), a)
    if "err:panic" in il or "hang" in il:
        return "a statement did not return a result or an error: " + il[:200]
    return None


def gen_cases(rng, tier):
    out = []
    n = 240 if tier == "quick" else 5000
    for i in range(n):
        feats = {"update"} if i % 2 == 0 else set()
        if i % 6 == 1:
            feats |= {"alter"}
        if i % 6 in (2, 3):
            feats |= {"index"}
        out.append(gen_case(rng, feats))
    return [G.tag_key_reuse(c) for c in out]


class C15(Spec):
    id = "C15"
    design_ref = "7 (C15)"
    model_targets = ["theories/Spec/RefDBRun.vo", "theories/Proofs/DdlProofs.vo"]
    prop_vo = "theories/Props/C15.vo"
    prop_module = "Props.C15"
    theorems = ["C15_transactional", "C15_catalog"]
    rule = ("histories over three table names (so that names are reused): CREATE TABLE with random shapes (INT/TEXT/BIGINT/BOOLEAN "
            "columns, NOT NULL, DEFAULT literals, PRIMARY KEY), DROP TABLE, CREATE UNIQUE INDEX, ALTER TABLE ADD/DROP COLUMN, INSERT "
            "with and without column lists (defaults), UPDATE, DELETE - in autocommit and inside sessions that commit, roll back or "
            "are dropped - and close/reopen; after every round every name ever used is read.  Oracle independent of the model: a "
            "rolled-back session or a reopen leaves every name reading as before, and no statement panics or hangs.  Every answer is "
            "compared with RefDB evaluated inside Coq.  non-trivial = history drops a table")
    trusted_extra = ["RefDB is the reference for DDL semantics; the engine's DdlExecutor, catalog trees and relation (de)serialisation are "
                     "tied to it only by the correspondence stream",
                     "ALTER COLUMN (SET/DROP NOT NULL, SET/DROP DEFAULT, SET DATA TYPE) and ADD CONSTRAINT are not generated: the reference has no such statements"]
    streams = [Stream("histories", "sql", ["Base.Bytes", "Model.Values", "Spec.RefDB", "Spec.RefDBRun"], "run_sql_case", gen_cases,
                      oracle=oracle, canon=canon, rust_shards=8, shard=40, reference=True,
                      nontrivial=lambda c, il: "DROP TABLE" in c.rust)]

    def known_class(self, k, case):
        cl = k.get("class")
        if cl == "failed-create-unique-index":
            acts = case.rust.split(" | ")[1:]
            outs = case.meta.get("impl", "").split(" | ")
            return any("CREATE UNIQUE INDEX" in a and o.startswith("err") for a, o in zip(acts, outs))
        return cl in case.meta.get("classes", [])


SPEC = C15()
