"""C05 — query answers match SQL semantics: populations + queries against RefDB."""
import re
from lib.runner import Spec, Stream, Case
from lib import sqlgen as G

ALL_FEATS = {"division", "negation", "concat", "not", "isnull", "between", "inlist", "like", "negated-forms", "null-literals"}


def make_tables(rng):
    k = rng.choice([1, 2, 2])
    tables = []
    for t in range(k):
        ncols = rng.randint(2, 5)
        cols = [("c0", "INT", False, None)]
        for i in range(1, ncols):
            cols.append(("c%d" % i, rng.choice(["INT", "INT", "BIGINT", "TEXT", "TEXT", "BOOLEAN"]), False, None))
        tables.append(G.Table(t + 1, "t%d" % (t + 1), cols))
    return tables


TRICKY_TEXTS = [b"aaab", b"aab", b"ababc", b"ananas", b"abab", b"xaab", b"aaa", b"abcabd", b"a_b", b"mississippi", b"x_b", b"a%", b"a%x", b"xab"]
TRICKY_PATTERNS = [b"%aab", b"%aab%", b"%anas", b"%abc", b"%abd", b"a%ab", b"%a_b", b"%ab%c", b"%issip%", b"%aa", b"a%a%b", b"%ssi%pi",
                   # escaped characters: after a % (the matcher backtracks into the escape), and an escaped trailing %
                   b"%\\ab", b"%\\_b", b"a\\%", b"%\\%", b"%x\\_b", b"\\a%"]


def _side_pred(rng, t, off):
    """a simple predicate over the columns of one join input"""
    i = rng.randrange(len(t.cols))
    kind = t.cols[i][1]
    if rng.random() < 0.35:
        return ("isnull", ("col", off + i), rng.random() < 0.3)
    if kind in ("INT", "BIGINT", "TEXT"):
        return ("bin", rng.choice(["=", "<", ">=", "<>"]), ("col", off + i), G.rand_lit(rng, kind, nulls=0.0))
    return ("bin", "=", ("col", off + i), G.rand_lit(rng, kind, nulls=0.0))


def populate(rng, h, t):
    n = rng.choice([0, 1, 3, 5, 8, 12])
    rows = []
    for i in range(n):
        rows.append([G.lit_text(rng.choice(TRICKY_TEXTS)) if (c[1] == "TEXT" and rng.random() < 0.25) else G.rand_lit(rng, c[1], nulls=0.2)
                     for c in t.cols])
    for i in range(0, n, 4):
        chunk = rows[i:i + 4]
        h.x(G.insert_sql(t, chunk), G.insert_coq(t, chunk))
    return n


def gen_select(rng, tables, feats):
    if len(tables) == 2 and rng.random() < 0.45:
        jt = rng.choice(["inner", "left", "right", "full", "cross"] if "outer-right" in feats else ["inner", "left", "cross"])
        l, r = tables[0], tables[1]
        cols = [(i, c[1]) for i, c in enumerate(l.cols)] + [(len(l.cols) + i, c[1]) for i, c in enumerate(r.cols)]
        on = None
        if jt != "cross":
            if rng.random() < 0.7:
                on = ("bin", "=", ("col", 0), ("col", len(l.cols)))
            else:
                on = G.rand_expr(rng, "BOOLEAN", cols, 2, feats - {"null-literals"})
        frm = ("join", jt, l, r, on)
    else:
        t = rng.choice(tables)
        cols = [(i, c[1]) for i, c in enumerate(t.cols)]
        frm = ("table", t)
    where = G.rand_expr(rng, "BOOLEAN", cols, rng.choice([1, 2, 3]), feats) if rng.random() < 0.7 else None
    if frm[0] == "join" and frm[1] != "cross" and rng.random() < 0.3:
        # a conjunct on the left input only AND a conjunct on the right input only (anti-join idiom, filters on the
        # null-supplying side of an outer join): what predicate push-down must not move below an outer join
        where = ("bin", "AND", _side_pred(rng, frm[2], 0), _side_pred(rng, frm[3], len(frm[2].cols)))
        if rng.random() < 0.5:
            where = ("bin", "AND", where[3], where[2])
    elif "like" in feats and rng.random() < 0.12:
        # patterns whose literal part overlaps itself, on texts where a failed partial match hides the real one
        lk = ("bin", "NOT LIKE" if (rng.random() < 0.3 and "negated-forms" in feats) else "LIKE",
              G.lit_text(rng.choice(TRICKY_TEXTS)), G.lit_text(rng.choice(TRICKY_PATTERNS)))
        texts = [c for c in cols if c[1] == "TEXT"]
        if texts and rng.random() < 0.6:
            lk = (lk[0], lk[1], ("col", rng.choice(texts)[0]), lk[3])
        where = lk if where is None or rng.random() < 0.5 else ("bin", rng.choice(["AND", "OR"]), where, lk)
    mode = rng.random()
    if mode < 0.6 or "aggregates" not in feats:
        items = [("expr", ("col", c[0])) for c in rng.sample(cols, rng.randint(1, min(3, len(cols))))]
        want_order = rng.random() < 0.45 and "orderby" in feats
        if rng.random() < 0.4 and (not want_order or "order-expr" in feats):
            k = rng.choice(["INT", "TEXT", "BOOLEAN"])
            items.append(("expr", G.rand_expr(rng, k, cols, 2, feats - {"null-literals"})))
        distinct = rng.random() < 0.2 and "distinct" in feats
        order, limit, offset = [], None, None
        if want_order:
            idx = list(range(len(items)))
            rng.shuffle(idx)
            order = [(i, rng.random() < 0.6) for i in idx]
            if rng.random() < 0.5:
                limit = rng.choice([0, 1, 2, 5, 100])
                if rng.random() < 0.5:
                    offset = rng.choice([0, 1, 3, 50])
        return G.Select(items, frm, where, order=order, limit=limit, offset=offset, distinct=distinct)
    # aggregates
    ints = [c for c in cols if c[1] in ("INT", "BIGINT")]
    group = []
    if rng.random() < 0.6:
        group = [("col", c[0]) for c in rng.sample(cols, rng.randint(1, min(2, len(cols))))]
    items = [("expr", g) for g in group]
    for _ in range(rng.randint(1, 3)):
        fn = rng.choice(["COUNT", "COUNT", "SUM", "MIN", "MAX"] + (["AVG"] if "avg" in feats else []))
        if fn == "COUNT" and rng.random() < 0.5:
            items.append(("agg", "COUNT", None))
        elif fn in ("MIN", "MAX") and rng.random() < 0.3:
            items.append(("agg", fn, ("col", rng.choice(cols)[0])))
        elif ints:
            items.append(("agg", fn, ("col", rng.choice(ints)[0])))
        else:
            items.append(("agg", "COUNT", None))
    having = None
    if group and rng.random() < 0.25 and "having" in feats:
        having = ("COUNT", None, rng.choice([">", ">=", "="]), ("int", rng.choice([1, 2])))
    order = []
    if group and rng.random() < 0.4 and "order-agg" in feats:
        order = [(i, rng.random() < 0.6) for i in range(len(items))]
    return G.Select(items, frm, where, group=group, having=having, order=order)


def gen_case(rng, feats, nq):
    h = G.History()
    tables = make_tables(rng)
    for t in tables:
        h.x(t.create_sql(), t.create_coq())
    for t in tables:
        populate(rng, h, t)
    for _ in range(nq):
        r = rng.random()
        if r < 0.8:
            q = gen_select(rng, tables, feats)
            h.x(q.sql(), q.coq(), sorted_=not q.ordered(), tag="select")
        elif r < 0.9:
            t = rng.choice(tables)
            cols = [(i, c[1]) for i, c in enumerate(t.cols)]
            i = rng.randrange(1, len(t.cols))
            sets = [(i, G.rand_expr(rng, t.cols[i][1], cols, 2, feats - {"null-literals"}))]
            where = G.rand_expr(rng, "BOOLEAN", cols, 2, feats) if rng.random() < 0.8 else None
            h.x(G.update_sql(t, sets, where), G.update_coq(t, sets, where), tag="update")
            q = G.Select([("expr", ("col", j)) for j in range(len(t.cols))], ("table", t))
            h.x(q.sql(), q.coq(), sorted_=True, tag="select")
        else:
            t = rng.choice(tables)
            cols = [(i, c[1]) for i, c in enumerate(t.cols)]
            where = G.rand_expr(rng, "BOOLEAN", cols, 2, feats) if rng.random() < 0.9 else None
            h.x(G.delete_sql(t, where), G.delete_coq(t, where), tag="delete")
            q = G.Select([("expr", ("col", j)) for j in range(len(t.cols))], ("table", t))
            h.x(q.sql(), q.coq(), sorted_=True, tag="select")
    rust, coq = h.render()
    return Case(rust, coq, "queries", {"n": nq})


_ROWS = re.compile(r"rows!:(\d+)\[([^\]]*)\]")


def canon(line):
    """unordered answers are compared as bags; error classes collapse to err (a panic stays distinct)"""
    def srt(m):
        rows = m.group(2).split(";") if m.group(2) else []
        return "rows!:%s[%s]" % (m.group(1), ";".join(sorted(rows)))
    out = []
    for seg in line.split(" | "):
        seg = _ROWS.sub(srt, seg)
        if seg.startswith("size:"):
            seg = "ok"                 # file size is not part of the reference; oracles read it from the raw line
        if seg.startswith("err:") and seg not in ("err:panic", "err:overflowframe"):
            seg = "err"
        out.append(seg)
    return " | ".join(out)


FEATS = ALL_FEATS | {"aggregates", "distinct", "orderby", "avg", "outer-right"}
KNOWN_FEATS = {"order-expr": "order-by-expression", "order-agg": "order-by-with-aggregate", "having": "having"}


def gen_cases(rng, tier):
    out = [gen_case(rng, FEATS, rng.choice([4, 8, 12])) for _ in range(150 if tier == "quick" else 3000)]
    for c in out:
        c.meta["classes"] = []
    # cases inside the recorded classes (their disagreements are KNOWN-FINDING lines, anything else still counts)
    for f, cls in KNOWN_FEATS.items():
        for _ in range(6 if tier == "quick" else 60):
            c = gen_case(rng, FEATS | {f} | ({"aggregates"} if f != "order-expr" else set()), 6)
            c.kind = "known:" + cls
            c.meta["classes"] = [cls]
            out.append(c)
    return out


# ---------------------------------------------------------------------------------------------
# expression parser stream
# ---------------------------------------------------------------------------------------------
POPS = [("BOr", "OR", "or", 1), ("BAnd", "AND", "and", 2), ("BEq", "=", "eq", 4), ("BNeq", "<>", "neq", 4), ("BLt", "<", "lt", 4),
        ("BGt", ">", "gt", 4), ("BLe", "<=", "le", 4), ("BGe", ">=", "ge", 4), ("BLike", "LIKE", "like", 4), ("BPlus", "+", "plus", 5),
        ("BMinus", "-", "minus", 5), ("BConcat", "||", "concat", 5), ("BMul", "*", "mul", 6), ("BDiv", "/", "div", 6), ("BMod", "%", "mod", 6)]


def rand_tree(rng, depth):
    if depth <= 0 or rng.random() < 0.25:
        return ("num", rng.randint(0, 50)) if rng.random() < 0.4 else ("id", rng.randint(0, 5))
    if rng.random() < 0.15:
        return ("not", rand_tree(rng, depth - 1))
    return ("bin", rng.choice(POPS), rand_tree(rng, depth - 1), rand_tree(rng, depth - 1))


def tree_level(t):
    return 8 if t[0] in ("num", "id") else 3 if t[0] == "not" else t[1][3]


def tree_tokens(t, need):
    """minimal parentheses for SQL precedence: OR < AND < NOT < comparison < additive < multiplicative; left associative;
    comparisons do not chain without parentheses"""
    if t[0] == "num":
        toks = [("TNum %d" % t[1], str(t[1]))]
    elif t[0] == "id":
        toks = [("TId %d" % t[1], "x%d" % t[1])]
    elif t[0] == "not":
        toks = [("TNot", "NOT")] + tree_tokens(t[1], 3)
    else:
        lv = t[1][3]
        toks = tree_tokens(t[2], lv) + [("TBin %s" % t[1][0], t[1][1])] + tree_tokens(t[3], lv + 1)
    if tree_level(t) < need:
        toks = [("TLP", "(")] + toks + [("TRP", ")")]
    return toks


def tree_show(t):
    if t[0] == "num":
        return str(t[1])
    if t[0] == "id":
        return "x%d" % t[1]
    if t[0] == "not":
        return "(not %s)" % tree_show(t[1])
    return "(%s %s %s)" % (t[1][2], tree_show(t[2]), tree_show(t[3]))


def in_fragment(toks):
    """token sequences on which the real parser leaves the modelled fragment (unary +,-; prefix *; function calls;
    NOT LIKE) are not generated"""
    prev = None
    for c, _ in toks:
        if c in ("TBin BPlus", "TBin BMinus", "TBin BMul") and (prev is None or prev.startswith("TBin") or prev in ("TNot", "TLP")):
            return False
        if c == "TLP" and prev is not None and prev.startswith("TId"):
            return False
        if c == "TBin BLike" and prev == "TNot":
            return False
        prev = c
    return True


def gen_pexpr(rng, tier):
    out = []
    n = 500 if tier == "quick" else 8000
    for i in range(n):
        t = rand_tree(rng, rng.choice([1, 2, 3, 4, 6]))
        toks = tree_tokens(t, 0)
        kind, expect = "printed", tree_show(t) + " end"
        if i % 4 == 3:
            toks = list(toks)
            for _ in range(rng.choice([1, 1, 2])):
                op = rng.choice(["del", "ins", "swap"])
                if op == "del" and toks:
                    del toks[rng.randrange(len(toks))]
                elif op == "ins":
                    toks.insert(rng.randrange(len(toks) + 1), rng.choice([("TLP", "("), ("TRP", ")"), ("TNot", "NOT"), ("TBin BAnd", "AND"),
                                                                          ("TBin BEq", "="), ("TNum 7", "7"), ("TId 1", "x1")]))
                elif len(toks) >= 2:
                    j = rng.randrange(len(toks) - 1)
                    toks[j], toks[j + 1] = toks[j + 1], toks[j]
            if not toks or not in_fragment(toks):
                continue
            kind, expect = "mutated", None
        out.append(Case("pexpr " + " ".join(s for _, s in toks), "[%s]" % "; ".join(c for c, _ in toks), kind, {"expect": expect}))
    return out


def oracle_pexpr(case, impl):
    e = case.meta.get("expect")
    if e is not None and impl != e:
        return "parsed as %s, SQL precedence gives %s" % (impl[:200], e[:200])
    if impl.startswith("panic") or impl in ("hang", ) or impl.startswith("abort"):
        return "parser did not return: " + impl[:100]
    return None


class C05(Spec):
    id = "C05"
    design_ref = "7 (C05)"
    gen_tables = ["GenPratt.v"]
    model_targets = ["theories/Spec/RefDBRun.vo", "theories/Model/PrattRun.vo"]
    prop_vo = "theories/Props/C05.vo"
    prop_module = "Props.C05"
    theorems = ["C05_parse_print", "C05_sql_precedence", "C05_eval_3vl"]
    rule = ("queries: 1-2 tables (2-5 columns of INT/BIGINT/TEXT/BOOLEAN, NULLs, duplicates, negative values), then SELECTs drawn from "
            "the grammar (expression trees of depth <= 3 printed with minimal parentheses: arithmetic, comparison, AND/OR/NOT, BETWEEN, IN, "
            "IS [NOT] NULL, [NOT] LIKE, ||; joins of every type; GROUP BY with COUNT/SUM/MIN/MAX/AVG; DISTINCT; ORDER BY on columns; "
            "LIMIT/OFFSET) and UPDATE/DELETE with counts, all compared with RefDB evaluated inside Coq; pexpr: expression trees printed "
            "with minimal SQL parentheses must parse back to themselves (independent python oracle) and agree with the Pratt model, plus "
            "mutated token sequences; distinct = distinct case lines; non-trivial = case has at least one row-returning query")
    streams = [Stream("queries", "sql", ["Base.Bytes", "Model.Values", "Spec.RefDB", "Spec.RefDBRun"], "run_sql_case", gen_cases,
                      canon=canon, rust_shards=8, shard=40, reference=True, nontrivial=lambda c, il: "rows" in il),
               Stream("pexpr", "pexpr", ["Base.Bytes", "Model.PrattOps", "Model.Pratt", "Model.PrattRun"], "run_pexpr_case", gen_pexpr,
                      oracle=oracle_pexpr, nontrivial=lambda c, il: len(c.rust) > 12)]
    trusted_extra = ["RefDB (Spec/RefDB.v) is the specification of SQL semantics used as oracle; it is hand-written and reviewed, not derived",
                     "modelled, not verified: lexer, binder (name resolution, literal typing), Cascades search, Volcano operators - "
                     "covered by the sql correspondence stream only; the Pratt theorem covers the core fragment (no unary +/-, IN, "
                     "BETWEEN, IS, function calls)"]

    def known_class(self, k, case):
        return k.get("class") in case.meta.get("classes", [])


SPEC = C05()
