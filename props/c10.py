"""C10 — each B+tree is a correct ordered map with sound structure (tree facade vs abstract map + verified checker)."""
import re
from lib.runner import Spec, Stream, Case

KEYKINDS = ["biguint", "bigint", "blob", "bigint,blob"]
TEXTS = [b"", b"a", b"ab", b"abc", b"b", b"ba", b"zz", b"a\xc3\xa9", b"abcdefghij", b"abcdefghijk", b"abcdefghi", b"\x00", b"\xff\xff"]


def hx(b):
    return b.hex() if b else "-"


def key_tok(kind, k):
    if kind == "biguint":
        return "U:%d" % k
    if kind == "bigint":
        return "I:%d" % k
    if kind == "blob":
        return "t:%s" % hx(k)
    return "I:%d+t:%s" % (k[0], hx(k[1]))


def gen_keys(rng, kind, n):
    """a pool of distinct keys with their python sort order = the order the key type defines"""
    pool = set()
    while len(pool) < n:
        if kind == "biguint":
            pool.add(rng.choice([rng.randrange(0, 50), rng.randrange(0, 2 ** 16), rng.randrange(2 ** 52, 2 ** 53), 2 ** 32 + rng.randrange(100)]))
        elif kind == "bigint":
            pool.add(rng.choice([rng.randrange(-50, 50), rng.randrange(-2 ** 40, 2 ** 40), -2 ** 53 + rng.randrange(100), 2 ** 53 - 1 - rng.randrange(100)]))
        elif kind == "blob":
            pool.add(rng.choice(TEXTS) + bytes(rng.randrange(97, 123) for _ in range(rng.choice([0, 1, 2, 9, 20]))))
        else:
            pool.add((rng.randrange(-6, 7), rng.choice(TEXTS[:8]) + bytes(rng.randrange(97, 110) for _ in range(rng.choice([0, 1, 2])))))
    return sorted(pool)


def payload_sum(ln, seed):
    return sum((seed + 7 * j) % 256 for j in range(ln)) % 65536


def gen_case(rng, tier, idx):
    kind = KEYKINDS[idx % 4] if idx % 3 else "biguint"
    page = rng.choice([4096, 4096, 8192, 16384])
    cfg = "%d,%d,%d,%d" % (page, rng.choice([64, 200, 2000]), rng.choice([3, 3, 4, 8]), rng.choice([1, 1, 2, 3]))
    nkeys = rng.choice([8, 30, 80, 200]) if tier == "quick" else rng.choice([30, 200, 600])
    big = idx % 5 == 4                       # recorded class large-cells
    bigkeys = idx % 11 == 7 and kind in ("biguint", "bigint")   # recorded class integer-keys-above-2^53
    if idx % 20 == 3 and not big:
        nkeys, kind = (7000 if tier == "quick" else 12000), "biguint"          # tall tree (height 3 with small cells)
        cfg = "%d,%d,%d,%d" % (page, 4000, rng.choice([3, 4, 8]), rng.choice([1, 2, 3]))   # a scan pins every leaf it visits
    tall4 = idx % 20 == 13 and not big and not bigkeys
    if tall4:
        # four levels inside the clean class: every payload just under a twentieth of a 4 KiB page (fan-out about 14 in
        # leaves and in interior pages, whose dividers are copies of leaf cells), so that interior pages with an
        # interior parent that has siblings are split and merged
        nkeys, kind, page = (7000 if tier == "quick" else 12000), "biguint", 4096
        cfg = "%d,%d,%d,%d" % (page, 8000, rng.choice([3, 4]), rng.choice([1, 2]))
    keys = gen_keys(rng, kind, nkeys) if nkeys < 2000 else sorted(rng.sample(range(0, 10 ** 6), nkeys))
    if bigkeys:
        base = 2 ** 63 - 300 if kind == "bigint" else 2 ** 64 - 300
        keys = sorted(set(keys[: nkeys // 2]) | {base + rng.randrange(299) for _ in range(nkeys // 2)})
    rank = {k: i for i, k in enumerate(keys)}
    def ln():
        if big:
            return rng.choice([0, 3, 40, 200, 400, 900, 1300, 2500, 5000, 12000, 20000])
        if tall4:
            return page // 20 - 30
        return rng.choice([0, 1, 5, 20, 60, 120, page // 20 - 30])
    pattern = rng.choice(["random", "seq", "rev", "random", "zigzag"])
    if tall4:
        pattern = "random"
    order = list(keys)
    if pattern == "rev":
        order.reverse()
    elif pattern == "random":
        rng.shuffle(order)
    elif pattern == "zigzag":
        order = [keys[i // 2] if i % 2 == 0 else keys[-1 - i // 2] for i in range(len(keys))]
        order = list(dict.fromkeys(order))
    rust, coq, expect = [], [], []
    model = {}

    def do(op, k, l=None, s=None):
        kt = key_tok(kind, k)
        if op in "iup":
            rust.append("%s:%s:%d:%d" % (op, kt, l, s))
            coq.append("%s %d %d %d" % ({"i": "TIns", "u": "TUps", "p": "TUpd"}[op], rank[k], l, payload_sum(l, s)))
            if op == "i":
                if k in model:
                    expect.append("ierr:exists")
                else:
                    model[k] = (l, payload_sum(l, s)); expect.append("iok")
            elif op == "u":
                model[k] = (l, payload_sum(l, s)); expect.append("uok")
            else:
                if k in model:
                    model[k] = (l, payload_sum(l, s)); expect.append("pok")
                else:
                    expect.append("perr:missing")
        elif op == "r":
            rust.append("r:%s" % kt); coq.append("TRem %d" % rank[k])
            if k in model:
                del model[k]; expect.append("rok")
            else:
                expect.append("rerr:missing")
        elif op == "g":
            rust.append("g:%s" % kt); coq.append("TGet %d" % rank[k])
            expect.append("g=%d.%d" % model[k] if k in model else "g=none")

    def scan():
        rust.append("S"); coq.append("TScan")
        expect.append("scan[%s]" % ";".join("%d=%d.%d" % (rank[k], model[k][0], model[k][1]) for k in sorted(model)))

    dumps = []   # (index in rust ops, snapshot of model)

    def dump():
        dumps.append((len(rust), dict(model)))
        rust.append("D")

    for k in order:
        do("i", k, ln(), rng.randrange(256))
    scan(); dump()
    for _ in range(len(keys) // 2 + 3):
        k = rng.choice(keys)
        op = rng.choice(["u", "p", "r", "g", "i", "u", "r"])
        if op in "iup":
            do(op, k, ln(), rng.randrange(256))
        else:
            do(op, k)
    for k in rng.sample(keys, min(len(keys), 6)):
        do("g", k)
    scan(); dump()
    if rng.random() < 0.4:
        # delete everything, then reinsert
        todel = [k for k in keys if k in model]
        rng.shuffle(todel)
        for k in todel:
            do("r", k)
        scan(); dump()
        for k in order[: len(order) // 2]:
            do("i", k, ln(), rng.randrange(256))
        scan(); dump()
    line = "tree %s %s %s" % (cfg, kind, " ".join(rust))
    # expected outputs interleaved with dumps (dumps are checked by the oracle and the verified checker, not compared)
    return Case(line, "[%s]" % "; ".join(coq), "tree:%s" % kind.replace(",", "+"),
                {"kind": kind, "keys": keys, "rank": {key_tok(kind, k): i for k, i in rank.items()}, "expect": expect, "dumps": dumps,
                 "classes": (["large-cells"] if big else []) + (["integer-keys-above-2^53"] if bigkeys else []), "cfg": cfg})


def gen_cases(rng, tier):
    return [gen_case(rng, tier, i) for i in range(60 if tier == "quick" else 800)]


# ---------------------------------------------------------------------------------------------
# reading the harness output
# ---------------------------------------------------------------------------------------------
def split_out(line):
    """harness segments: results of ops (one token each) and dump groups 'dump[...] free[...] ovf[...]'"""
    toks = line.split(" ")
    out, i = [], 0
    while i < len(toks):
        if toks[i].startswith("dump["):
            out.append(" ".join(toks[i:i + 3])); i += 3
        else:
            out.append(toks[i]); i += 1
    return out


def canon_case(case, line):
    """keys -> ranks; dumps dropped (they are judged by the oracle and by the verified checker)"""
    rank = case.meta["rank"]
    res = []
    if any(x.endswith(":oom") for x in split_out(line)) and case.meta.get("model") is not None:
        # an explicit out-of-memory answer from a cache too small for the operation is a permitted outcome (C12): after it
        # the engine has done less than the reference, and the case is not judged (the oracles skip it too)
        case.meta["oom"] = True
        return case.meta["model"]
    for seg in split_out(line):
        if seg.startswith("dump[") or seg.startswith("dumperr") or seg.startswith("free[") or seg in ("xok",) or seg.startswith("xerr"):
            continue
        if seg.startswith("scan["):
            body = seg[5:-1]
            items = []
            for it in (body.split(";") if body else []):
                k, v = it.rsplit("=", 1)
                items.append("%s=%s" % (rank.get(k, "?" + k), v))
            seg = "scan[%s]" % ";".join(items)
        res.append(seg)
    return " ".join(res)


def parse_dump(seg):
    m = re.match(r"dump\[root=(\d+)\|(.*)\] free\[(.*)\] ovf\[(.*)\]$", seg)
    if not m:
        return None
    root = int(m.group(1))
    pages = {}
    for p in m.group(2).split("|"):
        f = p.split(":", 9)
        pid, leaf = int(f[0]), f[1] == "L"
        o = lambda x: None if x == "-" else int(x)
        cells = []
        if f[9]:
            for c in f[9].split(";"):
                k, v, lc, ov = c.rsplit("/", 3)
                cells.append((k, v, o(lc), o(ov)))
        pages[pid] = {"leaf": leaf, "prev": o(f[2]), "next": o(f[3]), "right": o(f[4]), "free": int(f[5]), "fsp": int(f[6]),
                      "used": int(f[7]), "cap": int(f[8]), "cells": cells}
    fr = m.group(3).split(":")
    free = None if fr == ["!"] else {"total": int(fr[0]), "head": None if fr[1] == "-" else int(fr[1]),
                                     "tail": None if fr[2] == "-" else int(fr[2]),
                                     "list": [int(x) for x in fr[3].split(">")] if fr[3] else []}
    chains = []
    if m.group(4):
        for c in m.group(4).split(","):
            owner, rest = c.split("@")
            ids = rest.split(">")
            chains.append((int(owner), int(ids[0]), None if ids[-1] == "!" else [int(x) for x in ids[1:]]))
    return {"root": root, "pages": pages, "free": free, "chains": chains}


def structure_errors(d, rank, model):
    """C10 structure on one dump; returns a message or None"""
    pages, root = d["pages"], d["root"]
    leaves, depths = [], set()

    def walk(pid, lo, hi, depth, seen):
        if pid in seen:
            return "page %d reachable twice" % pid
        seen.add(pid)
        if pid not in pages:
            return "child pointer to page %d which is not a tree page" % pid
        p = pages[pid]
        ks = []
        for (k, v, lc, ov) in p["cells"]:
            if k not in rank:
                return "page %d holds a key that was never stored: %s" % (pid, k)
            ks.append(rank[k])
        for a, b in zip(ks, ks[1:]):
            if not a < b:
                return "keys out of order inside page %d" % pid
        for x in ks:
            if (lo is not None and x < lo) or (hi is not None and x >= hi):
                return "key rank %d in page %d outside the range its separators allow [%s, %s)" % (x, pid, lo, hi)
        if p["leaf"]:
            leaves.append(pid); depths.add(depth)
            return None
        kids = [c[2] for c in p["cells"]] + [p["right"]]
        if any(k is None for k in kids):
            return "interior page %d has a missing child pointer" % pid
        bounds = [lo] + ks + [hi]
        for i, kid in enumerate(kids):
            e = walk(kid, bounds[i], bounds[i + 1], depth + 1, seen)
            if e:
                return e
        return None

    e = walk(root, None, None, 0, set())
    if e:
        return e
    if len(depths) > 1:
        return "leaves at different depths %s" % sorted(depths)
    # sibling links mirror key order
    for i, pid in enumerate(leaves):
        want_prev = leaves[i - 1] if i > 0 else None
        want_next = leaves[i + 1] if i + 1 < len(leaves) else None
        if pages[pid]["prev"] != want_prev or pages[pid]["next"] != want_next:
            return "leaf %d has siblings (%s, %s), key order says (%s, %s)" % (pid, pages[pid]["prev"], pages[pid]["next"], want_prev, want_next)
    got = [(c[0], c[1]) for pid in leaves for c in pages[pid]["cells"]]
    want = [(k, "%d.%d" % model[k]) for k in sorted(model, key=lambda x: rank[x])]
    if got != want:
        return "leaves hold %d entries %s..., expected %d entries %s..." % (len(got), got[:3], len(want), want[:3])
    return None


def to_dtree(d, rank, pid=None, depth=0):
    """the dumped page graph as a Gallina [dtree] (None when it is not even a finite tree)"""
    if depth > 40:
        return None
    pid = d["root"] if pid is None else pid
    p = d["pages"].get(pid)
    if p is None:
        return None
    ks = [rank.get(c[0]) for c in p["cells"]]
    if any(k is None for k in ks):
        return None
    if p["leaf"]:
        return "(DLeaf [%s])" % "; ".join(str(k) for k in ks)
    kids = [c[2] for c in p["cells"]] + [p["right"]]
    subs = [to_dtree(d, rank, k, depth + 1) if k is not None else None for k in kids]
    if any(s is None for s in subs):
        return None
    return "(DNode %s [%s])" % (subs[0], "; ".join("(%d, %s)" % (ks[i], subs[i + 1]) for i in range(len(ks))))


def oracle(case, il):
    """independent of the models: op results against a python dict; every dump structurally sound and holding exactly the map"""
    segs = split_out(case.meta.get("impl_raw", ""))
    rank = case.meta["rank"]
    ops = case.rust.split(" ")[3:]
    exp = iter(case.meta["expect"])
    dumps = {i: m for i, m in case.meta["dumps"]}
    if any(x.endswith(":oom") for x in segs):
        return None          # an explicit out-of-memory answer from a cache too small for the operation is permitted (C12)
    if len(segs) != len(ops):
        return "%d answers for %d operations: %s" % (len(segs), len(ops), segs[-1][:100] if segs else "-")
    for i, (op, seg) in enumerate(zip(ops, segs)):
        if op == "D":
            d = parse_dump(seg)
            if d is None:
                return ("tree cannot be dumped after operation %d: %s" % (i, seg[:120]), i)
            model = {key_tok(case.meta["kind"], k): v for k, v in dumps[i].items()}
            e = structure_errors(d, rank, model)
            if e:
                return ("after operation %d: %s" % (i, e), i)
            continue
        want = next(exp)
        got = seg
        if seg.startswith("scan["):
            got = canon_case(case, seg)
        if got != want:
            return ("operation %d %s answered %s, expected %s" % (i, op[:60], got[:160], want[:160]), i)
    return None


def post(case, raw):
    """terms for the verified checker: every dump of the case with the keys it must hold"""
    segs = split_out(raw)
    ops = case.rust.split(" ")[3:]
    rank = case.meta["rank"]
    dumps = {i: m for i, m in case.meta["dumps"]}
    terms = []
    if len(segs) != len(ops) or any(x.endswith(":oom") for x in segs):
        return terms
    for i, (op, seg) in enumerate(zip(ops, segs)):
        if op != "D":
            continue
        d = parse_dump(seg)
        t = to_dtree(d, rank) if d else None
        if t is None:
            terms.append(None)
            continue
        keys = sorted(rank[key_tok(case.meta["kind"], k)] for k in dumps[i])
        terms.append("(%s, [%s])" % (t, "; ".join(str(k) for k in keys)))
    return terms



# ------------------------------------------------------------------------------------------
# slotted page stream (storage/core/buffer.rs against Model/Slotted.v)
# ------------------------------------------------------------------------------------------
CHDR, PHDR = 32, 80      # checked on every run: the harness prints the capacity it got, the model the one computed from these


def _plen(ln):
    return (max(ln, 8) + 7) // 8 * 8


def gen_slot(rng, tier):
    out = []
    lens = [8, 13, 16, 24, 40, 64, 100, 200, 333, 500, 1000, 1900]
    for k in range(150 if tier == "quick" else 4000):
        page = rng.choice([4096, 4096, 4096, 8192])
        cap = page - PHDR
        maxp = (cap - CHDR - 2) // 8 * 8
        profile = rng.choice(["fill", "churn", "mixed", "mixed", "small"])
        cells, nid = [], [1]
        rust, coq = [], []

        def fs():
            return cap - 2 * len(cells) - sum(CHDR + l for _, l in cells)

        def new_len():
            if profile == "small":
                return rng.choice(lens[:6])
            if rng.random() < 0.04:
                return rng.choice([maxp - 8, maxp, maxp + 1, maxp + 8, maxp + 200])
            return rng.choice(lens)

        for _ in range(rng.choice([20, 50, 120])):
            r = rng.random()
            n = len(cells)
            if profile == "fill":
                r = r * 0.6
            if r < 0.45 or n == 0:
                i = rng.randint(0, n) if rng.random() < 0.95 else n + rng.randint(1, 2)
                ln = new_len(); pl = _plen(ln); cid = nid[0]; nid[0] += 1
                rust.append("i:%d:%d:%d" % (i, cid, ln)); coq.append("OInsert %d%%nat (mkCell %d %d)" % (i, cid, pl))
                if pl <= maxp and i <= n and CHDR + pl + 2 <= fs():
                    cells.insert(i, (cid, pl))
            elif r < 0.65:
                i = rng.randrange(n) if rng.random() < 0.95 else n + rng.randint(0, 2)
                rust.append("r:%d" % i); coq.append("ORemove %d%%nat" % i)
                if i < n:
                    cells.pop(i)
            elif r < 0.9:
                i = rng.randrange(n) if rng.random() < 0.97 else n + rng.randint(0, 1)
                ln = new_len(); pl = _plen(ln); cid = nid[0]; nid[0] += 1
                rust.append("p:%d:%d:%d" % (i, cid, ln)); coq.append("OReplace %d%%nat (mkCell %d %d)" % (i, cid, pl))
                if i < n and fs() + CHDR + cells[i][1] >= CHDR + pl and pl <= maxp:
                    cells[i] = (cid, pl)
            elif r < 0.96:
                rust.append("D"); coq.append("ODefrag")
            else:
                rust.append("A"); coq.append("ODrain"); cells = []
        out.append(Case("slot %d %s" % (page, " ".join(rust)), "(%d, %d, %d, [%s])" % (CHDR, PHDR, cap, "; ".join(coq)), "slot",
                        {"classes": [], "cap": cap}))
    return out


def oracle_slot(case, il):
    """independent of the model: the answers follow a python list; after every operation the page lists exactly that list,
    the cells lie inside [free-space pointer, capacity) without overlapping each other or the slot array, the free-space counter
    is capacity - 2*slots - sum of cell sizes, and an insert is refused for lack of space only when the cell does not fit that counter"""
    toks = il.split(" ")
    ops = case.rust.split(" ")[2:]
    if not toks or not toks[0].startswith("cap"):
        return "no capacity line"
    cap = int(toks[0][3:])
    if cap != case.meta["cap"]:
        return "capacity %d, expected page size - header = %d" % (cap, case.meta["cap"])
    maxp = (cap - CHDR - 2) // 8 * 8
    if len(toks) - 1 != len(ops):
        return "%d answers for %d operations" % (len(toks) - 1, len(ops))
    L = []
    for k, (op, t) in enumerate(zip(ops, toks[1:])):
        res, _, st = t.partition("[")
        f = op.split(":")
        n = len(L)
        fs0 = cap - 2 * n - sum(CHDR + l for _, l in L)
        if f[0] == "i":
            i, cid, pl = int(f[1]), int(f[2]), _plen(int(f[3]))
            if res == "ok%d" % i and i <= n:
                L.insert(i, (cid, pl))
            elif res == "err:InvalidInput" and (pl > maxp or i > n):
                pass
            elif res == "err:StorageFull" and CHDR + pl + 2 > fs0:
                pass
            else:
                return ("operation %d %s answered %s (list of %d cells, free %d)" % (k, op, res, n, fs0), k)
        elif f[0] == "r":
            i = int(f[1])
            if i < n and res == "c%d.%d" % L[i]:
                L.pop(i)
            elif (i == n and res == "panic") or (i > n and res == "err:InvalidInput"):
                pass
            else:
                return ("operation %d %s answered %s" % (k, op, res), k)
        elif f[0] == "p":
            i, cid, pl = int(f[1]), int(f[2]), _plen(int(f[3]))
            if i >= n:
                if res != "panic":
                    return ("operation %d %s answered %s" % (k, op, res), k)
            elif res == "c%d.%d" % L[i]:
                L[i] = (cid, pl)
            elif res == "err:StorageFull" and fs0 + CHDR + L[i][1] < CHDR + pl:
                pass
            else:
                return ("operation %d %s answered %s (old cell %s, free %d)" % (k, op, res, L[i], fs0), k)
        elif f[0] == "D":
            if res != "unit":
                return ("operation %d defragment answered %s" % (k, res), k)
        elif f[0] == "A":
            if res != "cs" + "+".join("%d.%d" % c for c in L):
                return ("operation %d drain answered %s" % (k, res[:120]), k)
            L = []
        head, _, body = st.rstrip("]").partition("|")
        try:
            fsp, fs = [int(x) for x in head.split(",")]
            placed = [x.split(".") for x in body.split(",")] if body else []
            got = [(int(x[1]), int(x[2])) for x in placed]
            offs = [int(x[0]) for x in placed]
        except (ValueError, IndexError):
            return ("after operation %d %s the page cannot be read: %s" % (k, op, st[:120]), k)
        if got != L:
            return ("after operation %d %s the page holds %s, expected %s" % (k, op, got[:8], L[:8]), k)
        if fs != cap - 2 * len(L) - sum(CHDR + l for _, l in L):
            return ("after operation %d %s free space %d, expected %d" % (k, op, fs, cap - 2 * len(L) - sum(CHDR + l for _, l in L)), k)
        ext = sorted((o, o + CHDR + l) for o, (_, l) in zip(offs, L))
        if any(a[1] > b[0] for a, b in zip(ext, ext[1:])) or (ext and (ext[0][0] < fsp or ext[-1][1] > cap)) or fsp < 2 * len(L) or fsp > cap:
            return ("after operation %d %s cells overlap or leave [free-space pointer, capacity): fsp %d, %s" % (k, op, fsp, ext[:6]), k)
    return None


class C10(Spec):
    id = "C10"
    design_ref = "7 (C10)"
    model_targets = ["theories/Model/BtreeRun.vo", "theories/Proofs/BtreeProofs.vo", "theories/Model/SlottedRun.vo", "theories/Proofs/SlottedProofs.vo"]
    prop_vo = "theories/Props/C10.vo"
    prop_module = "Props.C10"
    theorems = ["C10_checker_sound", "C10_map_refinement", "C10_page_refines_list", "C10_page_insert_complete", "C10_page_defragment_compacts"]
    rule = ("one tree per case through the facade: key types BIGUINT, BIGINT (negative values), TEXT (prefixes, empty, non-ASCII, "
            "different lengths) and (BIGINT, TEXT); page 4/8/16 KiB, cache 64-2000, minimum keys 3/4/8, siblings 1-3; 8-200 keys "
            "(7000 in two cases per twenty: small cells give height 3, cells just under a twentieth of a 4 KiB page give height 4) inserted in random / ascending / descending / zigzag order, then "
            "upserts, updates (growing and shrinking payloads), removals, lookups, in 40% of the cases delete-everything-then-"
            "reinsert; scans and full page-graph dumps in between.  Payloads up to a twentieth of the page in the clean class; up to "
            "20000 bytes (overflow chains) in the recorded class large-cells.  Oracles independent of the models: every answer "
            "against a python dict; every dump: keys ordered in and across pages, separators bound their subtrees, leaves at one "
            "depth, sibling links mirror the key order, leaves hold exactly the dict.  Every dump is also handed to the checker "
            "verified in Coq (check_dump) and every answer compared with the abstract map evaluated in Coq.  Keys are mapped to "
            "their rank in the order of the key type.  non-trivial = at least 30 keys")
    trusted_extra = ["the order of each key type is the python sort order of the generator (numeric; bytewise lexicographic for text; "
                     "column by column for composite keys) - the comparison functions themselves are the subject of C19",
                     "the dump is produced by the facade from the live pages (child pointers, sibling links, slot order); cell decoding "
                     "goes through the engine's own tuple reader",
                     "modelled, not verified: latching, the traversal stack and the balancing algorithm itself - the structural checker "
                     "and the abstract map judge their results"]
    streams = [Stream("trees", "tree", ["Base.Bytes", "Model.Btree", "Model.BtreeRun"], "run_tree_case", gen_cases,
                      oracle=oracle, canon_case=canon_case, rust_shards=16, shard=10, post=post, post_runner="check_dump_case", reference=True,
                      nontrivial=lambda c, il: len(c.meta["keys"]) >= 30),
               Stream("slotted-page", "slot", ["Base.Bytes", "Model.Slotted", "Model.SlottedRun"], "run_slot_case", gen_slot,
                      oracle=oracle_slot, nontrivial=lambda c, il: "err:StorageFull" in il or "D" in c.rust.split(" "))]

    def known_class(self, k, case):
        return k.get("class") in case.meta.get("classes", [])


SPEC = C10()
