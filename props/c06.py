"""C06 — the chosen plan never changes the answer (plan-variant pairs vs each other and vs RefDB)."""
from lib.runner import Spec, Stream, Case
from lib import sqlgen as G
from props.c05 import canon
from props.c03 import select_all


def lit(n):
    return G.lit_int(n)


def col(i):
    return ("col", i)


def cmp_(op, a, b):
    return ("bin", op, a, b)


def and_(a, b):
    return ("bin", "AND", a, b)


def wrap(e):
    """the same value, written so that no index bound can be extracted from it"""
    return ("bin", "+", e, lit(0))


def gen_case(rng, feats):
    h = G.History()
    classes = G.ClassSet(h)
    pairs = []          # (index of variant A, index of variant B, description)
    # t1: primary key on a, optionally a second unique index on u (values unique by construction); t2 joins on x
    second = rng.random() < 0.5
    late = rng.random() < 0.5
    t1 = G.Table(1, "t1", [("a", "INT", True, None), ("b", "INT", False, None), ("u", "INT", False, None), ("s", "TEXT", False, None)], pk=[0])
    t2 = G.Table(2, "t2", [("x", "INT", False, None), ("y", "INT", False, None)])
    h.x(t1.create_sql(), t1.create_coq())
    h.x(t2.create_sql(), t2.create_coq())
    have_u = False
    if second and not late:
        h.x("CREATE UNIQUE INDEX iu ON t1(u)", "SCreateUnique 1 [2%nat]"); have_u = True
    next_a = [1]
    used_u = set()

    def rows1(n):
        out = []
        for _ in range(n):
            a = next_a[0]; next_a[0] += rng.choice([1, 1, 2])
            u = None
            if rng.random() < 0.85:
                u = rng.randrange(0, 60)
                while u in used_u:
                    u = rng.randrange(0, 200)
                used_u.add(u)
            out.append([lit(a), G.rand_lit(rng, "INT", 0.15), lit(u) if u is not None else G.LIT_NULL, G.rand_lit(rng, "TEXT", 0.2)])
        return out

    def variants():
        """one plan-variant pair"""
        k = rng.choice(["idx-a", "idx-a", "idx-u", "analyze", "join-order", "join-filter", "idx-range", "outer-filter"])
        items1 = [("expr", col(0)), ("expr", col(1)), ("expr", col(2))]
        if k in ("idx-a", "idx-u", "idx-range"):
            c = 0 if k != "idx-u" else 2
            if k == "idx-range":
                lo, hi = sorted([rng.randrange(0, next_a[0] + 2), rng.randrange(0, next_a[0] + 2)])
                p1 = and_(cmp_(rng.choice([">=", ">"]), col(c), lit(lo)), cmp_(rng.choice(["<=", "<"]), col(c), lit(hi)))
                p2 = and_(cmp_(p1[2][1], wrap(col(c)), lit(lo)), cmp_(p1[3][1], wrap(col(c)), lit(hi)))
            else:
                op = rng.choice(["=", "=", "<", ">=", ">", "<="])
                v = rng.randrange(0, next_a[0] + 2) if c == 0 else rng.randrange(0, 70)
                p1, p2 = cmp_(op, col(c), lit(v)), cmp_(op, wrap(col(c)), lit(v))
                if rng.random() < 0.3:       # literal on the left
                    flip = {"=": "=", "<": ">", ">": "<", "<=": ">=", ">=": "<="}[op]
                    p1 = cmp_(flip, lit(v), col(c))
            if rng.random() < 0.4:
                extra = cmp_(rng.choice(["=", "<", ">="]), col(1), lit(rng.randrange(-3, 12)))
                p1, p2 = and_(p1, extra), and_(p2, extra)
            q1 = G.Select(items1, ("table", t1), where=p1)
            q2 = G.Select(items1, ("table", t1), where=p2)
            i1 = len(h.rust); h.x(q1.sql(), q1.coq(), sorted_=True)
            i2 = len(h.rust); h.x(q2.sql(), q2.coq(), sorted_=True)
            h.simple("E", "AFlush", q1.sql())
            pairs.append((i1, i2, k))
        elif k == "analyze":
            v = rng.randrange(0, next_a[0] + 2)
            q = G.Select(items1, ("table", t1), where=cmp_(rng.choice(["=", "<", ">="]), col(0), lit(v)))
            i1 = len(h.rust); h.x(q.sql(), q.coq(), sorted_=True)
            h.simple("A", "AAnalyze")
            i2 = len(h.rust); h.x(q.sql(), q.coq(), sorted_=True)
            h.simple("E", "AFlush", q.sql())
            pairs.append((i1, i2, k))
        elif k == "outer-filter":
            # LEFT JOIN with a WHERE conjunct on each input: a filter on the null-supplying side (or the anti-join idiom
            # x IS NULL) must stay above the join whatever is pushed below it; the two variants differ in conjunct order
            itemsA = [("expr", col(0)), ("expr", col(1)), ("expr", col(5))]
            onA = cmp_("=", col(0), col(4))
            lp = cmp_(rng.choice(["<", ">=", "="]), col(1), lit(rng.randrange(-3, 12)))
            rp = ("isnull", col(4), False) if rng.random() < 0.4 else cmp_(rng.choice(["=", "<", ">="]), col(5), lit(rng.randrange(0, 9)))
            qa = G.Select(itemsA, ("join", "left", t1, t2, onA), where=and_(lp, rp))
            qb = G.Select(itemsA, ("join", "left", t1, t2, onA), where=and_(rp, lp))
            i1 = len(h.rust); h.x(qa.sql(), qa.coq(), sorted_=True)
            i2 = len(h.rust); h.x(qb.sql(), qb.coq(), sorted_=True)
            pairs.append((i1, i2, k))
        else:
            # t1 JOIN t2 ON a = x   vs   t2 JOIN t1 ON x = a   (same output columns)
            w = cmp_(rng.choice(["<", ">=", "="]), col(1), lit(rng.randrange(-3, 12))) if rng.random() < 0.7 else None
            itemsA = [("expr", col(0)), ("expr", col(1)), ("expr", col(5))]
            itemsB = [("expr", col(2)), ("expr", col(3)), ("expr", col(1))]
            onA = cmp_("=", col(0), col(4))
            onB = cmp_("=", col(0), col(2))
            if k == "join-order":
                wB = None if w is None else cmp_(w[1], col(3), w[3])
                qa = G.Select(itemsA, ("join", "inner", t1, t2, onA), where=w)
                qb = G.Select(itemsB, ("join", "inner", t2, t1, onB), where=wB)
            else:
                if w is None:
                    w = cmp_(">=", col(1), lit(0))
                qa = G.Select(itemsA, ("join", "inner", t1, t2, onA), where=w)
                qb = G.Select(itemsA, ("join", "inner", t1, t2, and_(onA, w)))
            i1 = len(h.rust); h.x(qa.sql(), qa.coq(), sorted_=True)
            i2 = len(h.rust); h.x(qb.sql(), qb.coq(), sorted_=True)
            pairs.append((i1, i2, k))

    rs = rows1(rng.choice([3, 8, 20]))
    h.x(G.insert_sql(t1, rs), G.insert_coq(t1, rs), sorted_=True)
    r2 = [[lit(rng.randrange(0, next_a[0] + 2)) if rng.random() < 0.9 else G.LIT_NULL, lit(rng.randrange(0, 9))] for _ in range(rng.choice([2, 6, 12]))]
    h.x(G.insert_sql(t2, r2), G.insert_coq(t2, r2), sorted_=True)
    for round_ in range(rng.choice([3, 5, 7])):
        if second and late and not have_u and rng.random() < 0.5:
            h.x("CREATE UNIQUE INDEX iu ON t1(u)", "SCreateUnique 1 [2%nat]"); have_u = True
        r = rng.random()
        cols = [(i, c[1]) for i, c in enumerate(t1.cols)]
        if r < 0.3:
            rs = rows1(rng.choice([1, 3, 6]))
            h.x(G.insert_sql(t1, rs), G.insert_coq(t1, rs), sorted_=True)
        elif r < 0.45:
            i = rng.choice([1, 3])
            sets = [(i, G.rand_lit(rng, t1.cols[i][1], 0.2))]
            where = cmp_(rng.choice(["<", ">=", "="]), col(0), lit(rng.randrange(0, next_a[0] + 1)))
            h.x(G.update_sql(t1, sets, where), G.update_coq(t1, sets, where), sorted_=True)
        elif r < 0.5 and "update-key" in feats:
            classes.add("update-of-indexed-column")
            nu = rng.randrange(300, 400)
            while nu in used_u:
                nu = rng.randrange(300, 4000)
            used_u.add(nu)
            sets = [(2, lit(nu))]
            where = cmp_("=", col(0), lit(rng.randrange(1, next_a[0] + 1)))
            h.x(G.update_sql(t1, sets, where), G.update_coq(t1, sets, where), sorted_=True)
            # look the new key up through the index and without it
            items1 = [("expr", col(0)), ("expr", col(1)), ("expr", col(2))]
            q1 = G.Select(items1, ("table", t1), where=cmp_("=", col(2), lit(nu)))
            q2 = G.Select(items1, ("table", t1), where=cmp_("=", wrap(col(2)), lit(nu)))
            i1 = len(h.rust); h.x(q1.sql(), q1.coq(), sorted_=True)
            i2 = len(h.rust); h.x(q2.sql(), q2.coq(), sorted_=True)
            pairs.append((i1, i2, "idx-u-after-update"))
        elif r < 0.62:
            where = cmp_(rng.choice(["<", ">=", "="]), col(0), lit(rng.randrange(0, next_a[0] + 1)))
            h.x(G.delete_sql(t1, where), G.delete_coq(t1, where), sorted_=True)
        elif r < 0.72:
            k = 10 + round_
            h.begin(k)
            rs = rows1(2)
            h.q(k, G.insert_sql(t1, rs), G.insert_coq(t1, rs), sorted_=True)
            where = cmp_("<", col(0), lit(rng.randrange(0, next_a[0] + 1)))
            h.q(k, G.delete_sql(t1, where), G.delete_coq(t1, where), sorted_=True)
            h.rollback(k)
        elif r < 0.8:
            h.simple("V", "AVacuum")
        variants()
        if rng.random() < 0.5:
            variants()
    rust, coq = h.render()
    return Case(rust, coq, "history", dict(classes.meta(), pairs=pairs))


def oracle(case, il):
    """independent of the model: the two plan variants of every pair give the same rows; no statement panics"""
    segs = il.split(" | ")
    for i1, i2, k in case.meta["pairs"]:
        if i2 >= len(segs):
            return "output truncated"
        if segs[i1] != segs[i2]:
            return ("plan variants (%s) disagree: action %d gave %s, action %d gave %s" % (k, i1, segs[i1][:160], i2, segs[i2][:160]), min(i1, i2))
    for i, s in enumerate(segs):
        if s == "err:panic" or s == "hang":
            return ("a statement did not return a result or an error at action %d" % i, i)
    return None


def canon06(line):
    # the plan kind is informative only (it varies with the statistics); it is not compared with the reference
    return " | ".join("ok" if s.startswith("plan:") else s for s in canon(line).split(" | "))


def gen_cases(rng, tier):
    out = []
    for i in range(160 if tier == "quick" else 3000):
        out.append(G.tag_key_reuse(gen_case(rng, {"update-key"} if i % 8 == 5 else set())))
    return out


class C06(Spec):
    id = "C06"
    design_ref = "7 (C06)"
    model_targets = ["theories/Spec/RefDBRun.vo", "theories/Proofs/IndexScanProofs.vo"]
    prop_vo = "theories/Props/C06.vo"
    prop_module = "Props.C06"
    theorems = ["C06_index_scan", "C06_update_key_refuted", "C06_reference"]
    rule = ("histories on t1 (PRIMARY KEY a, optionally a unique index on u created before or after the data) and t2: inserts, updates "
            "of non-indexed columns, deletes, rolled-back sessions, VACUUM; after each step one or two plan-variant pairs: the same "
            "predicate on an indexed column written plainly (index scan) and wrapped in '+ 0' (table scan) for equality, inequalities, "
            "ranges, literal on the left, with and without a residual conjunct; the same query before and after ANALYZE; an inner join "
            "written in both orders; a filter in WHERE versus in ON.  EXPLAIN is recorded to confirm that the variants really use "
            "different plans.  Oracle independent of the model: both variants of every pair return the same rows, nothing panics.  "
            "Every answer is also compared with RefDB.  non-trivial = some variant used an index scan")
    trusted_extra = ["Model/IndexScan.v abstracts IndexScan / SeqScan / maintain_secondary_indexes to sets of rows and entries; it is tied "
                     "to the code by the plan-variant pairs of this check and by C07's histories (hand-written, not regenerated)",
                     "join ordering, filter push-down and the cost model are covered by the variant pairs only; no theorem is claimed "
                     "about the Cascades search"]
    streams = [Stream("variants", "sql", ["Base.Bytes", "Model.Values", "Spec.RefDB", "Spec.RefDBRun"], "run_sql_case", gen_cases,
                      oracle=oracle, canon=canon06, rust_shards=8, shard=40, reference=True,
                      nontrivial=lambda c, il: "plan:index" in c.meta.get("impl_raw", ""))]

    def known_class(self, k, case):
        return k.get("class") in case.meta.get("classes", [])


SPEC = C06()
