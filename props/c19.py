"""C19 — values compare, hash, cast and round-trip consistently: generators and oracles."""
import struct, itertools
from lib.runner import Spec, Stream, Case


def d(x):
    return struct.unpack("<Q", struct.pack("<d", x))[0]


def f(x):
    return struct.unpack("<I", struct.pack("<f", x))[0]


P53 = 2 ** 53
INTS = {
    "i": [-2**31, -2**31 + 1, -7, -1, 0, 1, 2, 3, 2**24, 2**24 + 1, 2**31 - 1],
    "I": [-2**63, -2**63 + 1, -P53 - 2, -P53 - 1, -P53, -P53 + 1, -1, 0, 1, 3, 2**24 + 1, P53 - 1, P53, P53 + 1, P53 + 2, P53 + 3,
          2**62 + 1, 2**63 - 1025, 2**63 - 513, 2**63 - 512, 2**63 - 1, 4611686018427387905, 2**54 + 2, 2**54 + 6],
    "u": [0, 1, 2, 2**31, 2**32 - 1],
    "U": [0, 1, P53, P53 + 1, P53 + 2, 2**63, 2**63 + 1, 2**63 + 1024, 2**63 + 1025, 2**64 - 2049, 2**64 - 1025, 2**64 - 1024, 2**64 - 1],
}
DOUBLES = [d(0.0), d(-0.0), d(1.0), d(-1.0), d(0.5), d(-0.5), d(1.5), d(2.5), d(-2.5), d(float(P53)), d(float(P53 + 2)), d(-float(P53)),
           d(2.0**63), d(-2.0**63), d(2.0**64), d(2.0**31), d(-2.0**31), d(2.0**31 - 1), d(2.0**32), d(4294967295.5), d(-2147483648.5), d(-2147483649.0),
           d(9223372036854774784.0), d(18446744073709549568.0), d(float("inf")), d(float("-inf")), 0x7ff8000000000000, 1, 0x000fffffffffffff,
           0x0010000000000000, 0x7fefffffffffffff, d(1e300), d(-1e300), d(3.0), d(16777217.0), d(0.9999999999999999), d(-0.9999999999999999)]
FLOATS = [f(0.0), f(-0.0), f(1.0), f(-1.0), f(0.5), f(16777216.0), f(3.0), f(2.0**31), f(2.0**63), f(float("inf")), f(float("-inf")), 0x7fc00000,
          1, 0x007fffff, 0x00800000, 0x7f7fffff, f(1.5)]
BLOBS = [b"", b"a", b"b", b"ab", b"abc", b"\x00", b"\x80", b"\xff", b"a\x00", b"abcdefgh", b"abcdefgi", b"abcdefgha", b"abcdefghb", b"bbcdefgha",
         b"abcdefg\xffa", b"abcdefghijklmnop", b"abcdefghijklmnoq", b"abcdefghijklmnopq", b"abcdefghijklmnopr", b"abcdefghXjklmnopq",
         b"abcdefghijklmno", b"\x80bcdefghijk", b"\x7fbcdefghijk", b"abcdefgh\x80jk", b"abcdefgh\x7fjk", b"x" * 130, b"x" * 129 + b"y", "é€".encode()]


def all_values():
    vs = [("n", "VNull"), ("b:0", "(VBool false)"), ("b:1", "(VBool true)")]
    con = {"i": "VInt", "I": "VBigInt", "u": "VUInt", "U": "VBigUInt"}
    for t, zs in INTS.items():
        for z in zs:
            vs.append(("%s:%d" % (t, z), "(%s (%d)%%Z)" % (con[t], z)))
    for b in DOUBLES:
        vs.append(("d:%d" % b, "(VDouble %d)" % b))
    for b in FLOATS:
        vs.append(("f:%d" % b, "(VFloat %d)" % b))
    for b in BLOBS:
        vs.append(("t:%s" % (b.hex() or "-"), "(VBlob [%s])" % ";".join(str(x) for x in b)))
    return vs


def rand_value(rng):
    t = rng.choice("iIuUdft")
    if t == "i":
        z = rng.choice([rng.randint(-2**31, 2**31 - 1), rng.randint(-100, 100)]); return ("i:%d" % z, "(VInt (%d)%%Z)" % z)
    if t == "I":
        z = rng.choice([rng.randint(-2**63, 2**63 - 1), rng.randint(-100, 100), rng.randint(P53 - 4, P53 + 4096), -rng.randint(P53 - 4, 2**60)])
        return ("I:%d" % z, "(VBigInt (%d)%%Z)" % z)
    if t == "u":
        z = rng.randint(0, 2**32 - 1); return ("u:%d" % z, "(VUInt (%d)%%Z)" % z)
    if t == "U":
        z = rng.choice([rng.randint(0, 2**64 - 1), rng.randint(P53, P53 + 10**6), rng.randint(2**63, 2**64 - 1)]); return ("U:%d" % z, "(VBigUInt (%d)%%Z)" % z)
    if t == "d":
        b = rng.choice([rng.getrandbits(64), d(float(rng.randint(-2**63, 2**64))), d(rng.uniform(-1e6, 1e6)), d(float(rng.randint(-100, 100)))])
        if (b >> 52) & 0x7ff == 0x7ff and b & ((1 << 52) - 1):
            b = 0x7ff8000000000000
        return ("d:%d" % b, "(VDouble %d)" % b)
    if t == "f":
        b = rng.choice([rng.getrandbits(32), f(float(rng.randint(-2**24, 2**24)))])
        if (b >> 23) & 0xff == 0xff and b & ((1 << 23) - 1):
            b = 0x7fc00000
        return ("f:%d" % b, "(VFloat %d)" % b)
    n = rng.choice([0, 1, 2, 7, 8, 9, 15, 16, 17, 24, 40])
    bs = bytes(rng.choice([97, 98, 0, 255, 128, rng.randrange(256)]) for _ in range(n))
    return ("t:%s" % (bs.hex() or "-"), "(VBlob [%s])" % ";".join(str(x) for x in bs))


KINDS = [("null", "KNull"), ("bool", "KBool"), ("int", "KInt"), ("bigint", "KBigInt"), ("uint", "KUInt"), ("biguint", "KBigUInt"),
         ("float", "KFloat"), ("double", "KDouble"), ("blob", "KBlob")]


def gen_pairs(rng, tier):
    vs = all_values()
    out = []
    pairs = list(itertools.product(vs, vs))
    if tier == "quick":
        # all pairs inside a type family are kept; cross-family pairs are sampled
        fam = lambda v: v[0][0] if v[0][0] in "tbn" else "num"
        same = [p for p in pairs if fam(p[0]) == fam(p[1])]
        rng.shuffle(same)
        cross = [p for p in pairs if fam(p[0]) != fam(p[1])]
        pairs = same[:2600] + rng.sample(cross, 200)
    for (a, b) in pairs:
        out.append(Case("pair %s %s" % (a[0], b[0]), "(CPair %s %s)" % (a[1], b[1]), "grid", {"a": a[0], "b": b[0]}))
    for _ in range(600 if tier == "quick" else 20000):
        a = rand_value(rng)
        b = rng.choice([rand_value(rng), a])
        out.append(Case("pair %s %s" % (a[0], b[0]), "(CPair %s %s)" % (a[1], b[1]), "random", {"a": a[0], "b": b[0]}))
    return out


def gen_codec(rng, tier):
    vs = all_values()
    out = []
    for v in vs:
        for (kn, kc) in KINDS:
            if kn == "float" and v[0][0] in "iIuUd":
                continue   # int/double -> float rounding is not modelled (DESIGN: C19)
            out.append(Case("cast %s %s" % (v[0], kn), "(CCast %s %s)" % (v[1], kc), "cast"))
        out.append(Case("ser %s" % v[0], "(CSer %s)" % v[1], "ser", {"v": v[0]}))
    zs = [0, 1, -1, 63, 64, -64, -65, 8191, 8192, -8192, -8193, 2**31, -2**31, 2**62, 2**63 - 1, -2**63, -2**63 + 1, 2**56 - 1, 2**56, -(2**56), -(2**56) - 1]
    zs += [rng.randint(-2**63, 2**63 - 1) for _ in range(200 if tier == "quick" else 5000)]
    zs += [(1 << k) + dlt for k in range(0, 63) for dlt in (-1, 0)] + [-(1 << k) + dlt for k in range(0, 63) for dlt in (-1, 0, 1)]
    for z in zs:
        if -2**63 <= z < 2**63:
            out.append(Case("varint %d" % z, "(CVarint (%d)%%Z)" % z, "varint", {"z": z}))
    for _ in range(300 if tier == "quick" else 5000):
        n = rng.choice([0, 1, 2, 5, 9, 10, 11, 12])
        bs = bytes(rng.choice([0x80, 0xff, 0x7f, 0x00, 0x01, rng.randrange(256)]) for _ in range(n))
        out.append(Case("vdec %s" % (bs.hex() or "-"), "(CVdec [%s])" % ";".join(str(x) for x in bs), "vdec"))
    for _ in range(200 if tier == "quick" else 5000):
        v = rand_value(rng)
        out.append(Case("ser %s" % v[0], "(CSer %s)" % v[1], "ser", {"v": v[0]}))
        kn, kc = rng.choice(KINDS)
        if not (kn == "float" and v[0][0] in "iIuUd"):
            out.append(Case("cast %s %s" % (v[0], kn), "(CCast %s %s)" % (v[1], kc), "cast"))
    return out


def is_nan_tok(t):
    if t.startswith("d:"):
        b = int(t[2:]); return (b >> 52) & 0x7ff == 0x7ff and (b & ((1 << 52) - 1)) != 0
    if t.startswith("f:"):
        b = int(t[2:]); return (b >> 23) & 0xff == 0xff and (b & ((1 << 23) - 1)) != 0
    return False


def is_zero_tok(t):
    return t in ("d:0", "d:%d" % (1 << 63), "f:0", "f:%d" % (1 << 31)) or t in ("i:0", "I:0", "u:0", "U:0")


def big_int_tok(t):
    return t[0] in "iIuU" and abs(int(t[2:])) > P53


def exact_num(t):
    """Mathematical value of a numeric token as a Fraction, or None (NaN / non numeric)."""
    from fractions import Fraction
    if t[0] in "iIuU":
        return Fraction(int(t[2:]))
    if t[0] == "d":
        x = struct.unpack("<d", struct.pack("<Q", int(t[2:])))[0]
    elif t[0] == "f":
        x = struct.unpack("<f", struct.pack("<I", int(t[2:])))[0]
    else:
        return None
    if x != x:
        return None
    if x in (float("inf"), float("-inf")):
        return x
    return Fraction(x)


def oracle_pair(case, impl):
    """The property itself on the implementation's answers (independent of the Coq model)."""
    a, b = case.meta["a"], case.meta["b"]
    kv = dict(x.split("=") for x in impl.split()) if impl.startswith("eq=") else None
    if kv is None:
        return "no answer: " + impl[:100]
    eq, cmp_, heq = kv["eq"] == "1", kv["cmp"], kv["heq"] == "1"
    if a == b and not eq and a != "n":
        return "equality is not reflexive on %s" % a
    if eq and not heq:
        return "equal values hash differently: %s %s" % (a, b)
    if eq != (cmp_ == "eq") and a != "n" and b != "n":
        return "equality and ordering disagree on %s %s" % (a, b)
    na, nb = (exact_num(a) if a[0] in "iIuUdf" else None), (exact_num(b) if b[0] in "iIuUdf" else None)
    if na is not None and nb is not None:
        want = "lt" if na < nb else ("gt" if na > nb else "eq")
        if cmp_ != want:
            return "numeric comparison of %s and %s is %s, mathematically %s" % (a, b, cmp_, want)
    if a[0] == "t" and b[0] == "t":
        xa = bytes.fromhex(a[2:].replace("-", "")); xb = bytes.fromhex(b[2:].replace("-", ""))
        want = "lt" if xa < xb else ("gt" if xa > xb else "eq")
        if cmp_ != want:
            return "text comparison of %s and %s is %s, lexicographically %s" % (a, b, cmp_, want)
    return None


def oracle_codec(case, impl):
    if "z" in case.meta:
        z = case.meta["z"]
        if not impl.endswith("dec=%d:%s" % (z, impl.split("size=")[1].split()[0])):
            return "varint round trip of %d gives %s" % (z, impl)
    if "v" in case.meta and case.meta["v"] != "n":
        if " de=" not in impl or not impl.split(" de=")[1].startswith(case.meta["v"] + ":"):
            return "store/load of %s gives %s" % (case.meta["v"], impl[:120])
    return None


class C19(Spec):
    id = "C19"
    design_ref = "7 (C19)"
    model_targets = ["theories/Model/ValuesRun.vo"]
    prop_vo = "theories/Props/C19.vo"
    prop_module = "Props.C19"
    theorems = ["C19_outside_known", "C19_refuted", "C19_blob_order", "C19_varint_roundtrip"]
    rule = ("pairs: full cross product of a boundary grid (integers around 2^24, 2^31, 2^53, 2^63, 2^64 incl. rounding midpoints, "
            "doubles/floats incl. signed zeros, NaN, infinities, subnormals; texts with differences at chunk boundaries) plus random values; "
            "codec: casts value x kind, store/load, varint boundary powers and random, arbitrary varint bytes; distinct = distinct case lines; "
            "non-trivial = the two values are not both NULL / not a same-kind cast")
    streams = [
        Stream("pairs", "val", ["Base.Bytes", "Model.Values", "Model.ValuesRun"], "run_val_case", gen_pairs, oracle=oracle_pair,
               nontrivial=lambda c, il: c.meta.get("a") != "n" and c.meta.get("b") != "n", scope="N_scope"),
        Stream("codec", "val", ["Base.Bytes", "Model.Values", "Model.ValuesRun"], "run_val_case", gen_codec, oracle=oracle_codec,
               nontrivial=lambda c, il: True, scope="N_scope"),
    ]
    trusted_extra = ["modelled, not verified: IEEE-754 conversion and comparison instructions (`as f64`, f64 ==, <) are modelled on bit patterns "
                     "(Model.Values.f64_of_Z, f64_key) and compared with the hardware results on the grid",
                     "hash equality is observed through std DefaultHasher; the model compares the bytes fed to the hasher (SipHash collisions ignored)",
                     "casts into FLOAT from integers/doubles (rounding to 24 bits) are not modelled"]

    def known_class(self, k, case):
        a, b = case.meta.get("a"), case.meta.get("b")
        if a is None:
            return False
        c = k.get("class")
        if c == "nan":
            return is_nan_tok(a) or is_nan_tok(b)
        if c == "signed-zero":
            return is_zero_tok(a) and is_zero_tok(b)
        if c == "integer-above-2^53":
            return big_int_tok(a) or big_int_tok(b)
        return False


SPEC = C19()
