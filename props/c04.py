"""C04 — snapshot isolation: coordinator histories (mechanism level)."""
import itertools
from lib.runner import Spec, Stream, Case


def render(ops):
    rust, coq = [], []
    for o in ops:
        if o[0] == "b":
            rust.append("b"); coq.append("RBegin")
        elif o[0] == "c":
            rust.append("c:%d" % o[1]); coq.append("RCommit %d" % o[1])
        elif o[0] == "a":
            rust.append("a:%d" % o[1]); coq.append("RAbort %d" % o[1])
        elif o[0] == "w":
            rust.append("w:%d:%d:%d" % o[1:]); coq.append("RWrite %d %d %d" % o[1:])
        elif o[0] == "V":
            rust.append("V"); coq.append("RVac")
        elif o[0] == "Q":
            rust.append("Q:%d:%d" % o[1:]); coq.append("RQuery %d%%nat %d" % o[1:])
    return "coord " + " ".join(rust), "[" + "; ".join(coq) + "]"


def expected(ops):
    """Independent oracle. Returns list of expected events (None = not judged)."""
    out = []
    state = {}          # id -> 'A' | 'C' | 'X'
    begun_at = {}       # id -> index of op
    committed_at = {}   # id -> index
    wsets = {}
    key_commit = {}     # key -> op index of last commit
    nxt = 0
    judged = True
    for i, o in enumerate(ops):
        if o[0] == "b":
            state[nxt] = "A"; begun_at[nxt] = i; wsets[nxt] = set(); nxt += 1
            out.append(None)
        elif o[0] == "c":
            t = o[1]
            if state.get(t) != "A":
                out.append("cerr:other")
            else:
                conflict = any(k in key_commit and key_commit[k] > begun_at[t] for k in wsets[t])
                if conflict:
                    state[t] = "X"; out.append("cerr:conflict")
                else:
                    state[t] = "C"; committed_at[t] = i
                    for k in wsets[t]:
                        key_commit[k] = i
                    out.append("cok")
        elif o[0] == "a":
            t = o[1]
            if t not in state:
                out.append("aerr")
            else:
                if state[t] == "C":
                    judged = False        # aborting a committed transaction: not a legal history
                state[t] = "X"; committed_at.pop(t, None); out.append("aok")
        elif o[0] == "w":
            t = o[1]
            if state.get(t) == "A":
                wsets[t].add((o[2], o[3])); out.append("wok")
            else:
                out.append("werr")
        elif o[0] == "V":
            judged = False                 # vacuum_transactions forgets finished transactions (see C13)
            out.append("SKIP")
        elif o[0] == "Q":
            k, n = o[1], o[2]
            if not judged or k not in begun_at:
                out.append(None)
            else:
                bits = ""
                for t in range(n):
                    if t == k:
                        bits += "?"
                    else:
                        bits += "1" if (t in committed_at and committed_at[t] < begun_at[k]) else "0"
                out.append("vis:" + bits)
    return out


def gen_history(rng, n_ops, with_vacuum):
    ops, begun, active = [], 0, []
    for _ in range(n_ops):
        x = rng.random()
        if x < 0.34 or begun == 0:
            ops.append(("b",)); active.append(begun); begun += 1
        elif x < 0.54 and active:
            t = rng.choice(active); active.remove(t); ops.append(("c", t))
        elif x < 0.66 and active:
            t = rng.choice(active); active.remove(t); ops.append(("a", t))
        elif x < 0.84 and active:
            ops.append(("w", rng.choice(active), rng.randint(1, 2), rng.randint(1, 3)))
        elif x < 0.88:
            ops.append(rng.choice([("c", rng.randint(0, begun + 1)), ("a", rng.randint(0, begun + 1)), ("w", rng.randint(0, begun), 1, 1)]))
        elif x < 0.92 and with_vacuum:
            ops.append(("V",))
        else:
            ops.append(("Q", rng.randrange(begun), begun + 2))
    for k in range(begun):
        ops.append(("Q", k, begun + 2))
    return ops


def gen_cases(rng, tier):
    out = []
    for i in range(700 if tier == "quick" else 12000):
        ops = gen_history(rng, rng.choice([4, 8, 14, 22, 30]), with_vacuum=(i % 5 == 4))
        rust, coq = render(ops)
        out.append(Case(rust, coq, "vacuum" if any(o[0] == "V" for o in ops) else "plain", {"ops": ops}))
    # exhaustive: every history of begin/commit/abort over up to 3 (quick) / 4 (thorough) transactions, full visibility matrix
    nmax = 3 if tier == "quick" else 4
    def rec(ops, begun, active):
        if len(ops) >= (6 if tier == "quick" else 8):
            return
        cand = []
        if begun < nmax:
            cand.append((("b",), begun + 1, active + [begun]))
        for t in active:
            cand.append((("c", t), begun, [x for x in active if x != t]))
            cand.append((("a", t), begun, [x for x in active if x != t]))
        for o, b2, a2 in cand:
            ops2 = ops + [o]
            full = ops2 + [("Q", k, b2 + 1) for k in range(b2)]
            rust, coq = render(full)
            out.append(Case(rust, coq, "exhaustive", {"ops": full}))
            rec(ops2, b2, a2)
    rec([], 0, [])
    return out


def oracle(case, impl):
    want = expected(case.meta["ops"])
    got = impl.split() if impl != "-" else []
    want = [w for w in want if w != "SKIP"]
    if any(o[0] == "V" for o in case.meta["ops"]):
        seen_v, w2, j = False, [], 0
        for o in case.meta["ops"]:
            if o[0] == "V":
                seen_v = True
                continue
            w2.append(None if seen_v else want[j]); j += 1
        want = w2
    if len(got) != len(want):
        return "expected %d events, got %d: %s" % (len(want), len(got), impl[:200])
    for w, g in zip(want, got):
        if w is None:
            continue
        if w.startswith("vis:"):
            for cw, cg in zip(w[4:], g[4:]):
                if cw != "?" and cw != cg:
                    return "snapshot visibility %s, but committed-before-begin is %s" % (g, w)
        elif w != g:
            return "coordinator answered %s, expected %s" % (g, w)
    return None


class C04(Spec):
    id = "C04"
    design_ref = "7 (C04)"
    model_targets = ["theories/Model/CoordRun.vo"]
    prop_vo = "theories/Props/C04.vo"
    prop_module = "Props.C04"
    theorems = ["C04_snapshot_sound", "C04_first_committer_wins"]
    rule = ("coordinator histories: begin / commit / abort / record_write / vacuum_transactions with visibility queries of every "
            "snapshot over all ids; exhaustive over all begin/commit/abort histories of up to 3 (quick) or 4 (thorough) transactions "
            "with the full visibility matrix; non-trivial = at least two transactions")
    streams = [Stream("coord", "coord", ["Base.Bytes", "Model.Tuple", "Model.Coord", "Model.CoordRun"], "run_coord_case", gen_cases,
                      oracle=oracle, nontrivial=lambda c, il: sum(1 for o in c.meta["ops"] if o[0] == "b") >= 2, rust_shards=8)]
    trusted_extra = ["SQL-level interleavings of sessions are covered by the RefDB streams (see DESIGN.md C04, part ii) when built; this check "
                     "decides the coordinator/snapshot mechanism",
                     "the coordinator's RwLock-protected table is modelled sequentially (operations are atomic in the model)"]


SPEC = C04()
