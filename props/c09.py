"""C09 — clean close and reopen preserves everything (SQL histories vs RefDB)."""
from lib.runner import Spec, Stream, Case
from lib import sqlgen as G
from props.c05 import canon
from props.c03 import select_all, mk_table

CFGS = ["cache=10000", "cache=64,pool=1", "cache=300,pool=4", "cache=10000,pool=3"]
BIG = b"abcdefghijklmnopqrstuvwxyz0123456789" * 160      # 5760 bytes: needs an overflow chain on 4 KiB pages


def gen_history(rng, feats):
    h = G.History(cfg=rng.choice(["cache=10000", "cache=10000,page=8192", "cache=200"]))
    tables, checks = [], []
    classes = G.ClassSet(h)
    next_id, next_tid = [1], [1]

    def new_table():
        t = mk_table(rng, next_tid[0], constrained=(rng.random() < 0.5))
        t.name = "t%d" % next_tid[0]
        next_tid[0] += 1
        tables.append(t)
        h.x(t.create_sql(), t.create_coq())

    def row(t, big=False):
        i = next_id[0]
        next_id[0] += 1
        txt = G.lit_text(BIG[:rng.choice([4200, 5760])]) if big else G.rand_lit(rng, "TEXT", 0.15)
        if big:
            classes.add("large-cells")          # recorded finding C09-large-cells (the B+tree defect of C10)
        r = [G.lit_int(i), G.rand_lit(rng, "INT", 0.15), G.rand_lit(rng, "INT", 0.15), txt]
        if len(t.cols) == 5:
            r.append(G.rand_lit(rng, "BIGINT", 0.15))
        return r

    def stmt(t, allow_update=True):
        cols = [(i, c[1]) for i, c in enumerate(t.cols)]
        r = rng.random()
        if r < 0.45:
            rows = [row(t, big=("big" in feats and rng.random() < 0.3)) for _ in range(rng.choice([1, 2, 3]))]
            return G.insert_sql(t, rows), G.insert_coq(t, rows), "insert"
        if r < 0.7 and allow_update:
            i = rng.choice([2, 3]) if "big" not in feats else 2
            sets = [(i, G.rand_expr(rng, t.cols[i][1], cols, 1, set()))]
            where = G.rand_expr(rng, "BOOLEAN", cols, 1, {"isnull"}) if rng.random() < 0.6 else None
            return G.update_sql(t, sets, where), G.update_coq(t, sets, where), "update"
        where = ("bin", rng.choice(["<", ">=", "="]), ("col", 0), G.lit_int(rng.randint(1, max(1, next_id[0])))) if rng.random() < 0.85 else None
        return G.delete_sql(t, where), G.delete_coq(t, where), "delete"

    def observe():
        idx = []
        for t in tables:
            q = select_all(t)
            idx.append(len(h.rust))
            h.x(q.sql(), q.coq(), sorted_=True)
        return idx

    new_table()
    if rng.random() < 0.5:
        new_table()
    for round_ in range(rng.choice([3, 5, 8])):
        mode = rng.choice(["auto", "auto", "session", "ddl", "reopen", "reopen", "flush", "vacuum", "flush-in-session", "readers-then-reopen"])
        t = rng.choice(tables)
        if mode == "auto":
            for _ in range(rng.choice([1, 2, 3])):
                sql, coq, kind = stmt(t)
                h.x(sql, coq, sorted_=True)
        elif mode == "session":
            k = round_ + 1
            commit = rng.random() < 0.5
            h.begin(k)
            for _ in range(rng.choice([1, 2, 3])):
                sql, coq, kind = stmt(rng.choice(tables), allow_update=commit)
                h.q(k, sql, coq, sorted_=True)
            if commit:
                h.commit(k)
            else:
                h.rollback(k, drop=rng.random() < 0.3)
        elif mode == "flush-in-session":
            # the data pages of an open transaction are checkpointed, then it rolls back (or commits) and the handle is
            # closed without any further write: only page zero knows how the transaction ended
            k = 700 + round_
            commit = rng.random() < 0.4
            h.begin(k)
            for _ in range(rng.choice([1, 2])):
                sql, coq, kind = stmt(rng.choice(tables), allow_update=False)
                h.q(k, sql, coq, sorted_=True)
            h.simple("F", "AFlush")
            if commit:
                h.commit(k)
            else:
                h.rollback(k, drop=rng.random() < 0.3)
            before = observe()
            h.simple("O", "AReopen", rng.choice(CFGS))
            after = observe()
            checks.append((before, after))
            sql, coq, kind = stmt(rng.choice(tables))
            h.x(sql, coq, sorted_=True)
        elif mode == "readers-then-reopen":
            # transactions that only read consume ids; after the reopen new transactions must not reuse them
            for _ in range(rng.choice([2, 5])):
                q = select_all(rng.choice(tables))
                h.x(q.sql(), q.coq(), sorted_=True)
            h.simple("O", "AReopen", rng.choice(CFGS))
            k = 800 + round_
            h.begin(k)
            sql, coq, kind = stmt(rng.choice(tables), allow_update=False)
            h.q(k, sql, coq, sorted_=True)
            h.rollback(k)
            for _ in range(2):
                sql, coq, kind = stmt(rng.choice(tables))
                h.x(sql, coq, sorted_=True)
        elif mode == "ddl":
            if len(tables) > 1 and rng.random() < 0.5:
                d = tables.pop(rng.randrange(len(tables)))
                h.x("DROP TABLE %s" % d.name, "SDrop %d" % d.tid)
            else:
                new_table()
        elif mode == "flush":
            h.simple("F", "AFlush")
        elif mode == "vacuum":
            h.simple("V", "AVacuum")
        else:
            before = observe()
            if rng.random() < 0.3:
                h.simple("F", "AFlush")
            h.simple("O", "AReopen", rng.choice(CFGS))
            after = observe()
            checks.append((before, after))
            # fresh ids must not collide with old ones: insert, create, read
            sql, coq, kind = stmt(rng.choice(tables))
            h.x(sql, coq, sorted_=True)
            if rng.random() < 0.4:
                new_table()
    before = observe()
    h.simple("O", "AReopen", rng.choice(CFGS))
    after = observe()
    checks.append((before, after))
    rust, coq = h.render()
    return Case(rust, coq, "history", dict(classes.meta(), checks=checks))


def gen_many_txns(rng, n):
    """more transactions than the aborted-transaction bitmap has bits, then a rolled-back insert and a reopen"""
    h = G.History()
    t = G.Table(1, "t1", [("id", "INT", False, None), ("v", "INT", False, None)])
    h.x(t.create_sql(), t.create_coq())
    rows = [[G.lit_int(1), G.lit_int(10)]]
    h.x(G.insert_sql(t, rows), G.insert_coq(t, rows), sorted_=True)
    h.simple("M", "AFlush", "%d SELECT id FROM t1" % n)
    h.begin(1)
    rows = [[G.lit_int(2), G.lit_int(20)]]
    h.q(1, G.insert_sql(t, rows), G.insert_coq(t, rows), sorted_=True)
    h.q(1, "DELETE FROM t1 WHERE id = 1", "SDelete 1 (Some (EBin OEq (ECol 0) (ELit (SInt 1))))", sorted_=True)
    h.rollback(1)
    q = select_all(t)
    b = [len(h.rust)]
    h.x(q.sql(), q.coq(), sorted_=True)
    h.simple("O", "AReopen", "cache=10000")
    a = [len(h.rust)]
    h.x(q.sql(), q.coq(), sorted_=True)
    rows = [[G.lit_int(3), G.lit_int(30)]]
    h.x(G.insert_sql(t, rows), G.insert_coq(t, rows), sorted_=True)
    h.x(q.sql(), q.coq(), sorted_=True)
    rust, coq = h.render()
    return Case(rust, coq, "many-txns", {"classes": ["more-than-8192-transactions"] if n >= 8000 else [], "checks": [(b, a)]})


def oracle(case, il):
    """independent of the model: what was readable before the close is exactly what is readable after the open"""
    segs = il.split(" | ")
    for before, after in case.meta.get("checks", []):
        for b, a in zip(before, after):
            if a >= len(segs):
                return "output truncated (open failed?): %s" % il[-200:]
            if segs[b] != segs[a]:
                return ("close/reopen changed a table: read %d gave %s, read %d gave %s" % (b, segs[b][:200], a, segs[a][:200]), a)
    return None


def gen_hdr(rng, tier):
    """operation sequences on the aborted-transaction bitmap, with ids around byte and bitmap boundaries"""
    out = []
    pool = [0, 1, 7, 8, 9, 63, 64, 255, 256, 1023, 1024, 4095, 8183, 8184, 8190, 8191, 8192, 8193, 10000, 65536, 2 ** 32, 2 ** 63]
    for i in range(150 if tier == "quick" else 3000):
        rust, coq, marked = [], [], set()
        overflow = False
        for _ in range(rng.choice([2, 4, 8, 16])):
            r = rng.random()
            x = rng.choice(pool) if rng.random() < 0.6 else rng.randrange(0, 9000)
            if r < 0.45:
                rust.append("m:%d" % x); coq.append("HMark %d" % x)
                if x < 8192:
                    marked.add(x)
                else:
                    overflow = True
            elif r < 0.6:
                rust.append("c:%d" % x); coq.append("HClear %d" % x)
                marked = {m for m in marked if m > x}
            elif r < 0.7:
                rust.append("r"); coq.append("HReload")
            else:
                rust.append("q:%d" % x); coq.append("HQuery %d" % x)
        rust.append("r"); coq.append("HReload")
        rust.append("L"); coq.append("HList")
        out.append(Case("hdr " + " ".join(rust), "[%s]" % "; ".join(coq), "hdr",
                        {"classes": [], "expect_list": sorted(marked), "overflow": overflow}))
    return out


def oracle_hdr(case, il):
    """independent of the model: the reloaded header lists exactly the ids below 8192 marked and not cleared"""
    last = il.split(" ")[-1]
    want = "list[%s]" % ",".join(str(x) for x in case.meta["expect_list"])
    if last != want:
        return "persisted aborted set is %s, expected %s" % (last[:200], want[:200])
    return None


def gen_cases(rng, tier):
    out = []
    n = 160 if tier == "quick" else 3000
    for i in range(n):
        out.append(gen_history(rng, {"big"} if i % 4 == 1 else set()))
    out.append(gen_many_txns(rng, 300))
    out.append(gen_many_txns(rng, 9000))
    return [G.tag_key_reuse(c) for c in out]


class C09(Spec):
    id = "C09"
    design_ref = "7 (C09)"
    gen_tables = ["GenHeader.v"]
    model_targets = ["theories/Spec/RefDBRun.vo", "theories/Model/HeaderRun.vo", "theories/Proofs/HeaderProofs.vo"]
    prop_vo = "theories/Props/C09.vo"
    prop_module = "Props.C09"
    theorems = ["C09_aborted_set_refuted", "C09_outside_known", "C09_reference"]
    rule = ("histories: 1-2 tables (some rows of 4-6 KB so that overflow chains exist), databases created with page size 4 or 8 KiB "
            "and cache 200-10000; 3-8 rounds of autocommit DML, committed and rolled-back sessions, CREATE/DROP TABLE, flush, VACUUM and "
            "close/reopen with a different cache/pool configuration each time; every table is read before the close and after the "
            "open, then fresh rows are inserted and tables created (new ids must not collide).  Oracle independent of the model: "
            "reads before close = reads after open.  many-txns: 300 and 9000 autocommit transactions, then a rolled-back "
            "insert+delete, then reopen.  hdr: operation sequences on the aborted-transaction bitmap through the facade (ids around "
            "byte and bitmap boundaries), model vs code, plus a python oracle for the reloaded set.  non-trivial = at least two reopens")
    trusted_extra = ["the page-zero header is a plain-old-data struct copied to page zero; Model/Header.v models the aborted bitmap "
                     "operations (clear_up_to per byte instead of per id) and is tied to the code by the hdr stream and by constants "
                     "regenerated from storage/page.rs on every run",
                     "modelled, not verified: free list, catalog rows and counters are observed only through SQL answers after reopen"]
    streams = [Stream("histories", "sql", ["Base.Bytes", "Model.Values", "Spec.RefDB", "Spec.RefDBRun"], "run_sql_case", gen_cases,
                      oracle=oracle, canon=canon, rust_shards=8, shard=20, reference=True,
                      nontrivial=lambda c, il: c.rust.count(" | O ") >= 2),
               Stream("hdr", "hdr", ["Base.Bytes", "Model.Header", "Model.HeaderRun"], "run_hdr_case", gen_hdr,
                      oracle=oracle_hdr, nontrivial=lambda c, il: "m:" in c.rust)]

    def known_class(self, k, case):
        return k.get("class") in case.meta.get("classes", [])


SPEC = C09()
